(** Tables reachable by route command sequences have no target-less route (C05's invariant
    [Proofs.TableCmd.run_inv], transported through the projection), hence on them
    [lookup_cmd] (Table.Lookup with the "no targets -> nil" branch) is [lookup]. *)
From Coq Require Import String List NArith Bool Lia Sorting.Sorted.
From Fabio Require Import Lib.Outcome Lib.Bytes Model.Glob Model.Lookup Model.LookupCmd Proofs.Lookup.
From Fabio Require Model.TableCmd Proofs.TableCmd.
Import ListNotations.
Local Open Scope N_scope.

Lemma first_some_ext {A B} (f g : A -> option B) l :
  (forall x, f x = g x) -> first_some f l = first_some g l.
Proof.
  intros H. induction l as [|a l IH]; cbn [first_some]; [reflexivity|]. now rewrite H, IH.
Qed.

Definition no_targetless (t : table) : Prop :=
  forall k p n, In (k, p, n) (all_routes t) -> n <> 0.

(* without target-less routes the extra branch of Table.lookup is dead *)
Theorem lookup_cmd_eq t host tls uri m globoff :
  no_targetless t -> lookup_cmd t host tls uri m globoff = lookup t host tls uri m globoff.
Proof.
  intros Hn. unfold lookup_cmd, lookup. apply first_some_ext. intros h.
  unfold lookup1c, lookup1.
  destruct (find (fun r : route => path_match m uri (fst r)) (assoc t (lower h))) as [[p n]|] eqn:E;
    [|reflexivity].
  apply find_some in E as [Hin _]. apply assoc_in_all in Hin.
  destruct (n =? 0) eqn:E0; [|reflexivity]. apply N.eqb_eq in E0. subst n.
  exfalso. exact (Hn _ _ _ Hin eq_refl).
Qed.

Lemma proj_no_targetless t0 : Proofs.TableCmd.inv t0 -> no_targetless (proj t0).
Proof.
  intros [_ Hall] k p n Hin. apply all_routes_in in Hin as [rs [Hk Hp]].
  unfold proj in Hk. apply in_map_iff in Hk as [[k0 rs0] [E Hk0]]. cbn [fst snd] in E.
  injection E as -> <-. apply sort_desc_in in Hp. unfold proj_routes in Hp.
  apply in_map_iff in Hp as [r [E Hr]]. injection E as _ <-.
  rewrite Forall_forall in Hall. destruct (Hall _ Hk0) as (_ & _ & Ht). cbn [snd] in Ht.
  rewrite Forall_forall in Ht. specialize (Ht r Hr).
  destruct (TableCmd.r_targets r); [congruence | cbn [length]; lia].
Qed.

(* ---- the keys of every reachable table are lower-case (addRoute lower-cases the host; del
   and weight never add a key) ---- *)
Definition keys_lower (t : TableCmd.table) : Prop := Forall (fun k => lower k = k) (map fst t).

Lemma keys_lower_incl t t' :
  (forall k, In k (map fst t') -> In k (map fst t)) -> keys_lower t -> keys_lower t'.
Proof.
  unfold keys_lower. rewrite !Forall_forall. intros Hi H k Hk. apply H. now apply Hi.
Qed.

Lemma keys_lower_same t t' : map fst t' = map fst t -> keys_lower t -> keys_lower t'.
Proof. unfold keys_lower. now intros ->. Qed.

Lemma sweep_keys t k : In k (map fst (TableCmd.sweep t)) -> In k (map fst t).
Proof.
  unfold TableCmd.sweep. rewrite !in_map_iff. intros [[k0 rs] [<- Hin]].
  apply filter_In in Hin as [Hin _]. apply in_map_iff in Hin as [[k1 rs1] [E Hin]].
  cbn [fst] in E. injection E as <- _. exists (k1, rs1). now split.
Qed.

Lemma filter_all_keys skip t : map fst (TableCmd.filter_all skip t) = map fst t.
Proof. unfold TableCmd.filter_all. rewrite map_map. reflexivity. Qed.

Section KeysLower.
  Variable canon : str -> option str.
  Variable glob_ok : str -> bool.

  Lemma add_route_kl t d t' :
    keys_lower t -> TableCmd.add_route canon glob_ok t d = Ok t' -> keys_lower t'.
  Proof.
    intros Hk. unfold TableCmd.add_route.
    destruct (TableCmd.hostpath (TableCmd.d_src d)) as [host0 path].
    destruct (TableCmd.d_src d); [discriminate|].
    destruct (TableCmd.d_dst d); [discriminate|].
    destruct (canon _) as [url|]; [|discriminate].
    destruct (TableCmd.lookup (lower host0) t) as [rs|].
    - destruct (TableCmd.find path rs).
      + intros [= <-]. apply (keys_lower_same t); [apply Proofs.TableCmd.upd_host_fst | exact Hk].
      + destruct (glob_ok path); [|discriminate].
        intros [= <-]. apply (keys_lower_same t); [apply Proofs.TableCmd.upd_host_fst | exact Hk].
    - destruct (glob_ok (lower host0)); [|discriminate]. destruct (glob_ok path); [|discriminate].
      intros [= <-]. unfold keys_lower. rewrite map_app. apply Forall_app. split; [exact Hk|].
      constructor; [apply lower_idem | constructor].
  Qed.

  Lemma weigh_route_kl t d t' :
    keys_lower t -> TableCmd.weigh_route t d = Ok t' -> keys_lower t'.
  Proof.
    intros Hk. unfold TableCmd.weigh_route.
    destruct (TableCmd.hostpath (TableCmd.d_src d)) as [host0 path].
    destruct (TableCmd.d_src d); [discriminate|].
    destruct (TableCmd.get_route (lower host0) path t) as [r|]; [|discriminate].
    destruct (TableCmd.count_match _ _ r =? 0); [discriminate|].
    intros [= <-]. apply (keys_lower_same t); [apply Proofs.TableCmd.upd_host_fst | exact Hk].
  Qed.

  Lemma sweep_filter_all_kl skip t : keys_lower t -> keys_lower (TableCmd.sweep (TableCmd.filter_all skip t)).
  Proof.
    intros Hk. apply (keys_lower_incl t); [|exact Hk].
    intros k Hin. apply sweep_keys in Hin. now rewrite filter_all_keys in Hin.
  Qed.

  Lemma sweep_filter_one_kl h p skip t : keys_lower t -> keys_lower (TableCmd.sweep (TableCmd.filter_one h p skip t)).
  Proof.
    intros Hk. apply (keys_lower_incl t); [|exact Hk].
    intros k Hin. apply sweep_keys in Hin. unfold TableCmd.filter_one in Hin.
    now rewrite Proofs.TableCmd.upd_host_fst in Hin.
  Qed.

  Lemma del_route_kl t d t' :
    keys_lower t -> TableCmd.del_route canon t d = Ok t' -> keys_lower t'.
  Proof.
    intros Hk. unfold TableCmd.del_route.
    destruct (TableCmd.d_tags d).
    2:{ intros [= <-]. now apply sweep_filter_all_kl. }
    destruct (TableCmd.d_src d) eqn:Es; destruct (TableCmd.d_dst d) eqn:Ed.
    - intros [= <-]. now apply sweep_filter_all_kl.
    - destruct (canon _); [|discriminate].
      destruct (TableCmd.hostpath []) as [host0 path].
      destruct (TableCmd.get_route _ _ t); intros [= <-]; [now apply sweep_filter_one_kl | exact Hk].
    - destruct (TableCmd.hostpath _) as [host0 path].
      destruct (TableCmd.get_route _ _ t); intros [= <-]; [now apply sweep_filter_one_kl | exact Hk].
    - destruct (canon _); [|discriminate].
      destruct (TableCmd.hostpath _) as [host0 path].
      destruct (TableCmd.get_route _ _ t); intros [= <-]; [now apply sweep_filter_one_kl | exact Hk].
  Qed.

  Lemma run_from_kl ds : forall t t',
    keys_lower t -> TableCmd.run_from canon glob_ok t ds = Ok t' -> keys_lower t'.
  Proof.
    induction ds as [|d ds IH]; intros t t' Hk; cbn [TableCmd.run_from]; [now intros [= <-]|].
    destruct (TableCmd.apply_def canon glob_ok t d) as [t1| |] eqn:E; cbn [bind]; try discriminate.
    apply IH. unfold TableCmd.apply_def in E. destruct (TableCmd.d_cmd d).
    - now apply (add_route_kl t d).
    - now apply (del_route_kl t d).
    - now apply (weigh_route_kl t d).
  Qed.
End KeysLower.

(* every table reachable by a command sequence, of any length: no route without targets
   (the invariant that a partial sweep in delRoute would break), hosts pairwise distinct,
   routes sorted *)
Theorem cmd_table_reachable cs t :
  cmd_table cs = Ok t -> no_targetless t /\ wf_keys t /\ NoDup (keys t) /\ table_sorted t.
Proof.
  unfold cmd_table. destruct (TableCmd.run idcanon anyglob (map to_def cs)) as [t0| |] eqn:E;
    try discriminate. intros [= <-].
  pose proof (Proofs.TableCmd.run_inv _ _ _ _ E) as Hinv. split; [now apply proj_no_targetless|].
  split.
  { unfold wf_keys, keys, proj. rewrite map_map. cbn [fst].
    apply (run_from_kl idcanon anyglob (map to_def cs) [] t0); [constructor | exact E]. }
  split.
  - destruct Hinv as [Hnd _]. unfold keys, proj. rewrite map_map. cbn [fst]. exact Hnd.
  - unfold table_sorted, proj. apply Forall_forall. intros e He.
    apply in_map_iff in He as [e' [<- _]]. cbn [snd].
    apply sort_desc_sorted; [apply route_ltb_asym | apply route_ltb_ge_trans].
Qed.

Corollary cmd_lookup_is_lookup cs t host tls uri m globoff :
  cmd_table cs = Ok t -> lookup_cmd t host tls uri m globoff = lookup t host tls uri m globoff.
Proof. intros H. apply lookup_cmd_eq. now destruct (cmd_table_reachable cs t H). Qed.

(* the branch is not dead in general: in a table with a target-less route (not reachable by
   commands; the state seeded change C03-G produces) that route shadows the shorter route
   shop.example.com/ : the request falls to the host-less route, or gets nil without one *)
Local Open Scope string_scope.
Theorem targetless_route_shadows :
  let t1 : table := [(bs "shop.example.com", [(bs "/api", 0); (bs "/", 1)])] in
  let t2 : table := (t1 ++ [([], [(bs "/", 1)])])%list in
  lookup_cmd t1 (bs "shop.example.com") false (bs "/api/v1") MPrefix false = None
  /\ lookup_cmd t2 (bs "shop.example.com") false (bs "/api/v1") MPrefix false = Some ([], bs "/", 1)
  /\ beats false false MPrefix (bs "shop.example.com", bs "/", 1) ([], bs "/", 1) = true.
Proof. vm_compute. repeat split; reflexivity. Qed.

(* ---- route.NewTableCustom (the custom registry backend): the same command loop on a command
   list handed over as data.  Everything proved for tables reachable by commands holds for the
   tables it returns; in particular a route emptied by a [route del] is gone when the table is
   looked up (the invariant seeded change C03-O breaks for this constructor only), so the real
   Table.lookup with its "no targets -> nil" branch ([lookup_cmd]) routes every request that
   has a candidate and answers with the longest matching path of the answering host. ---- *)
Theorem custom_table_reachable o t :
  custom_table o = Ok t -> no_targetless t /\ wf_keys t /\ NoDup (keys t) /\ table_sorted t.
Proof.
  destruct o as [cs|]; cbn [custom_table]; [apply cmd_table_reachable | discriminate].
Qed.

Corollary custom_lookup_is_lookup o t host tls uri m globoff :
  custom_table o = Ok t -> lookup_cmd t host tls uri m globoff = lookup t host tls uri m globoff.
Proof. intros H. apply lookup_cmd_eq. now destruct (custom_table_reachable o t H). Qed.

Theorem custom_nil_rejected : custom_table None = Err e_no_defs.
Proof. reflexivity. Qed.

Theorem custom_lookup_complete o t host tls uri m globoff c :
  custom_table o = Ok t ->
  In c (all_routes t) -> is_candidate globoff tls m host uri c = true ->
  lookup_cmd t host tls uri m globoff <> None.
Proof.
  intros H Hin Hc. rewrite (custom_lookup_is_lookup o t host tls uri m globoff H).
  destruct (custom_table_reachable o t H) as (_ & Hwf & Hnd & _).
  exact (lookup_complete t host tls uri m globoff c Hwf Hnd Hin Hc).
Qed.

Theorem custom_prefix_longest_wins o t host tls uri globoff k p id :
  custom_table o = Ok t ->
  lookup_cmd t host tls uri MPrefix globoff = Some (k, p, id) ->
  forall p' id', In (p', id') (assoc t k) -> has_prefix uri p' = true ->
                 (length p' <= length p)%nat.
Proof.
  intros H. rewrite (custom_lookup_is_lookup o t host tls uri MPrefix globoff H).
  destruct (custom_table_reachable o t H) as (_ & _ & _ & Hs).
  exact (prefix_longest_wins t host tls uri globoff k p id Hs).
Qed.

(* non-vacuity, and the history of C03-O: add site shop.example.com/, add api-v1
   shop.example.com/api, del api-v1 : the request for /api/users is answered by the remaining
   route shop.example.com/ (its only candidate), not by nil *)
Theorem custom_del_falls_to_shorter :
  let h := bs "shop.example.com" in
  let cs : list cdef :=
    [(0, bs "site", bs "shop.example.com/", bs "http://u0.internal:80/", (0, 0), []);
     (0, bs "api-v1", bs "shop.example.com/api", bs "http://u1.internal:80/", (0, 0), []);
     (1, bs "api-v1", [], [], (0, 0), [])] in
  exists t, custom_table (Some cs) = Ok t
    /\ candidates t false false MPrefix h (bs "/api/users") = [(h, bs "/", 1)]
    /\ lookup_cmd t h false (bs "/api/users") MPrefix false = Some (h, bs "/", 1)
    /\ spec_b t false false MPrefix h (bs "/api/users") (Some (h, bs "/", 1)) = true
    /\ spec_b t false false MPrefix h (bs "/api/users") None = false.
Proof. vm_compute. eexists. repeat split; reflexivity. Qed.
