(** Proofs about Model.SniServe: the decision of SNIProxy.ServeTCP is total (no panic on any
    stream), routes exactly the streams [sni_route_name] accepts with a non-empty name, and drops
    every stream that is shorter than, or announces a handshake body shorter than, the smallest
    ClientHello. *)
From Coq Require Import String List NArith Bool Lia.
From Fabio Require Import Lib.Outcome Lib.Bytes Model.ClientHello Model.SniServe Proofs.ClientHello.
Import ListNotations.
Local Open Scope N_scope.
Local Open Scope outcome_scope.

Lemma u24_firstn d n i : (i + 2 < n)%nat -> u24 (firstn n d) i = u24 d i.
Proof. intros H. unfold u24. rewrite !idx_firstn by lia. reflexivity. Qed.

Lemma u24_err d i k : u24 d i <> Err k.
Proof.
  unfold u24. destruct (idx d i) eqn:H0; cbn [bind]; try discriminate; [|now apply idx_err in H0].
  destruct (idx d (i + 1)) eqn:H1; cbn [bind]; try discriminate; [|now apply idx_err in H1].
  destruct (idx d (i + 2)) eqn:H2; cbn [bind]; try discriminate. now apply idx_err in H2.
Qed.

(* the size is the announced handshake length + record header + handshake header *)
Lemma buffer_size_hl d n :
  client_hello_buffer_size d = Ok n -> exists hl, u24 d 6 = Ok hl /\ n = hl + 9 /\ 0 < hl.
Proof.
  unfold client_hello_buffer_size.
  destruct (9 <=? nlen d) eqn:E; [|discriminate].
  destruct (idx d 0) eqn:H0; cbn [bind]; try discriminate.
  destruct (a =? 22) eqn:E22; [|discriminate].
  destruct (u16 d 3) eqn:H1; cbn [bind]; try discriminate.
  destruct ((0 <? a0) && (a0 <=? 16384)) eqn:E1; [|discriminate].
  destruct (idx d 5) eqn:H2; cbn [bind]; try discriminate.
  destruct (a1 =? 1) eqn:E01; [|discriminate].
  destruct (u24 d 6) eqn:H3; cbn [bind]; try discriminate.
  destruct ((0 <? a2) && (a2 + 4 <=? a0)) eqn:E2; [|discriminate].
  intros H. inversion H; subst. leb_hyps. exists a2. repeat split; auto.
Qed.

(* the parser accepts nothing below 42 bytes (handshake header 4 + smallest body 38) *)
Lemma read_server_name_min msg r : read_server_name msg = Ok r -> 42 <= nlen msg.
Proof.
  unfold read_server_name, unmarshal.
  destruct (42 <=? nlen msg) eqn:E; [|discriminate]. intros _. now apply N.leb_le in E.
Qed.

(* an accepted stream announces a handshake body of at least 38 bytes and holds all of it *)
Lemma sni_route_min s n r :
  sni_route_name s = Ok (n, r) ->
  exists hl, u24 s 6 = Ok hl /\ n = hl + 9 /\ min_hello_body <= hl /\ n <= nlen s.
Proof.
  unfold sni_route_name, min_hello_body.
  destruct (9 <=? nlen s) eqn:E9; [|discriminate].
  destruct (client_hello_buffer_size (firstn 9 s)) eqn:Hb; cbn [bind]; try discriminate.
  apply buffer_size_hl in Hb as (hl & Hu & Hn & Hpos).
  rewrite u24_firstn in Hu by lia.
  destruct (a <=? nlen s) eqn:En; [|discriminate]. apply N.leb_le in En.
  destruct (slice s 0 (N.to_nat a)) as [data| |] eqn:Hs; cbn [bind]; try discriminate.
  destruct (from data 5) as [msg| |] eqn:Hf; cbn [bind]; try discriminate.
  destruct (read_server_name msg) as [nm| |] eqn:Hr; cbn [bind]; try discriminate.
  intros H. inversion H; subst. clear H.
  apply read_server_name_min in Hr.
  acc_facts.
  unfold nlen in Hr, En. rewrite skipn_length, firstn_length, skipn_O in Hr.
  exists hl. repeat split; auto; unfold nlen; lia.
Qed.

(* sni_serve against sni_route_name: the same path, then the two branches on the name *)
Lemma sni_serve_unfold s :
  sni_serve s = match sni_route_name s with
                | Ok (_, []) => Ok Dropped
                | Ok (n, h) => Ok (Routed n h)
                | Err _ => Ok Dropped
                | Panic => Panic
                end.
Proof.
  unfold sni_serve, sni_route_name.
  destruct (9 <=? nlen s) eqn:E9; cbn [negb]; [|reflexivity].
  destruct (client_hello_buffer_size (firstn 9 s)) eqn:Hb; cbn [bind]; try reflexivity.
  destruct (a <=? nlen s) eqn:En; cbn [negb]; [|reflexivity].
  destruct (slice s 0 (N.to_nat a)) as [data|k|] eqn:Hs; cbn [bind];
    [|now apply slice_err in Hs|reflexivity].
  destruct (from data 5) as [msg|k|] eqn:Hf; cbn [bind];
    [|now apply from_err in Hf|reflexivity].
  destruct (read_server_name msg) as [nm|k|] eqn:Hr; cbn [bind]; reflexivity.
Qed.

Theorem sni_serve_never_panics s : sni_serve s <> Panic.
Proof.
  rewrite sni_serve_unfold. pose proof (sni_route_never_panics s) as H.
  destruct (sni_route_name s) as [[n [|c h]]| |]; try discriminate. congruence.
Qed.

(* ... and it always reaches a decision *)
Theorem sni_serve_decides s : sni_serve s = Ok Dropped \/ exists n h, sni_serve s = Ok (Routed n h).
Proof.
  rewrite sni_serve_unfold. pose proof (sni_route_never_panics s) as H.
  destruct (sni_route_name s) as [[n [|c h]]| |]; eauto. congruence.
Qed.

Theorem sni_serve_routed_iff s n h :
  sni_serve s = Ok (Routed n h) <-> sni_route_name s = Ok (n, h) /\ h <> [].
Proof.
  rewrite sni_serve_unfold. split.
  - destruct (sni_route_name s) as [[n' [|c h']]| |]; try discriminate.
    intros H. inversion H; subst. split; [reflexivity|discriminate].
  - intros [H Hne]. rewrite H. destruct h; [congruence|reflexivity].
Qed.

(* what is routed lies within the first record and within what the client sent *)
Theorem sni_serve_bound s n h :
  sni_serve s = Ok (Routed n h) ->
  exists rl, u16 s 3 = Ok rl /\ 10 <= n /\ n <= rl + 5 /\ n <= 16389 /\ n <= nlen s.
Proof. intros H. apply sni_serve_routed_iff in H as [H _]. now apply sni_route_bound in H. Qed.

(* a stream shorter than record header + handshake header + smallest hello body is dropped:
   in particular every truncation of every tiny record *)
Theorem sni_serve_short_stream_dropped s :
  nlen s < 9 + min_hello_body -> sni_serve s = Ok Dropped.
Proof.
  intros Hlen. destruct (sni_serve_decides s) as [H|(n & h & H)]; [exact H|].
  apply sni_serve_routed_iff in H as [H _]. apply sni_route_min in H as (hl & _ & Hn & Hmin & Hle).
  lia.
Qed.

(* a stream whose handshake header announces a body shorter than the smallest hello is dropped,
   whatever the record length, whatever follows, wherever it is cut *)
Theorem sni_serve_short_hello_dropped s hl :
  u24 s 6 = Ok hl -> hl < min_hello_body -> sni_serve s = Ok Dropped.
Proof.
  intros Hu Hlt. destruct (sni_serve_decides s) as [H|(n & h & H)]; [exact H|].
  apply sni_serve_routed_iff in H as [H _]. apply sni_route_min in H as (hl' & Hu' & _ & Hmin & _).
  rewrite Hu in Hu'. inversion Hu'; subst. lia.
Qed.

(* non-vacuity: the 10 bytes [16 03 01 00 05 01 00 00 01 00] (a record of 5 bytes carrying a
   client_hello of 1 byte) pass the size function (size 10: the whole path runs, the parser is
   reached with a 5-byte message) and are dropped; the hypotheses of both theorems hold *)
Definition tiny_hello : str := [22; 3; 1; 0; 5; 1; 0; 0; 1; 0].
Theorem tiny_hello_dropped :
  client_hello_buffer_size (firstn 9 tiny_hello) = Ok 10 /\
  u24 tiny_hello 6 = Ok 1 /\ 1 < min_hello_body /\ nlen tiny_hello < 9 + min_hello_body /\
  sni_serve tiny_hello = Ok Dropped.
Proof. vm_compute. repeat split; reflexivity. Qed.

(* non-vacuity of the routed side: the example hello of Proofs.ClientHello is routed *)
Theorem ex_hello_served :
  sni_serve (enc_record 3 1 ex_hello ++ [23; 3; 3])
  = Ok (Routed (nlen (enc_record 3 1 ex_hello)) (bs "foo.com"%string)).
Proof. vm_compute. reflexivity. Qed.
