(** Proofs about Model/Logger.v (property C20). *)
From Coq Require Import String List NArith ZArith Bool Lia.
From Fabio Require Import Lib.Outcome Lib.Bytes Model.Logger.
Import ListNotations.
Local Open Scope N_scope.
Local Open Scope outcome_scope.

(* ================= decimal digits ================= *)
Lemma dec_fold_acc ds : forall a,
  fold_left (fun a c => a * 10 + (c - 48)) ds a = a * 10 ^ N.of_nat (length ds) + dec_value ds.
Proof.
  unfold dec_value. induction ds as [|c ds IH]; intros a.
  - cbn [fold_left length]. change (N.of_nat 0) with 0. rewrite N.pow_0_r. lia.
  - cbn [fold_left length]. rewrite IH. rewrite (IH (0 * 10 + (c - 48))).
    rewrite Nat2N.inj_succ, N.pow_succ_r'. lia.
Qed.

Lemma dec_value_cons c ds :
  dec_value (c :: ds) = (c - 48) * 10 ^ N.of_nat (length ds) + dec_value ds.
Proof.
  unfold dec_value at 1. cbn [fold_left]. rewrite dec_fold_acc. lia.
Qed.

Lemma dec_value_snoc ds c : dec_value (ds ++ [c]) = dec_value ds * 10 + (c - 48).
Proof. unfold dec_value. rewrite fold_left_app. reflexivity. Qed.

Lemma dec_value_app a b :
  dec_value (a ++ b) = dec_value a * 10 ^ N.of_nat (length b) + dec_value b.
Proof. unfold dec_value at 1. rewrite fold_left_app. fold (dec_value a). apply dec_fold_acc. Qed.

Lemma dec_value_zeros k : dec_value (repeat 48 k) = 0.
Proof.
  induction k as [|k IH]; [reflexivity|].
  cbn [repeat]. rewrite dec_value_cons, IH. lia.
Qed.

Lemma forallb_repeat {A} (f : A -> bool) x k : f x = true -> forallb f (repeat x k) = true.
Proof. intros H. induction k; cbn [repeat forallb]; [reflexivity | now rewrite H, IHk]. Qed.

Lemma is_digit_iff c : is_digit c = true <-> 48 <= c <= 57.
Proof. unfold is_digit. rewrite andb_true_iff, !N.leb_le. tauto. Qed.

Lemma dec_value_lt ds : forallb is_digit ds = true -> dec_value ds < 10 ^ N.of_nat (length ds).
Proof.
  induction ds as [|c ds IH]; intros H.
  - cbn. lia.
  - cbn [forallb] in H. apply andb_true_iff in H as [Hc Hd]. apply is_digit_iff in Hc.
    rewrite dec_value_cons. cbn [length]. rewrite Nat2N.inj_succ, N.pow_succ_r'.
    specialize (IH Hd). nia.
Qed.

(* ================= int64 helpers ================= *)
Lemma wrap64_id z : (- 2 ^ 63 <= z < 2 ^ 63)%Z -> wrap64 z = z.
Proof.
  intros H. unfold wrap64. rewrite Z.mod_small; [lia|].
  change (2 ^ 64)%Z with (2 ^ 63 + 2 ^ 63)%Z. lia.
Qed.

Lemma digit_byte_nonneg i : (0 <= i)%Z -> digit_byte i = 48 + Z.to_N (i mod 10).
Proof.
  intros H. unfold digit_byte. rewrite Z.rem_mod_nonneg by lia.
  assert (0 <= i mod 10 < 10)%Z by (apply Z.mod_pos_bound; lia).
  rewrite (Z.mod_small (i mod 10) 256) by lia.
  apply N.mod_small. lia.
Qed.

Lemma buf_push_ok cap c acc : (length acc < cap)%nat -> buf_push cap c acc = Ok (c :: acc).
Proof. intros H. unfold buf_push. apply Nat.ltb_lt in H. now rewrite H. Qed.

(* what the digit loops produce *)
Definition digits_of (i : Z) (fuel : nat) (ds : str) : Prop :=
  forallb is_digit ds = true /\ dec_value ds = Z.to_N i /\
  (1 <= length ds <= fuel)%nat /\ ((0 < i)%Z -> hd 0 ds <> 48) /\ (i = 0%Z -> ds = [48]).

Lemma digit_step i : (0 <= i)%Z ->
  is_digit (48 + Z.to_N (i mod 10)) = true /\
  Z.to_N (i / 10) * 10 + (48 + Z.to_N (i mod 10) - 48) = Z.to_N i.
Proof.
  intros H. assert (0 <= i mod 10 < 10)%Z by (apply Z.mod_pos_bound; lia).
  split; [apply is_digit_iff; lia|].
  pose proof (Z.div_mod i 10 ltac:(lia)). assert (0 <= i / 10)%Z by (apply Z.div_pos; lia). lia.
Qed.

Lemma hd_app_nonempty (a b : str) : a <> [] -> hd 0 (a ++ b) = hd 0 a.
Proof. destruct a; [congruence | reflexivity]. Qed.

Lemma atoi_loop_spec fuel : forall i acc,
  (0 < fuel)%nat -> (0 <= i < 10 ^ Z.of_nat fuel)%Z -> (length acc + fuel <= 128)%nat ->
  exists ds, atoi_loop fuel i acc = Ok (ds ++ acc) /\ digits_of i fuel ds.
Proof.
  induction fuel as [|f IH]; intros i acc Hfuel Hi Hl; [lia|].
  - cbn [atoi_loop].
    destruct (i <? 0)%Z eqn:Eneg; [apply Z.ltb_lt in Eneg; lia|].
    rewrite buf_push_ok by lia. cbn [bind].
    rewrite digit_byte_nonneg by lia. rewrite Z.quot_div_nonneg by lia.
    destruct (digit_step i ltac:(lia)) as [Hdig Hval].
    assert (Hm : (0 <= i mod 10 < 10)%Z) by (apply Z.mod_pos_bound; lia).
    destruct (i / 10 =? 0)%Z eqn:Ez.
    + apply Z.eqb_eq in Ez. exists [48 + Z.to_N (i mod 10)]. split; [reflexivity|].
      assert (i mod 10 = i)%Z by (pose proof (Z.div_mod i 10 ltac:(lia)); lia).
      unfold digits_of. cbn [forallb length hd]. rewrite Hdig.
      repeat split; try lia.
      * unfold dec_value. cbn [fold_left]. lia.
      * intros ->. reflexivity.
    + apply Z.eqb_neq in Ez.
      assert (Hq : (0 < i / 10 < 10 ^ Z.of_nat f)%Z).
      { split.
        - assert (0 <= i / 10)%Z by (apply Z.div_pos; lia). lia.
        - apply Z.div_lt_upper_bound; [lia|].
          rewrite Nat2Z.inj_succ, Z.pow_succ_r in Hi by lia. lia. }
      assert (Hf0 : (0 < f)%nat) by (destruct f; [change (10 ^ Z.of_nat 0)%Z with 1%Z in Hq; lia | lia]).
      destruct (IH (i / 10)%Z ((48 + Z.to_N (i mod 10)) :: acc) Hf0 ltac:(lia) ltac:(cbn [length]; lia))
        as (ds & Hr & Hf & Hv & Hlen & Hhd & _).
      exists (ds ++ [48 + Z.to_N (i mod 10)]). split.
      { rewrite Hr. now rewrite <- app_assoc. }
      unfold digits_of. rewrite forallb_app, Hf. cbn [forallb]. rewrite Hdig.
      rewrite dec_value_snoc, Hv, app_length. cbn [length].
      repeat split; try lia.
      * intros _. rewrite hd_app_nonempty; [apply Hhd; lia|].
        destruct ds; [cbn in Hlen; lia | discriminate].
Qed.

Lemma pad_loop_spec fuel : forall pad acc,
  (pad <= 128)%Z -> (Z.to_nat pad - length acc < fuel)%nat ->
  pad_loop fuel pad acc = Ok (repeat 48 (Z.to_nat pad - length acc) ++ acc).
Proof.
  induction fuel as [|f IH]; intros pad acc Hp Hf; [lia|].
  cbn [pad_loop].
  destruct (Z.of_nat (length acc) <? pad)%Z eqn:E.
  - apply Z.ltb_lt in E. rewrite buf_push_ok by lia. cbn [bind].
    rewrite IH by (cbn [length]; lia). cbn [length].
    replace (Z.to_nat pad - length acc)%nat with (S (Z.to_nat pad - S (length acc))) by lia.
    cbn [repeat]. rewrite (repeat_cons (Z.to_nat pad - S (length acc)) 48).
    now rewrite <- app_assoc.
  - apply Z.ltb_ge in E. replace (Z.to_nat pad - length acc)%nat with 0%nat by lia. reflexivity.
Qed.

Lemma canon_digits_padded w n ds i k :
  (0 <= i)%Z -> digits_of i 20 ds -> n = Z.to_N i -> k = (w - length ds)%nat ->
  canon_digits w n (repeat 48 k ++ ds) = true.
Proof.
  intros Hi (Hf & Hv & Hlen & Hhd & Hz) -> ->. unfold canon_digits.
  rewrite forallb_app, Hf, forallb_repeat by reflexivity.
  rewrite dec_value_app, dec_value_zeros, Hv. cbn [andb].
  replace (0 * 10 ^ N.of_nat (length ds) + Z.to_N i =? Z.to_N i) with true
    by (symmetry; apply N.eqb_eq; lia).
  rewrite app_length, repeat_length. cbn [andb].
  replace (Nat.leb (Nat.max 1 w) (w - length ds + length ds)) with true
    by (symmetry; apply Nat.leb_le; lia).
  cbn [andb].
  destruct (Nat.ltb (Nat.max 1 w) (w - length ds + length ds)) eqn:E; [|reflexivity].
  apply Nat.ltb_lt in E.
  replace (w - length ds)%nat with 0%nat by lia. cbn [repeat app].
  apply negb_true_iff, N.eqb_neq.
  destruct (Z.eq_dec i 0) as [->|Hne].
  - rewrite (Hz eq_refl) in E. cbn [length] in E. lia.
  - apply Hhd. lia.
Qed.

Lemma pow10_20 : (10 ^ Z.of_nat 20 = 100000000000000000000)%Z.
Proof. reflexivity. Qed.
Lemma two63 : (2 ^ 63 = 9223372036854775808)%Z.
Proof. reflexivity. Qed.

Lemma int64_ok_iff z : int64_ok z = true <-> (- 2 ^ 63 < z < 2 ^ 63)%Z.
Proof.
  unfold int64_ok, min_int64, max_int64. rewrite andb_true_iff, Z.ltb_lt, Z.leb_le. lia.
Qed.

(* the non-negative core of atoi: digits, then padding *)
Lemma atoi_nonneg_core i pad :
  (0 <= i < 2 ^ 63)%Z -> (pad <= 127)%Z ->
  exists ds, atoi_loop 20 i [] = Ok ds /\
             pad_loop 130 pad ds = Ok (repeat 48 (Z.to_nat pad - length ds) ++ ds) /\
             canon_digits (Z.to_nat pad) (Z.to_N i) (repeat 48 (Z.to_nat pad - length ds) ++ ds) = true /\
             (length (repeat 48%N (Z.to_nat pad - length ds) ++ ds) < 128)%nat.
Proof.
  intros Hi Hp. rewrite two63 in Hi.
  destruct (atoi_loop_spec 20 i [] ltac:(lia) ltac:(rewrite pow10_20; lia) ltac:(cbn [length]; lia))
    as (ds & Hr & Hd).
  rewrite app_nil_r in Hr. exists ds. split; [exact Hr|].
  pose proof Hd as (_ & _ & Hlen & _ & _).
  split; [apply pad_loop_spec; lia|]. split.
  - eapply canon_digits_padded; try eassumption; try reflexivity; lia.
  - rewrite app_length, repeat_length. lia.
Qed.

Theorem atoi_spec i pad :
  int64_ok i = true -> (pad <= 127)%Z ->
  exists s, atoi i pad = Ok s /\ is_dec (Z.to_nat pad) i s = true.
Proof.
  intros Hi Hp. apply int64_ok_iff in Hi. unfold atoi, is_dec.
  destruct (i <? 0)%Z eqn:E.
  - apply Z.ltb_lt in E. rewrite wrap64_id by lia.
    destruct (atoi_nonneg_core (- i) pad ltac:(lia) Hp) as (ds & H1 & H2 & H3 & H4).
    rewrite H1. cbn [bind]. rewrite H2. cbn [bind].
    rewrite buf_push_ok by exact H4. eexists. split; [reflexivity|]. exact H3.
  - apply Z.ltb_ge in E.
    destruct (atoi_nonneg_core i pad ltac:(lia) Hp) as (ds & H1 & H2 & H3 & H4).
    rewrite H1. cbn [bind]. rewrite H2. cbn [bind]. eexists. split; [reflexivity|]. exact H3.
Qed.

Theorem atoi_never_panics i pad :
  int64_ok i = true -> (pad <= 127)%Z -> exists s, atoi i pad = Ok s.
Proof. intros H1 H2. destruct (atoi_spec i pad H1 H2) as (s & H & _). now exists s. Qed.

(* the two values outside the domain: what the code does there *)
Theorem atoi_min_int64_degenerate : atoi min_int64 0 = Ok [45].
Proof. vm_compute. reflexivity. Qed.
Theorem atoi_pad_overflow_panics : atoi 7 129 = Panic /\ atoi (-7) 128 = Panic.
Proof. split; vm_compute; reflexivity. Qed.

(* ---------------- i32toa ---------------- *)
Lemma i32_loop_spec fuel : forall i acc signed,
  (0 < fuel)%nat -> (0 <= i < 10 ^ Z.of_nat fuel)%Z -> (length acc + fuel + 1 <= 11)%nat ->
  exists ds, i32_loop fuel i signed acc = Ok ((if signed then [45] else []) ++ ds ++ acc)
             /\ digits_of i fuel ds.
Proof.
  induction fuel as [|f IH]; intros i acc signed Hfuel Hi Hl; [lia|].
  cbn [i32_loop]. rewrite buf_push_ok by lia. cbn [bind].
  rewrite digit_byte_nonneg by lia. rewrite Z.quot_div_nonneg by lia.
  destruct (digit_step i ltac:(lia)) as [Hdig Hval].
  assert (Hm : (0 <= i mod 10 < 10)%Z) by (apply Z.mod_pos_bound; lia).
  destruct (i / 10 =? 0)%Z eqn:Ez.
  - apply Z.eqb_eq in Ez. exists [48 + Z.to_N (i mod 10)]. split.
    { destruct signed; [rewrite buf_push_ok by (cbn [length]; lia)|]; reflexivity. }
    assert (i mod 10 = i)%Z by (pose proof (Z.div_mod i 10 ltac:(lia)); lia).
    unfold digits_of. cbn [forallb length hd]. rewrite Hdig.
    repeat split; try lia.
    + unfold dec_value. cbn [fold_left]. lia.
    + intros ->. reflexivity.
  - apply Z.eqb_neq in Ez.
    assert (Hq : (0 < i / 10 < 10 ^ Z.of_nat f)%Z).
    { split.
      - assert (0 <= i / 10)%Z by (apply Z.div_pos; lia). lia.
      - apply Z.div_lt_upper_bound; [lia|].
        rewrite Nat2Z.inj_succ, Z.pow_succ_r in Hi by lia. lia. }
    assert (Hf0 : (0 < f)%nat) by (destruct f; [change (10 ^ Z.of_nat 0)%Z with 1%Z in Hq; lia | lia]).
    destruct (IH (i / 10)%Z ((48 + Z.to_N (i mod 10)) :: acc) signed Hf0 ltac:(lia) ltac:(cbn [length]; lia))
      as (ds & Hr & Hf & Hv & Hlen & Hhd & _).
    exists (ds ++ [48 + Z.to_N (i mod 10)]). split.
    { rewrite Hr. now rewrite <- !app_assoc. }
    unfold digits_of. rewrite forallb_app, Hf. cbn [forallb]. rewrite Hdig.
    rewrite dec_value_snoc, Hv, app_length. cbn [length].
    repeat split; try lia.
    intros _. rewrite hd_app_nonempty; [apply Hhd; lia|].
    destruct ds; [cbn in Hlen; lia | discriminate].
Qed.

Lemma canon_digits_plain i ds fuel :
  (0 <= i)%Z -> digits_of i fuel ds -> canon_digits 0 (Z.to_N i) ds = true.
Proof.
  intros Hi (Hf & Hv & Hlen & Hhd & Hz). unfold canon_digits.
  rewrite Hf, Hv, N.eqb_refl. cbn [andb Nat.max].
  replace (Nat.leb 1 (length ds)) with true by (symmetry; apply Nat.leb_le; lia).
  cbn [andb]. destruct (Nat.ltb 1 (length ds)) eqn:E; [|reflexivity].
  apply Nat.ltb_lt in E. apply negb_true_iff, N.eqb_neq.
  destruct (Z.eq_dec i 0) as [->|Hne]; [rewrite (Hz eq_refl) in E; cbn in E; lia|].
  apply Hhd. lia.
Qed.

Theorem i32toa_spec n :
  (- 2 ^ 31 <= n < 2 ^ 31)%Z -> exists s, i32toa n = Ok s /\ is_dec 0 n s = true.
Proof.
  intros Hn. change (2 ^ 31)%Z with 2147483648%Z in Hn. unfold i32toa, is_dec.
  assert (P : (10 ^ Z.of_nat 10 = 10000000000)%Z) by reflexivity.
  destruct (n <? 0)%Z eqn:E.
  - apply Z.ltb_lt in E.
    destruct (i32_loop_spec 10 (- n) [] true ltac:(lia) ltac:(rewrite P; lia) ltac:(cbn [length]; lia))
      as (ds & Hr & Hd).
    rewrite Hr, app_nil_r. eexists. split; [reflexivity|]. cbn [app].
    eapply canon_digits_plain; [|exact Hd]. lia.
  - apply Z.ltb_ge in E.
    destruct (i32_loop_spec 10 n [] false ltac:(lia) ltac:(rewrite P; lia) ltac:(cbn [length]; lia))
      as (ds & Hr & Hd).
    rewrite Hr, app_nil_r. eexists. split; [reflexivity|]. cbn [app].
    eapply canon_digits_plain; [|exact Hd]. lia.
Qed.

(* ---------------- uint16base16: every value of the type ---------------- *)
Definition hex16_ok (n : N) : bool :=
  match uint16base16 n with Ok s => is_hex16 n s | _ => false end.
Fixpoint nrange (k : nat) (lo : N) : list N :=
  match k with O => [] | S k' => lo :: nrange k' (lo + 1) end.
Lemma in_nrange k : forall lo n, lo <= n < lo + N.of_nat k -> In n (nrange k lo).
Proof.
  induction k as [|k IH]; intros lo n H; [lia|]. cbn [nrange].
  destruct (N.eq_dec lo n) as [->|Hne]; [now left | right]. apply IH. lia.
Qed.
Lemma hex16_all : forallb hex16_ok (nrange (N.to_nat 65536) 0) = true.
Proof. vm_cast_no_check (eq_refl true). Qed.

Theorem hex16_spec n : n < 65536 -> exists s, uint16base16 n = Ok s /\ is_hex16 n s = true.
Proof.
  intros H. pose proof hex16_all as A. rewrite forallb_forall in A.
  specialize (A n (in_nrange (N.to_nat 65536) 0 n ltac:(lia))). unfold hex16_ok in A.
  destruct (uint16base16 n) as [s| |]; try discriminate. now exists s.
Qed.

(* ---------------- uuid.ToString ---------------- *)
Lemma hexchar_idx k : k < 16 -> lg_idx halfbyte2hexchar (N.to_nat k) = Ok (hexd k).
Proof.
  intros H.
  assert (E : k = 0 \/ k = 1 \/ k = 2 \/ k = 3 \/ k = 4 \/ k = 5 \/ k = 6 \/ k = 7 \/ k = 8 \/ k = 9
              \/ k = 10 \/ k = 11 \/ k = 12 \/ k = 13 \/ k = 14 \/ k = 15) by lia.
  repeat (destruct E as [->|E]; [reflexivity|]). subst k. reflexivity.
Qed.

Lemma land15 x : N.land x 15 = x mod 16.
Proof. change 15 with (N.ones 4). rewrite N.land_ones. reflexivity. Qed.

Lemma uuid_step n ps i u b x :
  nth_error u i = Some x ->
  uuid_loop (n :: ps) i u b =
  (do b1 <- lg_set b n (hexd (x / 16 mod 16));
   do b2 <- lg_set b1 (n + 1) (hexd (x mod 16));
   uuid_loop ps (S i) u b2).
Proof.
  intros H. cbn [uuid_loop]. unfold lg_idx at 1. rewrite H. cbn [bind].
  rewrite !land15, N.shiftr_div_pow2. change (2 ^ 4) with 16.
  rewrite !hexchar_idx by (apply N.mod_lt; lia). cbn [bind].
  destruct (lg_set b n (hexd (x / 16 mod 16))); reflexivity.
Qed.

Theorem uuid_spec u : (16 <= length u)%nat -> uuid_to_string u = Ok (uuid_text u).
Proof.
  intros H.
  do 16 (destruct u as [|? u]; [cbn [length] in H; lia|]).
  unfold uuid_to_string, uuid_pos.
  repeat (erewrite uuid_step by reflexivity;
          cbn [lg_set Nat.ltb Nat.leb length firstn skipn app bind repeat Nat.add]).
  cbn [uuid_loop bind lg_set Nat.ltb Nat.leb length firstn skipn app].
  unfold uuid_text. cbn [firstn flat_map hex2 app skipn]. reflexivity.
Qed.

(* ---------------- the lexer makes progress, the parser is total ---------------- *)
Lemma s_header_len i s : beq (firstn i s) s_header = true -> (7 <= i)%nat.
Proof.
  intros H. apply beq_eq in H. apply (f_equal (@length N)) in H.
  rewrite firstn_length in H. cbn in H. lia.
Qed.

Lemma lex_loop_bounds s : forall rest st i,
  (i + length rest = length s)%nat ->
  (st = SStart -> rest <> []) -> (st <> SStart -> (1 <= i)%nat) ->
  (st = SDot -> (8 <= i)%nat) -> (st = SHeader -> (9 <= i)%nat) ->
  let r := lex_loop s st i rest in
  (1 <= snd r <= length s)%nat /\ (fst r = THeader -> (9 <= snd r)%nat).
Proof.
  induction rest as [|c rest IH]; intros st i Hlen H0 H1 H8 H9.
  - cbn [length] in Hlen. destruct st; cbn [lex_loop fst snd];
      try (split; [lia | discriminate]).
    + exfalso. now apply H0.
    + specialize (H1 ltac:(discriminate)). split; [lia | discriminate].
    + specialize (H1 ltac:(discriminate)). split; [lia | discriminate].
    + specialize (H1 ltac:(discriminate)). split; [lia | discriminate].
    + specialize (H8 eq_refl). split; [lia | discriminate].
    + specialize (H9 eq_refl). split; [lia | intros _; lia].
  - cbn [length] in Hlen.
    assert (Hn : (S i + length rest = length s)%nat) by lia.
    destruct st; cbn [lex_loop].
    + destruct (c =? 36); apply IH; try assumption; try discriminate; intros; lia.
    + specialize (H1 ltac:(discriminate)).
      destruct (c =? 36); [cbn [fst snd]; split; [lia | discriminate]|].
      apply IH; try assumption; try discriminate; intros; lia.
    + destruct (is_id_char c); apply IH; try assumption; try discriminate; intros; lia.
    + specialize (H1 ltac:(discriminate)).
      destruct (c =? 46).
      * destruct (beq (firstn i s) s_header) eqn:E.
        -- apply s_header_len in E. apply IH; try assumption; try discriminate; intros; lia.
        -- cbn [fst snd]. split; [lia | discriminate].
      * destruct (is_id_char c); [|cbn [fst snd]; split; [lia | discriminate]].
        apply IH; try assumption; try discriminate; intros; lia.
    + specialize (H8 eq_refl).
      destruct (is_id_char c); [|cbn [fst snd]; split; [lia | discriminate]].
      apply IH; try assumption; try discriminate; intros; lia.
    + specialize (H9 eq_refl).
      destruct (is_id_char c); [|cbn [fst snd]; split; [lia | intros _; lia]].
      apply IH; try assumption; try discriminate; intros; lia.
Qed.

Theorem lex_progress s : s <> [] ->
  (1 <= snd (lex s) <= length s)%nat /\ (fst (lex s) = THeader -> (9 <= snd (lex s))%nat).
Proof.
  intros H. unfold lex. apply lex_loop_bounds; try discriminate; try congruence. reflexivity.
Qed.

(* string(runes): every rune is written as at least one byte; concatenation commutes *)
Lemma encode_rune_nonempty r : (1 <= length (encode_rune r))%nat.
Proof.
  unfold encode_rune.
  destruct (r <? 128); [cbn; lia|]. destruct (r <? 2048); [cbn; lia|].
  destruct (((55296 <=? r) && (r <=? 57343)) || (1114111 <? r)); [cbn; lia|].
  destruct (r <? 65536); cbn; lia.
Qed.
Lemma encode_length rs : (length rs <= length (utf8_encode rs))%nat.
Proof.
  induction rs as [|r rs IH]; [cbn; lia|]. unfold utf8_encode in *. cbn [flat_map length].
  rewrite app_length. pose proof (encode_rune_nonempty r). lia.
Qed.
Lemma encode_app a b : utf8_encode (a ++ b) = utf8_encode a ++ utf8_encode b.
Proof. unfold utf8_encode. apply flat_map_app. Qed.

Lemma parse_loop_total fuel : forall s acc, (length s <= fuel)%nat ->
  (exists p, parse_loop fuel s acc = Ok p) \/ parse_loop fuel s acc = Err 1.
Proof.
  induction fuel as [|f IH]; intros s acc Hl.
  - destruct s; [left; eexists; reflexivity | cbn [length] in Hl; lia].
  - destruct s as [|c s0]; [left; eexists; reflexivity|].
    cbn [parse_loop]. remember (c :: s0) as s eqn:Es.
    assert (Hne : s <> []) by (subst; discriminate). clear Es c s0.
    destruct (lex_progress s Hne) as [Hb Hh].
    destruct (lex s) as [typ n]. cbn [fst snd] in Hb, Hh.
    unfold lg_upto, lg_from.
    replace (Nat.leb n (length s)) with true by (symmetry; apply Nat.leb_le; lia).
    cbn [bind].
    assert (Hs' : (length (skipn n s) <= f)%nat) by (rewrite skipn_length; lia).
    destruct typ.
    + apply IH, Hs'.
    + destruct (field_of (utf8_encode (firstn n s))); [apply IH, Hs' | now right].
    + specialize (Hh eq_refl).
      replace (Nat.leb 8 (length (utf8_encode (firstn n s)))) with true.
      2:{ symmetry; apply Nat.leb_le. pose proof (encode_length (firstn n s)) as E.
          rewrite firstn_length in E. lia. }
      cbn [bind]. apply IH, Hs'.
Qed.

(* logger.New / parse: terminates on every format string - any bytes, valid UTF-8 or not -
   (never out of fuel), never panics; the only failures are "invalid field" and "empty log
   format" *)
Theorem new_logger_total format :
  (exists p, new_logger format = Ok p /\ p <> []) \/ new_logger format = Err 1 \/ new_logger format = Err 2.
Proof.
  unfold new_logger, parse. cbv zeta.
  destruct (parse_loop_total (length (utf8_decode format)) (utf8_decode format) [] (le_n _)) as [[p H]|H];
    rewrite H; cbn [bind].
  - destruct p; [right; now right | left; eexists; split; [reflexivity | discriminate]].
  - right; now left.
Qed.

(* ---------------- exactly one line per event ---------------- *)
Definition newlines (s : str) : nat := length (filter (N.eqb 10) s).

Lemma filter_absent l : ~ In 10 l -> filter (N.eqb 10) l = [].
Proof.
  induction l as [|c l IH]; intros H; [reflexivity|]. cbn [filter].
  destruct (10 =? c) eqn:E.
  - apply N.eqb_eq in E. exfalso. apply H. left. congruence.
  - apply IH. intros I. apply H. now right.
Qed.

Lemma one_line_with rf p e out :
  pattern_write_with rf p e = Ok out ->
  exists body, write_items_with rf p e = Ok body /\
    ((body = [] /\ out = []) \/
     (body <> [] /\ out = body ++ [10] /\ (~ In 10 body -> newlines out = 1%nat))).
Proof.
  unfold pattern_write_with. destruct (write_items_with rf p e) as [b| |]; cbn [bind]; try discriminate.
  intros H. inversion H; subst out; clear H. exists b. split; [reflexivity|].
  destruct b as [|c b]; [left; now split | right].
  split; [discriminate|]. split; [reflexivity|].
  intros Hn. unfold newlines. rewrite filter_app, (filter_absent _ Hn). reflexivity.
Qed.

Theorem one_line_per_event p e out :
  pattern_write p e = Ok out ->
  exists body, write_items p e = Ok body /\
    ((body = [] /\ out = []) \/
     (body <> [] /\ out = body ++ [10] /\ (~ In 10 body -> newlines out = 1%nat))).
Proof. apply one_line_with. Qed.

(* ---------------- the two defects the code had until bb1b4e7 / 1da7601 ----------------
   Both were repaired in /repo; the theorems are kept about the [_unrepaired]
   definitions of Model/Logger.v, next to what the repaired code does on the
   same witnesses. *)
Definition ex_request : request :=
  {| rq_remote := bs "10.0.0.7:51234"; rq_method := bs "GET"; rq_uri := bs "/"; rq_proto := bs "HTTP/1.1";
     rq_host := bs "example.com"; rq_header := Some [] |}.
(* 2026-09-21T14:13:20Z, a 200 with 12 bytes after 1.5 ms *)
Definition ex_event (upstream : str) (off : Z) : event :=
  {| e_dur := 1500000; e_unix := 1790000000; e_nsec := 0; e_off := off;
     e_req := Some ex_request; e_resp := Some (200, 12)%Z; e_requrl := None;
     e_upaddr := upstream; e_upsvc := bs "svc"; e_upurl := None |}.

(* F-C20-1 (fixed by bb1b4e7): a route to "http://backend/" has UpstreamAddr = "backend" *)
Theorem upstream_no_port_panics_refuted :
  exists format e, (exists p, new_logger format = Ok p) /\ e_upaddr e = bs "backend" /\
                   log_line_unrepaired format e = Panic /\
                   log_line format e = Ok (bs "10.0.0.7:51234 backend" ++ [10]).
Proof.
  exists (bs "$remote_addr $upstream_host"), (ex_event (bs "backend") 0).
  split; [eexists; vm_compute; reflexivity|]. repeat split; vm_compute; reflexivity.
Qed.

(* F-C20-2 (fixed by 1da7601): the same instant logged by a server in UTC+3 and by one in
   UTC: both lines carried the UTC designator and differed by three hours *)
Theorem local_time_labelled_utc_refuted :
  exists format e1 e2,
    e_unix e1 = e_unix e2 /\ e_nsec e1 = e_nsec e2 /\ e_off e1 = 10800%Z /\ e_off e2 = 0%Z /\
    log_line_unrepaired format e1 = Ok (bs "2026-09-21T17:13:20Z [21/Sep/2026:17:13:20 +0000]" ++ [10]) /\
    log_line_unrepaired format e2 = Ok (bs "2026-09-21T14:13:20Z [21/Sep/2026:14:13:20 +0000]" ++ [10]) /\
    log_line format e1 = log_line format e2 /\
    log_line format e1 = Ok (bs "2026-09-21T14:13:20Z [21/Sep/2026:14:13:20 +0000]" ++ [10]).
Proof.
  exists (bs "$time_rfc3339 [$time_common]"), (ex_event (bs "10.1.1.1:80") 10800), (ex_event (bs "10.1.1.1:80") 0).
  repeat split; vm_compute; reflexivity.
Qed.

(* F-C20-3 (fixed by 0f981ad): hostport kept the brackets of an IPv6 literal that
   net.SplitHostPort removes *)
Theorem ipv6_brackets_kept_refuted :
  hostport_unrepaired (bs "[::1]:8080") = Ok (bs "[::1]", bs "8080") /\
  hostport (bs "[::1]:8080") = Ok (bs "::1", bs "8080").
Proof. split; vm_compute; reflexivity. Qed.

(* ---------------- hostport never panics, whatever the address ---------------- *)
Lemma index_byte_some s c : forall i, index_byte s c = Some i ->
  exists a b, s = a ++ c :: b /\ length a = i /\ ~ In c a.
Proof.
  induction s as [|x s IH]; intros i H; [discriminate|]. cbn [index_byte] in H.
  destruct (x =? c) eqn:E.
  - apply N.eqb_eq in E. inversion H; subst. exists [], s. repeat split; auto.
  - destruct (index_byte s c) as [j|] eqn:Ej; [|discriminate]. inversion H; subst.
    destruct (IH j eq_refl) as (a & b & -> & Hl & Hn). exists (x :: a), b.
    repeat split; [cbn [length]; lia|]. intros [->|I]; [rewrite N.eqb_refl in E; discriminate | auto].
Qed.

Lemma index_byte_none s c : index_byte s c = None <-> ~ In c s.
Proof.
  induction s as [|x s IH]; cbn [index_byte In]; [tauto|].
  destruct (x =? c) eqn:E.
  - apply N.eqb_eq in E. split; [discriminate | intros H; exfalso; apply H; now left].
  - apply N.eqb_neq in E. destruct (index_byte s c) eqn:Ej.
    + split; [discriminate|]. intros H. exfalso. assert (~ In c s) by tauto.
      apply IH in H0. discriminate.
    + split; [|reflexivity]. intros _ [->|I]; [congruence|]. now apply (proj1 IH eq_refl).
Qed.

Lemma hostport_nonempty s : s <> [] ->
  hostport s = match last_index_byte s 58 with
               | None => Ok (s, [])
               | Some n => do h <- lg_upto s n; do p <- lg_from s (n + 1);
                           do h' <- strip_brackets h; Ok (h', p)
               end.
Proof. destruct s; [congruence | reflexivity]. Qed.

Lemma has_colon_iff s : has_colon s = true <-> In 58 s.
Proof.
  unfold has_colon. destruct (index_byte s 58) eqn:E.
  - split; [intros _|reflexivity].
    destruct (index_byte_some _ _ _ E) as (a & b & -> & _). apply in_or_app. right. now left.
  - split; [discriminate|]. intros I. now apply index_byte_none in E.
Qed.

(* the bracket step never panics and does what the spec says *)
Lemma strip_brackets_spec h0 : exists h, strip_brackets h0 = Ok h /\ unbracket_spec h0 h.
Proof.
  unfold strip_brackets. destruct (Nat.ltb 1 (length h0)) eqn:El.
  2:{ exists h0. split; [reflexivity|]. right. split; [|reflexivity].
      apply Nat.ltb_ge in El. intros inner E. apply (f_equal (@length N)) in E.
      rewrite !app_length in E. cbn [length] in E. lia. }
  apply Nat.ltb_lt in El.
  destruct h0 as [|a t]; [cbn in El; lia|].
  assert (Ht : t <> []) by (destruct t; [cbn in El; lia | discriminate]).
  destruct (exists_last Ht) as (t' & b & ->). clear Ht El.
  cbn [lg_idx nth_error bind].
  destruct (a =? 91) eqn:Ea; cbn [negb].
  2:{ exists (a :: t' ++ [b]). split; [reflexivity|]. right. split; [|reflexivity].
      intros inner E. cbn [app] in E. inversion E. subst a. discriminate. }
  apply N.eqb_eq in Ea. subst a.
  assert (Hn : nth_error (91 :: t' ++ [b]) (length (91 :: t' ++ [b]) - 1) = Some b).
  { cbn [length]. rewrite app_length. cbn [length].
    replace (S (length t' + 1) - 1)%nat with (S (length t')) by lia. cbn [nth_error].
    rewrite nth_error_app2 by lia. now rewrite Nat.sub_diag. }
  unfold lg_idx at 1. rewrite Hn. cbn [bind].
  destruct (b =? 93) eqn:Eb; cbn [negb].
  2:{ exists (91 :: t' ++ [b]). split; [reflexivity|]. right. split; [|reflexivity].
      intros inner E. cbn [app] in E. inversion E as [E'].
      apply app_inj_tail in E' as [_ ->]. discriminate. }
  apply N.eqb_eq in Eb. subst b.
  exists t'. split.
  - unfold lg_upto, lg_from.
    assert (L : length (91 :: t' ++ [93]) = S (S (length t'))) by (cbn [length]; rewrite app_length; cbn; lia).
    rewrite L. replace (Nat.leb (S (S (length t')) - 1) (S (S (length t')))) with true
      by (symmetry; apply Nat.leb_le; lia).
    cbn [bind]. replace (S (S (length t')) - 1)%nat with (S (length t')) by lia.
    cbn [firstn]. rewrite firstn_app, firstn_all, Nat.sub_diag. cbn [firstn]. rewrite app_nil_r.
    cbn [length Nat.leb skipn]. reflexivity.
  - left. exists t'. split; reflexivity.
Qed.

(* for EVERY s: no panic, and the result is the net.SplitHostPort-style split *)
Theorem hostport_total s : exists h p, hostport s = Ok (h, p) /\ hostport_spec s h p.
Proof.
  destruct s as [|x s0] eqn:Es.
  { exists [], []. split; [reflexivity|]. left. now repeat split. }
  rewrite <- Es. assert (Hne : s <> []) by (rewrite Es; discriminate). clear Es x s0.
  rewrite (hostport_nonempty s Hne). unfold last_index_byte.
  destruct (index_byte (rev s) 58) as [i|] eqn:Ei.
  - destruct (index_byte_some _ _ _ Ei) as (a & b & Hr & Hl & Hn).
    assert (Hs : s = rev b ++ 58 :: rev a).
    { rewrite <- (rev_involutive s), Hr, rev_app_distr. cbn [rev]. now rewrite <- app_assoc. }
    assert (Hlen : length s = (length b + 1 + length a)%nat).
    { rewrite Hs, app_length. cbn [length]. rewrite !rev_length. lia. }
    replace (length s - 1 - i)%nat with (length (rev b)) by (rewrite rev_length; lia).
    destruct (strip_brackets_spec (rev b)) as (h & Hh & Hu).
    exists h, (rev a). split.
    + unfold lg_upto, lg_from.
      replace (Nat.leb (length (rev b)) (length s)) with true
        by (symmetry; apply Nat.leb_le; rewrite rev_length; lia).
      cbn [bind].
      replace (Nat.leb (length (rev b) + 1) (length s)) with true
        by (symmetry; apply Nat.leb_le; rewrite rev_length; lia).
      cbn [bind].
      assert (F : firstn (length (rev b)) s = rev b).
      { rewrite Hs, firstn_app, firstn_all, Nat.sub_diag. cbn [firstn]. now rewrite app_nil_r. }
      assert (K : skipn (length (rev b) + 1) s = rev a).
      { rewrite Hs. replace (length (rev b) + 1)%nat with (length (rev b ++ [58])) by (rewrite app_length; reflexivity).
        replace (rev b ++ 58 :: rev a) with ((rev b ++ [58]) ++ rev a) by (now rewrite <- app_assoc).
        rewrite skipn_app, skipn_all, Nat.sub_diag. reflexivity. }
      rewrite F, K, Hh. reflexivity.
    + right. exists (rev b). split; [exact Hs|]. split; [|exact Hu]. unfold has_colon.
      replace (index_byte (rev a) 58) with (@None nat); [reflexivity|].
      symmetry. apply index_byte_none. intros I. apply Hn. now apply in_rev.
  - exists s, []. split; [reflexivity|]. left. split; [|now split].
    destruct (has_colon s) eqn:Hc; [|reflexivity].
    exfalso. apply has_colon_iff in Hc. apply index_byte_none in Ei.
    apply Ei. now apply -> in_rev.
Qed.

Theorem hostport_never_panics s : exists hp, hostport s = Ok hp.
Proof. destruct (hostport_total s) as (h & p & H & _). now exists (h, p). Qed.

(* the split is determined by the spec: whatever satisfies it is what hostport returns *)
Lemma colon_split_unique h1 p1 h2 p2 :
  h1 ++ [58] ++ p1 = h2 ++ [58] ++ p2 -> has_colon p1 = false -> has_colon p2 = false ->
  h1 = h2 /\ p1 = p2.
Proof.
  revert h2. induction h1 as [|x h1 IH]; intros h2 E N1 N2.
  - destruct h2 as [|y h2]; cbn [app] in E.
    + inversion E. now split.
    + inversion E as [[Ey E']]. subst y. exfalso.
      assert (In 58 p1) by (rewrite E'; apply in_or_app; right; now left).
      apply has_colon_iff in H. congruence.
  - destruct h2 as [|y h2]; cbn [app] in E.
    + inversion E as [[Ex E']]. subst x. exfalso.
      assert (In 58 p2) by (rewrite <- E'; apply in_or_app; right; now left).
      apply has_colon_iff in H. congruence.
    + inversion E as [[Ex E']]. subst y. destruct (IH h2 E' N1 N2) as [-> ->]. now split.
Qed.

Lemma unbracket_unique h0 h1 h2 : unbracket_spec h0 h1 -> unbracket_spec h0 h2 -> h1 = h2.
Proof.
  intros [(i1 & E1 & ->)|(N1 & ->)] [(i2 & E2 & ->)|(N2 & ->)]; try reflexivity.
  - rewrite E1 in E2. cbn [app] in E2. inversion E2 as [E]. now apply app_inv_tail in E.
  - exfalso. now apply (N2 i1).
  - exfalso. now apply (N1 i2).
Qed.

Theorem hostport_spec_unique s h1 p1 h2 p2 :
  hostport_spec s h1 p1 -> hostport_spec s h2 p2 -> h1 = h2 /\ p1 = p2.
Proof.
  intros [(C1 & -> & ->)|(a & E1 & N1 & U1)] [(C2 & -> & ->)|(b & E2 & N2 & U2)].
  - now split.
  - exfalso. assert (In 58 s) by (rewrite E2; apply in_or_app; right; now left).
    apply has_colon_iff in H. congruence.
  - exfalso. assert (In 58 s) by (rewrite E1; apply in_or_app; right; now left).
    apply has_colon_iff in H. congruence.
  - rewrite E1 in E2. destruct (colon_split_unique _ _ _ _ E2 N1 N2) as [-> ->].
    split; [eapply unbracket_unique; eassumption | reflexivity].
Qed.

(* in particular: "[v6]:port" and "host:port" as net.SplitHostPort splits them *)
Corollary hostport_bracketed inner port : has_colon port = false ->
  hostport ([91] ++ inner ++ [93] ++ [58] ++ port) = Ok (inner, port).
Proof.
  intros Hp. destruct (hostport_total ([91] ++ inner ++ [93] ++ [58] ++ port)) as (h & p & H & S).
  rewrite H. f_equal.
  assert (S' : hostport_spec ([91] ++ inner ++ [93] ++ [58] ++ port) inner port).
  { right. exists ([91] ++ inner ++ [93]). split; [now rewrite <- !app_assoc|]. split; [exact Hp|].
    left. now exists inner. }
  destruct (hostport_spec_unique _ _ _ _ _ S S') as [-> ->]. reflexivity.
Qed.

Corollary hostport_plain host port : has_colon port = false -> hd 0 host <> 91 ->
  hostport (host ++ [58] ++ port) = Ok (host, port).
Proof.
  intros Hp Hh. destruct (hostport_total (host ++ [58] ++ port)) as (h & p & H & S).
  rewrite H. f_equal.
  assert (S' : hostport_spec (host ++ [58] ++ port) host port).
  { right. exists host. split; [reflexivity|]. split; [exact Hp|]. right. split; [|reflexivity].
    intros inner E. subst host. now apply Hh. }
  destruct (hostport_spec_unique _ _ _ _ _ S S') as [-> ->]. reflexivity.
Qed.

Example hostport_examples :
  hostport (bs "10.0.0.7:8080") = Ok (bs "10.0.0.7", bs "8080") /\
  hostport (bs "backend") = Ok (bs "backend", []) /\ hostport_unrepaired (bs "backend") = Panic /\
  hostport (bs "[::1]:8080") = Ok (bs "::1", bs "8080") /\
  hostport (bs "[]:80") = Ok ([], bs "80") /\ hostport (bs "[:80") = Ok (bs "[", bs "80") /\
  hostport (bs "[::1]") = Ok (bs "[:", bs "1]").
Proof. repeat split; vm_compute; reflexivity. Qed.

Example atoi_spec_nonvacuous :
  int64_ok (-42) = true /\ atoi (-42) 4 = Ok (bs "-0042") /\ is_dec 4 (-42) (bs "-0042") = true.
Proof. repeat split; vm_compute; reflexivity. Qed.

(* ---------------- the canonical rendering is unique ----------------
   Two strings that both satisfy the declarative predicate for the same number
   and width are equal: whatever strconv / fmt print (digits, same value, same
   canonical width) is byte for byte what atoi / i32toa print. *)
Lemma digits_same_len a : forall b, length a = length b ->
  forallb is_digit a = true -> forallb is_digit b = true -> dec_value a = dec_value b -> a = b.
Proof.
  induction a as [|x a IH]; intros [|y b] Hl Ha Hb Hv; try discriminate; [reflexivity|].
  cbn [length] in Hl. cbn [forallb] in Ha, Hb.
  apply andb_true_iff in Ha as [Hx Ha]. apply andb_true_iff in Hb as [Hy Hb].
  rewrite !dec_value_cons in Hv. assert (L : length a = length b) by lia. rewrite L in Hv.
  pose proof (dec_value_lt a Ha) as Ba. pose proof (dec_value_lt b Hb) as Bb. rewrite L in Ba.
  apply is_digit_iff in Hx, Hy.
  remember (10 ^ N.of_nat (length b)) as P.
  assert (E1 : x - 48 = y - 48) by nia.
  assert (E2 : dec_value a = dec_value b) by nia.
  f_equal; [lia | now apply IH].
Qed.

Lemma shorter_smaller a b :
  forallb is_digit a = true -> forallb is_digit b = true ->
  (length a < length b)%nat -> hd 0 b <> 48 -> dec_value a < dec_value b.
Proof.
  intros Ha Hb Hl Hh. destruct b as [|y b]; [cbn [length] in Hl; lia|].
  cbn [hd] in Hh. cbn [forallb] in Hb. apply andb_true_iff in Hb as [Hy Hb].
  apply is_digit_iff in Hy. cbn [length] in Hl.
  pose proof (dec_value_lt a Ha) as Ba. rewrite dec_value_cons.
  assert (10 ^ N.of_nat (length a) <= 10 ^ N.of_nat (length b)) by (apply N.pow_le_mono_r; lia).
  nia.
Qed.

Theorem canon_digits_unique w n a b :
  canon_digits w n a = true -> canon_digits w n b = true -> a = b.
Proof.
  unfold canon_digits. intros Ha Hb.
  apply andb_true_iff in Ha as [Ha Ca]. apply andb_true_iff in Ha as [Ha La].
  apply andb_true_iff in Ha as [Fa Va].
  apply andb_true_iff in Hb as [Hb Cb]. apply andb_true_iff in Hb as [Hb Lb].
  apply andb_true_iff in Hb as [Fb Vb].
  apply N.eqb_eq in Va, Vb. apply Nat.leb_le in La, Lb.
  destruct (Nat.lt_trichotomy (length a) (length b)) as [H|[H|H]].
  - exfalso. replace (Nat.ltb (Nat.max 1 w) (length b)) with true in Cb
      by (symmetry; apply Nat.ltb_lt; lia).
    apply negb_true_iff, N.eqb_neq in Cb.
    pose proof (shorter_smaller a b Fa Fb H Cb). lia.
  - apply digits_same_len; auto. congruence.
  - exfalso. replace (Nat.ltb (Nat.max 1 w) (length a)) with true in Ca
      by (symmetry; apply Nat.ltb_lt; lia).
    apply negb_true_iff, N.eqb_neq in Ca.
    pose proof (shorter_smaller b a Fb Fa H Ca). lia.
Qed.

Theorem is_dec_unique w z a b : is_dec w z a = true -> is_dec w z b = true -> a = b.
Proof.
  unfold is_dec. destruct (z <? 0)%Z.
  - destruct a as [|x a]; [discriminate|]. destruct b as [|y b]; [discriminate|].
    destruct (N.eq_dec x 45) as [->|Nx]; [|intros H; exfalso; revert H; clear - Nx;
      destruct x as [|p]; [discriminate|]; do 6 (destruct p; try discriminate); congruence].
    destruct (N.eq_dec y 45) as [->|Ny]; [|intros _ H; exfalso; revert H; clear - Ny;
      destruct y as [|p]; [discriminate|]; do 6 (destruct p; try discriminate); congruence].
    intros Ha Hb. f_equal. eapply canon_digits_unique; eassumption.
  - apply canon_digits_unique.
Qed.

(* ================= Log never panics; the time fields are the UTC rendering ================= *)
(* the calendar step on one 400-year era: all 146097 days, by computation *)
Definition doe_ok (k : N) : bool :=
  let '(y, m, d) := civil_of_doe (Z.of_N k) in
  ((0 <=? y) && (y <=? 400) && (1 <=? m) && (m <=? 12) && (1 <=? d) && (d <=? 31))%Z.
Lemma doe_all : forallb doe_ok (nrange (N.to_nat 146097) 0) = true.
Proof. vm_cast_no_check (eq_refl true). Qed.

Lemma civil_of_doe_bounds doe : (0 <= doe < 146097)%Z ->
  let '(y, m, d) := civil_of_doe doe in
  (0 <= y <= 400 /\ 1 <= m <= 12 /\ 1 <= d <= 31)%Z.
Proof.
  intros H. pose proof doe_all as A. rewrite forallb_forall in A.
  specialize (A (Z.to_N doe) (in_nrange (N.to_nat 146097) 0 (Z.to_N doe) ltac:(lia))).
  unfold doe_ok in A. rewrite Z2N.id in A by lia.
  destruct (civil_of_doe doe) as [[y m] d].
  repeat (apply andb_true_iff in A as [A ?]).
  repeat match goal with H : (_ <=? _)%Z = true |- _ => apply Z.leb_le in H end. lia.
Qed.

Definition civil_sane (c : civil) : Prop :=
  (1600 <= c_year c <= 2400 /\ 1 <= c_month c <= 12 /\ 1 <= c_day c <= 31 /\
   0 <= c_hour c <= 23 /\ 0 <= c_min c <= 59 /\ 0 <= c_sec c <= 59)%Z.

Lemma civil_of_sane secs : (-9000000000 <= secs <= 9000000000)%Z -> civil_sane (civil_of secs).
Proof.
  intros H. unfold civil_of, civil_of_days.
  set (days := (secs / 86400)%Z).
  assert (Hd : (-104167 <= days <= 104167)%Z) by (unfold days; Z.div_mod_to_equations; lia).
  pose proof (civil_of_doe_bounds ((days + 719468) mod 146097)
                (Z.mod_pos_bound _ 146097 ltac:(lia))) as B.
  destruct (civil_of_doe ((days + 719468) mod 146097)) as [[y m] d].
  unfold civil_sane. cbn [c_year c_month c_day c_hour c_min c_sec].
  assert (0 <= secs mod 86400 < 86400)%Z by (apply Z.mod_pos_bound; lia).
  assert (4 <= (days + 719468) / 146097 <= 5)%Z by (Z.div_mod_to_equations; lia).
  clearbody days. Z.div_mod_to_equations. lia.
Qed.

Lemma int64_small z : (-1000000000000000000 <= z <= 1000000000000000000)%Z -> int64_ok z = true.
Proof. intros H. apply int64_ok_iff. rewrite two63. lia. Qed.

Lemma atoi_ok i pad : int64_ok i = true -> (pad <= 127)%Z -> exists s, atoi i pad = Ok s.
Proof. apply atoi_never_panics. Qed.

Lemma cat_ok l : Forall (fun x => exists s, x = Ok s) l -> exists s, cat l = Ok s.
Proof.
  induction 1 as [|x l [a ->] _ [b IH]]; [now exists []|].
  cbn [cat bind]. rewrite IH. cbn [bind]. now eexists.
Qed.

Lemma month_name_ok m : (1 <= m <= 12)%Z -> exists s, month_name m = Ok s.
Proof.
  intros H.
  assert (E : (m = 1 \/ m = 2 \/ m = 3 \/ m = 4 \/ m = 5 \/ m = 6 \/ m = 7 \/ m = 8 \/ m = 9
               \/ m = 10 \/ m = 11 \/ m = 12)%Z) by lia.
  repeat (destruct E as [->|E]; [eexists; reflexivity|]). subst. eexists; reflexivity.
Qed.

Lemma quot_small d k : (0 < k)%Z -> (Z.abs (Z.quot d k) <= Z.abs d)%Z.
Proof.
  intros Hk. rewrite <- (Z.abs_eq k) at 1 by lia. rewrite <- Z.quot_abs by lia.
  rewrite Z.quot_div_nonneg by lia.
  apply Z.div_le_upper_bound; [lia|]. pose proof (Z.abs_nonneg d). nia.
Qed.

Lemma int64_quot d k : int64_ok d = true -> (0 < k)%Z -> int64_ok (Z.quot d k) = true.
Proof.
  intros H Hk. apply int64_ok_iff in H. apply int64_ok_iff. pose proof (quot_small d k Hk). lia.
Qed.

Lemma int64_rem_quot d k j : (0 < k <= 1000000000)%Z -> (0 < j)%Z ->
  int64_ok (Z.quot (Z.rem d k) j) = true.
Proof.
  intros Hk Hj. apply int64_ok_iff. rewrite two63.
  pose proof (quot_small (Z.rem d k) j Hj).
  assert (Z.abs (Z.rem d k) < Z.abs k)%Z by (apply Z.rem_bound_abs; lia). lia.
Qed.

Ltac ok_list :=
  repeat first [apply Forall_nil | apply Forall_cons];
  try (eexists; reflexivity).

Theorem render_field_ok f e : event_ok e = true -> exists s, render_field f e = Ok s.
Proof.
  unfold event_ok. intros H.
  repeat (apply andb_true_iff in H as [H ?]).
  destruct (e_resp e) as [[st cl]|] eqn:Er; [|discriminate].
  match goal with X : _ && _ = true |- _ => apply andb_true_iff in X as [Hst Hcl] end.
  repeat match goal with
         | X : (_ <=? _)%Z = true |- _ => apply Z.leb_le in X
         | X : (_ <? _)%Z = true |- _ => apply Z.ltb_lt in X
         end.
  assert (Hdur : int64_ok (e_dur e) = true).
  { unfold int64_ok. apply andb_true_iff. split; [apply Z.ltb_lt | apply Z.leb_le]; assumption. }
  pose proof (civil_of_sane (e_unix e) ltac:(lia)) as (Hy & Hm & Hd & Hh & Hmi & Hs).
  assert (Hnano : e_unixnano e = (e_unix e * 1000000000 + e_nsec e)%Z).
  { unfold e_unixnano. apply wrap64_id. rewrite two63. lia. }
  assert (Hn64 : int64_ok (e_unixnano e) = true) by (rewrite Hnano; apply int64_ok_iff; rewrite two63; lia).
  assert (A : forall z pad, (-100000 <= z <= 1000000000)%Z -> (pad <= 127)%Z -> exists s, atoi z pad = Ok s).
  { intros z pad Hz Hp. apply atoi_ok; [apply int64_small; lia | exact Hp]. }
  assert (Tm : forall l, Forall (fun x => exists s, x = Ok s) l ->
               Forall (fun x => exists s, x = Ok s) (rfc3339_prefix (e_civil e) ++ l)).
  { intros l Hl. unfold rfc3339_prefix, e_civil. cbn [app]. ok_list; try (apply A; lia). exact Hl. }
  destruct f; unfold render_field, render_field_with, with_req, with_url, with_resp, resp_time, lit;
    try rewrite Er;
    try (destruct (e_req e) as [r|]; [|eexists; reflexivity]);
    try (eexists; reflexivity).
  - destruct (hostport_never_panics (rq_remote r)) as [[h p] ->]. eexists; reflexivity.
  - destruct (hostport_never_panics (rq_remote r)) as [[h p] ->]. eexists; reflexivity.
  - destruct (e_requrl e); eexists; reflexivity.
  - unfold request_host, with_req. destruct (e_requrl e); [|destruct (e_req e)]; eexists; reflexivity.
  - destruct (e_requrl e); eexists; reflexivity.
  - destruct (e_requrl e); eexists; reflexivity.
  - cbn [snd]. apply atoi_ok; [exact Hcl | lia].
  - cbn [fst]. apply atoi_ok; [exact Hst | lia].
  - apply cat_ok. ok_list; apply atoi_ok; try lia; [now apply int64_quot | apply int64_rem_quot; lia].
  - apply cat_ok. ok_list; apply atoi_ok; try lia; [now apply int64_quot | apply int64_rem_quot; lia].
  - apply cat_ok. ok_list; apply atoi_ok; try lia; [now apply int64_quot | apply int64_rem_quot; lia].
  - apply atoi_ok; [now apply int64_quot | lia].
  - apply atoi_ok; [now apply int64_quot | lia].
  - apply atoi_ok; [exact Hn64 | lia].
  - apply cat_ok. unfold e_civil. ok_list; try (apply A; lia). apply month_name_ok; lia.
  - apply cat_ok, Tm. ok_list.
  - apply cat_ok, Tm. ok_list. apply atoi_ok; [apply int64_quot; [apply int64_small|]; lia | lia].
  - apply cat_ok, Tm. ok_list. apply atoi_ok; [apply int64_quot; [apply int64_small|]; lia | lia].
  - apply cat_ok, Tm. ok_list. apply A; lia.
  - destruct (hostport_never_panics (e_upaddr e)) as [[h p] ->]. eexists; reflexivity.
  - destruct (hostport_never_panics (e_upaddr e)) as [[h p] ->]. eexists; reflexivity.
  - destruct (e_upurl e); eexists; reflexivity.
  - destruct (e_upurl e); eexists; reflexivity.
  - destruct (e_upurl e); eexists; reflexivity.
Qed.

Lemma write_items_ok p e : event_ok e = true -> exists b, write_items p e = Ok b.
Proof.
  intros H. induction p as [|it p [b IH]]; [now exists []|].
  unfold write_items in *. cbn [write_items_with].
  assert (exists a, render_item_with render_field it e = Ok a) as [a Ha].
  { destruct it as [s|name|f]; cbn [render_item_with].
    - now eexists.
    - destruct (e_req e) as [r|]; [destruct (rq_header r)|]; now eexists.
    - apply render_field_ok, H. }
  rewrite Ha, IH. cbn [bind]. now eexists.
Qed.

(* Logger.Log never panics: whatever the addresses, the zone, the headers, the format *)
Theorem log_never_panics p e : event_ok e = true -> exists out, pattern_write p e = Ok out.
Proof.
  intros H. destruct (write_items_ok p e H) as [b Hb].
  unfold pattern_write, pattern_write_with. unfold write_items in Hb. rewrite Hb. cbn [bind]. now eexists.
Qed.

Theorem log_line_never_panics format e : event_ok e = true ->
  (exists out, log_line format e = Ok out) \/ log_line format e = Err 1 \/ log_line format e = Err 2.
Proof.
  intros H. unfold log_line, log_line_with.
  destruct (new_logger_total format) as [(p & Hp & _)|[Hp|Hp]]; rewrite Hp; cbn [bind]; auto.
  left. apply (log_never_panics p e H).
Qed.

Example log_never_panics_nonvacuous :
  event_ok (ex_event (bs "backend") 10800) = true /\
  log_line (bs "$upstream_host:$upstream_port [$time_common]") (ex_event (bs "backend") 10800)
  = Ok (bs "backend: [21/Sep/2026:14:13:20 +0000]" ++ [10]).
Proof. split; vm_compute; reflexivity. Qed.

(* no field depends on the zone of the Time value: the same instant gives the same line *)
Theorem render_zone_independent f e off : render_field f (in_zone e off) = render_field f e.
Proof.
  destruct f;
    unfold render_field, render_field_with, request_host, with_req, with_url, with_resp, resp_time, e_civil, e_unixnano, in_zone;
    cbn [e_dur e_unix e_nsec e_off e_req e_resp e_requrl e_upaddr e_upsvc e_upurl]; reflexivity.
Qed.

Theorem log_zone_independent format e off : log_line format (in_zone e off) = log_line format e.
Proof.
  unfold log_line, log_line_with. destruct (new_logger format) as [p| |]; cbn [bind]; try reflexivity.
  unfold pattern_write_with.
  assert (E : write_items_with render_field p (in_zone e off) = write_items_with render_field p e).
  { induction p as [|it p IH]; [reflexivity|]. cbn [write_items_with]. rewrite IH.
    destruct it; cbn [render_item_with]; try reflexivity; now rewrite render_zone_independent. }
  now rewrite E.
Qed.

(* the civil time fields ARE the UTC rendering: the declarative decimal rendering of the
   calendar fields of the instant (unix seconds, no offset), in the layout of
   time.Format("2006-01-02T15:04:05Z07:00") / ("02/Jan/2006:15:04:05 -0700") in UTC *)
Lemma atoi_dec z pad : (-100000 <= z <= 1000000000)%Z -> (pad <= 127)%Z ->
  exists s, atoi z pad = Ok s /\ is_dec (Z.to_nat pad) z s = true.
Proof. intros Hz Hp. apply atoi_spec; [apply int64_small; lia | exact Hp]. Qed.

Theorem time_rfc3339_is_utc e : event_ok e = true ->
  let c := civil_of (e_unix e) in
  exists Y M D h m s,
    is_dec 4 (c_year c) Y = true /\ is_dec 2 (c_month c) M = true /\ is_dec 2 (c_day c) D = true /\
    is_dec 2 (c_hour c) h = true /\ is_dec 2 (c_min c) m = true /\ is_dec 2 (c_sec c) s = true /\
    render_field FTimeRfc e =
      Ok (Y ++ [45] ++ M ++ [45] ++ D ++ [84] ++ h ++ [58] ++ m ++ [58] ++ s ++ [90]).
Proof.
  intros H c. unfold event_ok in H.
  repeat (apply andb_true_iff in H as [H ?]).
  repeat match goal with
         | X : (_ <=? _)%Z = true |- _ => apply Z.leb_le in X
         end.
  pose proof (civil_of_sane (e_unix e) ltac:(lia)) as (Hy & Hm & Hd & Hh & Hmi & Hs). fold c in Hy, Hm, Hd, Hh, Hmi, Hs.
  destruct (atoi_dec (c_year c) 4 ltac:(lia) ltac:(lia)) as (Y & EY & SY).
  destruct (atoi_dec (c_month c) 2 ltac:(lia) ltac:(lia)) as (M & EM & SM).
  destruct (atoi_dec (c_day c) 2 ltac:(lia) ltac:(lia)) as (D & ED & SD).
  destruct (atoi_dec (c_hour c) 2 ltac:(lia) ltac:(lia)) as (h & Eh & Sh).
  destruct (atoi_dec (c_min c) 2 ltac:(lia) ltac:(lia)) as (m & Em & Sm).
  destruct (atoi_dec (c_sec c) 2 ltac:(lia) ltac:(lia)) as (s & Es & Ss).
  exists Y, M, D, h, m, s. repeat (split; [assumption|]).
  unfold render_field, render_field_with, rfc3339_prefix, e_civil, lit. fold c.
  cbn [app cat]. rewrite EY, EM, ED, Eh, Em, Es. cbn [bind app].
  rewrite ?app_nil_r, <- ?app_assoc. reflexivity.
Qed.

Theorem time_common_is_utc e : event_ok e = true ->
  let c := civil_of (e_unix e) in
  exists Y Mn D h m s,
    is_dec 4 (c_year c) Y = true /\ nth_error short_month_names (Z.to_nat (c_month c)) = Some Mn /\
    (1 <= c_month c <= 12)%Z /\ is_dec 2 (c_day c) D = true /\
    is_dec 2 (c_hour c) h = true /\ is_dec 2 (c_min c) m = true /\ is_dec 2 (c_sec c) s = true /\
    render_field FTimeCommon e =
      Ok (D ++ [47] ++ Mn ++ [47] ++ Y ++ [58] ++ h ++ [58] ++ m ++ [58] ++ s ++ [32;43;48;48;48;48]).
Proof.
  intros H c. unfold event_ok in H.
  repeat (apply andb_true_iff in H as [H ?]).
  repeat match goal with
         | X : (_ <=? _)%Z = true |- _ => apply Z.leb_le in X
         end.
  pose proof (civil_of_sane (e_unix e) ltac:(lia)) as (Hy & Hm & Hd & Hh & Hmi & Hs). fold c in Hy, Hm, Hd, Hh, Hmi, Hs.
  destruct (atoi_dec (c_year c) 4 ltac:(lia) ltac:(lia)) as (Y & EY & SY).
  destruct (atoi_dec (c_day c) 2 ltac:(lia) ltac:(lia)) as (D & ED & SD).
  destruct (atoi_dec (c_hour c) 2 ltac:(lia) ltac:(lia)) as (h & Eh & Sh).
  destruct (atoi_dec (c_min c) 2 ltac:(lia) ltac:(lia)) as (m & Em & Sm).
  destruct (atoi_dec (c_sec c) 2 ltac:(lia) ltac:(lia)) as (s & Es & Ss).
  destruct (month_name_ok (c_month c) Hm) as (Mn & EMn).
  assert (HMn : nth_error short_month_names (Z.to_nat (c_month c)) = Some Mn).
  { unfold month_name in EMn. destruct (c_month c <? 0)%Z; [discriminate|].
    destruct (nth_error short_month_names (Z.to_nat (c_month c))); congruence. }
  exists Y, Mn, D, h, m, s. repeat (split; [assumption|]).
  unfold render_field, render_field_with, e_civil, lit. fold c.
  cbn [cat]. rewrite EY, ED, Eh, Em, Es, EMn. cbn [bind app].
  rewrite ?app_nil_r, <- ?app_assoc. reflexivity.
Qed.
