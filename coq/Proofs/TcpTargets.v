(** Proofs about Model/TcpTargets.v: tcp.Proxy.ServeTCP on a route with several targets whose
    access rules differ and whose instances may be gone.  All target lists, all answers of Lookup,
    all aliveness functions, all peers. *)
From Coq Require Import String List NArith Bool Lia PeanoNat.
From Fabio Require Import Lib.Outcome Lib.Bytes Model.Access Proofs.Access Model.TcpTargets.
Import ListNotations.

Lemma looked_up_some ts c k i r :
  looked_up ts c k = Some (i, r) -> tc_pick c k = Some i /\ nth_error ts i = Some r.
Proof.
  unfold looked_up. destruct (tc_pick c k) as [j|]; [|discriminate].
  destruct (nth_error ts j) as [r'|] eqn:E; [|discriminate].
  intros [= <- <-]. split; [reflexivity | exact E].
Qed.

(* the four shapes of a trace *)
Lemma serve_tcp_route_cases ts c :
  (looked_up ts c 0 = None /\ serve_tcp_route ts c = [TLookup 0 None; TClose]) \/
  exists i r, looked_up ts c 0 = Some (i, r) /\
    ((access_denied_tcp r (tc_peer c) = true /\ serve_tcp_route ts c = [TLookup 0 (Some i); TClose]) \/
     (access_denied_tcp r (tc_peer c) = false /\ tc_alive c i = true /\
      serve_tcp_route ts c = [TLookup 0 (Some i); TDial i true; TTunnel i; TClose]) \/
     (access_denied_tcp r (tc_peer c) = false /\ tc_alive c i = false /\
      serve_tcp_route ts c = [TLookup 0 (Some i); TDial i false; TClose])).
Proof.
  unfold serve_tcp_route. destruct (looked_up ts c 0) as [[i r]|] eqn:L; [|left; split; reflexivity].
  right. exists i, r. split; [reflexivity|].
  destruct (access_denied_tcp r (tc_peer c)) eqn:D; [left; split; reflexivity|].
  destruct (tc_alive c i) eqn:A; [right; left | right; right]; repeat split; reflexivity.
Qed.

(* THE THEOREM: whatever the route's targets, whatever Lookup answers (at the first call and at any
   later one), whichever instances are gone: a target is dialled only if ITS OWN rules admit the peer *)
Theorem tcp_route_dial_only_admitted ts c i ok :
  In (TDial i ok) (serve_tcp_route ts c) ->
  exists r, nth_error ts i = Some r /\ access_denied_tcp r (tc_peer c) = false.
Proof.
  intros H. destruct (serve_tcp_route_cases ts c) as [[_ E]|(j & r & L & [[_ E]|[(D & _ & E)|(D & _ & E)]])];
    rewrite E in H; cbn [In] in H.
  - destruct H as [H|[H|[]]]; discriminate.
  - destruct H as [H|[H|[]]]; discriminate.
  - destruct H as [H|[H|[H|[H|[]]]]]; try discriminate. injection H as <- _.
    apply looked_up_some in L as [_ L]. now exists r.
  - destruct H as [H|[H|[H|[]]]]; try discriminate. injection H as <- _.
    apply looked_up_some in L as [_ L]. now exists r.
Qed.

Theorem tcp_route_tunnel_only_admitted ts c i :
  In (TTunnel i) (serve_tcp_route ts c) ->
  tc_pick c 0 = Some i /\ tc_alive c i = true /\
  exists r, nth_error ts i = Some r /\ access_denied_tcp r (tc_peer c) = false.
Proof.
  intros H. destruct (serve_tcp_route_cases ts c) as [[_ E]|(j & r & L & [[_ E]|[(D & A & E)|(D & _ & E)]])];
    rewrite E in H; cbn [In] in H.
  - destruct H as [H|[H|[]]]; discriminate.
  - destruct H as [H|[H|[]]]; discriminate.
  - destruct H as [H|[H|[H|[H|[]]]]]; try discriminate. injection H as <-.
    apply looked_up_some in L as [P L]. split; [exact P|]. split; [exact A|]. now exists r.
  - destruct H as [H|[H|[H|[]]]]; discriminate.
Qed.

(* the target Lookup returned rejects the peer: the connection is closed, nothing is dialled -
   whatever the other targets of the route would say *)
Theorem tcp_route_denied_closes ts c i r :
  tc_pick c 0 = Some i -> nth_error ts i = Some r -> access_denied_tcp r (tc_peer c) = true ->
  serve_tcp_route ts c = [TLookup 0 (Some i); TClose].
Proof.
  intros P L D. unfold serve_tcp_route, looked_up. now rewrite P, L, D.
Qed.

(* the dial to the admitted target fails: the connection is closed; no second Lookup, no other
   target is contacted *)
Theorem tcp_route_failed_dial_closes ts c i r :
  tc_pick c 0 = Some i -> nth_error ts i = Some r -> access_denied_tcp r (tc_peer c) = false ->
  tc_alive c i = false ->
  serve_tcp_route ts c = [TLookup 0 (Some i); TDial i false; TClose].
Proof.
  intros P L D A. unfold serve_tcp_route, looked_up. now rewrite P, L, D, A.
Qed.

Theorem tcp_route_one_lookup_at_most_one_dial ts c :
  lookups_of (serve_tcp_route ts c) = 1%N /\
  (List.length (filter is_dial (serve_tcp_route ts c)) <= 1)%nat /\
  forall j, (accepts_of (serve_tcp_route ts c) j <= 1)%N.
Proof.
  destruct (serve_tcp_route_cases ts c) as [[_ E]|(i & r & L & [[_ E]|[(D & _ & E)|(D & _ & E)]])];
    rewrite E; unfold lookups_of, accepts_of; cbn [filter is_lookup is_dial connected_to List.length];
    (split; [reflexivity|]); (split; [lia|]); intros j; try (cbn; lia).
  destruct (Nat.eqb j i); cbn [List.length]; lia.
Qed.

(* who is contacted: only the target of the first Lookup answer *)
Theorem tcp_route_contact_is_first_pick ts c i ok :
  In (TDial i ok) (serve_tcp_route ts c) -> tc_pick c 0 = Some i /\ ok = tc_alive c i.
Proof.
  intros H. destruct (serve_tcp_route_cases ts c) as [[_ E]|(j & r & L & [[_ E]|[(D & A & E)|(D & A & E)]])];
    rewrite E in H; cbn [In] in H.
  - destruct H as [H|[H|[]]]; discriminate.
  - destruct H as [H|[H|[]]]; discriminate.
  - destruct H as [H|[H|[H|[H|[]]]]]; try discriminate. injection H as <- <-.
    apply looked_up_some in L as [P _]. now rewrite A.
  - destruct H as [H|[H|[H|[]]]]; try discriminate. injection H as <- <-.
    apply looked_up_some in L as [P _]. now rewrite A.
Qed.

(* frame: the trace is a function of the peer, the FIRST answer of Lookup, that target's rules and
   whether that instance is alive.  The rules of the other targets, whether they are alive and what
   Lookup would answer when asked again do not occur in it. *)
Theorem tcp_route_reads_only_first_pick ts ts' c c' :
  tc_peer c = tc_peer c' -> tc_pick c 0 = tc_pick c' 0 ->
  (forall i, tc_pick c 0 = Some i -> nth_error ts i = nth_error ts' i /\ tc_alive c i = tc_alive c' i) ->
  serve_tcp_route ts c = serve_tcp_route ts' c'.
Proof.
  intros Hp Hk H. unfold serve_tcp_route, looked_up. rewrite <- Hk, <- Hp.
  destruct (tc_pick c 0) as [i|]; [|reflexivity].
  destruct (H i eq_refl) as [Hn Ha]. rewrite <- Hn.
  destruct (nth_error ts i) as [r|]; [|reflexivity]. now rewrite <- Ha.
Qed.

(* composed with the meaning of the lists: the dialled target's allow list has a block containing
   the peer; no block of its deny list contains it *)
Theorem tcp_route_dial_allow_list ts c i ok ip r l :
  In (TDial i ok) (serve_tcp_route ts c) -> tc_peer c = TCPAddr (Some ip) ->
  nth_error ts i = Some r -> r_allow r = Some l ->
  exists b, In b l /\ contains b ip = true.
Proof.
  intros H Hp Hn Ha. apply tcp_route_dial_only_admitted in H as (r' & Hn' & D).
  rewrite Hn in Hn'. injection Hn' as <-. rewrite Hp, tcp_peer_checked in D.
  now apply (allow_only_inside _ _ _ Ha).
Qed.

Theorem tcp_route_dial_deny_list ts c i ok ip r l b :
  In (TDial i ok) (serve_tcp_route ts c) -> tc_peer c = TCPAddr (Some ip) ->
  nth_error ts i = Some r -> r_allow r = None -> r_deny r = Some l -> In b l ->
  contains b ip = false.
Proof.
  intros H Hp Hn Ha Hd Hin. apply tcp_route_dial_only_admitted in H as (r' & Hn' & D).
  rewrite Hn in Hn'. injection Hn' as <-. rewrite Hp, tcp_peer_checked in D.
  destruct (contains b ip) eqn:C; [|reflexivity].
  rewrite (deny_inside _ _ _ _ Ha Hd Hin C) in D. discriminate.
Qed.

(* a listener's connections: each one is judged alone, whatever was served before or after *)
Theorem tcp_conns_each_judged_alone ts pre c post :
  nth (List.length pre) (serve_tcp_conns ts (pre ++ c :: post)) [] = serve_tcp_route ts c.
Proof.
  unfold serve_tcp_conns. rewrite map_app. cbn [map].
  rewrite app_nth2; rewrite map_length; [|lia]. now rewrite Nat.sub_diag.
Qed.

Theorem tcp_conns_dial_only_admitted ts cs n c i ok :
  nth_error cs n = Some c -> In (TDial i ok) (nth n (serve_tcp_conns ts cs) []) ->
  exists r, nth_error ts i = Some r /\ access_denied_tcp r (tc_peer c) = false.
Proof.
  intros Hn H. apply nth_error_split in Hn as (pre & post & -> & <-).
  rewrite tcp_conns_each_judged_alone in H. now apply tcp_route_dial_only_admitted in H.
Qed.

(* ---- non-vacuity: a route with a gone instance that admits 127.0.0.0/8 and a live instance that
        admits 10.0.0.0/8 only; round robin (the k-th Lookup answers target k).  A peer 127.0.0.1:
        the first target admits it and its dial fails - the connection is closed, the live
        instance, whose rules reject the peer, is not contacted.  A peer 10.1.1.1 on the same pick:
        closed without a dial.  The same two peers when Lookup answers the live target first. ---- *)
Definition ex_allow_127 : rules :=
  {| r_allow := Some [{| n_ip := IP4 2130706432; n_ones := 8; n_m16 := false |}]; r_deny := None |}.
Definition ex_targets : list rules := [ex_allow_127; ex_allow_10].
Definition ex_conn (ip : N) (first : nat) : tconn :=
  {| tc_peer := TCPAddr (Some (IP4 ip)); tc_pick := fun k => Some ((first + k) mod 2)%nat;
     tc_alive := fun i => Nat.eqb i 1 |}.

Theorem tcp_route_nonvacuous :
  serve_tcp_route ex_targets (ex_conn 2130706433 0) = [TLookup 0 (Some 0%nat); TDial 0 false; TClose] /\
  access_denied_tcp ex_allow_10 (TCPAddr (Some (IP4 2130706433))) = true /\
  tc_pick (ex_conn 2130706433 0) 1 = Some 1%nat /\ tc_alive (ex_conn 2130706433 0) 1 = true /\
  serve_tcp_route ex_targets (ex_conn 167837953 0) = [TLookup 0 (Some 0%nat); TClose] /\
  serve_tcp_route ex_targets (ex_conn 2130706433 1) = [TLookup 0 (Some 1%nat); TClose] /\
  serve_tcp_route ex_targets (ex_conn 167837953 1) = [TLookup 0 (Some 1%nat); TDial 1 true; TTunnel 1; TClose].
Proof. repeat split; vm_compute; reflexivity. Qed.
