From Coq Require Import String List NArith Bool Lia Arith.
From Fabio Require Import Lib.Outcome Lib.Bytes Model.CertStore Proofs.CertStore Model.CertDeploy.
Import ListNotations.
Local Open Scope N_scope.

(* ================= loadPath: what a directory state is read as ================= *)
(* spec: the certificate directory as a reader of its *.pem names sees it.  An entry is
   [wanted] when it is not a directory, its name ends in .pem and is not hidden, and Lstat
   does not report more than MaxSize; the directory reads as an error when a wanted entry
   cannot be read, else as the bytes behind every wanted name.  No walk, no accumulator,
   and nothing but the comparison with MaxSize looks at size or modification time. *)
Definition wanted (pe : str * dentry) : bool :=
  negb (is_dir (snd pe)) && pem_name (fst pe) && (d_size (snd pe) <=? max_size).
Definition unreadable (pe : str * dentry) : bool :=
  match d_read (snd pe) with None => true | Some _ => false end.
Definition read_of (pe : str * dentry) : blocks :=
  match d_read (snd pe) with Some f => [(fst pe, f)] | None => [] end.
Definition dir_view (d : dirstate) : load :=
  let w := filter wanted d in
  if existsb unreadable w then LoadErr else Loaded (Some (flat_map read_of w)).

Lemma walk_view d : forall acc,
  walk d acc = if existsb unreadable (filter wanted d) then None
               else Some (acc ++ flat_map read_of (filter wanted d)).
Proof.
  induction d as [|[p e] r IH]; intros acc.
  - cbn [walk filter existsb flat_map]. now rewrite app_nil_r.
  - cbn [walk filter].
    assert (W : wanted (p, e) = negb (is_dir e) && pem_name p && (d_size e <=? max_size)) by reflexivity.
    rewrite W. clear W.
    destruct (is_dir e); cbn [negb andb]; [apply IH|].
    destruct (pem_name p); cbn [negb andb]; [|apply IH].
    rewrite N.ltb_antisym. destruct (d_size e <=? max_size); cbn [negb]; [|apply IH].
    cbn [existsb flat_map]. unfold unreadable at 1, read_of at 1. cbn [fst snd].
    destruct (d_read e) as [f|]; cbn [orb]; [|reflexivity].
    rewrite IH. destruct (existsb unreadable (filter wanted r)); [reflexivity|].
    now rewrite <- app_assoc.
Qed.
Lemma dir_load_view d : dir_load d = dir_view d.
Proof.
  unfold dir_load, dir_view. rewrite walk_view.
  now destruct (existsb unreadable (filter wanted d)).
Qed.

(* the two halves of the view, as statements about the directory *)
Lemma dir_load_error_iff d :
  dir_load d = LoadErr <->
  exists p e, In (p, e) d /\ wanted (p, e) = true /\ d_read e = None.
Proof.
  rewrite dir_load_view. unfold dir_view.
  destruct (existsb unreadable (filter wanted d)) eqn:E; split; intros H; try discriminate; try reflexivity.
  - apply existsb_exists in E as ([p e] & Hin & Hu). apply filter_In in Hin as [Hin Hw].
    exists p, e. repeat split; auto. unfold unreadable in Hu. cbn [snd] in Hu. now destruct (d_read e).
  - exfalso. destruct H as (p & e & Hin & Hw & Hr).
    assert (X : existsb unreadable (filter wanted d) = true).
    { apply existsb_exists. exists (p, e). split; [apply filter_In; auto|].
      unfold unreadable. cbn [snd]. now rewrite Hr. }
    congruence.
Qed.
Lemma dir_load_blocks d b :
  dir_load d = Loaded (Some b) ->
  forall p f, In (p, f) b <-> exists e, In (p, e) d /\ wanted (p, e) = true /\ d_read e = Some f.
Proof.
  rewrite dir_load_view. unfold dir_view.
  destruct (existsb unreadable (filter wanted d)); [discriminate|].
  intros H. inversion H; subst b. clear H. intros p f. rewrite in_flat_map. split.
  - intros ([q e] & Hin & Hr). apply filter_In in Hin as [Hin Hw].
    unfold read_of in Hr. cbn [fst snd] in Hr. destruct (d_read e) as [g|] eqn:R; [|contradiction].
    destruct Hr as [Hr|[]]. inversion Hr; subst. exists e. auto.
  - intros (e & Hin & Hw & Hr). exists (p, e). split; [apply filter_In; auto|].
    unfold read_of. cbn [fst snd]. rewrite Hr. now left.
Qed.

(* two directory states that differ only in what Lstat reports - kind (regular file or
   symbolic link), size (on the same side of MaxSize), modification time - read the same *)
Definition same_content (x y : str * dentry) : Prop :=
  fst x = fst y /\ is_dir (snd x) = is_dir (snd y) /\
  (d_size (snd x) <=? max_size) = (d_size (snd y) <=? max_size) /\
  d_read (snd x) = d_read (snd y).
Lemma walk_ignores_metadata d d' : Forall2 same_content d d' -> forall acc, walk d acc = walk d' acc.
Proof.
  induction 1 as [|[p e] [p' e'] r r' (Hp & Hd & Hs & Hr) _ IH]; intros acc; [reflexivity|].
  cbn [fst snd] in *. subst p'. cbn [walk]. rewrite <- Hd.
  destruct (is_dir e); [apply IH|]. destruct (pem_name p); cbn [negb]; [|apply IH].
  rewrite !N.ltb_antisym, <- Hs, <- Hr.
  destruct (d_size e <=? max_size); cbn [negb]; [|apply IH].
  destruct (d_read e); [apply IH|reflexivity].
Qed.
Lemma dir_load_ignores_metadata d d' : Forall2 same_content d d' -> dir_load d = dir_load d'.
Proof. intros H. unfold dir_load. now rewrite (walk_ignores_metadata d d' H). Qed.

(* ================= what a handshake sees, by names ================= *)
Lemma seen_on_member cur n s c :
  seen_on cur n s = SCert c -> exists i, store_pick cur n s = PCert i /\ nth_error cur i = Some c.
Proof.
  unfold seen_on. destruct (store_pick cur n s) as [i| |]; try discriminate.
  destruct (nth_error cur i) as [d|] eqn:E; try discriminate.
  intros H. inversion H; subst. eauto.
Qed.
Lemma seen_on_inside cur n s i : seen_on cur n s <> SOutside i.
Proof.
  unfold seen_on. destruct (store_pick cur n s) as [j| |] eqn:P; try discriminate.
  apply pick_in_set in P. destruct (nth_error cur j) eqn:E; [discriminate|].
  apply nth_error_None in E. lia.
Qed.
Definition pick_of_seen (cur : certset) (x : seen) (p : pick) : Prop :=
  match x, p with
  | SCert c, PCert i => nth_error cur i = Some c
  | SNone, PNone => True
  | SErrNoCerts, PErrNoCerts => True
  | _, _ => False
  end.
Lemma seen_on_pick cur n s : pick_of_seen cur (seen_on cur n s) (store_pick cur n s).
Proof.
  unfold seen_on. destruct (store_pick cur n s) as [i| |] eqn:P; cbn; auto.
  destruct (nth_error cur i) eqn:E; cbn; auto.
  apply pick_in_set in P. apply nth_error_None in E. lia.
Qed.

Lemma watch_step_store_seen last cur l ev last' stop :
  linked last cur -> watch_step false last l = (ev, last', stop) ->
  stop = false /\ linked last' (match usable l with Some s => s | None => cur end) /\
  forall rest, run_store_seen cur (store_actions ev ++ rest) =
               run_store_seen (match usable l with Some s => s | None => cur end) rest.
Proof.
  intros Hl. unfold watch_step. destruct l as [|next].
  - intros H. inversion H; subst. cbn [usable]. auto.
  - destruct (same_blocks next last) eqn:E.
    + apply same_blocks_eq in E. subst next. intros H. inversion H; subst.
      destruct last' as [m|].
      * cbn [linked] in Hl. rewrite Hl. auto.
      * assert (U : usable (Loaded None) = None) by (vm_compute; reflexivity). rewrite U. auto.
    + unfold usable. destruct (built next) as [[|c r] [|]] eqn:B; intros H; inversion H; subst; auto.
      split; [reflexivity|]. split; [|reflexivity].
      destruct last' as [m|]; [|exact I]. cbn [linked]. unfold usable. now rewrite B.
Qed.
Lemma e2e_seen : forall script last cur n s,
  linked last cur ->
  run_store_seen cur (e2e_actions watch_step false last script n s) =
  map (fun k => seen_on (last_good cur (firstn (S k) script)) n s) (seq 0 (length script)).
Proof.
  unfold e2e_actions.
  induction script as [|l r IH]; intros last cur n s Hl; [reflexivity|].
  cbn [watch_iters]. destruct (watch_step false last l) as [[ev last'] stop] eqn:E.
  destruct (watch_step_store_seen _ _ _ _ _ _ Hl E) as (-> & Hl' & Hrun).
  cbn [flat_map]. rewrite <- app_assoc, Hrun. cbn [app run_store_seen].
  cbn [length seq map firstn last_good]. f_equal.
  set (cur' := match usable l with Some s0 => s0 | None => cur end) in *.
  etransitivity; [exact (IH last' cur' n s Hl')|].
  rewrite <- seq_shift, map_map. reflexivity.
Qed.
Lemma nth_map_seq {A} (f : nat -> A) m k d : (k < m)%nat -> nth k (map f (seq 0 m)) d = f k.
Proof.
  intros H. rewrite (nth_indep _ d (f 0%nat)) by (now rewrite map_length, seq_length).
  rewrite (map_nth f). now rewrite seq_nth.
Qed.

(* ================= histories of directory states ================= *)
(* for every history of states of the certificate directory - whatever the way a state is
   brought about: files rewritten, files replaced by files of the same size and time,
   symbolic links whose targets are exchanged - loadPath -> watch -> store composed: the
   handshake after every state is answered from the last state of the prefix that READS as a
   usable set ([dir_view]) *)
Lemma directory_history dirs n s :
  run_store_seen [] (e2e_actions watch_step false None (map dir_load dirs) n s) =
  map (fun k => seen_on (last_good [] (firstn (S k) (map dir_view dirs))) n s) (seq 0 (length dirs)).
Proof.
  rewrite (e2e_seen (map dir_load dirs) None [] n s I), map_length.
  apply map_ext. intros k. do 3 f_equal. apply map_ext, dir_load_view.
Qed.
Lemma directory_last dirs d n s :
  nth (length dirs) (run_store_seen [] (e2e_actions watch_step false None (map dir_load (dirs ++ [d])) n s)) SNone
  = seen_on (last_good [] (map dir_view (dirs ++ [d]))) n s.
Proof.
  rewrite directory_history.
  assert (L : length (dirs ++ [d]) = S (length dirs)) by (rewrite app_length; cbn; lia).
  rewrite nth_map_seq by lia.
  rewrite firstn_all2; [reflexivity|]. rewrite map_length. lia.
Qed.
(* a state that reads as a usable set takes effect, whatever came before it *)
Lemma new_directory_content_takes_effect dirs d set n s :
  usable (dir_view d) = Some set ->
  nth (length dirs) (run_store_seen [] (e2e_actions watch_step false None (map dir_load (dirs ++ [d])) n s)) SNone
  = seen_on set n s.
Proof.
  intros U. rewrite directory_last, map_app, last_good_app. cbn [map last_good]. now rewrite U.
Qed.
(* a state that does not leaves the working set where it was *)
Lemma unusable_directory_keeps_set dirs d n s :
  usable (dir_view d) = None ->
  nth (length dirs) (run_store_seen [] (e2e_actions watch_step false None (map dir_load (dirs ++ [d])) n s)) SNone
  = seen_on (last_good [] (map dir_view dirs)) n s.
Proof.
  intros U. rewrite directory_last, map_app, last_good_app. cbn [map last_good]. now rewrite U.
Qed.

(* a release switch: the entries of the certificate directory are symbolic links into
   ../current, and `current` is exchanged; Lstat reports the same for both states *)
Definition sym (size mtime : N) (f : pfile) : dentry :=
  {| d_kind := KSymlink; d_size := size; d_mtime := mtime; d_read := Some f |}.
Definition reg (size mtime : N) (f : pfile) : dentry :=
  {| d_kind := KRegular; d_size := size; d_mtime := mtime; d_read := Some f |}.
Definition rel_v1_cert : cert := [bs "shop.example"; bs "v1.shop.example"].
Definition rel_v2_cert : cert := [bs "shop.example"; bs "v2.shop.example"].
Definition release_v1 : dirstate :=
  [(bs "shop-cert.pem", sym 24 5 (pf 1 (Some (7, rel_v1_cert)) None));
   (bs "shop-key.pem", sym 23 5 (pf 2 None (Some 7)))].
Definition release_v2 : dirstate :=
  [(bs "shop-cert.pem", sym 24 5 (pf 3 (Some (7, rel_v2_cert)) None));
   (bs "shop-key.pem", sym 23 5 (pf 2 None (Some 7)))].
(* a renewal deployed with the old file's size and time (cp -p, rsync -t, tar) *)
Definition renewed_same_stat : dirstate :=
  [(bs "shop-cert.pem", reg 640 9 (pf 4 (Some (7, rel_v2_cert)) None));
   (bs "shop-key.pem", reg 227 9 (pf 2 None (Some 7)))].
Definition deployed_v1 : dirstate :=
  [(bs "shop-cert.pem", reg 640 9 (pf 1 (Some (7, rel_v1_cert)) None));
   (bs "shop-key.pem", reg 227 9 (pf 2 None (Some 7)))].
Definition same_stat (x y : str * dentry) : Prop :=
  fst x = fst y /\ d_kind (snd x) = d_kind (snd y) /\ d_size (snd x) = d_size (snd y) /\ d_mtime (snd x) = d_mtime (snd y).
Example directory_switch_example :
  Forall2 same_stat release_v1 release_v2 /\ Forall2 same_stat deployed_v1 renewed_same_stat /\
  usable (dir_view release_v2) = Some [rel_v2_cert] /\
  run_store_seen [] (e2e_actions watch_step false None
                       (map dir_load [release_v1; release_v2; release_v2; release_v1; deployed_v1; renewed_same_stat])
                       (bs "shop.example") true)
  = [SCert rel_v1_cert; SCert rel_v2_cert; SCert rel_v2_cert; SCert rel_v1_cert; SCert rel_v1_cert; SCert rel_v2_cert].
Proof.
  split; [|split; [|split]]; [| |vm_compute; reflexivity|vm_compute; reflexivity];
    repeat constructor.
Qed.
(* a loader that reads a file again only when Lstat reports another size or time does not
   have the property: the release switch and the renewal above never take effect *)
Lemma stat_cache_refuted :
  exists d1 d2 n s set,
    Forall2 same_stat d1 d2 /\ usable (dir_view d2) = Some set /\
    nth 1 (run_store_seen [] (e2e_actions watch_step false None (stat_cached_loads [] [d1; d2]) n s)) SNone
      <> seen_on set n s /\
    nth 1 (run_store_seen [] (e2e_actions watch_step false None (map dir_load [d1; d2]) n s)) SNone
      = seen_on set n s.
Proof.
  exists release_v1, release_v2, (bs "shop.example"), true, [rel_v2_cert].
  split; [repeat constructor|]. split; [vm_compute; reflexivity|].
  split; [vm_compute; discriminate|vm_compute; reflexivity].
Qed.
(* entries loadPath leaves alone or stumbles over *)
Example dir_load_example :
  dir_load [(bs ".hidden.pem", reg 10 1 (pf 9 None None));
            (bs "README", reg 10 1 (pf 9 None None));
            (bs "big.pem", reg 1048577 1 (pf 8 None None));
            (bs "old", {| d_kind := KDir; d_size := 4096; d_mtime := 1; d_read := None |});
            (bs "old/.keep.pem", reg 10 1 (pf 9 None None));
            (bs "old/x.pem", sym 9 1 (pf 1 (Some (7, rel_v1_cert)) (Some 7)));
            (bs "x.pem.bak", reg 10 1 (pf 9 None None))]
  = Loaded (Some [(bs "old/x.pem", pf 1 (Some (7, rel_v1_cert)) (Some 7))])
  /\ dir_load [(bs "a.pem", reg 10 1 (pf 1 (Some (7, rel_v1_cert)) (Some 7)));
               (bs "gone.pem", {| d_kind := KSymlink; d_size := 12; d_mtime := 1; d_read := None |})]
  = LoadErr.
Proof. vm_compute. split; reflexivity. Qed.

(* ================= one tls.Config per listener ================= *)
Lemma last_map_seq {A} (f : nat -> A) m d : last (map f (seq 0 (S m))) d = f m.
Proof. rewrite seq_S, map_app. cbn [map Nat.add]. apply last_last. Qed.
(* the handshake on a tls.Config after the whole history of its source: answered from the
   last usable load of that source, in the strictness the tls.Config was made with *)
Lemma conf_answer_spec srcs cs strict n :
  conf_answer srcs (Some (cs, strict)) n =
  Some (store_pick (last_good [] (history_of srcs cs)) n strict).
Proof.
  unfold conf_answer, conf_handshakes. rewrite e2e_periodic_from_start. f_equal.
  destruct (length (history_of srcs cs)) as [|m] eqn:L.
  - apply length_zero_iff_nil in L. rewrite L. cbn [seq map last last_good]. now rewrite empty_store_err.
  - rewrite last_map_seq. rewrite firstn_all2 by lia. reflexivity.
Qed.
(* every listener of every configuration: its handshakes are answered from ITS source in ITS
   OWN strictmatch setting, whatever the other listeners of the configuration are, wherever
   it stands in the list *)
Lemma listener_answer_own srcs ls k l n :
  nth_error ls k = Some l -> l_cs l <> [] ->
  nth_error (listener_answers srcs ls n) k =
  Some (Some (store_pick (last_good [] (history_of srcs (l_cs l))) n (l_strict l))).
Proof.
  intros Hk Hcs. unfold listener_answers, start_listeners.
  rewrite map_map. rewrite (map_nth_error _ _ _ Hk). f_equal.
  unfold make_tls_config. destruct (l_cs l) as [|c r] eqn:E; [contradiction|].
  apply conf_answer_spec.
Qed.
Lemma listener_plain srcs ls k l n :
  nth_error ls k = Some l -> l_cs l = [] -> nth_error (listener_answers srcs ls n) k = Some None.
Proof.
  intros Hk Hcs. unfold listener_answers, start_listeners.
  rewrite map_map. rewrite (map_nth_error _ _ _ Hk). f_equal.
  unfold make_tls_config. now rewrite Hcs.
Qed.
Lemma listener_independent srcs ls k l n :
  nth_error ls k = Some l ->
  nth_error (listener_answers srcs ls n) k = nth_error (listener_answers srcs [l] n) 0.
Proof.
  intros Hk. unfold listener_answers, start_listeners.
  rewrite !map_map. now rewrite (map_nth_error _ _ _ Hk).
Qed.
Definition site_blocks : blocks :=
  [(bs "a-cert.pem", pf 1 (Some (7, [bs "a.example"])) None); (bs "a-key.pem", pf 2 None (Some 7));
   (bs "b-cert.pem", pf 3 (Some (7, [bs "*.b.example"])) None); (bs "b-key.pem", pf 2 None (Some 7))].
Definition site_srcs : sources := [(bs "site", [Loaded (Some site_blocks)])].
Definition lenient_then_strict : list listener :=
  [{| l_cs := bs "site"; l_strict := false |}; {| l_cs := []; l_strict := false |};
   {| l_cs := bs "site"; l_strict := true |}].
Example listener_example :
  nth_error lenient_then_strict 2 = Some {| l_cs := bs "site"; l_strict := true |} /\
  bs "site" <> [] /\
  listener_answers site_srcs lenient_then_strict (bs "unknown.example") = [Some (PCert 0); None; Some PNone] /\
  listener_answers site_srcs (rev lenient_then_strict) (bs "unknown.example") = [Some PNone; None; Some (PCert 0)] /\
  listener_answers site_srcs lenient_then_strict (bs "X.b.example.") = [Some (PCert 1); None; Some (PCert 1)].
Proof. vm_compute. repeat split; discriminate. Qed.
(* listeners of one certificate source sharing the tls.Config made first: the later listener
   answers in the first one's strictness - a strict listener presents the first certificate
   for a name no certificate covers, a lenient one refuses it *)
Lemma shared_config_refuted :
  exists srcs ls n l,
    nth_error ls 2 = Some l /\ l_strict l = true /\
    nth_error (listener_answers_sharing srcs ls n) 2 = Some (Some (PCert 0)) /\
    nth_error (listener_answers srcs ls n) 2 = Some (Some PNone) /\
    nth_error (listener_answers_sharing srcs (rev ls) n) 2 = Some (Some PNone) /\
    nth_error (listener_answers srcs (rev ls) n) 2 = Some (Some (PCert 0)).
Proof.
  exists site_srcs, lenient_then_strict, (bs "unknown.example"), {| l_cs := bs "site"; l_strict := true |}.
  vm_compute. repeat split.
Qed.

(* ================= a certificate file that is there with nothing in it ================= *)
(* A wanted entry of the directory that reads as a file in which tls.X509KeyPair finds neither
   a certificate nor a key - a file of zero length (truncated by an interrupted rewrite, a full
   disk, an O_TRUNC rewrite seen half-way), blanks, a placeholder - whatever size Lstat
   reports for it, 0 included: the directory does not read as a usable set.  It is never read
   as the smaller set of the remaining files. *)
Lemma has_suffix_skipn p s k : has_suffix (skipn k p) s = true -> has_suffix p s = true.
Proof.
  intros H. apply has_suffix_spec in H as [r Hr]. apply has_suffix_spec.
  exists (firstn k p ++ r). rewrite <- app_assoc, <- Hr. symmetry. apply firstn_skipn.
Qed.
Lemma pem_name_suffix p : pem_name p = true -> has_suffix p s_pem = true.
Proof.
  unfold pem_name, base_name. intros H. apply andb_prop in H as [H _].
  destruct (last_index_byte p 47) as [i|]; [now apply has_suffix_skipn in H|exact H].
Qed.
Lemma blocks_find_in m : NoDup (map fst m) -> forall p f, In (p, f) m -> blocks_find m p = Some f.
Proof.
  induction m as [|[k v] r IH]; intros Hnd p f Hin; [contradiction|].
  cbn [map fst] in Hnd. inversion Hnd as [|? ? Hk Hr]; subst.
  cbn [blocks_find]. destruct Hin as [Heq|Hin].
  - inversion Heq; subst. now rewrite beq_refl.
  - destruct (beq k p) eqn:E; [|now apply IH].
    apply beq_eq in E. subst k. exfalso. apply Hk. apply in_map_iff. now exists (p, f).
Qed.
(* the file itself is (one half of) a pair that cannot be made *)
Lemma nothing_in_file_no_pair m p f :
  pem_name p = true -> blocks_find m p = Some f -> f_cert f = None -> f_key f = None ->
  exists cf kf, classify p = Some (cf, kf) /\ key_pair m cf kf = None.
Proof.
  intros Hp Hf Hc Hk. apply pem_name_suffix in Hp. unfold classify.
  destruct (has_suffix p s_cert).
  - eexists _, _. split; [reflexivity|]. now apply (no_cert_no_pair m _ _ f).
  - destruct (has_suffix p s_key).
    + eexists _, _. split; [reflexivity|]. now apply (no_key_no_pair m _ _ f).
    + rewrite Hp. eexists _, _. split; [reflexivity|]. now apply (no_cert_no_pair m _ _ f).
Qed.
Lemma view_names_in d p :
  In p (map fst (flat_map read_of (filter wanted d))) -> In p (map fst d).
Proof.
  intros H. apply in_map_iff in H as ([q f] & Hq & Hin). cbn [fst] in Hq. subst q.
  apply in_flat_map in Hin as ([q e] & Hin & Hr). apply filter_In in Hin as [Hin _].
  unfold read_of in Hr. cbn [fst snd] in Hr. destruct (d_read e); [|contradiction].
  destruct Hr as [Hr|[]]. inversion Hr; subst. apply in_map_iff. now exists (p, e).
Qed.
Lemma view_names_nodup d :
  NoDup (map fst d) -> NoDup (map fst (flat_map read_of (filter wanted d))).
Proof.
  induction d as [|[p e] r IH]; intros Hnd; [constructor|].
  cbn [map fst] in Hnd. inversion Hnd as [|? ? Hp Hr]; subst.
  cbn [filter]. destruct (wanted (p, e)); [|now apply IH].
  cbn [flat_map]. unfold read_of at 1. cbn [fst snd].
  destruct (d_read e) as [f|]; cbn [app map fst]; [|now apply IH].
  constructor; [|now apply IH]. intros H. apply Hp. now apply view_names_in.
Qed.
Lemma nothing_in_file_unusable d p e f :
  NoDup (map fst d) -> In (p, e) d -> wanted (p, e) = true -> d_read e = Some f ->
  f_cert f = None -> f_key f = None ->
  usable (dir_view d) = None.
Proof.
  intros Hnd Hin Hw Hr Hc Hk. unfold dir_view.
  destruct (existsb unreadable (filter wanted d)); [reflexivity|].
  set (b := flat_map read_of (filter wanted d)).
  assert (Hb : In (p, f) b).
  { apply in_flat_map. exists (p, e). split; [apply filter_In; auto|].
    unfold read_of. cbn [fst snd]. rewrite Hr. now left. }
  assert (Hf : blocks_find b p = Some f) by (apply blocks_find_in; [now apply view_names_nodup|exact Hb]).
  assert (Hp : pem_name p = true).
  { unfold wanted in Hw. cbn [fst snd] in Hw. apply andb_prop in Hw as [Hw _]. now apply andb_prop in Hw as [_ Hw]. }
  destruct (nothing_in_file_no_pair b p f Hp Hf Hc Hk) as (cf & kf & Hcl & Hkp).
  apply load_error_unusable. apply (unusable_entry_fails_load b p cf kf); auto.
  apply in_map_iff. now exists (p, f).
Qed.
(* ... so after every history the handshake after such a state is presented what the one
   before it was: the working set stays, the certificate of the emptied file included *)
Lemma nothing_in_file_keeps_set dirs d p e f n s :
  NoDup (map fst d) -> In (p, e) d -> wanted (p, e) = true -> d_read e = Some f ->
  f_cert f = None -> f_key f = None ->
  nth (length dirs) (run_store_seen [] (e2e_actions watch_step false None (map dir_load (dirs ++ [d])) n s)) SNone
  = seen_on (last_good [] (map dir_view dirs)) n s.
Proof.
  intros Hnd Hin Hw Hr Hc Hk. apply unusable_directory_keeps_set.
  now apply (nothing_in_file_unusable d p e f).
Qed.

(* two sites, each in a combined file; then shop.pem truncated to zero bytes; then main as a
   pair beside shop, both files of the pair empty at once; then the renewal *)
Definition nothing : pfile := pf 0 None None.
Definition main_cert : cert := [bs "main.example"].
Definition shop_v1 : dirstate :=
  [(bs "00-main.pem", reg 800 1 (pf 1 (Some (7, main_cert)) (Some 7)));
   (bs "shop.pem", reg 810 1 (pf 2 (Some (7, rel_v1_cert)) (Some 7)))].
Definition shop_truncated : dirstate :=
  [(bs "00-main.pem", reg 800 1 (pf 1 (Some (7, main_cert)) (Some 7)));
   (bs "shop.pem", reg 0 2 nothing)].
Definition shop_pair_v1 : dirstate :=
  [(bs "00-main.pem", reg 800 1 (pf 1 (Some (7, main_cert)) (Some 7)));
   (bs "shop-cert.pem", reg 640 3 (pf 3 (Some (7, rel_v1_cert)) None));
   (bs "shop-key.pem", reg 227 3 (pf 4 None (Some 7)))].
Definition shop_pair_empty : dirstate :=
  [(bs "00-main.pem", reg 800 1 (pf 1 (Some (7, main_cert)) (Some 7)));
   (bs "shop-cert.pem", reg 0 4 nothing);
   (bs "shop-key.pem", reg 0 4 nothing)].
Definition shop_pair_v2 : dirstate :=
  [(bs "00-main.pem", reg 800 1 (pf 1 (Some (7, main_cert)) (Some 7)));
   (bs "shop-cert.pem", reg 640 5 (pf 5 (Some (7, rel_v2_cert)) None));
   (bs "shop-key.pem", reg 227 5 (pf 4 None (Some 7)))].
Definition zero_length_history : list dirstate :=
  [shop_v1; shop_truncated; shop_pair_v1; shop_pair_empty; shop_pair_empty; shop_pair_v2].
Example zero_length_example :
  NoDup (map fst shop_truncated) /\
  In (bs "shop.pem", reg 0 2 nothing) shop_truncated /\
  wanted (bs "shop.pem", reg 0 2 nothing) = true /\
  d_size (reg 0 2 nothing) = 0 /\ f_cert nothing = None /\ f_key nothing = None /\
  usable (dir_view shop_truncated) = None /\ usable (dir_view shop_pair_empty) = None /\
  run_store_seen [] (e2e_actions watch_step false None (map dir_load zero_length_history) (bs "shop.example") true)
  = [SCert rel_v1_cert; SCert rel_v1_cert; SCert rel_v1_cert; SCert rel_v1_cert; SCert rel_v1_cert; SCert rel_v2_cert] /\
  run_store_seen [] (e2e_actions watch_step false None (map dir_load zero_length_history) (bs "shop.example") false)
  = [SCert rel_v1_cert; SCert rel_v1_cert; SCert rel_v1_cert; SCert rel_v1_cert; SCert rel_v1_cert; SCert rel_v2_cert].
Proof.
  split; [repeat constructor; cbn; intuition discriminate|].
  split; [right; now left|].
  vm_compute. repeat split.
Qed.
(* a loader that leaves out the entries Lstat reports as empty does not have the property: the
   truncated file vanishes from the material, the remaining files are published as a smaller
   set, and the name served from the truncated file is presented another site's certificate -
   or, on a strict listener, none *)
Lemma skip_empty_files_refuted :
  exists dirs d p e f n,
    NoDup (map fst d) /\ In (p, e) d /\ wanted (p, e) = true /\ d_read e = Some f /\
    f_cert f = None /\ f_key f = None /\ d_size e = 0 /\
    seen_on (last_good [] (map dir_view dirs)) n false = SCert rel_v1_cert /\
    nth (length dirs) (run_store_seen [] (e2e_actions watch_step false None (map dir_load_skipping_empty (dirs ++ [d])) n false)) SNone
      = SCert main_cert /\
    nth (length dirs) (run_store_seen [] (e2e_actions watch_step false None (map dir_load_skipping_empty (dirs ++ [d])) n true)) SErrNoCerts
      = SNone /\
    nth (length dirs) (run_store_seen [] (e2e_actions watch_step false None (map dir_load (dirs ++ [d])) n false)) SNone
      = SCert rel_v1_cert /\
    nth (length dirs) (run_store_seen [] (e2e_actions watch_step false None (map dir_load (dirs ++ [d])) n true)) SNone
      = SCert rel_v1_cert.
Proof.
  exists [shop_v1], shop_truncated, (bs "shop.pem"), (reg 0 2 nothing), nothing, (bs "shop.example").
  split; [repeat constructor; cbn; intuition discriminate|].
  split; [right; now left|].
  vm_compute. repeat split.
Qed.
(* ... and the same with both files of a pair empty at once *)
Lemma skip_empty_pair_refuted :
  usable (dir_view shop_pair_empty) = None /\
  nth 1 (run_store_seen [] (e2e_actions watch_step false None (map dir_load_skipping_empty [shop_pair_v1; shop_pair_empty]) (bs "shop.example") true)) SErrNoCerts
    = SNone /\
  nth 1 (run_store_seen [] (e2e_actions watch_step false None (map dir_load [shop_pair_v1; shop_pair_empty]) (bs "shop.example") true)) SNone
    = SCert rel_v1_cert.
Proof. vm_compute. repeat split. Qed.

(* ================= the configured path leads through symbolic links ================= *)
(* spec: what the configured path reads as at one moment is what the place it denotes AT THAT
   MOMENT reads as - nothing there: nothing; not a directory: that one entry; a directory:
   its view.  Where the path led earlier does not occur. *)
Definition root_view (r : rootview) : load :=
  match r with
  | RAbsent => Loaded (Some [])
  | RFile name e => dir_view [(name, e)]
  | RDir d => dir_view d
  end.
Definition world_view (w : world) : load := root_view (denoted w).
Lemma root_load_view r : root_load r = root_view r.
Proof. destruct r; cbn [root_load root_view]; [reflexivity| |]; apply dir_load_view. Qed.
Lemma path_load_view w : path_load w = world_view w.
Proof. apply root_load_view. Qed.
(* for every history of file trees - whichever links on the path were re-pointed between the
   polls, whatever happened at the places the path does not lead to - the handshake after
   every poll is answered from the last tree of the prefix in which the place the path denoted
   THEN read as a usable set *)
Lemma path_history ws n s :
  run_store_seen [] (e2e_actions watch_step false None (map path_load ws) n s) =
  map (fun k => seen_on (last_good [] (firstn (S k) (map world_view ws))) n s) (seq 0 (length ws)).
Proof.
  rewrite (e2e_seen (map path_load ws) None [] n s I), map_length.
  apply map_ext. intros k. do 3 f_equal. apply map_ext, path_load_view.
Qed.
Lemma path_last ws w n s :
  nth (length ws) (run_store_seen [] (e2e_actions watch_step false None (map path_load (ws ++ [w])) n s)) SNone
  = seen_on (last_good [] (map world_view (ws ++ [w]))) n s.
Proof.
  rewrite path_history.
  assert (L : length (ws ++ [w]) = S (length ws)) by (rewrite app_length; cbn; lia).
  rewrite nth_map_seq by lia.
  rewrite firstn_all2; [reflexivity|]. rewrite map_length. lia.
Qed.
(* the path re-pointed to a directory that reads as a usable set: that set answers the next
   handshake, wherever the path led before *)
Lemma path_switch_takes_effect ws w d set n s :
  denoted w = RDir d -> usable (dir_view d) = Some set ->
  nth (length ws) (run_store_seen [] (e2e_actions watch_step false None (map path_load (ws ++ [w])) n s)) SNone
  = seen_on set n s.
Proof.
  intros D U. rewrite path_last, map_app, last_good_app. cbn [map last_good].
  unfold world_view. rewrite D. cbn [root_view]. now rewrite U.
Qed.
(* ... to nothing, or to a directory that does not: the working set stays *)
Lemma path_to_unusable_keeps_set ws w n s :
  usable (world_view w) = None ->
  nth (length ws) (run_store_seen [] (e2e_actions watch_step false None (map path_load (ws ++ [w])) n s)) SNone
  = seen_on (last_good [] (map world_view ws)) n s.
Proof.
  intros U. rewrite path_last, map_app, last_good_app. cbn [map last_good]. now rewrite U.
Qed.
Lemma path_to_nothing_unusable w : denoted w = RAbsent -> usable (world_view w) = None.
Proof. intros D. unfold world_view. rewrite D. vm_compute. reflexivity. Qed.
(* a load looks at the place the path denotes now and at no other: the release left behind
   may be rewritten or removed *)
Lemma path_load_ignores_other_places w t :
  (forall k, w_at w = Some k -> tree_find t k = tree_find (w_tree w) k) ->
  path_load {| w_at := w_at w; w_tree := t |} = path_load w.
Proof.
  intros H. unfold path_load, denoted. cbn [w_at w_tree].
  destruct (w_at w) as [k|]; [|reflexivity]. now rewrite (H k eq_refl).
Qed.

(* <base>/current/certs with current -> releases/v1, then current -> releases/v2 while v1 is
   left as it was; then v1 rewritten (no effect), then current dangling (set kept) *)
Definition rel1_files : dirstate :=
  [(bs "shop-cert.pem", reg 640 5 (pf 1 (Some (7, rel_v1_cert)) None));
   (bs "shop-key.pem", reg 227 5 (pf 2 None (Some 7)))].
Definition rel2_files : dirstate :=
  [(bs "shop-cert.pem", reg 641 6 (pf 3 (Some (7, rel_v2_cert)) None));
   (bs "shop-key.pem", reg 227 6 (pf 2 None (Some 7)))].
Definition rel_v3_cert : cert := [bs "shop.example"; bs "v3.shop.example"].
Definition rel1_rewritten : dirstate :=
  [(bs "shop-cert.pem", reg 640 7 (pf 5 (Some (7, rel_v3_cert)) None));
   (bs "shop-key.pem", reg 227 7 (pf 2 None (Some 7)))].
Definition path_switch_history : list world :=
  [ {| w_at := Some 1; w_tree := [(1, RDir rel1_files)] |};
    {| w_at := Some 2; w_tree := [(1, RDir rel1_files); (2, RDir rel2_files)] |};
    {| w_at := Some 2; w_tree := [(1, RDir rel1_rewritten); (2, RDir rel2_files)] |};
    {| w_at := None; w_tree := [(1, RDir rel1_rewritten); (2, RDir rel2_files)] |};
    {| w_at := Some 1; w_tree := [(1, RDir rel1_rewritten); (2, RDir rel2_files)] |} ].
Example path_switch_example :
  denoted (nth 1 path_switch_history {| w_at := None; w_tree := [] |}) = RDir rel2_files /\
  usable (dir_view rel2_files) = Some [rel_v2_cert] /\
  run_store_seen [] (e2e_actions watch_step false None (map path_load path_switch_history) (bs "shop.example") true)
  = [SCert rel_v1_cert; SCert rel_v2_cert; SCert rel_v2_cert; SCert rel_v2_cert; SCert rel_v3_cert] /\
  (* the last element of the path is itself a symbolic link: filepath.Walk does not follow it *)
  path_load {| w_at := Some 0; w_tree := [(0, RFile (bs "certs") {| d_kind := KSymlink; d_size := 17; d_mtime := 1; d_read := None |});
                                           (1, RDir rel1_files)] |} = Loaded (Some []).
Proof. repeat split; vm_compute; reflexivity. Qed.
(* a source that resolves the path once, when it is created, does not have the property: the
   switch to v2 never takes effect (and a rewrite of the release left behind does) *)
Lemma pinned_path_refuted :
  exists ws w d set n s,
    denoted w = RDir d /\ usable (dir_view d) = Some set /\
    nth (length ws) (run_store_seen [] (e2e_actions watch_step false None (pinned_loads (ws ++ [w])) n s)) SNone
      <> seen_on set n s /\
    nth (length ws) (run_store_seen [] (e2e_actions watch_step false None (map path_load (ws ++ [w])) n s)) SNone
      = seen_on set n s.
Proof.
  exists [ {| w_at := Some 1; w_tree := [(1, RDir rel1_files)] |} ],
         {| w_at := Some 2; w_tree := [(1, RDir rel1_files); (2, RDir rel2_files)] |},
         rel2_files, [rel_v2_cert], (bs "shop.example"), true.
  split; [reflexivity|]. split; [vm_compute; reflexivity|].
  split; [vm_compute; discriminate|vm_compute; reflexivity].
Qed.
