(** Proofs about the net/url transcription (Model/UrlPathC07.v). *)
From Coq Require Import String List NArith ZArith Bool Lia.
From Fabio Require Import Lib.Outcome Lib.Bytes Model.UrlPathC07.
Import ListNotations.
Local Open Scope N_scope.

(* ---------- unfolding lemmas (so that no proof below runs [cbn] over N arithmetic) ---------- *)
Lemma unescape_nil : unescape [] = Ok [].
Proof. reflexivity. Qed.
Lemma unescape_pct a b r :
  unescape (37 :: a :: b :: r) =
  if ishex a && ishex b
  then match unescape r with Ok t => Ok ((unhex a * 16 + unhex b) :: t) | e => e end
  else Err 1.
Proof. reflexivity. Qed.
Lemma unescape_pct1 : unescape [37] = Err 1.
Proof. reflexivity. Qed.
Lemma unescape_pct2 a : unescape [37; a] = Err 1.
Proof. reflexivity. Qed.
Lemma unescape_lit c r :
  c <> 37 -> unescape (c :: r) = match unescape r with Ok t => Ok (c :: t) | e => e end.
Proof. intros H. cbn [unescape]. apply N.eqb_neq in H. rewrite H. reflexivity. Qed.

Lemma escape_cons c r : escape (c :: r) = esc_byte c ++ escape r.
Proof. reflexivity. Qed.
Lemma escape_nil : escape [] = [].
Proof. reflexivity. Qed.
Lemma escape_app a b : escape (a ++ b) = escape a ++ escape b.
Proof. apply flat_map_app. Qed.

(* ---------- hex digits ---------- *)
Lemma hex_roundtrip n : n < 16 -> ishex (upperhex n) = true /\ unhex (upperhex n) = n.
Proof.
  intros H.
  assert (E : n = 0 \/ n = 1 \/ n = 2 \/ n = 3 \/ n = 4 \/ n = 5 \/ n = 6 \/ n = 7 \/ n = 8 \/ n = 9
              \/ n = 10 \/ n = 11 \/ n = 12 \/ n = 13 \/ n = 14 \/ n = 15) by lia.
  repeat (destruct E as [E|E]; [subst n; split; reflexivity|]). subst n; split; reflexivity.
Qed.

Lemma unhex_le c : unhex c <= 15.
Proof.
  unfold unhex, is_digit.
  destruct ((48 <=? c) && (c <=? 57)) eqn:E1.
  { apply andb_true_iff in E1 as [A B]. apply N.leb_le in A, B. lia. }
  destruct ((97 <=? c) && (c <=? 102)) eqn:E2.
  { apply andb_true_iff in E2 as [A B]. apply N.leb_le in A, B. lia. }
  destruct ((65 <=? c) && (c <=? 70)) eqn:E3.
  { apply andb_true_iff in E3 as [A B]. apply N.leb_le in A, B. lia. }
  lia.
Qed.

Lemma should_escape_37 : should_escape 37 = true.
Proof. reflexivity. Qed.
Lemma should_escape_47 : should_escape 47 = false.
Proof. reflexivity. Qed.
Lemma plain_not_pct c : should_escape c = false -> c <> 37.
Proof. intros H ->. rewrite should_escape_37 in H. discriminate. Qed.

Lemma byte_split c : c < 256 -> c / 16 < 16 /\ c mod 16 < 16 /\ c / 16 * 16 + c mod 16 = c.
Proof.
  intros H. split; [apply N.div_lt_upper_bound; lia|].
  split; [apply N.mod_lt; lia|]. pose proof (N.div_mod c 16). lia.
Qed.

(* ---------- unescape after escape is the identity (on bytes) ---------- *)
Lemma unescape_esc_byte c r t :
  c < 256 -> unescape r = Ok t -> unescape (esc_byte c ++ r) = Ok (c :: t).
Proof.
  intros Hc Hr. unfold esc_byte. destruct (should_escape c) eqn:E.
  - destruct (byte_split c Hc) as (H1 & H2 & H3).
    destruct (hex_roundtrip _ H1) as [A1 A2]. destruct (hex_roundtrip _ H2) as [B1 B2].
    cbn [app]. rewrite unescape_pct, A1, B1, Hr, A2, B2. cbn [andb]. now rewrite H3.
  - cbn [app]. rewrite unescape_lit by (now apply plain_not_pct). now rewrite Hr.
Qed.

Theorem unescape_escape p : all_lt_256 p = true -> unescape (escape p) = Ok p.
Proof.
  unfold all_lt_256. induction p as [|c r IH]; intros H.
  - reflexivity.
  - cbn [forallb] in H. apply andb_true_iff in H as [Hc Hr]. apply N.ltb_lt in Hc.
    rewrite escape_cons. apply unescape_esc_byte; auto.
Qed.

Lemma unescape_lt256_n : forall n s p,
  (length s <= n)%nat -> all_lt_256 s = true -> unescape s = Ok p -> all_lt_256 p = true.
Proof.
  unfold all_lt_256.
  induction n as [|n IH]; intros s p Hl Hs Hu.
  - destruct s; [inversion Hu; reflexivity | cbn [length] in Hl; lia].
  - destruct s as [|c r]; [inversion Hu; reflexivity|].
    cbn [forallb] in Hs. apply andb_true_iff in Hs as [Hc Hr].
    destruct (N.eq_dec c 37) as [->|Hne].
    + destruct r as [|a [|b r']].
      * rewrite unescape_pct1 in Hu. discriminate.
      * rewrite unescape_pct2 in Hu. discriminate.
      * rewrite unescape_pct in Hu. destruct (ishex a && ishex b); [|discriminate].
        destruct (unescape r') as [t| |] eqn:E; try discriminate. inversion Hu; subst p.
        cbn [forallb] in Hr. apply andb_true_iff in Hr as [_ Hr]. apply andb_true_iff in Hr as [_ Hr].
        cbn [forallb]. apply andb_true_iff; split.
        { apply N.ltb_lt. pose proof (unhex_le a). pose proof (unhex_le b). lia. }
        apply (IH r' t); auto. cbn [length] in Hl. lia.
    + rewrite unescape_lit in Hu by assumption.
      destruct (unescape r) as [t| |] eqn:E; try discriminate. inversion Hu; subst p.
      cbn [forallb]. rewrite Hc. cbn [andb]. apply (IH r t); auto. cbn [length] in Hl. lia.
Qed.
Lemma unescape_lt256 s p : all_lt_256 s = true -> unescape s = Ok p -> all_lt_256 p = true.
Proof. apply (unescape_lt256_n (length s)). lia. Qed.

(* ---------- first byte ---------- *)
Lemma has_prefix_slash s : has_prefix s [47] = true <-> exists r, s = 47 :: r.
Proof.
  rewrite has_prefix_spec. split; intros [r H]; exists r; exact H.
Qed.

Lemma unescape_head47 r path : unescape (47 :: r) = Ok path -> exists t, path = 47 :: t.
Proof.
  rewrite unescape_lit by discriminate. destruct (unescape r) as [t| |]; intros H; inversion H. now exists t.
Qed.

Lemma beq_47_star t : beq (47 :: t) [42] = false.
Proof. reflexivity. Qed.

Lemma escape_head47 r : escape (47 :: r) = 47 :: escape r.
Proof. reflexivity. Qed.

Lemma escape_has_slash x : has_prefix (escape x) [47] = has_prefix x [47].
Proof.
  destruct x as [|c r]; [reflexivity|].
  rewrite escape_cons. unfold esc_byte. destruct (should_escape c) eqn:E.
  - cbn [app has_prefix]. destruct (c =? 47) eqn:C; [|reflexivity].
    apply N.eqb_eq in C. subst c. rewrite should_escape_47 in E. discriminate.
  - reflexivity.
Qed.

(* ---------- no '?' in an escaped path ---------- *)
Lemma upperhex_not_q n : upperhex n <> 63.
Proof. unfold upperhex. destruct (n <? 10) eqn:E; [apply N.ltb_lt in E | apply N.ltb_ge in E]; lia. Qed.
Lemma should_escape_63 : should_escape 63 = true.
Proof. reflexivity. Qed.
Lemma escape_no_q s : ~ In 63 (escape s).
Proof.
  induction s as [|c r IH]; [intros []|].
  rewrite escape_cons. intros H. apply in_app_or in H as [H|H]; [|auto].
  unfold esc_byte in H. destruct (should_escape c) eqn:E.
  - destruct H as [H|[H|[H|[]]]]; try discriminate; now apply upperhex_not_q in H.
  - destruct H as [H|[]]. subst c. rewrite should_escape_63 in E. discriminate.
Qed.

Lemma cut_q_no_q s : ~ In 63 (fst (cut_q s)).
Proof.
  induction s as [|c r IH]; [intros []|].
  cbn [cut_q]. destruct (c =? 63) eqn:E; [intros []|].
  destruct (cut_q r) as [a b]. cbn [fst] in *. intros [H|H]; [|auto].
  apply N.eqb_neq in E. congruence.
Qed.

(* ---------- EscapedPath on what setPath produced ---------- *)
Lemma set_path_inv raw path rp :
  set_path raw = Ok (path, rp) ->
  unescape raw = Ok path /\ rp = (if beq (escape path) raw then [] else raw).
Proof.
  unfold set_path. destruct (unescape raw) as [a| |]; cbn [bind]; intros H; inversion H. auto.
Qed.

(* the client's path comes back byte for byte: always when it is made of URI path bytes,
   and also whenever it already is in Go's canonical encoding *)
Theorem escaped_path_keeps_valid_raw raw path rp :
  has_prefix raw [47] = true -> set_path raw = Ok (path, rp) ->
  (valid_encoded raw = true \/ rp = []) -> escaped_path path rp = raw.
Proof.
  intros Hs Hp Hv. apply set_path_inv in Hp as [U ->].
  apply has_prefix_slash in Hs as [r ->].
  destruct (unescape_head47 _ _ U) as [t ->].
  unfold escaped_path. destruct (beq (escape (47 :: t)) (47 :: r)) eqn:B.
  - cbn [nonempty andb]. rewrite beq_47_star. now apply beq_eq.
  - destruct Hv as [Hv|Hv]; [|discriminate].
    cbn [nonempty]. rewrite Hv, U. cbn [andb out_is]. now rewrite beq_refl.
Qed.

(* whatever EscapedPath answers decodes to Path *)
Theorem escaped_path_denotes path rp :
  all_lt_256 path = true -> path <> [42] -> out_is (unescape (escaped_path path rp)) path = true.
Proof.
  intros Hb Hstar. unfold escaped_path.
  destruct (nonempty rp && valid_encoded rp && out_is (unescape rp) path) eqn:E.
  - apply andb_true_iff in E as [_ E]. exact E.
  - destruct (beq path [42]) eqn:S; [apply beq_eq in S; contradiction|].
    rewrite unescape_escape by assumption. cbn [out_is]. apply beq_refl.
Qed.
