(** C06 - proofs about the interleaving models (Model/Interleave.v, Model/GlobCacheC06.v). *)
From Coq Require Import String List NArith Bool Arith Lia Permutation.
From Fabio Require Import Lib.Outcome Lib.Bytes Model.Interleave Model.GlobCacheC06.
Import ListNotations.

(* ------------------------------------------------------------------ refutations: witness schedules *)

(* rrPicker as written: two goroutines read the same cursor value, both index slot 0, slot 1
   is skipped although two picks were made and the cursor advanced by two *)
Lemma rr_torn_refuted_w :
  exists sched, let '(total, ts) := run rr_step_unrepaired sched 0%N [rr_init 1; rr_init 1] in
    total = 2%N /\ map rr_seen ts = [[0%N]; [0%N]] /\ ~ Permutation (all_seen ts) (consecutive 0 2).
Proof.
  exists [0; 1; 0; 1; 0; 1]. vm_compute. repeat split.
  intros P. apply Permutation_length_2_inv in P. destruct P as [P|P]; discriminate.
Qed.

(* A (path /from-A) looks up, B (path /from-B) looks up, A continues: A is redirected to B's URL *)
Definition w_tmpl : uobj := [Lit (bs "http://new.example"); Slash; Hole].
Lemma redirect_cross_talk_refuted_w :
  exists sched, let '(_, ts) := run (rd_step_unrepaired w_tmpl) sched rd_start [rd_init_unrepaired (bs "/from-A") (bs "old.example"); rd_init_unrepaired (bs "/from-B") (bs "old.example")] in
    rd_results_unrepaired ts = [Some (Ok (bs "http://new.example/from-B")); Some (Ok (bs "http://new.example/from-B"))]
    /\ rd_own w_tmpl (bs "/from-A") (bs "old.example") = bs "http://new.example/from-A".
Proof. exists [0; 0; 0; 0; 1; 1; 1; 1; 0; 1]. vm_compute. split; reflexivity. Qed.

(* ------------------------------------------------------------------ the lookup and its shared effects *)
Lemma eq_rid_false_later : forall (x : rid) i j, S i <= fst x -> eq_rid x (i, j) = false.
Proof.
  intros [a b] i j H. unfold eq_rid. cbn [fst snd] in *.
  destruct (Nat.eqb_spec a i); [lia | reflexivity].
Qed.
Lemma advance_later : forall s i j r x, S i <= fst x -> lk_cursor (advance s (i, j) r) x = lk_cursor s x.
Proof.
  intros s i j r x H. unfold advance. destruct (Nat.eqb (r_ntargets r) 1); [reflexivity|].
  cbn [lk_cursor]. now rewrite eq_rid_false_later.
Qed.

(* (a mechanism lemma: [lookup_pure] is [lookup] with the state threaded out; its content is that the picks
   of one lookup never read a cursor an earlier pick of the same lookup has advanced) *)
Lemma lookup_pure_from_l : forall path host proto hosts i s f,
  (forall id, i <= fst id -> lk_cursor s id = f id) ->
  fst (lookup_from path host proto hosts i s) = lookup_pure_from path host proto hosts i f.
Proof.
  intros path host proto hosts. induction hosts as [|rs rest IH]; intros i s f H; cbn [lookup_from lookup_pure_from]; [reflexivity|].
  destruct (find_route path rs 0) as [[j r]|]; [|apply IH; intros id Hid; apply H; lia].
  destruct (Nat.eqb (r_ntargets r) 0); [apply IH; intros id Hid; apply H; lia|].
  rewrite (H (i, j)) by (cbn; lia).
  destruct (pick_target r (f (i, j))) as [t| |]; try reflexivity.
  destruct (self_redirect r path host proto); [|reflexivity].
  apply IH. intros id Hid. rewrite advance_later by assumption. apply H. lia.
Qed.
Lemma lookup_pure_modulo_shared_l : forall hosts path host proto s,
  fst (lookup hosts path host proto s) = lookup_pure hosts path host proto (lk_cursor s).
Proof. intros. unfold lookup, lookup_pure. now apply lookup_pure_from_l. Qed.

(* every candidate route can pick whatever its cursor (a single target, or a non-empty ring) *)
Definition ring_ok (r : route) : Prop := r_ntargets r = 1 \/ r_ring r <> [].
Definition rings_ok (hosts : list (list route)) : Prop := Forall (Forall ring_ok) hosts.

Lemma slot_total : forall (ring : list nat) c, ring <> [] -> exists t, slot ring c = Ok t.
Proof.
  intros ring c H. unfold slot. destruct ring as [|a r]; [congruence|].
  set (L := length (a :: r)).
  assert (B : N.to_nat (N.modulo c (N.of_nat L)) < L).
  { rewrite N2Nat.inj_mod, Nat2N.id. apply Nat.mod_upper_bound. unfold L. cbn. lia. }
  destruct (nth_error (a :: r) (N.to_nat (N.modulo c (N.of_nat L)))) as [t|] eqn:E; [now exists t|].
  apply nth_error_None in E. fold L in E. lia.
Qed.
Lemma pick_total : forall r c, ring_ok r -> exists t, pick_target r c = Ok t.
Proof.
  intros r c [H|H]; unfold pick_target.
  - rewrite H. cbn. now exists 0.
  - destruct (Nat.eqb (r_ntargets r) 1); [now exists 0 | now apply slot_total].
Qed.
Lemma find_route_in : forall path rs j0 j r, find_route path rs j0 = Some (j, r) -> In r rs.
Proof.
  intros path rs. induction rs as [|x rs IH]; intros j0 j r H; cbn in H; [discriminate|].
  destruct (has_prefix path (r_path x)); [inversion H; subst; now left | right; eapply IH; eassumption].
Qed.

(* lookup_reads_one_cursor: the answer reads ONE cursor - that of the answering route.  Whatever the cursors of
   all other routes are (those of skipped self-redirect routes included: their pick is made and discarded) *)
Lemma lookup_reads_one_cursor_from : forall path host proto hosts i f g res, rings_ok hosts ->
  lookup_pure_from path host proto hosts i f = Ok (Some res) -> g (lk_route res) = f (lk_route res) ->
  lookup_pure_from path host proto hosts i g = Ok (Some res).
Proof.
  intros path host proto hosts. induction hosts as [|rs rest IH]; intros i f g res W H E; cbn [lookup_pure_from] in *; [discriminate|].
  inversion W as [|? ? W1 W2]; subst.
  destruct (find_route path rs 0) as [[j r]|] eqn:F; [|eapply IH; eassumption].
  destruct (Nat.eqb (r_ntargets r) 0); [eapply IH; eassumption|].
  assert (Rk : ring_ok r) by (eapply (proj1 (Forall_forall _ _) W1); eapply find_route_in; eassumption).
  destruct (self_redirect r path host proto) eqn:SR.
  - destruct (pick_total r (f (i, j)) Rk) as [t1 P1]. destruct (pick_total r (g (i, j)) Rk) as [t2 P2].
    rewrite P1 in H. rewrite P2. eapply IH; eassumption.
  - destruct (pick_target r (f (i, j))) as [t| |] eqn:P; try discriminate.
    inversion H; subst res. cbn [lk_route] in E. rewrite E, P. reflexivity.
Qed.
Lemma lookup_miss_reads_none_from : forall path host proto hosts i f g, rings_ok hosts ->
  lookup_pure_from path host proto hosts i f = Ok None -> lookup_pure_from path host proto hosts i g = Ok None.
Proof.
  intros path host proto hosts. induction hosts as [|rs rest IH]; intros i f g W H; cbn [lookup_pure_from] in *; [reflexivity|].
  inversion W as [|? ? W1 W2]; subst.
  destruct (find_route path rs 0) as [[j r]|] eqn:F; [|eapply IH; eassumption].
  destruct (Nat.eqb (r_ntargets r) 0); [eapply IH; eassumption|].
  assert (Rk : ring_ok r) by (eapply (proj1 (Forall_forall _ _) W1); eapply find_route_in; eassumption).
  destruct (self_redirect r path host proto) eqn:SR.
  - destruct (pick_total r (f (i, j)) Rk) as [t1 P1]. destruct (pick_total r (g (i, j)) Rk) as [t2 P2].
    rewrite P1 in H. rewrite P2. eapply IH; eassumption.
  - destruct (pick_target r (f (i, j))) as [t| |]; discriminate.
Qed.

(* the routes whose cursor one lookup may advance: the first matching route of a candidate host, with
   several targets, that either answers or is a skipped self-redirect *)
Definition touched (path host proto : str) (hosts : list (list route)) (i : nat) (res : outcome (option lk_result)) (id : rid) : Prop :=
  i <= fst id /\ exists rs r, nth_error hosts (fst id - i) = Some rs /\ find_route path rs 0 = Some (snd id, r)
    /\ r_ntargets r <> 0 /\ r_ntargets r <> 1
    /\ (self_redirect r path host proto = true \/ exists t loc, res = Ok (Some {| lk_route := id; lk_target := t; lk_location := loc |})).

(* lookup_frame: no target is written; every cursor is unchanged or advanced by exactly one, and only the
   cursors of [touched] routes advance: the answering route AND every skipped self-redirect route with
   several targets (their pick is made before the skip) - load-balancing state, nothing else *)
Lemma lookup_frame_from : forall path host proto hosts i s,
  lk_redirect (snd (lookup_from path host proto hosts i s)) = lk_redirect s /\
  forall id, lk_cursor (snd (lookup_from path host proto hosts i s)) id = lk_cursor s id \/
             (lk_cursor (snd (lookup_from path host proto hosts i s)) id = N.modulo (lk_cursor s id + 1) two64
              /\ touched path host proto hosts i (fst (lookup_from path host proto hosts i s)) id).
Proof.
  intros path host proto hosts. induction hosts as [|rs rest IH]; intros i s; cbn [lookup_from].
  - split; [reflexivity | intros id; now left].
  - assert (Shift : forall res id, touched path host proto rest (S i) res id -> touched path host proto (rs :: rest) i res id).
    { intros res id (T1 & rs' & r' & T2 & T3). split; [lia|]. exists rs', r'. split; [|assumption].
      replace (fst id - i) with (S (fst id - S i)) by lia. exact T2. }
    destruct (find_route path rs 0) as [[j r]|] eqn:F.
    2:{ destruct (IH (S i) s) as [I1 I2]. split; [assumption|]. intros id. destruct (I2 id) as [I|[I T]]; [now left | right; split; [assumption | now apply Shift]]. }
    destruct (Nat.eqb (r_ntargets r) 0) eqn:Z.
    { destruct (IH (S i) s) as [I1 I2]. split; [assumption|]. intros id. destruct (I2 id) as [I|[I T]]; [now left | right; split; [assumption | now apply Shift]]. }
    apply Nat.eqb_neq in Z.
    destruct (pick_target r (lk_cursor s (i, j))) as [t| |] eqn:P; cbn [fst snd]; try (split; [reflexivity | intros id; now left]).
    assert (Adv : lk_redirect (advance s (i, j) r) = lk_redirect s /\
                  forall id, lk_cursor (advance s (i, j) r) id = lk_cursor s id \/
                             (id = (i, j) /\ r_ntargets r <> 1 /\ lk_cursor (advance s (i, j) r) id = N.modulo (lk_cursor s id + 1) two64)).
    { unfold advance. destruct (Nat.eqb (r_ntargets r) 1) eqn:O; [split; [reflexivity | intros; now left]|].
      apply Nat.eqb_neq in O. cbn [lk_redirect lk_cursor]. split; [reflexivity|]. intros [a b]. unfold eq_rid. cbn [fst snd].
      destruct (Nat.eqb_spec a i), (Nat.eqb_spec b j); cbn; try (now left). subst. right. auto. }
    destruct Adv as [A1 A2].
    destruct (self_redirect r path host proto) eqn:SR.
    + destruct (IH (S i) (advance s (i, j) r)) as [I1 I2]. split; [congruence|]. intros id.
      destruct (I2 id) as [I|[I T]].
      * rewrite I. destruct (A2 id) as [A|(A & O & B)]; [now left|]. right. split; [assumption|]. subst id.
        split; [cbn; lia|]. exists rs, r. cbn [fst snd]. rewrite Nat.sub_diag. cbn [nth_error]. repeat split; auto.
      * right. split; [|now apply Shift]. rewrite I. f_equal. f_equal.
        apply advance_later. destruct T as [T _]. exact T.
    + cbn [fst snd]. split; [assumption|]. intros id. destruct (A2 id) as [A|(A & O & B)]; [now left|]. right. split; [assumption|].
      subst id. split; [cbn; lia|]. exists rs, r. cbn [fst snd]. rewrite Nat.sub_diag. cbn [nth_error]. repeat split; auto.
      right. eauto.
Qed.

Example lookup_nonvacuous :
  let ro := {| r_path := bs "/"; r_ntargets := 2; r_ring := [0; 1]; r_redirect := None |} in
  fst (lookup [[ro]] (bs "/x") (bs "h") (bs "http") {| lk_cursor := fun _ => 5%N; lk_redirect := fun _ => None |})
  = Ok (Some {| lk_route := (0, 0); lk_target := 1; lk_location := None |}).
Proof. vm_compute. reflexivity. Qed.

(* a self-redirect route with two targets is skipped AFTER its pick: the fallback answers, both cursors moved *)
Example lookup_skip_nonvacuous :
  let self := {| r_path := bs "/"; r_ntargets := 2; r_ring := [0; 1]; r_redirect := Some [Lit (bs "http://"); HHole; Slash; Hole] |} in
  let fb := {| r_path := bs "/"; r_ntargets := 3; r_ring := [0; 1; 2]; r_redirect := None |} in
  let r := lookup [[self]; [fb]] (bs "/x") (bs "d.example") (bs "http") {| lk_cursor := fun _ => 7%N; lk_redirect := fun _ => None |} in
  fst r = Ok (Some {| lk_route := (1, 0); lk_target := 1; lk_location := None |})
  /\ lk_cursor (snd r) (0, 0) = 8%N /\ lk_cursor (snd r) (1, 0) = 8%N /\ lk_cursor (snd r) (2, 0) = 7%N.
Proof. vm_compute. repeat split. Qed.

(* ------------------------------------------------------------------ rr, fetch-and-add *)
Lemma all_seen_upd : forall ts i l l' x, nth_error ts i = Some l -> rr_seen l' = rr_seen l ++ [x] ->
  Permutation (all_seen (upd ts i l')) (all_seen ts ++ [x]).
Proof.
  unfold all_seen. induction ts as [|a ts IH]; intros [|i] l l' x H E; cbn in H; try discriminate.
  - inversion H; subst. cbn. rewrite E. rewrite <- !app_assoc. apply Permutation_app_head. apply Permutation_app_comm.
  - cbn. rewrite <- app_assoc. apply Permutation_app_head. eapply IH; eassumption.
Qed.

Lemma consecutive_S : forall c j, (c < two64)%N ->
  consecutive c (S j) = c :: consecutive (N.modulo (c + 1) two64) j.
Proof.
  intros c j Hc. unfold consecutive. cbn [seq map]. f_equal.
  - rewrite N.add_0_r. now apply N.mod_small.
  - rewrite <- seq_shift, map_map. apply map_ext. intros k.
    rewrite N.add_mod_idemp_l by (unfold two64; lia). f_equal. lia.
Qed.

Lemma two64_pos : (0 < two64)%N. Proof. unfold two64. lia. Qed.

(* rr_atomic_exact: whatever the schedule and the number of goroutines and of picks each makes,
   the cursor values the picks used are exactly the next j consecutive values of the cursor *)
Theorem rr_atomic_exact_l : forall sched c ts, (c < two64)%N ->
  exists j, Permutation (all_seen (snd (run rr_step_atomic sched c ts))) (all_seen ts ++ consecutive c j)
            /\ fst (run rr_step_atomic sched c ts) = N.modulo (c + N.of_nat j) two64.
Proof.
  induction sched as [|i sched IH]; intros c ts Hc; cbn [run].
  - exists 0. cbn. rewrite app_nil_r, N.add_0_r. split; [reflexivity | symmetry; now apply N.mod_small].
  - unfold step1. destruct (nth_error ts i) as [l|] eqn:E; [|apply IH; assumption].
    destruct (rr_step_atomic c l) as [c1 l1] eqn:St. unfold rr_step_atomic in St.
    destruct (rr_todo l) as [|k] eqn:T; inversion St; subst c1 l1; clear St.
    + (* finished thread: nothing happens *)
      assert (U : upd ts i l = ts).
      { clear -E. revert i E. induction ts as [|a ts IH]; intros [|i] E; cbn in *; try discriminate; [now inversion E | f_equal; now apply IH]. }
      rewrite U. apply IH; assumption.
    + set (l' := {| rr_at := match k with 0 => RDone | S _ => RRead end; rr_todo := k; rr_reg := c; rr_seen := rr_seen l ++ [c] |}).
      assert (Hc' : (N.modulo (c + 1) two64 < two64)%N) by (apply N.mod_lt; unfold two64; lia).
      destruct (IH (N.modulo (c + 1) two64) (upd ts i l') Hc') as [j [P Q]].
      exists (S j). split.
      * rewrite P. rewrite (consecutive_S c j Hc).
        rewrite (all_seen_upd ts i l l' c E eq_refl). rewrite <- app_assoc. reflexivity.
      * rewrite Q. rewrite N.add_mod_idemp_l by (unfold two64; lia). f_equal. lia.
Qed.

Example rr_atomic_nonvacuous :
  let r := run rr_step_atomic [0; 1; 1; 0; 2; 1] 7%N [rr_init 2; rr_init 3; rr_init 1] in
  fst r = 13%N /\ map rr_seen (snd r) = [[7; 10]; [8; 9; 12]; [11]]%N.
Proof. vm_compute. split; reflexivity. Qed.
(* ------------------------------------------------------------------ rr as written: the counter is still exact *)
Definition rr_pending (l : rr_local) : nat := match rr_at l with RDone => 0 | _ => rr_todo l end.
Definition rr_wf (l : rr_local) : Prop := rr_at l = RDone \/ 1 <= rr_todo l.
Definition pending_sum (ts : list rr_local) : nat := fold_right (fun l a => rr_pending l + a) 0 ts.

Lemma rr_init_wf : forall p, rr_wf (rr_init p) /\ rr_pending (rr_init p) = p.
Proof. intros [|p]; unfold rr_wf, rr_pending; cbn; split; try reflexivity; [now left | right; lia]. Qed.

Lemma pending_sum_upd : forall ts i l l', nth_error ts i = Some l ->
  pending_sum (upd ts i l') + rr_pending l = pending_sum ts + rr_pending l'.
Proof.
  induction ts as [|a ts IH]; intros [|i] l l' H; cbn in H; try discriminate.
  - inversion H; subst. unfold pending_sum. cbn [upd fold_right]. lia.
  - specialize (IH i l l' H). unfold pending_sum in *. cbn [upd fold_right]. lia.
Qed.

Lemma rr_step_torn_inv : forall c l, rr_wf l ->
  rr_wf (snd (rr_step_unrepaired c l)) /\
  ((fst (rr_step_unrepaired c l) = c /\ rr_pending (snd (rr_step_unrepaired c l)) = rr_pending l) \/
   (fst (rr_step_unrepaired c l) = N.modulo (c + 1) two64 /\ S (rr_pending (snd (rr_step_unrepaired c l))) = rr_pending l)).
Proof.
  intros c l W. unfold rr_step_unrepaired, rr_pending, rr_wf in *. destruct (rr_at l) eqn:E; cbn [fst snd].
  - cbn. split; [destruct W as [W|W]; [discriminate | now right] | left; split; reflexivity].
  - cbn. split; [destruct W as [W|W]; [discriminate | now right] | left; split; reflexivity].
  - destruct W as [W|W]; [discriminate|]. destruct (rr_todo l) as [|[|k]] eqn:T; [lia| |]; cbn.
    + split; [now left | right; split; reflexivity].
    + split; [right; lia | right; split; reflexivity].
  - rewrite E. split; [now left | left; split; reflexivity].
Qed.

Theorem rr_torn_counter_exact_l : forall sched c ts, Forall rr_wf ts ->
  Forall rr_wf (snd (run rr_step_unrepaired sched c ts)) /\
  N.modulo (fst (run rr_step_unrepaired sched c ts) + N.of_nat (pending_sum (snd (run rr_step_unrepaired sched c ts)))) two64
  = N.modulo (c + N.of_nat (pending_sum ts)) two64.
Proof.
  induction sched as [|i sched IH]; intros c ts W; cbn [run].
  - split; [assumption|reflexivity].
  - unfold step1. destruct (nth_error ts i) as [l|] eqn:E; [|apply IH; assumption].
    assert (Wl : rr_wf l) by (eapply Forall_forall; [exact W | eapply nth_error_In; eassumption]).
    pose proof (rr_step_torn_inv c l Wl) as [W' S]. pose proof (pending_sum_upd ts i l (snd (rr_step_unrepaired c l)) E) as PS.
    destruct (rr_step_unrepaired c l) as [c1 l1]. cbn [fst snd] in *.
    assert (W1 : Forall rr_wf (upd ts i l1)).
    { clear -W W'. revert i. induction ts as [|a ts IH]; intros [|i]; cbn; try assumption; inversion W; subst; constructor; auto. }
    destruct (IH c1 (upd ts i l1) W1) as [I1 I2]. split; [assumption|]. rewrite I2.
    destruct S as [[S1 S2]|[S1 S2]]; subst c1.
    + f_equal. lia.
    + rewrite N.add_mod_idemp_l by (unfold two64; lia). f_equal. lia.
Qed.

Example rr_torn_counter_nonvacuous :
  Forall rr_wf [rr_init 2; rr_init 1] /\ pending_sum [rr_init 2; rr_init 1] = 3 /\
  run rr_step_unrepaired [0; 1; 0; 1; 0; 1; 0; 0; 0] 5%N [rr_init 2; rr_init 1]
  = (8%N, [{| rr_at := RDone; rr_todo := 0; rr_reg := 7; rr_seen := [5; 7]%N |};
           {| rr_at := RDone; rr_todo := 0; rr_reg := 5; rr_seen := [5%N] |}]).
Proof.
  split; [repeat constructor; apply rr_init_wf|]. split; vm_compute; reflexivity.
Qed.
(* ------------------------------------------------------------------ redirect: a serial history *)
Fixpoint iter_step {S L} (tstep : S -> L -> S * L) (k : nat) (s : S) (l : L) : S * L :=
  match k with O => (s, l) | S k' => let '(s', l') := tstep s l in iter_step tstep k' s' l' end.

Lemma nth_error_mid : forall {A} (pre : list A) x post, nth_error (pre ++ x :: post) (length pre) = Some x.
Proof. induction pre; cbn; auto. Qed.
Lemma upd_mid : forall {A} (pre : list A) x post v, upd (pre ++ x :: post) (length pre) v = pre ++ v :: post.
Proof. induction pre; cbn; intros; [reflexivity | now rewrite IHpre]. Qed.

Lemma run_repeat_mid : forall {S L} (tstep : S -> L -> S * L) k s pre l post,
  run tstep (repeat (length pre) k) s (pre ++ l :: post)
  = let '(s', l') := iter_step tstep k s l in (s', pre ++ l' :: post).
Proof.
  intros S L tstep k. induction k as [|k IH]; intros s pre l post; cbn [repeat run iter_step]; [reflexivity|].
  unfold step1. rewrite nth_error_mid. destruct (tstep s l) as [s1 l1]. rewrite upd_mid. apply IH.
Qed.

Lemma run_app : forall {S L} (tstep : S -> L -> S * L) a b s ts,
  run tstep (a ++ b) s ts = let '(s', ts') := run tstep a s ts in run tstep b s' ts'.
Proof.
  intros S L tstep a. induction a as [|i a IH]; intros b s ts; cbn [app run]; [reflexivity|].
  destruct (step1 tstep s ts i) as [s1 ts1]. apply IH.
Qed.

Definition rd_done (tmpl : uobj) (q : str * str) : rd_local :=
  {| rd_at := DDone; rd_path := fst q; rd_host := snd q; rd_got := Some (Ok (rd_own tmpl (fst q) (snd q))) |}.

Lemma rd_modify_at : forall f heap x l next,
  rd_modify f {| rd_heap := heap ++ [x]; rd_ptr := Some (length heap) |} l next
  = ({| rd_heap := heap ++ [f x]; rd_ptr := Some (length heap) |}, rd_goto l next).
Proof. intros. unfold rd_modify. cbn [rd_ptr rd_heap]. rewrite nth_error_mid, upd_mid. reflexivity. Qed.

(* one request alone, from any state of the shared target: it is answered with its own URL *)
Lemma rd_solo : forall tmpl s p h,
  iter_step (rd_step_unrepaired tmpl) 5 s (rd_init_unrepaired p h)
  = ({| rd_heap := rd_heap s ++ [fill_host (fill (strip tmpl) p) h]; rd_ptr := Some (length (rd_heap s)) |},
     rd_done tmpl (p, h)).
Proof.
  intros tmpl [heap ptr] p h. cbn [rd_heap]. unfold iter_step.
  assert (E1 : rd_step_unrepaired tmpl {| rd_heap := heap; rd_ptr := ptr |} (rd_init_unrepaired p h)
               = ({| rd_heap := heap ++ [tmpl]; rd_ptr := Some (length heap) |}, rd_goto (rd_init_unrepaired p h) DStrip)) by reflexivity.
  rewrite E1.
  assert (E2 : forall x, rd_step_unrepaired tmpl {| rd_heap := heap ++ [x]; rd_ptr := Some (length heap) |} (rd_goto (rd_init_unrepaired p h) DStrip)
               = ({| rd_heap := heap ++ [strip x]; rd_ptr := Some (length heap) |}, rd_goto (rd_goto (rd_init_unrepaired p h) DStrip) DFill)).
  { intros x. unfold rd_step_unrepaired. cbn [rd_at rd_goto]. apply rd_modify_at. }
  rewrite E2.
  assert (E3 : forall x, rd_step_unrepaired tmpl {| rd_heap := heap ++ [x]; rd_ptr := Some (length heap) |} (rd_goto (rd_goto (rd_init_unrepaired p h) DStrip) DFill)
               = ({| rd_heap := heap ++ [fill x p]; rd_ptr := Some (length heap) |}, rd_goto (rd_goto (rd_goto (rd_init_unrepaired p h) DStrip) DFill) DHost)).
  { intros x. unfold rd_step_unrepaired. cbn [rd_at rd_goto]. apply (rd_modify_at (fun o => fill o p)). }
  rewrite E3.
  assert (E4 : forall x, rd_step_unrepaired tmpl {| rd_heap := heap ++ [x]; rd_ptr := Some (length heap) |} (rd_goto (rd_goto (rd_goto (rd_init_unrepaired p h) DStrip) DFill) DHost)
               = ({| rd_heap := heap ++ [fill_host x h]; rd_ptr := Some (length heap) |}, rd_goto (rd_goto (rd_goto (rd_goto (rd_init_unrepaired p h) DStrip) DFill) DHost) DRead)).
  { intros x. unfold rd_step_unrepaired. cbn [rd_at rd_goto]. apply (rd_modify_at (fun o => fill_host o h)). }
  rewrite E4.
  unfold rd_step_unrepaired. cbn [rd_at rd_goto rd_ptr rd_heap]. rewrite nth_error_mid. reflexivity.
Qed.

(* redirect_serial_history_ok: ONE target kept across any serial history of requests, whatever the
   template and the state left behind by earlier requests: every request is answered with the URL it
   would get alone (its own path and Host substituted) *)
Lemma redirect_serial_gen : forall tmpl reqs s pre,
  snd (run (rd_step_unrepaired tmpl) (serial 5 (length pre) (length reqs)) s (pre ++ map (fun q => rd_init_unrepaired (fst q) (snd q)) reqs))
  = pre ++ map (rd_done tmpl) reqs.
Proof.
  intros tmpl reqs. induction reqs as [|[p h] reqs IH]; intros s pre; cbn [length serial map].
  - reflexivity.
  - rewrite run_app, run_repeat_mid. cbn [fst snd]. rewrite rd_solo.
    replace (pre ++ rd_done tmpl (p, h) :: map (fun q => rd_init_unrepaired (fst q) (snd q)) reqs)
      with ((pre ++ [rd_done tmpl (p, h)]) ++ map (fun q => rd_init_unrepaired (fst q) (snd q)) reqs) by (rewrite <- app_assoc; reflexivity).
    replace (S (length pre)) with (length (pre ++ [rd_done tmpl (p, h)])) by (rewrite app_length; cbn; lia).
    rewrite IH. rewrite <- app_assoc. reflexivity.
Qed.

Theorem redirect_serial_history_ok_l : forall tmpl reqs,
  rd_results_unrepaired (snd (run (rd_step_unrepaired tmpl) (serial 5 0 (length reqs)) rd_start (map (fun q => rd_init_unrepaired (fst q) (snd q)) reqs)))
  = map (fun q => Some (Ok (rd_own tmpl (fst q) (snd q)))) reqs.
Proof.
  intros tmpl reqs. pose proof (redirect_serial_gen tmpl reqs rd_start []) as H. cbn [app length] in H.
  rewrite H. unfold rd_results_unrepaired. rewrite map_map. reflexivity.
Qed.

Example redirect_serial_nonvacuous :
  rd_results_unrepaired (snd (run (rd_step_unrepaired [Lit (bs "https://"); HHole; Slash; Hole]) (serial 5 0 2) rd_start
                       [rd_init_unrepaired (bs "/x") (bs "a.example.com"); rd_init_unrepaired (bs "/y") (bs "b.example.org")]))
  = [Some (Ok (bs "https://a.example.com/x")); Some (Ok (bs "https://b.example.org/y"))].
Proof. vm_compute. reflexivity. Qed.
(* ------------------------------------------------------------------ consecutive cursor values => exact shares *)
Lemma map_add_seq : forall a n b, map (fun i => a + i) (seq b n) = seq (a + b) n.
Proof. intros a n. induction n as [|n IH]; intros b; cbn; [reflexivity|]. rewrite IH. f_equal. f_equal. lia. Qed.
Lemma map_sub_seq : forall d n b, map (fun i => i - d) (seq (d + b) n) = seq b n.
Proof.
  intros d n. induction n as [|n IH]; intros b; cbn; [reflexivity|]. f_equal; [lia|].
  replace (S (d + b)) with (d + S b) by lia. apply IH.
Qed.
Lemma count_nat_app : forall p a b, count_nat p (a ++ b) = count_nat p a + count_nat p b.
Proof. intros p a b. induction a as [|x a IH]; cbn; [reflexivity|]. rewrite IH. lia. Qed.
Lemma count_nat_seq : forall p n a, count_nat p (seq a n) = if (a <=? p) && (p <? a + n) then 1 else 0.
Proof.
  intros p n. induction n as [|n IH]; intros a; cbn [seq count_nat].
  - destruct (Nat.leb_spec a p), (Nat.ltb_spec p (a + 0)); cbn; try reflexivity; lia.
  - rewrite IH.
    destruct (Nat.eqb_spec p a), (Nat.leb_spec (S a) p), (Nat.ltb_spec p (S a + n)), (Nat.leb_spec a p), (Nat.ltb_spec p (a + S n));
      cbn; try reflexivity; lia.
Qed.

Lemma mod_piece : forall L x, 0 < L -> x < 2 * L -> x mod L = if x <? L then x else x - L.
Proof.
  intros L x HL Hx. destruct (x <? L) eqn:E.
  - apply Nat.ltb_lt in E. now apply Nat.mod_small.
  - apply Nat.ltb_ge in E. symmetry. apply (Nat.mod_unique x L 1); lia.
Qed.

Lemma one_cycle : forall L s p, s < L -> p < L -> count_nat p (map (fun i => (s + i) mod L) (seq 0 L)) = 1.
Proof.
  intros L s p Hs Hp.
  replace (seq 0 L) with (seq 0 (L - s) ++ seq (L - s) s) by (rewrite <- seq_app; f_equal; lia).
  rewrite map_app, count_nat_app.
  rewrite (map_ext_in _ (fun i => s + i)).
  2:{ intros i Hi. apply in_seq in Hi. rewrite mod_piece by lia. destruct (s + i <? L) eqn:E; [reflexivity|apply Nat.ltb_ge in E; lia]. }
  rewrite (map_ext_in (fun i => (s + i) mod L) (fun i => i - (L - s))).
  2:{ intros i Hi. apply in_seq in Hi. rewrite mod_piece by lia. destruct (s + i <? L) eqn:E; [apply Nat.ltb_lt in E; lia | lia]. }
  rewrite map_add_seq. replace (seq (L - s) s) with (seq ((L - s) + 0) s) by (f_equal; lia). rewrite map_sub_seq.
  rewrite !count_nat_seq.
  destruct (Nat.leb_spec (s + 0) p), (Nat.ltb_spec p (s + 0 + (L - s))), (Nat.leb_spec 0 p), (Nat.ltb_spec p (0 + s));
    cbn; try reflexivity; lia.
Qed.

Lemma full_cycles : forall L k s p, s < L -> p < L ->
  count_nat p (map (fun i => (s + i) mod L) (seq 0 (k * L))) = k.
Proof.
  intros L k s p Hs Hp. induction k as [|k IH]; [reflexivity|].
  cbn [Nat.mul]. rewrite seq_app, map_app, count_nat_app, one_cycle by assumption. cbn [Nat.add].
  replace (seq L (k * L)) with (seq (L + 0) (k * L)) by (f_equal; lia). rewrite <- map_add_seq, map_map.
  rewrite (map_ext _ (fun i => (s + i) mod L)); [rewrite IH; reflexivity|].
  intros i. replace (s + (L + i)) with (s + i + 1 * L) by lia. apply Nat.mod_add. lia.
Qed.

(* rr_exact_shares: k full turns of the ring starting at any cursor (no uint64 wrap inside the run)
   use every ring position exactly k times - with rr_atomic_exact: under every interleaving each
   target receives exactly (its number of ring slots) x k of k*len lookups *)
Theorem rr_exact_shares_l : forall len c k p, 0 < len -> (c + N.of_nat (k * len) <= two64)%N -> p < len ->
  count_nat p (positions len (consecutive c (k * len))) = k.
Proof.
  intros len c k p HL Hw Hp. unfold positions, consecutive. rewrite map_map.
  rewrite (map_ext_in _ (fun i => (N.to_nat (N.modulo c (N.of_nat len)) + i) mod len)).
  - apply full_cycles; [|assumption].
    rewrite N2Nat.inj_mod, Nat2N.id. apply Nat.mod_upper_bound. lia.
  - intros i Hi. apply in_seq in Hi.
    rewrite (N.mod_small (c + N.of_nat i) two64) by lia.
    rewrite !N2Nat.inj_mod, N2Nat.inj_add, !Nat2N.id.
    rewrite Nat.add_mod_idemp_l by lia. reflexivity.
Qed.

Example rr_exact_shares_nonvacuous :
  positions 3 (consecutive 7 6) = [1; 2; 0; 1; 2; 0] /\ count_nat 2 (positions 3 (consecutive 7 (2 * 3))) = 2.
Proof. vm_compute. split; reflexivity. Qed.

(* ------------------------------------------------------------------ redirect, the code as it is (fix ddf101c) *)
Definition rq_ok (tmpl : uobj) (l : rq_local) : Prop :=
  match rq_at l with
  | DAlloc => rq_got l = None
  | DStrip => rq_got l = None /\ rq_obj l = tmpl
  | DFill => rq_got l = None /\ rq_obj l = strip tmpl
  | DHost => rq_got l = None /\ rq_obj l = fill (strip tmpl) (rq_path l)
  | DRead => rq_got l = None /\ rq_obj l = fill_host (fill (strip tmpl) (rq_path l)) (rq_host l)
  | DDone => rq_got l = Some (Ok (rd_own tmpl (rq_path l) (rq_host l)))
  end.

Lemma rd_step_ok : forall tmpl s l, rq_ok tmpl l ->
  fst (rd_step tmpl s l) = s /\ rq_ok tmpl (snd (rd_step tmpl s l))
  /\ rq_path (snd (rd_step tmpl s l)) = rq_path l /\ rq_host (snd (rd_step tmpl s l)) = rq_host l.
Proof.
  intros tmpl s l H. unfold rd_step, rq_ok in *. destruct (rq_at l) eqn:E; cbn [fst snd rq_set rq_at rq_got rq_obj rq_path rq_host].
  - repeat split.
  - destruct H as [H1 H2]. rewrite H2. repeat split.
  - destruct H as [H1 H2]. rewrite H2. repeat split.
  - destruct H as [H1 H2]. rewrite H2. repeat split.
  - destruct H as [H1 H2]. rewrite H2. repeat split.
  - rewrite E. repeat split. assumption.
Qed.

Lemma Forall_upd' : forall {A} (P : A -> Prop) l i v, Forall P l -> P v -> Forall P (upd l i v).
Proof.
  intros A P l. induction l as [|a l IH]; intros [|i] v H Hv; cbn; try assumption;
    inversion H; subst; constructor; auto.
Qed.

(* redirect_every_schedule: since the URL is built on a per-request copy, under EVERY schedule, any number
   of requests, any template: the shared state is never written, and a request that has been answered got
   the URL made from ITS path and Host *)
Theorem redirect_every_schedule_l : forall tmpl sched s ts, Forall (rq_ok tmpl) ts ->
  fst (run (rd_step tmpl) sched s ts) = s /\ Forall (rq_ok tmpl) (snd (run (rd_step tmpl) sched s ts)).
Proof.
  intros tmpl sched. induction sched as [|i sched IH]; intros s ts H; cbn [run]; [split; [reflexivity|assumption]|].
  unfold step1. destruct (nth_error ts i) as [l|] eqn:E; [|apply IH; assumption].
  assert (Hl : rq_ok tmpl l) by (eapply (proj1 (Forall_forall _ _) H); eapply nth_error_In; eassumption).
  destruct (rd_step_ok tmpl s l Hl) as (S1 & S2 & _). destruct (rd_step tmpl s l) as [s' l']. cbn [fst snd] in *. subst s'.
  apply IH. now apply Forall_upd'.
Qed.

Theorem redirect_every_schedule_results_l : forall tmpl sched reqs,
  let r := run (rd_step tmpl) sched rd_start (map (fun q => rd_init (fst q) (snd q)) reqs) in
  fst r = rd_start /\
  Forall (fun l => rq_at l = DDone -> rq_got l = Some (Ok (rd_own tmpl (rq_path l) (rq_host l)))) (snd r).
Proof.
  intros tmpl sched reqs. cbv zeta.
  assert (H : Forall (rq_ok tmpl) (map (fun q => rd_init (fst q) (snd q)) reqs)).
  { apply Forall_forall. intros x Hx. apply in_map_iff in Hx. destruct Hx as [q [<- _]]. reflexivity. }
  destruct (redirect_every_schedule_l tmpl sched rd_start _ H) as [A B]. split; [assumption|].
  eapply Forall_impl; [|exact B]. intros l Hl D. unfold rq_ok in Hl. rewrite D in Hl. assumption.
Qed.

Example redirect_every_schedule_nonvacuous :
  rd_results (snd (run (rd_step w_tmpl) [0; 0; 0; 0; 1; 1; 1; 1; 0; 1] rd_start
                       [rd_init (bs "/from-A") (bs "old.example"); rd_init (bs "/from-B") (bs "old.example")]))
  = [Some (Ok (bs "http://new.example/from-A")); Some (Ok (bs "http://new.example/from-B"))].
Proof. vm_compute. reflexivity. Qed.

(* ---- the lookup lemmas at candidate host 0 ---- *)
Lemma lookup_reads_one_cursor_l : forall hosts path host proto f g res, rings_ok hosts ->
  lookup_pure hosts path host proto f = Ok (Some res) -> g (lk_route res) = f (lk_route res) ->
  lookup_pure hosts path host proto g = Ok (Some res).
Proof. intros. unfold lookup_pure in *. eapply lookup_reads_one_cursor_from; eassumption. Qed.
Lemma lookup_miss_reads_none_l : forall hosts path host proto f g, rings_ok hosts ->
  lookup_pure hosts path host proto f = Ok None -> lookup_pure hosts path host proto g = Ok None.
Proof. intros. unfold lookup_pure in *. eapply lookup_miss_reads_none_from; eassumption. Qed.
Lemma lookup_frame_l : forall hosts path host proto s,
  lk_redirect (snd (lookup hosts path host proto s)) = lk_redirect s /\
  forall id, lk_cursor (snd (lookup hosts path host proto s)) id = lk_cursor s id \/
             (lk_cursor (snd (lookup hosts path host proto s)) id = N.modulo (lk_cursor s id + 1) two64
              /\ touched path host proto hosts 0 (fst (lookup hosts path host proto s)) id).
Proof. intros. unfold lookup. apply lookup_frame_from. Qed.
