(** Proofs about Model/GrpcInFlight.v: calls in flight across cleanup ticks, whatever scheme
    the routed target is written with (C16). *)
From Coq Require Import String List NArith Bool Lia.
From Fabio Require Import Lib.Outcome Lib.Bytes Model.GrpcPool Model.GrpcInFlight Proofs.GrpcPool.
Import ListNotations.
Local Open Scope N_scope.

(* the pool and the table of a history with calls in flight are those of the plain history in
   which every call in flight is a call *)
Lemma fstep_projects ng fs o : f_st (fstep ng fs o) = run ng (f_st fs) (fproj o).
Proof. destruct o; reflexivity. Qed.
Lemma frun_projects ng ops : forall fs, f_st (frun ng fs ops) = run ng (f_st fs) (flat_map fproj ops).
Proof.
  induction ops as [|o ops IH]; intros fs; cbn [frun fold_left flat_map]; [reflexivity|].
  change (fold_left (fstep ng) ops (fstep ng fs o)) with (frun ng (fstep ng fs o) ops).
  rewrite IH, fstep_projects. unfold run. now rewrite fold_left_app.
Qed.

(* nobody else uses the call's id, and the call does not end *)
Definition other_id (id : N) (o : fop) : Prop :=
  match o with
  | FOp _ => True
  | FBegin i _ _ _ => i <> id
  | FEnd i => i <> id
  end.

Lemma find_filter_other (id i : N) (l : list (N * (url * N))) : i <> id ->
  find (fun x => fst x =? id) (filter (fun x => negb (fst x =? i)) l) = find (fun x => fst x =? id) l.
Proof.
  intros Hn. induction l as [|x l IH]; cbn [filter find]; [reflexivity|].
  destruct (fst x =? i) eqn:Ei; cbn [negb].
  - apply N.eqb_eq in Ei. destruct (fst x =? id) eqn:Ed; [apply N.eqb_eq in Ed; congruence | exact IH].
  - cbn [find]. destruct (fst x =? id); [reflexivity | exact IH].
Qed.

Lemma fly_step_keeps ng fs o id x :
  other_id id o -> fly_of id (f_fly fs) = Some x -> fly_of id (f_fly (fstep ng fs o)) = Some x.
Proof.
  intros Ho H. destruct o as [o|i m p k|i]; cbn [fstep f_fly other_id] in *.
  - exact H.
  - destruct (call_conn ng (f_st fs) m p k); [|exact H].
    unfold fly_of. cbn [find fst]. destruct (i =? id) eqn:E; [apply N.eqb_eq in E; congruence | exact H].
  - unfold fly_of in *. now rewrite find_filter_other.
Qed.
Lemma fly_run_keeps ng id x ops : forall fs,
  Forall (other_id id) ops -> fly_of id (f_fly fs) = Some x -> fly_of id (f_fly (frun ng fs ops)) = Some x.
Proof.
  induction ops as [|o ops IH]; intros fs F H; cbn [frun fold_left]; [exact H|].
  inversion F as [|? ? Ho F']; subst. apply IH; [exact F'|]. now apply fly_step_keeps.
Qed.

(* The property for a call in flight: from any well-formed state, a call that began on
   connection c of backend u -- u any URL, written with whatever scheme -- is delivered when
   its backend ends it, whatever happened in between (calls to anybody, calls in flight beginning
   and ending, table changes, any number of cleanup ticks), as long as no tick found u outside
   the table and u's connection was not shut down from outside; it is still the one connection
   of u, and nothing was dialled for u in the meantime. *)
Theorem inflight_survives ng fs id m p k u c ops :
  wf (s_pool (f_st fs)) ->
  call_conn ng (f_st fs) m p k = Some (u, c) ->
  undisturbed ng u (step ng (f_st fs) (Call m p k)) (flat_map fproj ops) ->
  Forall (other_id id) ops ->
  let fs' := frun ng (fstep ng fs (FBegin id m p k)) ops in
  fly_of id (f_fly fs') = Some (u, c) /\
  f_delivered fs' id = true /\
  holds (s_pool (f_st fs')) u c /\
  count_dials (s_pool (f_st fs')) u = count_dials (s_pool (step ng (f_st fs) (Call m p k))) u.
Proof.
  intros W C U F fs'.
  assert (Hfly : fly_of id (f_fly fs') = Some (u, c)).
  { apply fly_run_keeps; [exact F|]. cbn [fstep f_fly]. rewrite C. unfold fly_of. cbn [find fst].
    now rewrite N.eqb_refl. }
  assert (Hst : f_st fs' = run ng (step ng (f_st fs) (Call m p k)) (flat_map fproj ops)).
  { unfold fs'. now rewrite frun_projects. }
  pose proof (call_conn_holds ng (f_st fs) m p k u c W C) as H.
  destruct (one_conn_per_backend ng (flat_map fproj ops) _ u c (step_wf ng _ _ W) H U) as [H1 H2].
  rewrite <- Hst in H1, H2.
  split; [exact Hfly|]. split; [|split; [exact H1 | exact H2]].
  unfold f_delivered. rewrite Hfly. exact (proj2 H1).
Qed.

(* the same, spelled out for a target written scheme://rest: the scheme is no hypothesis *)
Corollary inflight_survives_any_scheme ng fs id m p k sch rest c ops :
  wf (s_pool (f_st fs)) ->
  call_conn ng (f_st fs) m p k = Some (render sch rest, c) ->
  undisturbed ng (render sch rest) (step ng (f_st fs) (Call m p k)) (flat_map fproj ops) ->
  Forall (other_id id) ops ->
  f_delivered (frun ng (fstep ng fs (FBegin id m p k)) ops) id = true.
Proof. intros W C U F. exact (proj1 (proj2 (inflight_survives ng fs id m p k _ c ops W C U F))). Qed.

(* ... and the other half of the clause, as the code has it: once the backend has left the
   table, the first cleanup tick closes the connection under the call *)
Theorem inflight_cut_after_leaving ng fs id u c t :
  fly_of id (f_fly fs) = Some (u, c) -> assoc u (p_pool (s_pool (f_st fs))) = Some c ->
  ~ In u (table_urls t) ->
  f_delivered (frun ng fs [FOp (SetTable t); FOp CleanupTick]) id = false.
Proof.
  intros Hf Ha Hn. cbn [frun fold_left fstep f_st f_fly step s_tbl s_pool]. unfold f_delivered. cbn [f_fly f_st s_pool].
  rewrite Hf. destruct (tick_drops (table_urls t) (s_pool (f_st fs)) u Hn) as [_ Hs].
  unfold live. now rewrite (Hs c Ha).
Qed.

(* non-vacuity: a target as the consul registry writes it for a service tagged without
   proto=grpc; a call in flight across two ticks, a table change that keeps the target, another
   call in flight to the same backend that begins and ends, a call to somebody else *)
Definition ex_http : url := render (bs "http") (bs "10.0.0.7:8080/").
Definition ex_ftbl : table := [([], [(bs "/pkg.Svc", [ex_http]); (bs "/", [ex_v])])].
Definition ex_ftbl2 : table := [(bs "betatest", [(bs "/", [ex_u])]); ([], [(bs "/pkg.Svc/Get", [ex_http])])].
Definition ex_fops : list fop :=
  [FOp CleanupTick; FBegin 2 [] (bs "/pkg.Svc/Get") 0; FOp (Call [] (bs "/other.Api/X") 0); FOp (SetTable ex_ftbl2);
   FOp CleanupTick; FEnd 2; FOp (ConnShutdown ex_v)].
Lemma inflight_nonvacuous :
  wf (s_pool (f_st (f_init ex_ftbl))) /\
  call_conn false (f_st (f_init ex_ftbl)) [] (bs "/pkg.Svc/Get") 0 = Some (ex_http, 0) /\
  grpc_scheme ex_http = false /\
  undisturbed false ex_http (step false (f_st (f_init ex_ftbl)) (Call [] (bs "/pkg.Svc/Get") 0)) (flat_map fproj ex_fops) /\
  Forall (other_id 1) ex_fops /\
  f_delivered (frun false (fstep false (f_init ex_ftbl) (FBegin 1 [] (bs "/pkg.Svc/Get") 0)) ex_fops) 1 = true /\
  count_dials (s_pool (f_st (frun false (fstep false (f_init ex_ftbl) (FBegin 1 [] (bs "/pkg.Svc/Get") 0)) ex_fops))) ex_http = 1.
Proof.
  split; [exact wf_init|]. split; [vm_compute; reflexivity|]. split; [vm_compute; reflexivity|].
  split.
  - cbn [ex_fops flat_map fproj app undisturbed]. repeat split; try (vm_compute; tauto); try discriminate.
  - split; [repeat constructor; cbn [other_id]; lia|]. split; vm_compute; reflexivity.
Qed.

(* the variant whose cleanup recognises only grpc:// and grpcs:// targets is refuted: a call in
   flight to a routed http:// backend is cut by the first tick *)
Lemma grpc_only_cleanup_variant_refuted :
  let fs := fstep false (f_init ex_ftbl) (FBegin 1 [] (bs "/pkg.Svc/Get") 0) in
  let s := s_pool (f_st fs) in
  wf s /\ In ex_http (table_urls ex_ftbl) /\ holds s ex_http 0 /\
  holds (p_tick (table_urls ex_ftbl) s) ex_http 0 /\
  assoc ex_http (p_pool (p_tick_grpc_only (table_urls ex_ftbl) s)) = None /\
  live (p_tick_grpc_only (table_urls ex_ftbl) s) 0 = false.
Proof.
  cbv zeta. split; [apply (step_wf false (f_st (f_init ex_ftbl)) (Call [] (bs "/pkg.Svc/Get") 0)); exact wf_init|].
  split; [vm_compute; tauto|]. split; [split; vm_compute; reflexivity|].
  split; [split; vm_compute; reflexivity|]. split; vm_compute; reflexivity.
Qed.
