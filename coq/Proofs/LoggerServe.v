(** What HTTPProxy.ServeHTTP says about the request in the access-log Event
    (Model/LoggerServe.v). *)
From Coq Require Import String List NArith ZArith Bool Lia.
From Fabio Require Import Lib.Outcome Lib.Bytes Model.Logger Model.LoggerServe.
Import ListNotations.
Local Open Scope N_scope.

Lemma urlparts_eqb_refl u : urlparts_eqb u u = true.
Proof. unfold urlparts_eqb. now rewrite !beq_refl. Qed.

(* Event.RequestURL ($request_url, $request_scheme, $request_args) is a function of the
   request as received: the route options (host=, strip, prepend, target) and whatever
   addHeaders later adds to the request cannot influence it *)
Theorem request_url_depends_only_on_request r o1 o2 :
  sv_request_url (serve_event r o1) = sv_request_url (serve_event r o2) /\
  sv_request_url (serve_event r o1) = request_url_at r (st_received r).
Proof. split; reflexivity. Qed.

Theorem request_url_as_received r o :
  let u := sv_request_url (serve_event r o) in
  up_host u = ir_host r /\ up_path u = ir_path r /\ up_query u = ir_query r /\
  up_scheme u = scheme_of (ir_xfp r) (ir_fwd r) (ir_ws r) (ir_tls r).
Proof. repeat split. Qed.

(* scheme(): exactly one of the two forwarding headers is trusted; otherwise the connection *)
Theorem scheme_of_cases xfp fwd ws tls :
  (xfp <> [] -> fwd = [] -> scheme_of xfp fwd ws tls = xfp) /\
  (xfp <> [] -> fwd <> [] -> scheme_of xfp fwd ws tls = conn_scheme ws tls) /\
  (xfp = [] -> fwd = [] -> scheme_of xfp fwd ws tls = conn_scheme ws tls).
Proof.
  unfold scheme_of. repeat split; intros H1 H2.
  - subst fwd. destruct xfp; [congruence | reflexivity].
  - destruct xfp; [congruence|]. destruct fwd; [congruence | reflexivity].
  - subst. reflexivity.
Qed.

Example scheme_examples :
  scheme_of (bs "https") [] false false = bs "https" /\
  scheme_of [] (bs "for=1.2.3.4; proto=https") false false = bs "https" /\
  scheme_of [] (bs "for=x;proto=wss; by=y") false false = bs "wss" /\
  scheme_of [] (bs "for=1.2.3.4") false true = bs "https" /\
  scheme_of (bs "https") (bs "proto=http") false false = bs "http" /\
  scheme_of [] [] true true = bs "wss".
Proof. repeat split; vm_compute; reflexivity. Qed.

(* seeded change C20-G: the request URL built where the Event is built (after addHeaders and
   the host rewrite) describes a request the client never sent *)
Definition ex_inreq (xfp : str) : inreq :=
  {| ir_host := bs "example.com"; ir_path := bs "/foo"; ir_query := []; ir_xfp := xfp; ir_fwd := [];
     ir_ws := false; ir_tls := false; ir_remote_ip := bs "10.0.0.7"; ir_proto := bs "HTTP/1.1" |}.
Definition ex_ropt (hostopt : str) : ropt :=
  {| ro_scheme := bs "http"; ro_host := bs "127.0.0.1:5000"; ro_query := []; ro_hostopt := hostopt;
     ro_strip := []; ro_prepend := []; ro_service := bs "svc" |}.

Theorem lazy_request_url_refuted :
  up_host (sv_request_url (serve_event_lazy (ex_inreq []) (ex_ropt (bs "dst")))) = bs "127.0.0.1:5000" /\
  up_host (sv_request_url (serve_event (ex_inreq []) (ex_ropt (bs "dst")))) = bs "example.com" /\
  up_scheme (sv_request_url (serve_event_lazy (ex_inreq (bs "https")) (ex_ropt []))) = bs "http" /\
  up_scheme (sv_request_url (serve_event (ex_inreq (bs "https")) (ex_ropt []))) = bs "https".
Proof. repeat split; vm_compute; reflexivity. Qed.

(* F-C20-4: Event.Request is the live request, so $request_host shows the host a host= route
   option wrote into it, next to a $request_url that shows the host the client asked for *)
Theorem request_host_rewritten_refuted :
  exists r o, sv_request_host (serve_event r o) <> ir_host r /\
              up_host (sv_request_url (serve_event r o)) = ir_host r.
Proof.
  exists (ex_inreq []), (ex_ropt (bs "dst")). split; [|reflexivity]. vm_compute. discriminate.
Qed.

(* outside that region every request-side field of the Event is the request as received *)
Theorem request_side_on_domain r o :
  region_host_rewritten r o = false ->
  request_side_as_received r (sv_request_url (serve_event r o)) (sv_request_host (serve_event r o)) = true.
Proof.
  unfold region_host_rewritten, request_side_as_received. intros H.
  apply negb_false_iff in H. cbn [serve_event sv_request_url sv_request_host].
  rewrite urlparts_eqb_refl. cbn [andb].
  unfold rewrite_host in *. cbn [rs_host add_headers st_received] in *. exact H.
Qed.

Example request_side_on_domain_nonvacuous :
  region_host_rewritten (ex_inreq (bs "https")) (ex_ropt []) = false /\
  region_host_rewritten (ex_inreq []) (ex_ropt (bs "dst")) = true.
Proof. split; vm_compute; reflexivity. Qed.
