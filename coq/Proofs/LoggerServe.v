(** What HTTPProxy.ServeHTTP says about the request in the access-log Event
    (Model/LoggerServe.v). *)
From Coq Require Import String List NArith ZArith Bool Lia.
From Fabio Require Import Lib.Outcome Lib.Bytes Model.Logger Model.LoggerServe.
Import ListNotations.
Local Open Scope N_scope.

Lemma urlparts_eqb_refl u : urlparts_eqb u u = true.
Proof. unfold urlparts_eqb. now rewrite !beq_refl. Qed.

(* Event.RequestURL ($request_url, $request_scheme, $request_args) is a function of the
   request as received: the route options (host=, strip, prepend, target) and whatever
   addHeaders later adds to the request cannot influence it *)
Theorem request_url_depends_only_on_request r o1 o2 :
  sv_request_url (serve_event r o1) = sv_request_url (serve_event r o2) /\
  sv_request_url (serve_event r o1) = request_url_at r (st_received r).
Proof. split; reflexivity. Qed.

Theorem request_url_as_received r o :
  let u := sv_request_url (serve_event r o) in
  up_host u = ir_host r /\ up_path u = ir_path r /\ up_query u = ir_query r /\
  up_scheme u = scheme_of (ir_xfp r) (ir_fwd r) (ir_ws r) (ir_tls r).
Proof. repeat split. Qed.

(* scheme(): exactly one of the two forwarding headers is trusted; otherwise the connection *)
Theorem scheme_of_cases xfp fwd ws tls :
  (xfp <> [] -> fwd = [] -> scheme_of xfp fwd ws tls = xfp) /\
  (xfp <> [] -> fwd <> [] -> scheme_of xfp fwd ws tls = conn_scheme ws tls) /\
  (xfp = [] -> fwd = [] -> scheme_of xfp fwd ws tls = conn_scheme ws tls).
Proof.
  unfold scheme_of. repeat split; intros H1 H2.
  - subst fwd. destruct xfp; [congruence | reflexivity].
  - destruct xfp; [congruence|]. destruct fwd; [congruence | reflexivity].
  - subst. reflexivity.
Qed.

Example scheme_examples :
  scheme_of (bs "https") [] false false = bs "https" /\
  scheme_of [] (bs "for=1.2.3.4; proto=https") false false = bs "https" /\
  scheme_of [] (bs "for=x;proto=wss; by=y") false false = bs "wss" /\
  scheme_of [] (bs "for=1.2.3.4") false true = bs "https" /\
  scheme_of (bs "https") (bs "proto=http") false false = bs "http" /\
  scheme_of [] [] true true = bs "wss".
Proof. repeat split; vm_compute; reflexivity. Qed.

(* seeded change C20-G: the request URL built where the Event is built (after addHeaders and
   the host rewrite) describes a request the client never sent *)
Definition ex_inreq (xfp : str) : inreq :=
  {| ir_host := bs "example.com"; ir_path := bs "/foo"; ir_query := []; ir_xfp := xfp; ir_fwd := [];
     ir_ws := false; ir_tls := false; ir_remote_ip := bs "10.0.0.7"; ir_proto := bs "HTTP/1.1";
     ir_method := bs "GET"; ir_uri := bs "/foo" |}.
Definition ex_ropt (hostopt : str) : ropt :=
  {| ro_scheme := bs "http"; ro_host := bs "127.0.0.1:5000"; ro_query := []; ro_hostopt := hostopt;
     ro_strip := []; ro_prepend := []; ro_service := bs "svc" |}.

Theorem lazy_request_url_refuted :
  up_host (sv_request_url (serve_event_lazy (ex_inreq []) (ex_ropt (bs "dst")))) = bs "127.0.0.1:5000" /\
  up_host (sv_request_url (serve_event (ex_inreq []) (ex_ropt (bs "dst")))) = bs "example.com" /\
  up_scheme (sv_request_url (serve_event_lazy (ex_inreq (bs "https")) (ex_ropt []))) = bs "http" /\
  up_scheme (sv_request_url (serve_event (ex_inreq (bs "https")) (ex_ropt []))) = bs "https".
Proof. repeat split; vm_compute; reflexivity. Qed.

(* ---------------- the RENDERED request-side fields ---------------- *)
(* F-C20-4 (fixed by 5d3ea07): Event.Request is the live request, so Request.Host is the host a
   host= route option wrote into it; $request_host used to print that, next to a $request_url
   with the host the client asked for.  About the [_unrepaired] renderer; the repaired one
   prints the host of the saved request URL *)
Theorem request_host_rewritten_refuted :
  exists r o s,
    render_field_unrepaired FRequestHost (event_of r (serve_event r o) s) = Ok (bs "127.0.0.1:5000") /\
    ir_host r = bs "example.com" /\
    render_field FRequestHost (event_of r (serve_event r o) s) = Ok (ir_host r) /\
    sv_request_host (serve_event r o) = bs "127.0.0.1:5000".
Proof.
  exists (ex_inreq []), (ex_ropt (bs "dst")), (bs "http://example.com/foo").
  repeat split; vm_compute; reflexivity.
Qed.

(* every request-side field, rendered from the Event ServeHTTP builds, is what a logger that
   saw only the request as received would print: no route option and no later mutation of the
   live request shows - for all requests, all options *)
Theorem rendered_request_fields_as_received r o s f :
  In f request_fields ->
  render_field f (event_of r (serve_event r o) s) = render_field f (received_event r s).
Proof.
  unfold request_fields. intros H.
  repeat (destruct H as [<-|H]; [reflexivity|]). destruct H.
Qed.

Corollary rendered_request_fields_depend_only_on_request r o1 o2 s f :
  In f request_fields ->
  render_field f (event_of r (serve_event r o1) s) = render_field f (event_of r (serve_event r o2) s).
Proof. intros H. now rewrite !rendered_request_fields_as_received. Qed.

(* the same for whole lines: any pattern made of literal text and request-side fields *)
Definition request_item (it : item) : Prop :=
  match it with IText _ => True | IHeader _ => False | IField f => In f request_fields end.

Lemma write_items_ext p e1 e2 :
  (forall it, In it p -> render_item it e1 = render_item it e2) -> pattern_write p e1 = pattern_write p e2.
Proof.
  intros H. unfold pattern_write, pattern_write_with.
  assert (E : write_items_with render_field p e1 = write_items_with render_field p e2).
  { induction p as [|it p IH]; [reflexivity|]. cbn [write_items_with].
    pose proof (H it (or_introl eq_refl)) as Hi. unfold render_item in Hi. rewrite Hi.
    rewrite IH; [reflexivity|]. intros it' I. apply H. now right. }
  now rewrite E.
Qed.

Theorem rendered_request_line_as_received r o s p :
  Forall request_item p ->
  pattern_write p (event_of r (serve_event r o) s) = pattern_write p (received_event r s).
Proof.
  intros Hp. apply write_items_ext. intros it I.
  rewrite Forall_forall in Hp. specialize (Hp it I).
  destruct it as [t|n|f]; [reflexivity | destruct Hp |].
  unfold render_item. cbn [render_item_with]. now apply rendered_request_fields_as_received.
Qed.

Example request_format_is_request_side :
  exists p, new_logger request_format = Ok p /\ Forall request_item p.
Proof.
  eexists. split; [vm_compute; reflexivity|].
  repeat constructor; cbn [request_item request_fields In]; tauto.
Qed.

Example rendered_line_example :
  log_line request_format (event_of (ex_inreq (bs "https")) (serve_event (ex_inreq (bs "https")) (ex_ropt (bs "dst"))) (bs "https://example.com/foo"))
  = Ok (bs "GET /foo HTTP/1.1||example.com|GET|https|/foo|https://example.com/foo|HTTP/1.1" ++ [10]).
Proof. vm_compute. reflexivity. Qed.
