(** Proofs about the pickers (Model/Pick.v): [len(ring)] consecutive round-robin
    picks are a rotation of the ring, so they hit every target exactly as often as
    it occupies slots; a target without a slot is never returned by either picker;
    the random picker's preimage of a target has exactly its number of slots. *)
From Coq Require Import List ZArith NArith Bool Lia.
From Fabio Require Import Lib.Outcome Model.Weigh Model.Ring Model.Pick Proofs.Ring.
Import ListNotations.
Local Open Scope outcome_scope.

(* ---------- list helpers ---------- *)
Lemma skipn_nth_cons {X} (l : list X) a d : a < length l -> skipn a l = nth a l d :: skipn (S a) l.
Proof.
  revert l; induction a as [|a IH]; intros l H; destruct l as [|x l]; cbn [length] in H; try lia.
  - reflexivity.
  - cbn [skipn nth]. rewrite (IH l) by lia. reflexivity.
Qed.

Lemma map_seq_offset {X} (g : nat -> X) k : forall a,
  map g (seq a k) = map (fun j => g (a + j)) (seq 0 k).
Proof.
  induction k as [|k IH]; intros a; [reflexivity|].
  cbn [seq map]. rewrite Nat.add_0_r. f_equal.
  rewrite IH. rewrite <- seq_shift, map_map. apply map_ext. intros j. f_equal. lia.
Qed.

Lemma map_nth_seq_skip {X} (l : list X) d k : forall a, a + k <= length l ->
  map (fun j => nth (a + j) l d) (seq 0 k) = firstn k (skipn a l).
Proof.
  induction k as [|k IH]; intros a H; [reflexivity|].
  rewrite (skipn_nth_cons l a d) by lia. cbn [seq map firstn]. rewrite Nat.add_0_r. f_equal.
  rewrite <- seq_shift, map_map. rewrite <- (IH (S a)) by lia.
  apply map_ext. intros j. f_equal. lia.
Qed.

(** the rotation: reading [U = length r] slots cyclically from position [c] *)
Lemma rotation_list {X} (r : list X) d c : r <> [] ->
  map (fun j => nth ((c + j) mod length r) r d) (seq 0 (length r))
  = skipn (c mod length r) r ++ firstn (c mod length r) r.
Proof.
  intros Hne. set (U := length r). assert (HU : 0 < U) by (destruct r; [congruence|cbn; lia]).
  set (s := c mod U). assert (Hs : s < U) by (apply Nat.mod_upper_bound; lia).
  replace (seq 0 U) with (seq 0 ((U - s) + s)) by (f_equal; lia).
  rewrite seq_app, map_app. cbn [Nat.add]. f_equal.
  - rewrite (map_ext_in _ (fun j => nth (s + j) r d)).
    + rewrite map_nth_seq_skip by (fold U; lia).
      apply firstn_all2. rewrite skipn_length. fold U. lia.
    + intros j Hj. apply in_seq in Hj. f_equal.
      rewrite <- Nat.add_mod_idemp_l by lia. fold s. apply Nat.mod_small. lia.
  - rewrite map_seq_offset.
    rewrite (map_ext_in _ (fun j => nth (0 + j) r d)).
    + rewrite map_nth_seq_skip by (fold U; lia). reflexivity.
    + intros j Hj. apply in_seq in Hj. f_equal. cbn [Nat.add].
      rewrite <- Nat.add_mod_idemp_l by lia. fold s.
      replace (s + (U - s + j)) with (j + 1 * U) by lia.
      rewrite Nat.mod_add by lia. apply Nat.mod_small. lia.
Qed.

Lemma occupancy_rotation t r s : occupancy t (skipn s r ++ firstn s r) = occupancy t r.
Proof.
  rewrite occupancy_app, Nat.add_comm, <- occupancy_app. now rewrite firstn_skipn.
Qed.

Lemma in_occupancy_pos t l : In t l -> 0 < occupancy t l.
Proof.
  induction l as [|x l IH]; intros H; [destruct H|]. rewrite occupancy_cons.
  destruct H as [->|H]; [rewrite slot_eqb_refl; lia|]. specialize (IH H). lia.
Qed.

Lemma occupancy_pos_in t l : 0 < occupancy t l -> In t l.
Proof.
  induction l as [|x l IH]; intros H; [cbn in H; lia|]. rewrite occupancy_cons in H.
  destruct (slot_eqb t x) eqn:E; [apply slot_eqb_eq in E; subst; now left|right; apply IH; lia].
Qed.

(* ---------- round robin ---------- *)
Lemma rr_pick_ok r total : r <> [] ->
  rr_pick r total = Ok (nth (N.to_nat total mod length r) r None, ((total + 1) mod two64)%N).
Proof.
  intros Hne. assert (HU : 0 < length r) by (destruct r; [congruence|cbn; lia]).
  unfold rr_pick. destruct (N.of_nat (length r) =? 0)%N eqn:E0; [apply N.eqb_eq in E0; lia|].
  rewrite N2Nat.inj_mod, Nat2N.id.
  rewrite (nth_error_nth' r None) by (apply Nat.mod_upper_bound; lia). reflexivity.
Qed.

Lemma two64_pos : (0 < two64)%N.
Proof. reflexivity. Qed.

Lemma rr_run_eq r : r <> [] -> forall k total, (total < two64)%N -> (total + N.of_nat k <= two64)%N ->
  rr_run k r total
  = Ok (map (fun j => nth ((N.to_nat total + j) mod length r) r None) (seq 0 k),
        ((total + N.of_nat k) mod two64)%N).
Proof.
  intros Hne k; induction k as [|k IH]; intros total Hlt Hb.
  - cbn [rr_run seq map]. rewrite N.add_0_r. rewrite N.mod_small by lia. reflexivity.
  - cbn [rr_run]. rewrite (rr_pick_ok r total Hne). cbn [bind].
    destruct (N.eq_dec (total + 1) two64) as [He|Hn].
    + assert (k = 0) by lia. subst k. rewrite He, N.mod_same by (intro; discriminate).
      cbn [rr_run bind seq map]. rewrite Nat.add_0_r.
      replace (total + N.of_nat 1)%N with two64 by lia. rewrite N.mod_same by (intro; discriminate).
      reflexivity.
    + rewrite N.mod_small by lia. rewrite IH by lia. cbn [bind seq map]. rewrite Nat.add_0_r.
      f_equal. f_equal.
      * f_equal. rewrite <- seq_shift, map_map. apply map_ext. intros j. f_equal. f_equal. lia.
      * f_equal. lia.
Qed.

(** rr_cycle_exact: any [U = len(ring)] consecutive round-robin picks, from any cursor
    position that does not wrap the uint64 inside the cycle, hit every target (and nil)
    exactly as often as it occupies slots of the ring. *)
Theorem rr_cycle_exact r total : r <> [] -> (total < two64)%N -> (total + N.of_nat (length r) <= two64)%N ->
  exists picks, rr_run (length r) r total = Ok (picks, ((total + N.of_nat (length r)) mod two64)%N)
    /\ length picks = length r
    /\ forall t, occupancy t picks = occupancy t r.
Proof.
  intros Hne Hlt Hb. rewrite (rr_run_eq r Hne) by assumption.
  eexists. split; [reflexivity|]. split; [now rewrite map_length, seq_length|].
  intros t. rewrite rotation_list by exact Hne. apply occupancy_rotation.
Qed.

(** positive_never_starved: a target with at least one slot is picked in every full cycle *)
Theorem rr_never_starved r total i : (total < two64)%N -> (total + N.of_nat (length r) <= two64)%N ->
  0 < occupancy (Some i) r ->
  exists picks c, rr_run (length r) r total = Ok (picks, c) /\ In (Some i) picks.
Proof.
  intros Hlt Hb Hocc. assert (Hne : r <> []) by (intros ->; cbn in Hocc; lia).
  destruct (rr_cycle_exact r total Hne Hlt Hb) as (picks & Hrun & _ & Hcnt).
  exists picks. eexists. split; [exact Hrun|]. apply occupancy_pos_in. rewrite Hcnt. exact Hocc.
Qed.

(** zero_never_picked: a target without a slot is returned by no round-robin pick ... *)
Theorem rr_zero_never_picked r i : occupancy (Some i) r = 0 ->
  forall total c, rr_pick r total <> Ok (Some i, c).
Proof.
  intros Hocc total c H. unfold rr_pick in H.
  destruct (N.of_nat (length r) =? 0)%N; [discriminate|].
  destruct (nth_error r (N.to_nat (total mod N.of_nat (length r)))) as [t|] eqn:En; [|discriminate].
  injection H as -> _. apply nth_error_In in En. apply in_occupancy_pos in En. lia.
Qed.

(** ... and by no random pick, whatever the random source returns *)
Theorem rnd_zero_never_picked r i : occupancy (Some i) r = 0 -> forall k, rnd_pick r k <> Ok (Some i).
Proof.
  intros Hocc k H. unfold rnd_pick in H. destruct (nth_error r k) as [t|] eqn:En; [|discriminate].
  injection H as ->. apply nth_error_In in En. apply in_occupancy_pos in En. lia.
Qed.

(** rnd_support: among the [U] values the random source can return, exactly
    [occupancy i] select target i (so a uniform source picks i with probability n_i / U) *)
Definition picks_slot (t : option nat) (o : outcome (option nat)) : bool :=
  match o with Ok x => slot_eqb t x | _ => false end.

Lemma length_filter_map {X Y} (p : Y -> bool) (g : X -> Y) l :
  length (filter p (map g l)) = length (filter (fun x => p (g x)) l).
Proof. induction l as [|x l IH]; [reflexivity|]. cbn [map filter]. destruct (p (g x)); cbn [length]; lia. Qed.

Theorem rnd_support r t :
  length (filter (fun k => picks_slot t (rnd_pick r k)) (seq 0 (length r))) = occupancy t r.
Proof.
  induction r as [|x r IH]; [reflexivity|].
  cbn [length seq]. rewrite <- seq_shift. cbn [filter].
  unfold rnd_pick at 1. cbn [nth_error picks_slot]. rewrite occupancy_cons.
  destruct (slot_eqb t x); cbn [length]; rewrite length_filter_map;
    rewrite (filter_ext _ (fun k => picks_slot t (rnd_pick r k))) by (intros; reflexivity);
    rewrite IH; lia.
Qed.

(** a ring without nil slots never makes a pick return nil, and a non-empty ring never makes it crash *)
Theorem rr_pick_total r total : r <> [] -> occupancy None r = 0 ->
  exists i c, rr_pick r total = Ok (Some i, c).
Proof.
  intros Hne Hocc. rewrite (rr_pick_ok r total Hne).
  assert (HU : 0 < length r) by (destruct r; [congruence|cbn; lia]).
  destruct (nth (N.to_nat total mod length r) r None) as [i|] eqn:E; [eauto|].
  exfalso. assert (In None r).
  { rewrite <- E. apply nth_In. apply Nat.mod_upper_bound. lia. }
  apply in_occupancy_pos in H. lia.
Qed.

Theorem rnd_pick_total r k : k < length r -> occupancy None r = 0 -> exists i, rnd_pick r k = Ok (Some i).
Proof.
  intros Hk Hocc. unfold rnd_pick. destruct (nth_error r k) as [t|] eqn:En.
  - destruct t as [i|]; [eauto|]. apply nth_error_In in En. apply in_occupancy_pos in En. lia.
  - apply nth_error_None in En. lia.
Qed.

Example rr_cycle_nonvacuous :
  rr_run 6 [Some 3; Some 2; Some 0; Some 0; Some 2; Some 0] 18446744073709551610%N
  = Ok ([Some 2; Some 0; Some 3; Some 2; Some 0; Some 0], 0%N).
Proof. vm_compute. reflexivity. Qed.
