(** Proofs about Model/TableCmd.v (route command semantics) and Model/RouteText.v. *)
From Coq Require Import String List NArith ZArith Bool Lia.
From Fabio Require Import Lib.Outcome Lib.Bytes Model.WtF64 Model.TableCmd Model.RouteText.
Import ListNotations.
Local Open Scope N_scope.

(* ================= basics ================= *)
Lemma wt_eqb_refl w : wt_eqb w w = true.
Proof. destruct w; cbn [wt_eqb]; auto; now rewrite N.eqb_refl, Z.eqb_refl. Qed.

Lemma w_clamp_idem w : w_clamp (w_clamp w) = w_clamp w.
Proof. now destruct w. Qed.

Lemma str_list_eqb_refl l : str_list_eqb l l = true.
Proof. unfold str_list_eqb. induction l as [|x l IH]; cbn [list_eqb]; auto. now rewrite beq_refl, IH. Qed.

Lemma beq_true_eq a b : beq a b = true -> a = b.
Proof. apply beq_eq. Qed.

Lemma filter_all_true {A} (p : A -> bool) l : (forall x, In x l -> p x = true) -> filter p l = l.
Proof.
  induction l as [|x l IH]; intros H; cbn [filter]; auto.
  rewrite (H x (or_introl eq_refl)). f_equal. apply IH. intros y Hy. apply H. now right.
Qed.

Lemma filter_app' {A} (p : A -> bool) a b : filter p (a ++ b) = filter p a ++ filter p b.
Proof. induction a as [|x a IH]; cbn [filter app]; auto. destruct (p x); cbn [app]; now rewrite IH. Qed.

Lemma flat_map_app' {A B} (f : A -> list B) a b : flat_map f (a ++ b) = flat_map f a ++ flat_map f b.
Proof. induction a as [|x a IH]; cbn [flat_map app]; auto. now rewrite IH, app_assoc. Qed.

Lemma filter_flat_map {A B} (p : B -> bool) (f : A -> list B) l :
  filter p (flat_map f l) = flat_map (fun x => filter p (f x)) l.
Proof. induction l as [|x l IH]; cbn [flat_map filter]; auto. now rewrite filter_app', IH. Qed.

Lemma filter_map' {A B} (p : B -> bool) (f : A -> B) l :
  filter p (map f l) = map f (filter (fun x => p (f x)) l).
Proof. induction l as [|x l IH]; cbn [map filter]; auto. destruct (p (f x)); cbn [map]; now rewrite IH. Qed.

Lemma map_flat_map {A B C} (g : B -> C) (f : A -> list B) l :
  map g (flat_map f l) = flat_map (fun x => map g (f x)) l.
Proof. induction l as [|x l IH]; cbn [flat_map map]; auto. now rewrite map_app, IH. Qed.

Lemma flat_map_ext_in {A B} (f g : A -> list B) l :
  (forall x, In x l -> f x = g x) -> flat_map f l = flat_map g l.
Proof.
  induction l as [|x l IH]; intros H; cbn [flat_map]; auto.
  rewrite (H x (or_introl eq_refl)), IH; auto. intros y Hy. apply H. now right.
Qed.

(* ================= association-list decomposition ================= *)
Lemma lookup_none h t : lookup h t = None -> ~ In h (map fst t) /\ forall f, upd_host h f t = t.
Proof.
  induction t as [|[k rs] t IH]; cbn [lookup upd_host map fst In]; intros H.
  - split; auto.
  - destruct (beq k h) eqn:E; [discriminate|]. destruct (IH H) as [H1 H2]. split.
    + intros [->|Hin]; [now rewrite beq_refl in E | auto].
    + intros f. now rewrite H2.
Qed.

Lemma lookup_split h t rs : lookup h t = Some rs ->
  exists a b, t = a ++ (h, rs) :: b /\ ~ In h (map fst a) /\ forall f, upd_host h f t = a ++ (h, f rs) :: b.
Proof.
  induction t as [|[k rs'] t IH]; cbn [lookup upd_host]; intros H; [discriminate|].
  destruct (beq k h) eqn:E.
  - apply beq_true_eq in E. subst k. inversion H; subst rs'. exists [], t. cbn [app map In]. auto.
  - destruct (IH H) as (a & b & -> & Hn & Hu). exists ((k, rs') :: a), b. cbn [app map fst In]. repeat split.
    + intros [->|Hin]; [now rewrite beq_refl in E | auto].
    + intros f. now rewrite Hu.
Qed.

Lemma lookup_mid h a rs b : ~ In h (map fst a) -> lookup h (a ++ (h, rs) :: b) = Some rs.
Proof.
  induction a as [|[k r] a IH]; cbn [app lookup map fst In]; intros Hn.
  - now rewrite beq_refl.
  - destruct (beq k h) eqn:E; [apply beq_true_eq in E; subst; tauto | apply IH; tauto].
Qed.

Lemma lookup_notin h t : ~ In h (map fst t) -> lookup h t = None.
Proof.
  induction t as [|[k r] t IH]; cbn [lookup map fst In]; intros Hn; auto.
  destruct (beq k h) eqn:E; [apply beq_true_eq in E; subst; tauto | apply IH; tauto].
Qed.

Lemma find_none p rs : find p rs = None -> ~ In p (map r_path rs) /\ forall f, upd_route p f rs = rs.
Proof.
  induction rs as [|r rs IH]; cbn [find upd_route map In]; intros H.
  - split; auto.
  - destruct (beq (r_path r) p) eqn:E; [discriminate|]. destruct (IH H) as [H1 H2]. split.
    + intros [Hp|Hin]; [rewrite Hp, beq_refl in E; discriminate | auto].
    + intros f. now rewrite H2.
Qed.

Lemma find_split p rs r : find p rs = Some r ->
  exists a b, rs = a ++ r :: b /\ r_path r = p /\ ~ In p (map r_path a)
              /\ forall f, upd_route p f rs = a ++ f r :: b.
Proof.
  induction rs as [|x rs IH]; cbn [find upd_route]; intros H; [discriminate|].
  destruct (beq (r_path x) p) eqn:E.
  - apply beq_true_eq in E. inversion H; subst x. exists [], rs. cbn [app map In]. auto.
  - destruct (IH H) as (a & b & -> & Hp & Hn & Hu). exists (x :: a), b. cbn [app map In]. repeat split; auto.
    + intros [Hx|Hin]; [rewrite Hx, beq_refl in E; discriminate | auto].
    + intros f. now rewrite Hu.
Qed.

Lemma find_mid p a r b : ~ In p (map r_path a) -> r_path r = p -> find p (a ++ r :: b) = Some r.
Proof.
  induction a as [|x a IH]; cbn [app find map In]; intros Hn Hp.
  - now rewrite Hp, beq_refl.
  - destruct (beq (r_path x) p) eqn:E; [apply beq_true_eq in E; tauto | apply IH; tauto].
Qed.

Lemma find_notin p rs : ~ In p (map r_path rs) -> find p rs = None.
Proof.
  induction rs as [|x rs IH]; cbn [find map In]; intros Hn; auto.
  destruct (beq (r_path x) p) eqn:E; [apply beq_true_eq in E; tauto | apply IH; tauto].
Qed.

(* ================= flat ================= *)
Lemma flat_app a b : flat (a ++ b) = flat a ++ flat b.
Proof. apply flat_map_app'. Qed.
Lemma flat_routes_app h a b : flat_routes h (a ++ b) = flat_routes h a ++ flat_routes h b.
Proof. apply flat_map_app'. Qed.
Lemma flat_cons h rs t : flat ((h, rs) :: t) = flat_routes h rs ++ flat t.
Proof. reflexivity. Qed.
Lemma flat_routes_cons h r rs :
  flat_routes h (r :: rs) = map (fun tg => (h, r_path r, tg)) (r_targets r) ++ flat_routes h rs.
Proof. reflexivity. Qed.

Lemma in_flat_routes h rs x :
  In x (flat_routes h rs) <-> exists r tg, In r rs /\ In tg (r_targets r) /\ x = (h, r_path r, tg).
Proof.
  unfold flat_routes. rewrite in_flat_map. split.
  - intros (r & Hr & Hx). apply in_map_iff in Hx as (tg & <- & Htg). now exists r, tg.
  - intros (r & tg & Hr & Htg & ->). exists r. split; auto. apply in_map_iff. now exists tg.
Qed.

Lemma in_flat t x :
  In x (flat t) <-> exists h rs r tg, In (h, rs) t /\ In r rs /\ In tg (r_targets r) /\ x = (h, r_path r, tg).
Proof.
  unfold flat. rewrite in_flat_map. split.
  - intros ([h rs] & Hh & Hx). cbn [fst snd] in Hx. apply in_flat_routes in Hx as (r & tg & ? & ? & ?).
    now exists h, rs, r, tg.
  - intros (h & rs & r & tg & Hh & Hr & Htg & ->). exists (h, rs). split; auto. cbn [fst snd].
    apply in_flat_routes. now exists r, tg.
Qed.

(* ================= the invariant ================= *)
Definition host_ok (rs : list route) : Prop :=
  rs <> [] /\ NoDup (map r_path rs) /\ Forall (fun r => r_targets r <> []) rs.

(* hosts are unique, every host has a route, paths of a host are unique, every route has a target *)
Definition inv (t : table) : Prop := NoDup (map fst t) /\ Forall (fun hr => host_ok (snd hr)) t.

(* uniqueness alone (what the table satisfies between delRoute's filter and its sweeps) *)
Definition uniq (t : table) : Prop := NoDup (map fst t) /\ Forall (fun hr => NoDup (map r_path (snd hr))) t.

Lemma inv_uniq t : inv t -> uniq t.
Proof.
  intros [H1 H2]. split; auto. eapply Forall_impl; [|exact H2]. intros hr (_ & H & _). exact H.
Qed.

Lemma upd_host_fst h f t : map fst (upd_host h f t) = map fst t.
Proof.
  induction t as [|[k rs] t IH]; cbn [upd_host map fst]; auto.
  destruct (beq k h); cbn [map fst]; now rewrite ?IH.
Qed.

Lemma upd_route_path p f rs : (forall r, r_path (f r) = r_path r) -> map r_path (upd_route p f rs) = map r_path rs.
Proof.
  intros Hf. induction rs as [|r rs IH]; cbn [upd_route map]; auto.
  destruct (beq (r_path r) p); cbn [map]; now rewrite ?Hf, ?IH.
Qed.

Lemma upd_host_Forall (P : list route -> Prop) h f t :
  Forall (fun hr => P (snd hr)) t -> (forall rs, P rs -> P (f rs)) ->
  Forall (fun hr => P (snd hr)) (upd_host h f t).
Proof.
  intros H Hf. induction H as [|[k rs] t Hx Ht IH]; cbn [upd_host]; [constructor|].
  destruct (beq k h); constructor; cbn [snd] in *; auto.
Qed.

Lemma upd_host_inv h f t : inv t -> (forall rs, host_ok rs -> host_ok (f rs)) -> inv (upd_host h f t).
Proof.
  intros [H1 H2] Hf. split; [now rewrite upd_host_fst | now apply upd_host_Forall].
Qed.

Lemma upd_route_Forall (P : route -> Prop) p f rs :
  Forall P rs -> (forall r, P r -> P (f r)) -> Forall P (upd_route p f rs).
Proof.
  intros H Hf. induction H as [|r rs Hx Hr IH]; cbn [upd_route]; [constructor|].
  destruct (beq (r_path r) p); constructor; auto.
Qed.

Lemma upd_route_ok p f rs :
  (forall r, r_path (f r) = r_path r) -> (forall r, r_targets r <> [] -> r_targets (f r) <> []) ->
  host_ok rs -> host_ok (upd_route p f rs).
Proof.
  intros Hp Ht (Hne & Hnd & Hall). repeat split.
  - destruct rs as [|r rs]; [congruence|]. cbn [upd_route]. destruct (beq (r_path r) p); discriminate.
  - now rewrite upd_route_path.
  - now apply upd_route_Forall.
Qed.

Lemma add_target_path svc url w tags opts r : r_path (add_target svc url w tags opts r) = r_path r.
Proof. unfold add_target. now destruct (existsb _ _). Qed.

Lemma add_target_nonempty svc url w tags opts r : r_targets (add_target svc url w tags opts r) <> [].
Proof.
  unfold add_target. destruct (existsb _ _) eqn:E.
  - intros H. rewrite H in E. discriminate.
  - cbn [r_targets]. intros H. apply app_eq_nil in H as [_ H]. discriminate.
Qed.

Lemma set_weight_path svc w tags r : r_path (set_weight svc w tags r) = r_path r.
Proof. reflexivity. Qed.

Lemma lookup_in h t rs : lookup h t = Some rs -> In (h, rs) t.
Proof. intros H. destruct (lookup_split _ _ _ H) as (a & b & -> & _). apply in_elt. Qed.
Lemma find_in p rs r : find p rs = Some r -> In r rs /\ r_path r = p.
Proof. intros H. destruct (find_split _ _ _ H) as (a & b & -> & Hp & _). split; auto. apply in_elt. Qed.

Lemma NoDup_map_filter {A B} (f : A -> B) p l : NoDup (map f l) -> NoDup (map f (filter p l)).
Proof.
  induction l as [|x l IH]; cbn [map filter]; intros H; auto.
  inversion H as [|? ? Hn Hd]; subst. destruct (p x); cbn [map]; auto.
  constructor; auto. intros Hin. apply Hn. apply in_map_iff in Hin as (y & Hy & Hin).
  apply in_map_iff. exists y. split; auto. now apply filter_In in Hin as [? _].
Qed.

Lemma sweep_inv t : uniq t -> inv (sweep t).
Proof.
  intros [H1 H2]. unfold sweep. split.
  - apply NoDup_map_filter. rewrite map_map. cbn [fst]. exact H1.
  - apply Forall_forall. intros [h rs] Hin. apply filter_In in Hin as [Hin Hne].
    apply in_map_iff in Hin as ([h' rs'] & Heq & Hin). cbn [fst snd] in Heq. inversion Heq; subst h rs.
    unfold has_routes in Hne. cbn [snd] in *. rewrite Forall_forall in H2. specialize (H2 _ Hin). cbn [snd] in H2.
    repeat split.
    + intros E. rewrite E in Hne. discriminate.
    + now apply NoDup_map_filter.
    + apply Forall_forall. intros r Hr. apply filter_In in Hr as [_ Hr]. unfold has_targets in Hr.
      intros E. rewrite E in Hr. discriminate.
Qed.

Lemma filter_all_uniq skip t : uniq t -> uniq (filter_all skip t).
Proof.
  intros [H1 H2]. unfold filter_all. split.
  - rewrite map_map. cbn [fst]. exact H1.
  - apply Forall_forall. intros [h rs] Hin. apply in_map_iff in Hin as ([h' rs'] & Heq & Hin).
    cbn [fst snd] in *. inversion Heq; subst. rewrite map_map. cbn [filter_route r_path].
    rewrite Forall_forall in H2. exact (H2 _ Hin).
Qed.

Lemma filter_one_uniq h p skip t : uniq t -> uniq (filter_one h p skip t).
Proof.
  intros [H1 H2]. unfold filter_one. split; [now rewrite upd_host_fst|].
  apply (upd_host_Forall (fun rs => NoDup (map r_path rs))); auto.
  intros rs Hrs. now rewrite upd_route_path.
Qed.

Lemma NoDup_app_single {A} (l : list A) x : NoDup l -> ~ In x l -> NoDup (l ++ [x]).
Proof.
  induction l as [|y l IH]; cbn [app]; intros Hd Hn.
  - constructor; [intros [] | constructor].
  - inversion Hd; subst. constructor.
    + rewrite in_app_iff. cbn [In]. intros [?|[?|[]]]; [tauto | subst; apply Hn; now left].
    + apply IH; auto. intros ?. apply Hn. now right.
Qed.

Lemma inv_mid a h rs b : inv (a ++ (h, rs) :: b) -> host_ok rs.
Proof. intros [_ H]. apply Forall_app in H as [_ H]. inversion H; subst. assumption. Qed.

Lemma inv_replace a h rs rs' b : inv (a ++ (h, rs) :: b) -> host_ok rs' -> inv (a ++ (h, rs') :: b).
Proof.
  intros [H1 H2] Hok. split.
  - rewrite map_app in *. exact H1.
  - apply Forall_app in H2 as [Ha Hb]. apply Forall_app. split; auto.
    inversion Hb; subst. constructor; auto.
Qed.

Section WithEnv.
  Variable canon : str -> option str.
  Variable glob_ok : str -> bool.

  Lemma fresh_ok svc url w tags opts path :
    host_ok [add_target svc url w tags opts {| r_path := path; r_targets := [] |}].
  Proof.
    repeat split; [discriminate | | ].
    - cbn [map]. constructor; [intros [] | constructor].
    - constructor; [apply add_target_nonempty | constructor].
  Qed.

  Lemma add_route_inv t d t' : inv t -> add_route canon glob_ok t d = Ok t' -> inv t'.
  Proof.
    intros Hinv. unfold add_route. destruct (hostpath (d_src d)) as [host0 path].
    destruct (d_src d); [discriminate|]. destruct (d_dst d); [discriminate|].
    destruct (canon _) as [url|]; [|discriminate].
    set (g := add_target (d_svc d) url (d_w d) (d_tags d) (d_opts d)).
    destruct (lookup (lower host0) t) as [rs|] eqn:EL.
    - destruct (find path rs) as [r|] eqn:EF.
      + intros H; inversion H; subst t'. apply upd_host_inv; auto. intros rs'. apply upd_route_ok.
        * intros r'. apply add_target_path.
        * intros r' _. apply add_target_nonempty.
      + destruct (glob_ok path); [|discriminate]. intros H; inversion H; subst t'.
        destruct (lookup_split _ _ _ EL) as (a & b & -> & Hn & Hu). rewrite Hu.
        eapply inv_replace; [exact Hinv|].
        destruct (inv_mid _ _ _ _ Hinv) as (Hne & Hnd & Hall).
        apply find_none in EF as [EF _]. repeat split.
        * intros E. apply app_eq_nil in E as [_ E]. discriminate.
        * rewrite map_app. cbn [map]. unfold g. rewrite add_target_path. cbn [r_path].
          apply NoDup_app_single; auto.
        * apply Forall_app. split; auto. constructor; [apply add_target_nonempty | constructor].
    - destruct (glob_ok _); [|discriminate]. destruct (glob_ok path); [|discriminate]. intros H; inversion H; subst t'.
      apply lookup_none in EL as [EL _]. destruct Hinv as [H1 H2]. split.
      + rewrite map_app. cbn [map fst]. apply NoDup_app_single; auto.
      + apply Forall_app. split; auto. constructor; [|constructor]. cbn [snd]. apply fresh_ok.
  Qed.

  Lemma weigh_route_inv t d t' : inv t -> weigh_route t d = Ok t' -> inv t'.
  Proof.
    intros Hinv. unfold weigh_route. destruct (hostpath (d_src d)) as [host0 path]. cbn zeta.
    destruct (d_src d); [discriminate|]. destruct (get_route (lower host0) path t); [|discriminate].
    destruct (_ =? 0); [discriminate|]. intros H; inversion H; subst t'.
    apply upd_host_inv; auto. intros rs. apply upd_route_ok.
    - reflexivity.
    - intros r0 Hr. cbn [set_weight r_targets]. intros E. apply map_eq_nil in E. auto.
  Qed.

  Lemma del_route_inv t d t' : inv t -> del_route canon t d = Ok t' -> inv t'.
  Proof.
    intros Hinv. pose proof (inv_uniq _ Hinv) as Hu. unfold del_route.
    destruct (d_tags d).
    2:{ intros H; inversion H. apply sweep_inv. now apply filter_all_uniq. }
    destruct (d_src d) eqn:Es, (d_dst d) eqn:Ed.
    - intros H; inversion H. apply sweep_inv. now apply filter_all_uniq.
    - destruct (canon _); [|discriminate]. destruct (hostpath []) as [host0 path]. cbn zeta.
      destruct (get_route (lower host0) path t); intros H; inversion H; subst; auto.
      apply sweep_inv. now apply filter_one_uniq.
    - destruct (hostpath _) as [host0 path]. cbn zeta.
      destruct (get_route (lower host0) path t); intros H; inversion H; subst; auto.
      apply sweep_inv. now apply filter_one_uniq.
    - destruct (canon _); [|discriminate]. destruct (hostpath _) as [host0 path]. cbn zeta.
      destruct (get_route (lower host0) path t); intros H; inversion H; subst; auto.
      apply sweep_inv. now apply filter_one_uniq.
  Qed.

  Lemma apply_def_inv t d t' : inv t -> apply_def canon glob_ok t d = Ok t' -> inv t'.
  Proof.
    unfold apply_def. destruct (d_cmd d); eauto using add_route_inv, del_route_inv, weigh_route_inv.
  Qed.

  Lemma run_from_inv ds : forall t t', inv t -> run_from canon glob_ok t ds = Ok t' -> inv t'.
  Proof.
    induction ds as [|d ds IH]; cbn [run_from]; intros t t' Hinv H.
    - now inversion H; subst.
    - destruct (apply_def canon glob_ok t d) as [t1| |] eqn:E; cbn [bind] in H; try discriminate.
      eapply IH; [|exact H]. eapply apply_def_inv; eauto.
  Qed.

  Lemma inv_nil : inv [].
  Proof. split; constructor. Qed.

  (* every command sequence, of any length, from the empty table *)
  Theorem run_inv ds t : run canon glob_ok ds = Ok t -> inv t.
  Proof. apply run_from_inv, inv_nil. Qed.
End WithEnv.

(* ================= updates in decomposed form ================= *)
Lemma upd_host_mid h f a rs b : ~ In h (map fst a) -> upd_host h f (a ++ (h, rs) :: b) = a ++ (h, f rs) :: b.
Proof.
  induction a as [|[k r] a IH]; cbn [app upd_host map fst In]; intros Hn.
  - now rewrite beq_refl.
  - destruct (beq k h) eqn:E; [apply beq_true_eq in E; subst; tauto | rewrite IH; tauto].
Qed.

Lemma upd_route_mid p f a r b : ~ In p (map r_path a) -> r_path r = p ->
  upd_route p f (a ++ r :: b) = a ++ f r :: b.
Proof.
  induction a as [|x a IH]; cbn [app upd_route map In]; intros Hn Hp.
  - now rewrite Hp, beq_refl.
  - destruct (beq (r_path x) p) eqn:E; [apply beq_true_eq in E; tauto | rewrite IH; tauto].
Qed.

(* ================= add ================= *)
Definition new_target (svc url : str) (w : wt) (tags : list str) (opts : list (str * str)) : target :=
  {| t_svc := svc; t_url := url; t_fw := w_clamp w; t_tags := tags; t_opts := opts |}.

Lemma same_target_new svc url w tags opts :
  same_target svc url (w_clamp w) tags (new_target svc url w tags opts) = true.
Proof.
  unfold same_target, new_target. cbn [t_svc t_url t_fw t_tags].
  now rewrite !beq_refl, wt_eqb_refl, str_list_eqb_refl.
Qed.

Lemma add_target_cases svc url w tags opts r :
  (existsb (same_target svc url (w_clamp w) tags) (r_targets r) = true /\ add_target svc url w tags opts r = r)
  \/ (existsb (same_target svc url (w_clamp w) tags) (r_targets r) = false /\
      add_target svc url w tags opts r =
        {| r_path := r_path r; r_targets := r_targets r ++ [new_target svc url w tags opts] |}).
Proof. unfold add_target. destruct (existsb _ _); [left | right]; auto. Qed.

Lemma add_target_idem svc url w tags opts r :
  add_target svc url w tags opts (add_target svc url w tags opts r) = add_target svc url w tags opts r.
Proof.
  destruct (add_target_cases svc url w tags opts r) as [[E ->]|[E ->]].
  - destruct (add_target_cases svc url w tags opts r) as [[_ ->]|[E' _]]; congruence.
  - unfold add_target at 1. cbn [r_targets r_path]. rewrite existsb_app, E. cbn [existsb].
    fold (new_target svc url w tags opts). now rewrite same_target_new.
Qed.

Section WithEnv2.
  Variable canon : str -> option str.
  Variable glob_ok : str -> bool.

  (* adding the same route twice is the same as adding it once *)
  Theorem add_idempotent t d t1 :
    add_route canon glob_ok t d = Ok t1 -> add_route canon glob_ok t1 d = Ok t1.
  Proof.
    unfold add_route. destruct (hostpath (d_src d)) as [host0 path].
    destruct (d_src d); [discriminate|]. destruct (d_dst d); [discriminate|].
    destruct (canon _) as [url|]; [|discriminate].
    set (g := add_target (d_svc d) url (d_w d) (d_tags d) (d_opts d)).
    set (h := lower host0).
    assert (Hg : forall r, r_path (g r) = r_path r) by (intros; apply add_target_path).
    assert (Hi : forall r, g (g r) = g r) by (intros; apply add_target_idem).
    destruct (lookup h t) as [rs|] eqn:EL.
    - destruct (lookup_split _ _ _ EL) as (a & b & -> & Hn & Hu).
      destruct (find path rs) as [r|] eqn:EF.
      + destruct (find_split _ _ _ EF) as (a' & b' & -> & Hp & Hn' & Hu').
        intros H; inversion H; subst t1. clear H. rewrite Hu, Hu'.
        rewrite (lookup_mid h a _ b Hn).
        rewrite (find_mid path a' (g r) b' Hn') by (now rewrite Hg).
        rewrite (upd_host_mid h _ a _ b Hn).
        rewrite (upd_route_mid path g a' (g r) b' Hn') by (now rewrite Hg).
        now rewrite Hi.
      + destruct (glob_ok path); [|discriminate]. intros H; inversion H; subst t1. clear H. rewrite Hu.
        apply find_none in EF as [EF _].
        rewrite (lookup_mid h a _ b Hn).
        rewrite (find_mid path rs _ [] EF) by (now rewrite Hg).
        rewrite (upd_host_mid h _ a _ b Hn).
        rewrite (upd_route_mid path g rs _ [] EF) by (now rewrite Hg).
        now rewrite Hi.
    - destruct (glob_ok _); [|discriminate]. destruct (glob_ok path); [|discriminate]. intros H; inversion H; subst t1. clear H.
      apply lookup_none in EL as [EL _].
      rewrite (lookup_mid h t _ [] EL).
      cbn [find]. rewrite Hg. cbn [r_path]. rewrite beq_refl.
      rewrite (upd_host_mid h _ t _ [] EL).
      cbn [upd_route]. rewrite Hg. cbn [r_path]. rewrite beq_refl.
      now rewrite Hi.
  Qed.

  (* add accumulates: the table afterwards is the table before with exactly one target inserted
     under (lower-cased host, path) and nothing else touched, or -- when the route already holds a
     target with the same service, URL, weight and tags -- unchanged *)
  Theorem add_accumulates t d t1 :
    add_route canon glob_ok t d = Ok t1 ->
    exists url, canon (d_dst d) = Some url /\
    let h := lower (fst (hostpath (d_src d))) in
    let p := snd (hostpath (d_src d)) in
    let nt := new_target (d_svc d) url (d_w d) (d_tags d) (d_opts d) in
    (exists X Y, flat t = X ++ Y /\ flat t1 = X ++ (h, p, nt) :: Y)
    \/ (t1 = t /\ exists tg, In (h, p, tg) (flat t)
                            /\ same_target (d_svc d) url (w_clamp (d_w d)) (d_tags d) tg = true).
  Proof.
    unfold add_route. destruct (hostpath (d_src d)) as [host0 path]. cbn [fst snd].
    destruct (d_src d); [discriminate|]. destruct (d_dst d); [discriminate|].
    destruct (canon _) as [url|]; [|discriminate]. intros H. exists url. split; [reflexivity|]. revert H.
    set (h := lower host0). cbn zeta.
    set (nt := new_target (d_svc d) url (d_w d) (d_tags d) (d_opts d)).
    destruct (lookup h t) as [rs|] eqn:EL.
    - destruct (lookup_split _ _ _ EL) as (a & b & -> & Hn & Hu).
      destruct (find path rs) as [r|] eqn:EF.
      + destruct (find_split _ _ _ EF) as (a' & b' & -> & Hp & Hn' & Hu').
        intros H; inversion H; subst t1. clear H. rewrite Hu, Hu'.
        destruct (add_target_cases (d_svc d) url (d_w d) (d_tags d) (d_opts d) r) as [[E ->]|[E ->]].
        * right. split; auto. apply existsb_exists in E as (tg & Htg & Hs). exists tg. split; auto.
          apply in_flat. exists h, (a' ++ r :: b'), r, tg. rewrite Hp. repeat split; auto using in_elt.
        * left. fold nt.
          exists (flat a ++ flat_routes h a' ++ map (fun tg => (h, r_path r, tg)) (r_targets r)),
                 (flat_routes h b' ++ flat b).
          rewrite !flat_app, !flat_cons, !flat_routes_app, !flat_routes_cons. cbn [r_path r_targets].
          rewrite map_app. cbn [map]. rewrite Hp. rewrite <- !app_assoc. cbn [app]. auto.
      + destruct (glob_ok path); [|discriminate]. intros H; inversion H; subst t1. clear H. rewrite Hu.
        left. exists (flat a ++ flat_routes h rs), (flat b).
        rewrite !flat_app, !flat_cons, !flat_routes_app. unfold add_target. cbn [r_targets existsb r_path app].
        fold nt. cbn [flat_routes flat_map r_path r_targets map app]. rewrite <- !app_assoc. cbn [app]. auto.
    - destruct (glob_ok _); [|discriminate]. destruct (glob_ok path); [|discriminate]. intros H; inversion H; subst t1. clear H.
      left. exists (flat t), []. rewrite flat_app, app_nil_r. split; reflexivity.
  Qed.

  (* the host of route add is case-insensitive: two commands that differ only in the letter case
     of the host part of the source have the same effect *)
  Theorem host_case_insensitive_add t d1 d2 :
    d_svc d1 = d_svc d2 -> d_dst d1 = d_dst d2 -> d_w d1 = d_w d2 -> d_tags d1 = d_tags d2 ->
    d_opts d1 = d_opts d2 ->
    lower (fst (hostpath (d_src d1))) = lower (fst (hostpath (d_src d2))) ->
    snd (hostpath (d_src d1)) = snd (hostpath (d_src d2)) ->
    d_src d1 <> [] -> d_src d2 <> [] ->
    add_route canon glob_ok t d1 = add_route canon glob_ok t d2.
  Proof.
    intros Hs Hd Hw Ht Ho Hh Hp N1 N2. unfold add_route.
    destruct (hostpath (d_src d1)) as [h1 p1], (hostpath (d_src d2)) as [h2 p2]. cbn [fst snd] in *.
    destruct (d_src d1); [congruence|]. destruct (d_src d2); [congruence|].
    now rewrite Hs, Hd, Hw, Ht, Ho, Hh, Hp.
  Qed.
End WithEnv2.

(* ================= local updates seen through [flat] ================= *)
Definition at_hp (h p : str) (x : str * str * target) : Prop := fst (fst x) = h /\ snd (fst x) = p.

Lemma flat_hosts a x : In x (flat a) -> In (fst (fst x)) (map fst a).
Proof.
  intros H. apply in_flat in H as (h & rs & r & tg & Hh & _ & _ & ->). cbn [fst].
  apply in_map_iff. now exists (h, rs).
Qed.

Lemma flat_routes_paths h rs x : In x (flat_routes h rs) -> fst (fst x) = h /\ In (snd (fst x)) (map r_path rs).
Proof.
  intros H. apply in_flat_routes in H as (r & tg & Hr & _ & ->). cbn [fst snd]. split; auto.
  now apply in_map.
Qed.

(* [upd_host h (upd_route p F)] acts on [flat] as any list homomorphism Phi that is the identity
   away from (h, p) and agrees with F on the targets of the route at (h, p) *)
Lemma flat_upd_one h p (F : route -> route) (Phi : list (str * str * target) -> list (str * str * target)) t :
  uniq t ->
  (forall r, r_path (F r) = r_path r) ->
  (forall x y, Phi (x ++ y) = Phi x ++ Phi y) ->
  (forall l, (forall x, In x l -> ~ at_hp h p x) -> Phi l = l) ->
  (forall r, r_path r = p -> Phi (map (fun tg => (h, p, tg)) (r_targets r))
                            = map (fun tg => (h, p, tg)) (r_targets (F r))) ->
  flat (upd_host h (upd_route p F) t) = Phi (flat t).
Proof.
  intros [Hd Hp] HF Happ Hloc Hat.
  destruct (lookup h t) as [rs|] eqn:EL.
  - destruct (lookup_split _ _ _ EL) as (a & b & -> & Hn & Hu). rewrite Hu.
    rewrite !flat_app, !flat_cons, !Happ.
    rewrite map_app in Hd. cbn [map fst] in Hd. apply NoDup_remove_2 in Hd.
    assert (Hb : ~ In h (map fst b)) by (intros ?; apply Hd, in_or_app; now right).
    rewrite (Hloc (flat a)).
    2:{ intros x Hx [Hh _]. apply flat_hosts in Hx. congruence. }
    rewrite (Hloc (flat b)).
    2:{ intros x Hx [Hh _]. apply flat_hosts in Hx. congruence. }
    f_equal. f_equal.
    apply Forall_app in Hp as [_ Hp]. inversion Hp as [|? ? Hrs _]; subst. cbn [snd] in Hrs.
    destruct (find p rs) as [r|] eqn:EF.
    + destruct (find_split _ _ _ EF) as (a' & b' & -> & Hpr & Hn' & Hu'). rewrite Hu'.
      rewrite !flat_routes_app, !flat_routes_cons, !Happ.
      rewrite map_app in Hrs. cbn [map] in Hrs. apply NoDup_remove_2 in Hrs. rewrite Hpr in Hrs.
      assert (Hb' : ~ In p (map r_path b')) by (intros ?; apply Hrs, in_or_app; now right).
      rewrite (Hloc (flat_routes h a')).
      2:{ intros x Hx [_ Hq]. apply flat_routes_paths in Hx as [_ Hx]. congruence. }
      rewrite (Hloc (flat_routes h b')).
      2:{ intros x Hx [_ Hq]. apply flat_routes_paths in Hx as [_ Hx]. congruence. }
      rewrite HF, Hpr. now rewrite Hat.
    + apply find_none in EF as [EF Hu']. rewrite Hu'. symmetry. apply Hloc.
      intros x Hx [_ Hq]. apply flat_routes_paths in Hx as [_ Hx]. congruence.
  - apply lookup_none in EL as [EL Hu]. rewrite Hu. symmetry. apply Hloc.
    intros x Hx [Hh _]. apply flat_hosts in Hx. congruence.
Qed.

(* ================= del ================= *)
Lemma flat_routes_sweep h rs : flat_routes h (filter has_targets rs) = flat_routes h rs.
Proof.
  induction rs as [|r rs IH]; cbn [filter]; auto.
  unfold has_targets at 1. destruct (r_targets r) eqn:E.
  - rewrite flat_routes_cons, E. cbn [map app]. exact IH.
  - rewrite !flat_routes_cons, IH. reflexivity.
Qed.

(* the sweeps remove no target *)
Lemma flat_sweep t : flat (sweep t) = flat t.
Proof.
  unfold sweep. induction t as [|[h rs] t IH]; cbn [map filter fst snd]; auto.
  unfold has_routes at 1. cbn [snd]. destruct (filter has_targets rs) eqn:E.
  - rewrite flat_cons, IH, <- flat_routes_sweep, E. reflexivity.
  - rewrite !flat_cons, IH, <- E, flat_routes_sweep. reflexivity.
Qed.

Lemma flat_filter_all skip t :
  flat (filter_all skip t) = filter (fun x => negb (skip (snd x))) (flat t).
Proof.
  unfold filter_all, flat. rewrite flat_map_concat_map, map_map, <- flat_map_concat_map.
  rewrite filter_flat_map. apply flat_map_ext_in. intros [h rs] _. cbn [fst snd].
  unfold flat_routes. rewrite flat_map_concat_map, map_map, <- flat_map_concat_map.
  rewrite filter_flat_map. apply flat_map_ext_in. intros r _. cbn [filter_route r_path r_targets].
  rewrite filter_map'. reflexivity.
Qed.

Definition sel_at (h p : str) (skip : target -> bool) (x : str * str * target) : bool :=
  beq (fst (fst x)) h && beq (snd (fst x)) p && skip (snd x).

Lemma flat_filter_one h p skip t : uniq t ->
  flat (filter_one h p skip t) = filter (fun x => negb (sel_at h p skip x)) (flat t).
Proof.
  intros Hu. unfold filter_one. apply flat_upd_one; auto.
  - intros x y. apply filter_app'.
  - intros l Hl. apply filter_all_true. intros [[h' p'] tg] Hx. specialize (Hl _ Hx).
    unfold at_hp, sel_at in *. cbn [fst snd] in *.
    destruct (beq h' h) eqn:E1; auto. destruct (beq p' p) eqn:E2; auto.
    apply beq_true_eq in E1, E2. tauto.
  - intros r Hr. cbn [filter_route r_targets]. rewrite filter_map'. f_equal.
    unfold sel_at. cbn [fst snd]. now rewrite !beq_refl.
Qed.

(* the declarative reading of "route del": which (host, path, target) triples a command selects.
   Form 1: tags given -> service (if given) and ALL the tags; form 2: service only;
   form 3: service + source; form 4: service + source + destination (compared as URL text). *)
Definition del_selects_gen (norm : str -> str) (canon : str -> option str) (d : def) (x : str * str * target) : bool :=
  let tg := snd x in
  let here := beq (fst (fst x)) (norm (fst (hostpath (d_src d)))) && beq (snd (fst x)) (snd (hostpath (d_src d))) in
  let svc := beq (t_svc tg) (d_svc d) in
  match d_tags d with
  | _ :: _ => (match d_svc d with [] => true | _ => svc end)
              && forallb (fun w => existsb (fun s => beq s w) (t_tags tg)) (d_tags d)
  | [] =>
      match d_src d, d_dst d with
      | [], [] => svc
      | _, [] => here && svc
      | _, _ => match canon (d_dst d) with
                | Some url => here && (svc && beq (t_url tg) url)
                | None => false
                end
      end
  end.

(* byte-for-byte host comparison: what delRoute did before /repo commit b80fb7f *)
Definition del_selects := del_selects_gen (fun h => h).
(* the documented semantics (and the code since b80fb7f) folds the host's letter case *)
Definition del_selects_ci := del_selects_gen lower.

Lemma flat_no_route h p t : uniq t -> get_route h p t = None ->
  forall x, In x (flat t) -> ~ at_hp h p x.
Proof.
  intros [Hd Hp] Hg x Hx [Hh Hq]. apply in_flat in Hx as (h' & rs & r & tg & Hin & Hr & _ & ->).
  cbn [fst snd] in *. subst h' p. unfold get_route in Hg.
  destruct (lookup h t) as [rs'|] eqn:EL.
  - destruct (lookup_split _ _ _ EL) as (a & b & -> & Hn & _).
    assert (rs = rs').
    { apply in_app_or in Hin as [Hin|[Hin|Hin]].
      - exfalso. apply Hn. apply in_map_iff. now exists (h, rs).
      - now inversion Hin.
      - exfalso. rewrite map_app in Hd. cbn [map fst] in Hd. apply NoDup_remove_2 in Hd.
        apply Hd, in_or_app. right. apply in_map_iff. now exists (h, rs). }
    subst rs'. apply find_none in Hg as [Hg _]. apply Hg. now apply in_map.
  - apply lookup_none in EL as [EL _]. apply EL. apply in_map_iff. now exists (h, rs).
Qed.

Section WithEnv3.
  Variable canon : str -> option str.

  (* del removes precisely the selected targets: what is left is the old content, in the old
     order, minus the selected triples -- for each of the argument forms *)
  Theorem del_precise t d t' : inv t -> del_route canon t d = Ok t' ->
    flat t' = filter (fun x => negb (del_selects_ci canon d x)) (flat t).
  Proof.
    intros Hinv. pose proof (inv_uniq _ Hinv) as Hu. unfold del_route, del_selects_ci, del_selects_gen.
    destruct (d_tags d) as [|tag tags] eqn:Et.
    2:{ intros H; inversion H; subst t'. rewrite flat_sweep, flat_filter_all.
        apply filter_ext. intros x. unfold del_tags_sel, contains_all. rewrite Et. reflexivity. }
    assert (Hnone : forall h p (f : str * str * target -> bool), get_route h p t = None ->
              flat t = filter (fun x => negb (beq (fst (fst x)) h && beq (snd (fst x)) p && f x)) (flat t)).
    { intros h p f Hg. symmetry. apply filter_all_true. intros x Hx.
      pose proof (flat_no_route _ _ _ Hu Hg x Hx) as Hn. unfold at_hp in Hn.
      destruct (beq (fst (fst x)) h) eqn:E1; auto. destruct (beq (snd (fst x)) p) eqn:E2; auto.
      apply beq_true_eq in E1, E2. tauto. }
    destruct (d_src d) as [|c src] eqn:Es; destruct (d_dst d) as [|c' dst] eqn:Ed.
    - intros H; inversion H; subst t'. rewrite flat_sweep, flat_filter_all. reflexivity.
    - destruct (canon _) as [url|]; [|discriminate].
      destruct (hostpath []) as [host0 path] eqn:Eh. cbn [fst snd]. cbn zeta.
      destruct (get_route (lower host0) path t) eqn:Eg; intros H; inversion H; subst t'.
      + rewrite flat_sweep, flat_filter_one by assumption. apply filter_ext. intros x.
        unfold sel_at, del_dst_sel. reflexivity.
      + rewrite (Hnone (lower host0) path (fun x => beq (t_svc (snd x)) (d_svc d) && beq (t_url (snd x)) url) Eg) at 1.
        reflexivity.
    - destruct (hostpath (c :: src)) as [host0 path] eqn:Eh. cbn [fst snd]. cbn zeta.
      destruct (get_route (lower host0) path t) eqn:Eg; intros H; inversion H; subst t'.
      + rewrite flat_sweep, flat_filter_one by assumption. apply filter_ext. intros x.
        unfold sel_at, del_svc_sel. reflexivity.
      + rewrite (Hnone (lower host0) path (fun x => beq (t_svc (snd x)) (d_svc d)) Eg) at 1. reflexivity.
    - destruct (canon _) as [url|]; [|discriminate].
      destruct (hostpath (c :: src)) as [host0 path] eqn:Eh. cbn [fst snd]. cbn zeta.
      destruct (get_route (lower host0) path t) eqn:Eg; intros H; inversion H; subst t'.
      + rewrite flat_sweep, flat_filter_one by assumption. apply filter_ext. intros x.
        unfold sel_at, del_dst_sel. reflexivity.
      + rewrite (Hnone (lower host0) path (fun x => beq (t_svc (snd x)) (d_svc d) && beq (t_url (snd x)) url) Eg) at 1.
        reflexivity.
  Qed.
End WithEnv3.

(* ================= weight ================= *)
(* which triples "route weight" selects: the route named by the source, the service if given,
   ALL the tags if given *)
Definition weight_selects_gen (norm : str -> str) (d : def) (x : str * str * target) : bool :=
  beq (fst (fst x)) (norm (fst (hostpath (d_src d)))) && beq (snd (fst x)) (snd (hostpath (d_src d)))
  && ((match d_svc d with [] => true | _ => beq (t_svc (snd x)) (d_svc d) end)
      && (match d_tags d with
          | [] => true
          | _ => forallb (fun w => existsb (fun s => beq s w) (t_tags (snd x))) (d_tags d)
          end)).

Definition weight_selects := weight_selects_gen (fun h => h).
Definition weight_selects_ci := weight_selects_gen lower.

Definition reweigh (w : wt) (x : str * str * target) : str * str * target :=
  (fst (fst x), snd (fst x), set_fw w (snd x)).

Lemma map_id_in {A} (f : A -> A) l : (forall x, In x l -> f x = x) -> map f l = l.
Proof. intros H. rewrite <- (map_id l) at 2. now apply map_ext_in. Qed.

(* weight changes the fixed weight of the selected targets -- all to the same value, the command's
   weight divided by the number of selected targets -- and nothing else: same hosts, routes,
   targets, order; every unselected target is untouched *)
Theorem weight_only_matching t d t' : inv t -> weigh_route t d = Ok t' ->
  let n := N.of_nat (length (filter (weight_selects_ci d) (flat t))) in
  n <> 0 /\
  flat t' = map (fun x => if weight_selects_ci d x then reweigh (w_divn (d_w d) n) x else x) (flat t)
  /\ map fst t' = map fst t.
Proof.
  intros Hinv. pose proof (inv_uniq _ Hinv) as Hu. unfold weigh_route.
  destruct (hostpath (d_src d)) as [host0 path] eqn:Eh. cbn zeta.
  destruct (d_src d) as [|c src] eqn:Es; [discriminate|].
  destruct (get_route (lower host0) path t) as [r|] eqn:Eg; [|discriminate].
  destruct (count_match (d_svc d) (d_tags d) r =? 0) eqn:En; [discriminate|].
  intros H; inversion H; subst t'. clear H. cbn zeta.
  (* the number of selected triples is the number of matches in the route *)
  assert (Hcount : length (filter (weight_selects_ci d) (flat t))
                   = length (filter (weight_match (d_svc d) (d_tags d)) (r_targets r))).
  { unfold get_route in Eg. destruct (lookup (lower host0) t) as [rs|] eqn:EL; [|discriminate].
    destruct (lookup_split _ _ _ EL) as (a & b & E & Hn & _). subst t.
    destruct (find_split _ _ _ Eg) as (a' & b' & -> & Hpr & Hn' & _).
    destruct Hu as [Hd Hp].
    rewrite map_app in Hd. cbn [map fst] in Hd. apply NoDup_remove_2 in Hd.
    apply Forall_app in Hp as [_ Hp]. inversion Hp as [|? ? Hrs _]; subst. cbn [snd] in Hrs.
    rewrite map_app in Hrs. cbn [map] in Hrs. apply NoDup_remove_2 in Hrs.
    assert (Hnil : forall l, (forall x, In x l -> ~ at_hp (lower host0) (r_path r) x) -> filter (weight_selects_ci d) l = []).
    { intros l Hl. induction l as [|x l IH]; auto. cbn [filter].
      assert (Hx : weight_selects_ci d x = false).
      { unfold weight_selects_ci, weight_selects_gen. rewrite Es, Eh. cbn [fst snd].
        specialize (Hl x (or_introl eq_refl)). unfold at_hp in Hl.
        destruct (beq (fst (fst x)) (lower host0)) eqn:E1; auto. destruct (beq (snd (fst x)) (r_path r)) eqn:E2; auto.
        apply beq_true_eq in E1, E2. tauto. }
      rewrite Hx. apply IH. intros y Hy. apply Hl. now right. }
    rewrite !flat_app, !flat_cons, !flat_routes_app, !flat_routes_cons, !filter_app'.
    rewrite (Hnil (flat a)).
    2:{ intros x Hx [Hh _]. apply flat_hosts in Hx. congruence. }
    rewrite (Hnil (flat b)).
    2:{ intros x Hx [Hh _]. apply flat_hosts in Hx. apply Hd, in_or_app. right. congruence. }
    rewrite (Hnil (flat_routes (lower host0) a')).
    2:{ intros x Hx [_ Hq]. apply flat_routes_paths in Hx as [_ Hx]. congruence. }
    rewrite (Hnil (flat_routes (lower host0) b')).
    2:{ intros x Hx [_ Hq]. apply flat_routes_paths in Hx as [_ Hx]. apply Hrs, in_or_app. right. congruence. }
    cbn [app]. rewrite !app_nil_r, filter_map', map_length. f_equal. apply filter_ext. intros tg.
    unfold weight_selects_ci, weight_selects_gen, weight_match, contains_all. rewrite Es, Eh. cbn [fst snd]. now rewrite !beq_refl. }
  unfold count_match in En. rewrite <- Hcount in En. apply N.eqb_neq in En.
  split; [exact En|]. split; [|apply upd_host_fst].
  idtac.
  set (w' := w_divn (d_w d) (N.of_nat (length (filter (weight_selects_ci d) (flat t))))).
  (* set_weight recomputes the count from the route; replace it by w' *)
  assert (HF : upd_host (lower host0) (upd_route path (set_weight (d_svc d) (d_w d) (d_tags d))) t
             = upd_host (lower host0) (upd_route path (fun r0 => {| r_path := r_path r0;
                  r_targets := map (fun tg => if weight_match (d_svc d) (d_tags d) tg then set_fw w' tg else tg)
                                   (r_targets r0) |})) t).
  { unfold get_route in Eg. destruct (lookup (lower host0) t) as [rs|] eqn:EL; [|discriminate].
    destruct (lookup_split _ _ _ EL) as (a & b & E & Hn & Hup). rewrite !Hup. f_equal. f_equal. f_equal.
    destruct (find_split _ _ _ Eg) as (a' & b' & -> & Hpr & Hn' & Hup'). rewrite !Hup'. f_equal. f_equal.
    unfold set_weight, count_match. unfold w'. now rewrite Hcount. }
  rewrite HF. apply flat_upd_one; auto.
  - intros x y. apply map_app.
  - intros l Hl. apply map_id_in. intros x Hx. specialize (Hl _ Hx). unfold at_hp in Hl.
    unfold weight_selects_ci, weight_selects_gen. rewrite Es, Eh. cbn [fst snd].
    destruct (beq (fst (fst x)) (lower host0)) eqn:E1; auto. destruct (beq (snd (fst x)) path) eqn:E2; auto.
    apply beq_true_eq in E1, E2. tauto.
  - intros r0 Hr0. cbn [r_targets]. rewrite !map_map. apply map_ext. intros tg.
    unfold weight_selects_ci, weight_selects_gen, weight_match, contains_all, reweigh. rewrite Es, Eh. cbn [fst snd]. rewrite !beq_refl.
    cbn [andb]. destruct (_ && _); reflexivity.
Qed.

(* ================= SUPERSEDED, kept for name stability only =================
   [del_precise_ci_on_domain] and [weight_only_matching_ci_on_domain] predate the repair of F-C05-1;
   their host hypothesis is unused, they are instances of [del_precise] / [weight_only_matching]
   and are not property theorems. *)
Theorem del_precise_ci_on_domain canon t d t' :
  inv t -> del_route canon t d = Ok t' ->
  lower (fst (hostpath (d_src d))) = fst (hostpath (d_src d)) ->
  flat t' = filter (fun x => negb (del_selects_ci canon d x)) (flat t).
Proof. intros Hinv H _. exact (del_precise canon t d t' Hinv H). Qed.

Theorem weight_only_matching_ci_on_domain t d t' : inv t -> weigh_route t d = Ok t' ->
  lower (fst (hostpath (d_src d))) = fst (hostpath (d_src d)) ->
  let n := N.of_nat (length (filter (weight_selects_ci d) (flat t))) in
  flat t' = map (fun x => if weight_selects_ci d x then reweigh (w_divn (d_w d) n) x else x) (flat t).
Proof. intros Hinv H _. destruct (weight_only_matching t d t' Hinv H) as (_ & Hf & _). exact Hf. Qed.

(* concrete scripts; newline = byte 10 *)
Definition idcanon (d : str) : option str := Some d.
Definition anyglob (p : str) : bool := true.
Definition nl : str := [10].
Definition nt_text (text : str) : outcome table := new_table pweight_dec idcanon anyglob text.
(* NewTable as it was before /repo commit b80fb7f *)
Definition nt_text_unrepaired (text : str) : outcome table :=
  new_table_unrepaired pweight_dec idcanon anyglob text.

Definition ex_add_lower : str := bs "route add svc foo.com/ http://10.0.0.1:80/".
Definition ex_add_upper : str := bs "route add svc Foo.com/ http://10.0.0.1:80/".

(* non-vacuity of the hypotheses of the theorems above: a real script whose table satisfies inv,
   a del that removes something, a weight that matches -- with mixed-case hosts *)
Definition ex_script : str :=
  ex_add_lower ++ nl ++ bs "route add svc foo.com/ http://10.0.0.2:80/ tags ""a,b""" ++ nl
  ++ bs "route add api bar.org/x http://10.0.0.3:80/ weight 0.25" ++ nl
  ++ bs "route weight svc FOO.com/ weight 0.5" ++ nl
  ++ bs "route del svc Foo.com/ http://10.0.0.1:80/".

Lemma ex_script_ok : exists t, nt_text ex_script = Ok t /\ length (flat t) = 2%nat.
Proof. eexists. split; vm_compute; reflexivity. Qed.

(* F-C05-1, REPAIRED in /repo by b80fb7f.  Before the repair "route del svc Foo.com/" left the
   target that "route del svc foo.com/" removes; the theorem is about [del_route_unrepaired] /
   [new_table_unrepaired], the model of the old code ... *)
Theorem host_case_del_refuted :
  exists t d t', inv t /\ del_route_unrepaired idcanon t d = Ok t' /\
    flat t' <> filter (fun x => negb (del_selects_ci idcanon d x)) (flat t)
    /\ nt_text_unrepaired (ex_add_lower ++ nl ++ bs "route del svc Foo.com/") = nt_text_unrepaired ex_add_lower
    /\ nt_text_unrepaired (ex_add_lower ++ nl ++ bs "route del svc foo.com/") = Ok [].
Proof.
  pose (d := {| d_cmd := CmdDel; d_svc := bs "svc"; d_src := bs "Foo.com/"; d_dst := []; d_w := WZ;
                d_tags := []; d_opts := [] |}).
  destruct (run idcanon anyglob [ {| d_cmd := CmdAdd; d_svc := bs "svc"; d_src := bs "foo.com/";
              d_dst := bs "http://10.0.0.1:80/"; d_w := WZ; d_tags := []; d_opts := [] |} ]) as [t| |] eqn:E;
    try (vm_compute in E; discriminate).
  exists t, d, t. split; [eapply run_inv; exact E|].
  vm_compute in E. inversion E; subst t. clear E.
  split; [vm_compute; reflexivity|]. split; [vm_compute; discriminate|].
  split; vm_compute; reflexivity.
Qed.

(* ... and the same witness on the model of the code as it is now *)
Theorem host_case_del_repaired :
  nt_text (ex_add_lower ++ nl ++ bs "route del svc Foo.com/") = Ok [].
Proof. vm_compute. reflexivity. Qed.

(* F-C05-1, REPAIRED by b80fb7f.  Before: "route weight svc Foo.com/ ..." matched nothing although
   the route was added as Foo.com/ *)
Theorem host_case_weight_refuted :
  nt_text_unrepaired (ex_add_upper ++ nl ++ bs "route weight svc Foo.com/ weight 0.5") = Err e_no_match
  /\ exists t, nt_text_unrepaired (ex_add_upper ++ nl ++ bs "route weight svc foo.com/ weight 0.5") = Ok t
               /\ length (flat t) = 1%nat.
Proof. split; [vm_compute; reflexivity|]. eexists. split; vm_compute; reflexivity. Qed.

Theorem host_case_weight_repaired :
  nt_text (ex_add_upper ++ nl ++ bs "route weight svc Foo.com/ weight 0.5")
  = nt_text (ex_add_upper ++ nl ++ bs "route weight svc foo.com/ weight 0.5")
  /\ exists t, nt_text (ex_add_upper ++ nl ++ bs "route weight svc Foo.com/ weight 0.5") = Ok t
               /\ length (flat t) = 1%nat.
Proof. split; [vm_compute; reflexivity|]. eexists. split; vm_compute; reflexivity. Qed.

(* ================= text round trip ================= *)
(* equality of tables up to the four decimals of the text: same hosts (as a set; String() orders
   them), same routes, same targets in order, weights equal after rounding *)
Definition k4 (w : wt) : N := if w_is_pos w then w_fmt4 w else 0.
Definition target_eq4 (a b : target) : Prop :=
  t_svc a = t_svc b /\ t_url a = t_url b /\ k4 (t_fw a) = k4 (t_fw b) /\ t_tags a = t_tags b /\ t_opts a = t_opts b.
Definition route_eq4 (a b : route) : Prop := r_path a = r_path b /\ Forall2 target_eq4 (r_targets a) (r_targets b).
Definition table_eq4 (a b : table) : Prop :=
  forall h, match lookup h a, lookup h b with
            | Some ra, Some rb => Forall2 route_eq4 ra rb
            | None, None => True
            | _, _ => False
            end.

(* the domain on which the property claims the round trip *)
Definition plain_byte (c : N) : bool := (32 <=? c) && (c <? 127) && negb (c =? 34) && negb (c =? 92).
Definition token_ok (s : str) : bool :=
  negb (match s with [] => true | _ => false end) && forallb (fun c => plain_byte c && negb (c =? 32)) s.
Definition tag_ok (s : str) : bool :=
  negb (match s with [] => true | _ => false end) && forallb (fun c => plain_byte c && negb (c =? 44)) s
  && beq (trim_space s) s.
Definition target_rt_ok (canon : str -> option str) (ts : list target) (t : target) : bool :=
  token_ok (t_svc t) && token_ok (t_url t) && opt_eqb beq (canon (t_url t)) (Some (t_url t))
  && forallb tag_ok (t_tags t) && live ts t
  && forallb (fun kv => token_ok (fst kv ++ [61] ++ snd kv) && negb (existsb (N.eqb 61) (fst kv))) (t_opts t).
Fixpoint no_weight_twins (ts : list target) : bool :=
  match ts with
  | [] => true
  | a :: r => negb (existsb (fun b => beq (t_svc a) (t_svc b) && beq (t_url a) (t_url b)
                                      && str_list_eqb (t_tags a) (t_tags b)) r) && no_weight_twins r
  end.

(* THE FULL STATEMENT (character level).  Not proved in this development: see below. *)
Definition render_parse_roundtrip_statement : Prop :=
  forall (canon : str -> option str) (glob_ok : str -> bool) (ds : list def) (t : table),
    run canon glob_ok ds = Ok t ->
    (forall h rs r, In (h, rs) t -> In r rs ->
        token_ok (h ++ r_path r) = true /\ glob_ok (r_path r) = true /\
        no_weight_twins (r_targets r) = true /\
        forallb (target_rt_ok canon (r_targets r)) (r_targets r) = true) ->
    exists t', new_table pweight_dec canon glob_ok (render (sort_table t)) = Ok t'
               /\ table_eq4 (sort_table t) t'.

(* Status: the round trip IS proved at character level in Proofs/RouteRoundTrip.v
   ([render_parse_roundtrip]) for every table in the domain above whose weights are on the
   4-decimal grid ([weight_text_stable], proved for k/10000 with k <= 10000, a hypothesis beyond).
   Still missing for THIS statement: weights off the grid (equality only after rounding, [table_eq4]),
   and deriving the side conditions "host ++ path splits back" and "option keys ascending" from
   reachability by commands.  [render_parse_roundtrip_partial] below evaluates the conclusion on a
   concrete table that does have off-grid weights. *)
Definition ex_rt_script : str :=
  bs "route add svc-a foo.com/ http://10.0.0.1:80/ weight 0.25 tags ""a,b"" opts ""strip=/x proto=https""" ++ nl
  ++ bs "route add svc-b foo.com/ http://10.0.0.2:80/" ++ nl
  ++ bs "route add svc-b foo.com/api http://10.0.0.2:80/ weight 0.3333" ++ nl
  ++ bs "route add svc-c /only-path http://10.0.0.3:80/" ++ nl
  ++ bs "route add svc-c :8080 tcp://10.0.0.3:5000" ++ nl
  ++ bs "route add svc-c Bar.org/ http://10.0.0.3:80/ tags ""blue""" ++ nl
  ++ bs "route weight svc-c bar.org/ weight 0.123456".

Definition target_eq4b (a b : target) : bool :=
  beq (t_svc a) (t_svc b) && beq (t_url a) (t_url b) && (k4 (t_fw a) =? k4 (t_fw b))
  && str_list_eqb (t_tags a) (t_tags b)
  && list_eqb (fun x y => beq (fst x) (fst y) && beq (snd x) (snd y)) (t_opts a) (t_opts b).
Definition same_content4 (a b : table) : bool :=
  list_eqb (fun x y => beq (fst (fst x)) (fst (fst y)) && beq (snd (fst x)) (snd (fst y))
                       && target_eq4b (snd x) (snd y))
           (flat (map (fun h => (h, match lookup h a with Some rs => rs | None => [] end)) (config_hosts a)))
           (flat (map (fun h => (h, match lookup h b with Some rs => rs | None => [] end)) (config_hosts b))).

Theorem render_parse_roundtrip_partial :
  exists t t', nt_text ex_rt_script = Ok t /\ length (flat t) = 6%nat
               /\ nt_text (render t) = Ok t' /\ same_content4 t t' = true.
Proof. do 2 eexists. split; [vm_compute; reflexivity|]. split; [vm_compute; reflexivity|]. split; vm_compute; reflexivity. Qed.

(* F-C05-2, REPAIRED in /repo by cb21db5.  Before the repair a dynamic target beside fixed
   weights summing to 1 was not rendered: the re-parsed table had one target, the table had two.
   The theorem is about [render_skipping], the old Route.config ... *)
Definition ex_zero_weight : str :=
  bs "route add svc-a foo.com/ http://10.0.0.1:80/ weight 1" ++ nl
  ++ bs "route add svc-b foo.com/ http://10.0.0.2:80/".
Theorem zero_weight_dropped_refuted :
  exists t t', nt_text ex_zero_weight = Ok t
               /\ length (flat t) = 2%nat
               /\ nt_text (render_skipping t) = Ok t' /\ length (flat t') = 1%nat.
Proof. do 2 eexists. split; [vm_compute; reflexivity|]. split; [vm_compute; reflexivity|]. split; vm_compute; reflexivity. Qed.

(* ... and the same witness through String() as it is now rebuilds the same table *)
Theorem zero_weight_kept :
  exists t, nt_text ex_zero_weight = Ok t /\ length (flat t) = 2%nat /\ nt_text (render t) = Ok t.
Proof. eexists. split; [vm_compute; reflexivity|]. split; vm_compute; reflexivity. Qed.

(* F-C05-3a, REPAIRED in /repo by dfc4ae0.  Before the repair a tag with a backslash was printed
   with %q and came back with two; the theorem is about [render_unrepaired], the old renderer ... *)
Theorem tag_escape_refuted :
  exists t t', nt_text (bs "route add svc foo.com/ http://10.0.0.1:80/ tags ""x\y""") = Ok t
               /\ map (fun x => t_tags (snd x)) (flat t) = [[bs "x\y"]]
               /\ nt_text (render_unrepaired t) = Ok t'
               /\ map (fun x => t_tags (snd x)) (flat t') = [[bs "x\\y"]].
Proof. do 2 eexists. split; [vm_compute; reflexivity|]. split; [vm_compute; reflexivity|]. split; vm_compute; reflexivity. Qed.

(* ... and the same witness round-trips through the renderer as it is now *)
Theorem tag_escape_repaired :
  exists t, nt_text (bs "route add svc foo.com/ http://10.0.0.1:80/ tags ""x\y""") = Ok t
            /\ map (fun x => t_tags (snd x)) (flat t) = [[bs "x\y"]]
            /\ nt_text (render t) = Ok t.
Proof. eexists. split; [vm_compute; reflexivity|]. split; vm_compute; reflexivity. Qed.

(* F-C05-3 (open), what remains: a single empty tag (tags " ") is rendered as tags "" and read
   back as no tags at all *)
Theorem empty_tag_refuted :
  exists t t', nt_text (bs "route add svc foo.com/ http://10.0.0.1:80/ tags "" """) = Ok t
               /\ map (fun x => t_tags (snd x)) (flat t) = [[[]]]
               /\ nt_text (render t) = Ok t'
               /\ map (fun x => t_tags (snd x)) (flat t') = [[]].
Proof. do 2 eexists. split; [vm_compute; reflexivity|]. split; [vm_compute; reflexivity|]. split; vm_compute; reflexivity. Qed.

(* url.Parse("#").String() = "": the rendered line lacks its third argument and is rejected *)
Theorem empty_url_refuted :
  let canon := fun d => if beq d (bs "#") then Some [] else Some d in
  exists t, new_table pweight_dec canon anyglob (bs "route add svc foo.com/ #") = Ok t
            /\ length (flat t) = 1%nat
            /\ new_table pweight_dec canon anyglob (render t) = Err e_add_invalid.
Proof. cbn zeta. eexists. split; [vm_compute; reflexivity|]. split; vm_compute; reflexivity. Qed.

(* ================= totality: nothing in the command language can crash ================= *)
Lemma bind_np {A B} (r : outcome A) (f : A -> outcome B) :
  r <> Panic -> (forall a, f a <> Panic) -> bind r f <> Panic.
Proof. destruct r; cbn [bind]; auto; congruence. Qed.

Section Total.
  Variable pweight : str -> outcome wt.
  Variable canon : str -> option str.
  Variable glob_ok : str -> bool.

  Lemma parse_route_add_np s : parse_route_add pweight s <> Panic.
  Proof.
    unfold parse_route_add. destruct (match_add s) as [[[[[[? ?] ?] ?] ?] ?]|]; [|discriminate].
    destruct (parse_weight pweight _); discriminate.
  Qed.
  Lemma parse_route_del_np s : parse_route_del s <> Panic.
  Proof.
    unfold parse_route_del. destruct (match_del_svc_tags s) as [[? ?]|]; [discriminate|].
    destruct (match_del_tags s); [discriminate|]. destruct (match_del s) as [[[? ?] ?]|]; discriminate.
  Qed.
  Lemma parse_route_weight_np s : parse_route_weight pweight s <> Panic.
  Proof.
    unfold parse_route_weight. destruct (match_weight_svc s) as [[[[? ?] ?] ?]|].
    - destruct (parse_weight pweight _); discriminate.
    - destruct (match_weight_src s) as [[[? ?] ?]|]; [|discriminate].
      destruct (parse_weight pweight _); discriminate.
  Qed.

  Lemma parse_line_np l : parse_line pweight l <> Panic.
  Proof.
    unfold parse_line. destruct (_ || _); [discriminate|].
    destruct (route_kw k_add _). { apply bind_np; [apply parse_route_add_np | discriminate]. }
    destruct (route_kw k_del _). { apply bind_np; [apply parse_route_del_np | discriminate]. }
    destruct (route_kw k_weight _). { apply bind_np; [apply parse_route_weight_np | discriminate]. }
    discriminate.
  Qed.

  Lemma parse_lines_np ls : parse_lines pweight ls <> Panic.
  Proof.
    induction ls as [|l ls IH]; cbn [parse_lines]; [discriminate|].
    apply bind_np; [apply parse_line_np|]. intros o. apply bind_np; [exact IH | discriminate].
  Qed.

  Lemma apply_def_np t d : apply_def canon glob_ok t d <> Panic.
  Proof.
    unfold apply_def. destruct (d_cmd d).
    - unfold add_route. destruct (hostpath _). destruct (d_src d); [discriminate|].
      destruct (d_dst d); [discriminate|]. destruct (canon _); [|discriminate].
      destruct (lookup _ _); [destruct (find _ _)|]; repeat (try destruct (glob_ok _)); discriminate.
    - unfold del_route. destruct (d_tags d); [|discriminate].
      destruct (d_src d), (d_dst d); try discriminate;
        try (destruct (canon _); [|discriminate]); destruct (hostpath _); cbn zeta; destruct (get_route _ _ _); discriminate.
    - unfold weigh_route. destruct (hostpath _). cbn zeta. destruct (d_src d); [discriminate|].
      destruct (get_route _ _ _); [|discriminate]. destruct (_ =? 0); discriminate.
  Qed.

  Lemma run_from_np ds : forall t, run_from canon glob_ok t ds <> Panic.
  Proof.
    induction ds as [|d ds IH]; intros t; cbn [run_from]; [discriminate|].
    apply bind_np; [apply apply_def_np | exact IH].
  Qed.

  (* whatever the text and whatever the libraries answer: an error or a table, never a crash *)
  Theorem new_table_never_panics text : new_table pweight canon glob_ok text <> Panic.
  Proof.
    unfold new_table, parse. apply bind_np; [apply parse_lines_np|]. intros ds.
    apply bind_np; [apply run_from_np | discriminate].
  Qed.

  (* and a table that NewTable returns satisfies the invariant and has its routes sorted *)
  Theorem new_table_inv text t : new_table pweight canon glob_ok text = Ok t ->
    exists t0, inv t0 /\ t = sort_table t0.
  Proof.
    unfold new_table. destruct (parse pweight text) as [ds| |]; cbn [bind]; try discriminate.
    destruct (run canon glob_ok ds) as [t0| |] eqn:E; cbn [bind]; try discriminate.
    intros H; inversion H. exists t0. split; auto. eapply run_inv; eauto.
  Qed.
End Total.

(* ================= the route order of NewTable (Routes.Less since /repo c1f03c0) ================= *)
(* the key order IS "lower-cased path first, raw path to break ties" *)
Lemma compare_succ_succ x y : (N.succ x ?= N.succ y) = (x ?= y).
Proof.
  destruct (x ?= y) eqn:E.
  - apply N.compare_eq in E. subst. apply N.compare_refl.
  - apply N.compare_lt_iff in E. apply N.compare_lt_iff. now apply N.succ_lt_mono in E.
  - apply N.compare_gt_iff in E. apply N.compare_gt_iff. now apply N.succ_lt_mono in E.
Qed.

Lemma key_cmp_gen a b ra rb :
  str_cmp (map N.succ a ++ [0] ++ ra) (map N.succ b ++ [0] ++ rb)
  = match str_cmp a b with Eq => str_cmp ra rb | c => c end.
Proof.
  revert b. induction a as [|x a IH]; intros [|y b]; cbn [map app str_cmp].
  - reflexivity.
  - now destruct y.
  - now destruct x.
  - rewrite compare_succ_succ. destruct (x ?= y); auto.
Qed.

Theorem path_key_cmp p q :
  str_cmp (path_key p) (path_key q)
  = match str_cmp (lower p) (lower q) with Eq => str_cmp p q | c => c end.
Proof. apply key_cmp_gen. Qed.

(* it is a strict total order on paths: trichotomous (only equal paths compare Eq),
   antisymmetric, transitive *)
Theorem path_key_eq p q : str_cmp (path_key p) (path_key q) = Eq <-> p = q.
Proof.
  rewrite path_key_cmp. split.
  - destruct (str_cmp (lower p) (lower q)); try discriminate. apply str_cmp_eq.
  - intros ->. assert (E : str_cmp (lower q) (lower q) = Eq) by now apply str_cmp_eq. rewrite E. now apply str_cmp_eq.
Qed.

Theorem path_key_antisym p q : str_cmp (path_key q) (path_key p) = CompOpp (str_cmp (path_key p) (path_key q)).
Proof. apply str_cmp_antisym. Qed.

Lemma str_cmp_trans_lt a : forall b c, str_cmp a b = Lt -> str_cmp b c = Lt -> str_cmp a c = Lt.
Proof.
  induction a as [|x a IH]; intros [|y b] [|z c]; cbn [str_cmp]; try discriminate; auto.
  destruct (x ?= y) eqn:E1; try discriminate; destruct (y ?= z) eqn:E2; try discriminate; intros H1 H2.
  - apply N.compare_eq in E1, E2. subst. rewrite N.compare_refl. eauto.
  - apply N.compare_eq in E1. subst. now rewrite E2.
  - apply N.compare_eq in E2. subst. now rewrite E1.
  - rewrite N.compare_lt_iff in *. assert (x < z) by lia. apply N.compare_lt_iff in H. now rewrite H.
Qed.

Theorem path_key_trans p q r :
  str_ltb (path_key p) (path_key q) = true -> str_ltb (path_key q) (path_key r) = true ->
  str_ltb (path_key p) (path_key r) = true.
Proof.
  unfold str_ltb. destruct (str_cmp (path_key p) (path_key q)) eqn:E1; try discriminate.
  destruct (str_cmp (path_key q) (path_key r)) eqn:E2; try discriminate. intros _ _.
  now rewrite (str_cmp_trans_lt _ _ _ E1 E2).
Qed.

(* sort_routes is a permutation-free rearrangement: same elements ... *)
Lemma insert_desc_in x r rs : In x (insert_desc r rs) <-> x = r \/ In x rs.
Proof.
  induction rs as [|y rs IH]; cbn [insert_desc In]; [intuition|].
  destruct (str_ltb _ _); cbn [In]; rewrite ?IH; intuition.
Qed.
Lemma sort_routes_in x rs : In x (sort_routes rs) <-> In x rs.
Proof.
  unfold sort_routes. induction rs as [|r rs IH]; cbn [fold_right In]; [tauto|].
  rewrite insert_desc_in, IH. intuition.
Qed.

(* ... in descending key order: no route is followed by one with a greater key *)
Fixpoint desc_sorted (rs : list route) : Prop :=
  match rs with
  | a :: ((b :: _) as r) => str_ltb (route_key a) (route_key b) = false /\ desc_sorted r
  | _ => True
  end.

Lemma insert_desc_sorted r rs : desc_sorted rs -> desc_sorted (insert_desc r rs).
Proof.
  induction rs as [|x rs IH]; intros Hs; cbn [insert_desc]; [exact I|].
  destruct (str_ltb (route_key x) (route_key r)) eqn:E.
  - cbn [desc_sorted]. split; auto. unfold str_ltb in *. rewrite str_cmp_antisym.
    destruct (str_cmp (route_key x) (route_key r)); try discriminate. reflexivity.
  - destruct rs as [|y rs]; cbn [insert_desc desc_sorted]; [auto|].
    cbn [desc_sorted] in Hs. destruct Hs as [Hxy Hs]. specialize (IH Hs). cbn [insert_desc] in IH.
    destruct (str_ltb (route_key y) (route_key r)) eqn:E2; cbn [desc_sorted]; auto.
Qed.

Theorem sort_routes_sorted rs : desc_sorted (sort_routes rs).
Proof.
  unfold sort_routes. induction rs as [|r rs IH]; cbn [fold_right]; [exact I|]. now apply insert_desc_sorted.
Qed.

(* NewTable returns every host's routes in that order *)
Theorem new_table_sorted pweight canon glob_ok text t :
  new_table pweight canon glob_ok text = Ok t -> Forall (fun hr => desc_sorted (snd hr)) t.
Proof.
  intros H. apply new_table_inv in H as (t0 & _ & ->). unfold sort_table. apply Forall_forall.
  intros hr Hin. apply in_map_iff in Hin as (hr0 & <- & _). cbn [snd]. apply sort_routes_sorted.
Qed.
