(** Proofs about Model/ExitSignals.v (C18): exit.Listen + the exit handler of main() over
    arbitrary lists of signals, composed with the Shutdown model. *)
From Coq Require Import List NArith Bool Lia.
From Fabio Require Import Model.Shutdown Proofs.Shutdown Model.ExitSignals.
Import ListNotations.
Local Open Scope N_scope.

Definition all_hup (sigs : list event) : Prop := forall e, In e sigs -> is_term (snd e) = false.

(* ---- the handler goroutine ---- *)
Lemma deliver_keeps_start k w work p e :
  drain_start p <> None -> drain_start (deliver k w work p e) = drain_start p.
Proof.
  destruct p as [|t0|t0 t]; cbn [drain_start deliver]; intros H.
  - congruence.
  - destruct k; [reflexivity|].
    destruct ((t0 <=? fst e) && dltb (Fin (fst e)) (dplus t0 (drain_ret w (work t0)))); reflexivity.
  - reflexivity.
Qed.

Lemma fold_keeps_start k w work sigs p :
  drain_start p <> None -> drain_start (fold_left (deliver k w work) sigs p) = drain_start p.
Proof.
  revert p. induction sigs as [|e r IH]; intros p H; cbn [fold_left]; [reflexivity|].
  rewrite IH; rewrite (deliver_keeps_start k w work p e H); auto.
Qed.

(* the drain starts at the first terminating signal and only then: whatever the list of signals,
   and also for the variant that stops the notification *)
Theorem drain_starts_at_first_term k w work sigs :
  drain_start (listen_phase k w work sigs) = first_term sigs.
Proof.
  unfold listen_phase, first_term. induction sigs as [|e r IH]; [reflexivity|].
  cbn [fold_left find deliver]. destruct (is_term (snd e)) eqn:E.
  - rewrite fold_keeps_start; cbn [drain_start]; congruence.
  - exact IH.
Qed.

Lemma fold_kept_draining w work sigs t0 :
  fold_left (deliver true w work) sigs (PDraining t0) = PDraining t0.
Proof. induction sigs as [|e r IH]; cbn [fold_left deliver]; auto. Qed.

(* the code as it is, in closed form: nothing but the first terminating signal matters *)
Theorem kept_phase_closed_form w work sigs :
  listen_phase true w work sigs =
  match first_term sigs with None => PListening | Some t0 => PDraining t0 end.
Proof.
  unfold listen_phase, first_term. induction sigs as [|e r IH]; [reflexivity|].
  cbn [fold_left find deliver]. destruct (is_term (snd e)) eqn:E.
  - apply fold_kept_draining.
  - exact IH.
Qed.

Lemma first_term_all_hup sigs : all_hup sigs -> first_term sigs = None.
Proof.
  unfold first_term. induction sigs as [|e r IH]; intros H; [reflexivity|].
  cbn [find]. rewrite (H e (or_introl eq_refl)). apply IH. intros x Hx. apply H. right; exact Hx.
Qed.

Lemma first_term_none_all_hup sigs : first_term sigs = None -> all_hup sigs.
Proof.
  unfold first_term. induction sigs as [|e r IH]; intros H x Hx; [destruct Hx|].
  cbn [find] in H. destruct (is_term (snd e)) eqn:E; [discriminate|].
  destruct Hx as [<-|Hx]; [exact E|]. apply IH; assumption.
Qed.

Lemma first_term_split pre e post :
  all_hup pre -> is_term (snd e) = true -> first_term (pre ++ e :: post) = Some (fst e).
Proof.
  unfold first_term. induction pre as [|x r IH]; intros H E; cbn [app find].
  - rewrite E. reflexivity.
  - rewrite (H x (or_introl eq_refl)). apply IH; [|exact E]. intros y Hy. apply H. right; exact Hy.
Qed.

Lemma first_term_some_split sigs t0 :
  first_term sigs = Some t0 ->
  exists pre e post, sigs = pre ++ e :: post /\ all_hup pre /\ is_term (snd e) = true /\ fst e = t0.
Proof.
  unfold first_term. induction sigs as [|x r IH]; cbn [find]; [discriminate|].
  destruct (is_term (snd x)) eqn:E.
  - intros H. inversion H. exists [], x, r. repeat split; auto. intros y [].
  - intros H. destruct (IH H) as (pre & e & post & -> & Hp & He & Ht).
    exists (x :: pre), e, post. repeat split; auto.
    intros y [<-|Hy]; [exact E|apply Hp; exact Hy].
Qed.

(* SIGHUPs before the first terminating signal are ignored (the handler keeps listening), and
   whatever arrives after it - any kind, any number - changes nothing: the whole run is the run
   of the first terminating signal alone *)
Theorem later_signals_change_nothing w work pre e post :
  all_hup pre -> is_term (snd e) = true ->
  listen_phase true w work (pre ++ e :: post) = PDraining (fst e) /\
  listen_phase true w work (pre ++ e :: post) = listen_phase true w work [e].
Proof.
  intros Hp He. rewrite !kept_phase_closed_form, (first_term_split pre e post Hp He).
  split; [reflexivity|]. unfold first_term. cbn [find]. rewrite He. reflexivity.
Qed.

Theorem later_signals_same_end w work pre e post :
  all_hup pre -> is_term (snd e) = true ->
  proc_end true w work (pre ++ e :: post) = proc_end true w work [e].
Proof.
  intros Hp He. unfold proc_end.
  destruct (later_signals_change_nothing w work pre e post Hp He) as [_ ->]. reflexivity.
Qed.

Theorem later_signals_same_outcomes w reqs pre e post q :
  all_hup pre -> is_term (snd e) = true ->
  req_outcome true w reqs (pre ++ e :: post) q = req_outcome true w reqs [e] q.
Proof.
  intros Hp He. unfold req_outcome.
  destruct (later_signals_change_nothing w (main_work reqs) pre e post Hp He) as [_ ->]. reflexivity.
Qed.

(* SIGHUPs alone never end the process, never start a drain, never touch a request *)
Theorem hups_never_end k w work sigs :
  all_hup sigs ->
  listen_phase k w work sigs = PListening /\ proc_end k w work sigs = ERunning /\
  forall p, proc_accepts w work (listen_phase k w work sigs) p = true.
Proof.
  intros H. assert (E : listen_phase k w work sigs = PListening).
  { pose proof (drain_starts_at_first_term k w work sigs) as D.
    rewrite (first_term_all_hup sigs H) in D.
    destruct (listen_phase k w work sigs); cbn [drain_start] in D; congruence. }
  unfold proc_end. rewrite E. repeat split.
Qed.

Theorem hups_leave_requests_alone k w reqs sigs q :
  all_hup sigs -> req_outcome k w reqs sigs q = QFate (untouched (q_end q)).
Proof.
  intros H. unfold req_outcome.
  destruct (hups_never_end k w (main_work reqs) sigs H) as [-> _]. reflexivity.
Qed.

(* and only a terminating signal does: a process that ended had one *)
Theorem end_needs_terminating_signal k w work sigs :
  proc_end k w work sigs <> ERunning -> exists t0, first_term sigs = Some t0.
Proof.
  intros H. destruct (first_term sigs) as [t0|] eqn:E; [eauto|].
  destruct (hups_never_end k w work sigs (first_term_none_all_hup sigs E)) as (_ & R & _). congruence.
Qed.

(* ---- the property, for the process: every list of signals with a terminating one ---- *)

(* clause 3: the process ends, cleanly, no later than the wait after the first terminating signal,
   whatever else arrives and whatever is open *)
Theorem process_ends_within_wait w work sigs t0 :
  first_term sigs = Some t0 ->
  exists T, proc_end true w work sigs = EClean (Fin T) /\ t0 <= T /\ T <= t0 + w.
Proof.
  intros H. unfold proc_end. rewrite kept_phase_closed_form, H. cbn [phase_end].
  unfold drain_ret. pose proof (bounded w (work t0)) as B.
  destruct (g_ret (shutdown w (work t0))) as [x|]; [|discriminate B].
  apply dle_fin in B. exists (t0 + x). cbn [dplus]. repeat split; lia.
Qed.

(* clause 2: whatever a registered server has open when the drain starts and needs no more than
   the wait ends by itself, at its own time *)
Theorem process_inflight_complete w work sigs t0 s l n :
  first_term sigs = Some t0 ->
  In s (work t0) -> In l (leaves s) -> In (Fin n) (litems l) -> n <= w ->
  proc_item w l t0 (proc_end true w work sigs) (Fin n) = Done (t0 + n).
Proof.
  intros H Hs Hl Hin Hn. unfold proc_end. rewrite kept_phase_closed_form, H. cbn [phase_end end_time].
  destruct (inflight_within_wait_complete w (work t0) s l n Hs Hl Hin Hn) as [F S].
  unfold proc_item. unfold fate_of, leaf_state in F. rewrite F. cbn [shift truncate_at].
  cbn [survives] in S. unfold drain_ret.
  destruct (g_ret (shutdown w (work t0))) as [x|]; cbn [dplus dleb end_time] in *.
  - apply N.leb_le in S. replace (t0 + n <=? t0 + x) with true; [reflexivity|].
    symmetry. apply N.leb_le. lia.
  - reflexivity.
Qed.

Lemma in_proxy_leaf reqs t0 q :
  In q reqs -> open_at t0 q = true -> In (remaining t0 q) (litems (proxy_leaf reqs t0)).
Proof.
  intros Hq Ho. unfold proxy_leaf, mkleaf. cbn [litems]. apply in_map. apply filter_In. auto.
Qed.

(* ... for the requests of fabio's proxy listener, in absolute time: every request that was
   accepted before the first terminating signal and whose answer comes no later than the wait
   after it is answered, at its own time, whatever signals follow *)
Theorem process_requests_complete w reqs sigs t0 q n :
  first_term sigs = Some t0 ->
  In q reqs -> q_start q < t0 -> q_end q = Fin n -> n <= t0 + w ->
  req_outcome true w reqs sigs q = QFate (Done n).
Proof.
  intros H Hq Hs He Hn. unfold req_outcome, req_outcome_in.
  rewrite kept_phase_closed_form, H. cbn [drain_start].
  replace (t0 <=? q_start q) with false by (symmetry; apply N.leb_gt; exact Hs).
  destruct (open_at t0 q) eqn:O.
  - pose proof (in_proxy_leaf reqs t0 q Hq O) as Hin.
    unfold remaining in *. rewrite He in *.
    assert (Hopen : t0 < n).
    { unfold open_at in O. apply andb_prop in O. destruct O as [_ O]. rewrite He in O.
      unfold dltb in O. cbn [dleb] in O. apply negb_true_iff, N.leb_gt in O. exact O. }
    pose proof (process_inflight_complete w (main_work reqs) sigs t0
                  (Single (proxy_leaf reqs t0)) (proxy_leaf reqs t0) (n - t0) H) as P.
    unfold proc_end in P. rewrite kept_phase_closed_form, H in P.
    rewrite P.
    + f_equal. f_equal. lia.
    + left; reflexivity.
    + left; reflexivity.
    + exact Hin.
    + lia.
  - rewrite He. reflexivity.
Qed.

(* clause 1: from the first terminating signal on nothing is accepted *)
Theorem process_no_accept w work sigs t0 p :
  first_term sigs = Some t0 -> t0 <= p ->
  proc_accepts w work (listen_phase true w work sigs) p = false.
Proof.
  intros H Hp. unfold proc_accepts. rewrite kept_phase_closed_form, H. cbn [drain_start].
  replace (p <? t0) with false by (symmetry; apply N.ltb_ge; exact Hp). cbn [orb].
  destruct (existsb (fun r => server_accepts r (p - t0)) (g_servers (shutdown w (work t0)))) eqn:E; [|reflexivity].
  apply existsb_exists in E. destruct E as (r & Hr & A).
  rewrite (listeners_closed_first w (work t0) r (p - t0) Hr) in A. discriminate.
Qed.

Theorem process_refuses_new_requests w reqs sigs t0 q :
  first_term sigs = Some t0 -> t0 <= q_start q -> req_outcome true w reqs sigs q = QRefused.
Proof.
  intros H Hs. unfold req_outcome, req_outcome_in. rewrite kept_phase_closed_form, H. cbn [drain_start].
  replace (t0 <=? q_start q) with true by (symmetry; apply N.leb_le; exact Hs). reflexivity.
Qed.

(* before it, everything is: SIGHUPs do not close anything *)
Theorem process_accepts_before w work k sigs t0 p :
  first_term sigs = Some t0 -> p < t0 -> proc_accepts w work (listen_phase k w work sigs) p = true.
Proof.
  intros H Hp. unfold proc_accepts. rewrite drain_starts_at_first_term, H.
  replace (p <? t0) with true by (symmetry; apply N.ltb_lt; exact Hp). reflexivity.
Qed.

(* ---- NOT the code: a handler that stops the notification before it calls fn.  A SIGHUP (or a
   second SIGTERM / SIGINT) during the drain then ends the process by the default action, and the
   request that would have been answered within the wait is cut there ---- *)
Definition ex_reqs : list req := [{| q_start := 0; q_end := Fin 800 |}; {| q_start := 0; q_end := Inf |}].
Definition ex_sigs : list event := [(100, SHup); (200, STerm); (450, SHup); (600, SInt)].

Theorem stop_notify_before_drain_refuted :
  exists w reqs sigs q n t0 k,
    first_term sigs = Some t0 /\ In q reqs /\ q_start q < t0 /\ q_end q = Fin n /\ n <= t0 + w /\
    proc_end false w (main_work reqs) sigs = EKilled k /\ k < n /\
    req_outcome false w reqs sigs q = QFate (Cut (Fin k)).
Proof.
  exists 1000, ex_reqs, ex_sigs, {| q_start := 0; q_end := Fin 800 |}, 800, 200, 450.
  split; [reflexivity|]. split; [left; reflexivity|]. split; [reflexivity|]. split; [reflexivity|].
  split; [vm_compute; discriminate|]. split; [vm_compute; reflexivity|]. split; [reflexivity|].
  vm_compute. reflexivity.
Qed.

(* the same script on the code as it is: clean end at the wait after SIGTERM (the never-ending
   request keeps the HTTP server busy until the deadline), the request answered at its own time *)
Example signals_nonvacuous :
  first_term ex_sigs = Some 200 /\
  proc_end true 1000 (main_work ex_reqs) ex_sigs = EClean (Fin 1200) /\
  map (req_outcome true 1000 ex_reqs ex_sigs) ex_reqs = [QFate (Done 800); QFate (Cut (Fin 1200))] /\
  req_outcome true 1000 ex_reqs ex_sigs {| q_start := 300; q_end := Fin 400 |} = QRefused /\
  proc_accepts 1000 (main_work ex_reqs) (listen_phase true 1000 (main_work ex_reqs) ex_sigs) 150 = true /\
  proc_accepts 1000 (main_work ex_reqs) (listen_phase true 1000 (main_work ex_reqs) ex_sigs) 200 = false.
Proof. vm_compute. repeat split; reflexivity. Qed.

Example hups_nonvacuous :
  all_hup [(100, SHup); (300, SHup); (301, SHup)] /\
  proc_end true 1000 (main_work ex_reqs) [(100, SHup); (300, SHup); (301, SHup)] = ERunning.
Proof.
  split; [|reflexivity]. intros e [<-|[<-|[<-|[]]]]; reflexivity.
Qed.
