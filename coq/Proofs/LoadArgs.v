(** Proofs about Model/LoadArgs.v. *)
From Coq Require Import String List NArith Bool Lia.
From Fabio Require Import Lib.Outcome Lib.Bytes Model.LoadArgs.
Import ListNotations.
Local Open Scope N_scope.

Lemma unquote_path_not_panic p : unquote_path p <> Panic.
Proof.
  unfold unquote_path. destruct p as [|c r]; [discriminate|].
  destruct (if c =? 39 then _ else _); discriminate.
Qed.

Lemma parse_rest_not_panic : forall n rest cmdline path,
  (length rest <= n)%nat -> parse_rest rest cmdline path <> Panic.
Proof.
  induction n as [|n IH]; intros rest cmdline path Hl.
  - destruct rest; [cbn; discriminate | cbn in Hl; lia].
  - destruct rest as [|arg r]; [cbn; discriminate|]. cbn [length] in Hl. cbn [parse_rest].
    destruct (beq arg w_v || beq arg w_version || beq arg w_version2); [discriminate|].
    destruct (beq arg w_cfg || beq arg w_cfg2).
    { destruct r as [|p r']; [discriminate|]. apply IH. cbn [length] in Hl. lia. }
    destruct (has_prefix arg w_cfg_eq).
    { pose proof (unquote_path_not_panic (skipn 5 arg)) as Hu.
      destruct (unquote_path (skipn 5 arg)); [apply IH; lia | discriminate | contradiction]. }
    destruct (has_prefix arg w_cfg2_eq).
    { pose proof (unquote_path_not_panic (skipn 6 arg)) as Hu.
      destruct (unquote_path (skipn 6 arg)); [apply IH; lia | discriminate | contradiction]. }
    destruct (has_prefix arg w_test); apply IH; lia.
Qed.

(* config.parse returns for every non-empty argument list (os.Args always has the program name) *)
Theorem config_parse_never_panics args : args <> [] -> config_parse args <> Panic.
Proof.
  destruct args as [|exe rest]; [contradiction|]. intros _. cbn [config_parse].
  apply (parse_rest_not_panic (length rest)). apply le_n.
Qed.

(* ... and the empty list is exactly the asserted case *)
Theorem config_parse_empty : config_parse [] = Panic.
Proof. reflexivity. Qed.

(* the spellings of the configuration file argument mean the same *)
Local Open Scope string_scope.
Example cfg_spellings :
  let want := Ok ([bs "fabio"; bs "-a=1"; bs "-b"], bs "/etc/f.properties", false) in
  config_parse [bs "fabio"; bs "-a=1"; bs "-cfg"; bs "/etc/f.properties"; bs "-b"] = want /\
  config_parse [bs "fabio"; bs "-a=1"; bs "--cfg"; bs "/etc/f.properties"; bs "-b"] = want /\
  config_parse [bs "fabio"; bs "-a=1"; bs "-cfg=/etc/f.properties"; bs "-b"] = want /\
  config_parse [bs "fabio"; bs "-a=1"; bs "--cfg='/etc/f.properties'"; bs "-b"] = want /\
  config_parse [bs "fabio"; bs "-a=1"; bs "-cfg=""/etc/f.properties"""; bs "-test.v"; bs "-b"] = want /\
  config_parse [bs "fabio"; bs "-cfg"] = Err 1 /\
  config_parse [bs "fabio"; bs "-cfg="] = Err 1 /\
  config_parse [bs "fabio"; bs "--cfg=''"] = Err 1 /\
  config_parse [bs "fabio"; bs "-a"; bs "--version"; bs "-cfg"] = Ok ([], [], true).
Proof. vm_compute. repeat split. Qed.
