(** The ordering clauses of C03 on the domain outside the finding regions:
    exact host beats wildcard, longer literal host suffix first, host-less last,
    longest path within a host; and their composition [lookup_meets_spec_on_domain]. *)
From Coq Require Import String List NArith Bool Lia PeanoNat Sorting.Sorted.
From Fabio Require Import Lib.Bytes Model.Glob Model.Lookup Proofs.Lookup.
Import ListNotations.
Local Open Scope N_scope.

(* ------------------------------------------------------------------ *)
(** * Glob semantics *)
Lemma gmatch_star_unfold p s :
  gmatch (TStar :: p) s
  = gmatch p s || match s with [] => false | _ :: s' => gmatch (TStar :: p) s' end.
Proof. destruct s; reflexivity. Qed.

Lemma gmatch_app p1 : forall p2 s,
  gmatch (p1 ++ p2) s = true ->
  exists s1 s2, s = s1 ++ s2 /\ gmatch p1 s1 = true /\ gmatch p2 s2 = true.
Proof.
  induction p1 as [|t p1 IH]; intros p2 s H.
  - exists [], s. repeat split. exact H.
  - rewrite <- app_comm_cons in H. destruct t as [c| |].
    + destruct s as [|x s]; cbn [gmatch] in H; [discriminate|].
      apply andb_true_iff in H as [Hx H]. destruct (IH _ _ H) as (s1 & s2 & -> & H1 & H2).
      exists (x :: s1), s2. repeat split; [|exact H2]. cbn [gmatch]. now rewrite Hx, H1.
    + destruct s as [|x s]; cbn [gmatch] in H; [discriminate|].
      destruct (IH _ _ H) as (s1 & s2 & -> & H1 & H2).
      exists (x :: s1), s2. repeat split; [|exact H2]. cbn [gmatch]. exact H1.
    + induction s as [|x s IHs]; rewrite gmatch_star_unfold in H;
        apply orb_true_iff in H as [H | H]; try discriminate.
      * destruct (IH _ _ H) as (s1 & s2 & E & H1 & H2).
        exists s1, s2. repeat split; [exact E | | exact H2].
        rewrite gmatch_star_unfold, H1. reflexivity.
      * destruct (IH _ _ H) as (s1 & s2 & E & H1 & H2).
        exists s1, s2. repeat split; [exact E | | exact H2].
        rewrite gmatch_star_unfold, H1. reflexivity.
      * destruct (IHs H) as (s1 & s2 & -> & H1 & H2).
        exists (x :: s1), s2. repeat split; [|exact H2].
        rewrite gmatch_star_unfold, H1. apply orb_true_r.
Qed.

Lemma tok_of_lit c : is_meta c = false -> tok_of c = TLit c.
Proof.
  unfold is_meta, tok_of. intros H. apply orb_false_iff in H as [-> ->]. reflexivity.
Qed.

(* a pattern without metacharacters matches exactly itself *)
Lemma gmatch_lits k : forall s,
  has_meta k = false -> gmatch (parse_glob k) s = true -> k = s.
Proof.
  unfold has_meta, parse_glob. induction k as [|c k IH]; intros s Hm H.
  - destruct s; [reflexivity | discriminate].
  - cbn [existsb] in Hm. apply orb_false_iff in Hm as [Hc Hm].
    cbn [map] in H. rewrite (tok_of_lit c Hc) in H.
    destruct s as [|x s]; cbn [gmatch] in H; [discriminate|].
    apply andb_true_iff in H as [Hx H]. apply N.eqb_eq in Hx. subst x.
    f_equal. now apply IH.
Qed.

Lemma existsb_rev {A} (f : A -> bool) l : existsb f (rev l) = existsb f l.
Proof.
  destruct (existsb f l) eqn:E.
  - apply existsb_exists in E as [x [Hx Hc]]. apply existsb_exists. exists x.
    split; [now apply in_rev in Hx | exact Hc].
  - destruct (existsb f (rev l)) eqn:E'; [|reflexivity].
    apply existsb_exists in E' as [x [Hx Hc]]. apply in_rev in Hx.
    rewrite (existsb_false _ _ _ E Hx) in Hc. discriminate.
Qed.

(* r = its literal head ++ (nothing | a metacharacter and the rest) *)
Lemma take_lits_split r :
  exists rest, r = take_lits r ++ rest /\ has_meta (take_lits r) = false /\
               (rest = [] \/ exists m rest', rest = m :: rest' /\ is_meta m = true).
Proof.
  unfold has_meta. induction r as [|c r IH]; cbn [take_lits].
  - exists []. repeat split. now left.
  - destruct (is_meta c) eqn:E.
    + exists (c :: r). repeat split. right. now exists c, r.
    + destruct IH as (rest & E1 & E2 & E3). exists rest. repeat split.
      * cbn [app]. now rewrite <- E1.
      * cbn [existsb]. now rewrite E, E2.
      * exact E3.
Qed.

Lemma has_meta_lit_tail k : has_meta (lit_tail k) = false.
Proof.
  unfold lit_tail, has_meta. rewrite existsb_rev.
  destruct (take_lits_split (rev k)) as (rest & _ & H & _). exact H.
Qed.

(* whatever a pattern matches ends with the pattern's literal tail *)
Lemma tail_suffix k s : glob_match k s = true -> exists x, s = x ++ lit_tail k.
Proof.
  intros H. destruct (take_lits_split (rev k)) as (rest & E & _ & _).
  assert (Ek : k = rev rest ++ lit_tail k).
  { unfold lit_tail. rewrite <- rev_app_distr, <- E. symmetry. apply rev_involutive. }
  unfold glob_match in H. rewrite Ek in H. unfold parse_glob in H. rewrite map_app in H.
  apply gmatch_app in H as (s1 & s2 & -> & _ & H2).
  exists s1. f_equal. symmetry. apply gmatch_lits; [apply has_meta_lit_tail | exact H2].
Qed.

Lemma glob_exact k s : has_meta k = false -> glob_match k s = true -> k = s.
Proof. intros Hm H. now apply gmatch_lits. Qed.

(* ------------------------------------------------------------------ *)
(** * Byte order of strings with a common prefix *)
Lemma str_ltb_app_common a x y : str_ltb (a ++ x) (a ++ y) = str_ltb x y.
Proof.
  unfold str_ltb. induction a as [|c a IH]; cbn [app str_cmp]; [reflexivity|].
  now rewrite N.compare_refl.
Qed.

Lemma str_ltb_head c d x y : c < d -> str_ltb (c :: x) (d :: y) = true.
Proof.
  intros H. unfold str_ltb. cbn [str_cmp].
  apply N.compare_lt_iff in H. now rewrite H.
Qed.

(* A wildcard key h (only stars) that matches nh sorts, reversed, strictly before every
   string that begins with the reverse of a longer suffix T of nh, provided the bytes of
   nh are above '*' in byte order (all host-name bytes are). *)
Lemma longer_tail_first h nh T R :
  has_meta h = true -> star_only h = true -> glob_match h nh = true ->
  (forall c, In c nh -> 42 < c) ->
  (exists x, nh = x ++ T) -> (length (lit_tail h) < length T)%nat ->
  str_ltb (rev h) (rev T ++ R) = true.
Proof.
  intros Hmeta Hstar Hmatch Hbytes [x Hx] Hlen.
  destruct (tail_suffix h nh Hmatch) as [x0 Hx0].
  set (t := lit_tail h) in *.
  (* T = y ++ t with y non-empty *)
  assert (HT : exists y, T = y ++ t /\ y <> []).
  { rewrite Hx0 in Hx. apply app_eq_app in Hx as [l [[_ E] | [_ E]]].
    - exists l. split; [exact E|]. intros ->. cbn in E. subst T. lia.
    - exfalso. rewrite E, app_length in Hlen. lia. }
  destruct HT as (y & -> & Hy).
  (* rev h = rev t ++ '*' :: _ *)
  destruct (take_lits_split (rev h)) as (rest & E & _ & Hrest).
  assert (Et : take_lits (rev h) = rev t).
  { unfold t, lit_tail. now rewrite rev_involutive. }
  rewrite Et in E.
  destruct Hrest as [-> | (m & rest' & -> & Hm)].
  { exfalso. rewrite app_nil_r in E. unfold has_meta in Hmeta.
    rewrite <- (existsb_rev is_meta h), E, existsb_rev in Hmeta.
    fold (has_meta t) in Hmeta. unfold t in Hmeta. rewrite has_meta_lit_tail in Hmeta. discriminate. }
  assert (Em : m = 42).
  { unfold is_meta in Hm. apply orb_true_iff in Hm as [Hm | Hm]; [now apply N.eqb_eq in Hm|].
    exfalso. unfold star_only in Hstar. apply negb_true_iff in Hstar.
    assert (Hin : In m h). { apply in_rev. rewrite E. apply in_or_app. right. now left. }
    rewrite (existsb_false _ _ _ Hstar Hin) in Hm. discriminate. }
  subst m. rewrite E, rev_app_distr, <- app_assoc, str_ltb_app_common.
  destruct (rev y) as [|d ry] eqn:Ey.
  { exfalso. apply Hy. apply (f_equal (@rev N)) in Ey. now rewrite rev_involutive in Ey. }
  cbn [app]. apply str_ltb_head. apply Hbytes. rewrite Hx. apply in_or_app. right.
  apply in_or_app. left. apply in_rev. rewrite Ey. now left.
Qed.

(* ------------------------------------------------------------------ *)
(** * The host list is sorted by reversed name, descending *)
Definition rev_ge (a b : str) : Prop := str_ltb (rev a) (rev b) = false.

Lemma sorted_map_rev S :
  StronglySorted (kge (fun x : str => x)) S -> StronglySorted rev_ge (map (@rev N) S).
Proof.
  induction 1 as [|a S Hs IH Hall]; cbn [map]; constructor; [exact IH|].
  apply Forall_forall. intros y Hy. apply in_map_iff in Hy as [z [<- Hz]].
  rewrite Forall_forall in Hall. unfold rev_ge. rewrite !rev_involutive. now apply Hall.
Qed.

Lemma sort_hosts_sorted l :
  (forall k, In k l -> has_colon k = false) -> StronglySorted rev_ge (sort_hosts_rhp l).
Proof.
  intros Hc. destruct l as [|a [|b l]].
  - constructor.
  - constructor; constructor.
  - set (L := a :: b :: l) in *.
    change (sort_hosts_rhp L) with
      (map reverse_host_port (sort_desc (fun x => x) (map reverse_host_port L))).
    assert (E1 : map reverse_host_port L = map (@rev N) L).
    { apply map_ext_in. intros k Hk. apply rhp_nocolon. now apply Hc. }
    rewrite E1.
    assert (E2 : map reverse_host_port (sort_desc (fun x => x) (map (@rev N) L))
                 = map (@rev N) (sort_desc (fun x => x) (map (@rev N) L))).
    { apply map_ext_in. intros k Hk. apply rhp_nocolon. apply sort_desc_in in Hk.
      apply in_map_iff in Hk as [k0 [<- Hk0]]. rewrite has_colon_rev. now apply Hc. }
    rewrite E2. apply sorted_map_rev. apply sort_desc_sorted.
Qed.

Lemma sorted_snoc_nil l : StronglySorted rev_ge l -> StronglySorted rev_ge (l ++ [[]]).
Proof.
  induction 1 as [|a l Hs IH Hall]; cbn [app].
  - constructor; constructor.
  - constructor; [exact IH|]. apply Forall_app. split; [exact Hall|].
    constructor; [|constructor]. unfold rev_ge. cbn [rev]. unfold str_ltb.
    destruct (rev a); reflexivity.
Qed.

Lemma sorted_after {A} (R : A -> A -> Prop) l1 h l2 y :
  StronglySorted R (l1 ++ h :: l2) -> In y l2 -> R h y.
Proof.
  induction l1 as [|a l1 IH]; cbn [app]; intros Hs Hy.
  - inversion Hs as [|? ? _ Hall]; subst. rewrite Forall_forall in Hall. now apply Hall.
  - inversion Hs; subst. now apply IH.
Qed.

(* ------------------------------------------------------------------ *)
(** * The domain *)
Definition key_plain (k : str) : Prop := lower k = k /\ has_colon k = false.
Definition table_ok (t : table) : Prop :=
  Forall key_plain (keys t) /\ NoDup (keys t) /\ table_sorted t.

Lemma table_ok_wf t : table_ok t -> wf_keys t.
Proof.
  intros [H _]. unfold wf_keys. rewrite Forall_forall in H |- *. intros k Hk.
  destruct (H k Hk) as [Hl Hc]. split; [exact Hl | now apply rhp_stable_nocolon].
Qed.

Lemma has_suffix_colon k r : has_colon k = false -> has_colon r = true -> has_suffix k r = false.
Proof.
  intros Hk Hr. destruct (has_suffix k r) eqn:E; [|reflexivity].
  apply has_suffix_spec in E as [x ->]. unfold has_colon in *.
  rewrite existsb_app, Hr, orb_true_r in Hk. discriminate.
Qed.

Lemma normalize_plain k tls : key_plain k -> normalize_host k tls = k.
Proof.
  intros [Hl Hc]. unfold normalize_host, strip_port.
  rewrite (has_suffix_colon k s_80 Hc eq_refl), (has_suffix_colon k s_443 Hc eq_refl).
  rewrite !andb_false_r. exact Hl.
Qed.

Lemma host_part_plain k : has_colon k = false -> host_part k = k.
Proof. intros H. unfold host_part. unfold has_colon in H. now rewrite (last_index_byte_none _ _ H). Qed.

Lemma region_none t globoff tls m host uri :
  region t globoff tls m host uri = None ->
  F_C03_colon_key t = false /\
  F_C03_gobwas_overlap globoff tls m t host uri = false /\ F_C03_iprefix_case m t = false /\
  F_C03_empty_star globoff tls t host = false /\ F_C03_metachar_order globoff t = false.
Proof.
  unfold region.
  destruct (F_C03_colon_key t); [discriminate|].
  destruct (F_C03_gobwas_overlap globoff tls m t host uri); [discriminate|].
  destruct (F_C03_iprefix_case m t); [discriminate|].
  destruct (F_C03_empty_star globoff tls t host); [discriminate|].
  destruct (F_C03_metachar_order globoff t); [discriminate|].
  intros _. repeat split.
Qed.

(* ------------------------------------------------------------------ *)
(** * Longest path within a host, for the two prefix matchers *)
Lemma lookup1_longest t h uri m k p id :
  table_sorted t -> F_C03_iprefix_case m t = false -> is_prefix_matcher m = true ->
  lookup1 t h uri m = Some (k, p, id) ->
  forall p' id', In (p', id') (assoc t k) -> path_match m uri p' = true ->
                 (length p' <= length p)%nat.
Proof.
  intros Hs Hreg Hpm H1 p' id' Hin Hm. apply lookup1_some in H1 as [_ Hfind].
  pose proof (find_sorted_max (fun r : route => fst r) _ _ _ (p', id')
                (assoc_sorted t k Hs) Hfind Hin Hm) as Hge.
  unfold kge in Hge. cbn [fst] in Hge.
  apply find_some in Hfind as [Hinp Hp]. cbn [fst] in Hp.
  destruct (Nat.leb (length p') (length p)) eqn:E; [now apply Nat.leb_le in E|].
  apply Nat.leb_gt in E. destruct m; [| |discriminate]; cbn [path_match] in Hp, Hm.
  - rewrite (prefix_shorter_lt p uri p' Hp Hm E) in Hge. discriminate.
  - cbn [F_C03_iprefix_case] in Hreg.
    pose proof (existsb_false _ _ _ Hreg (assoc_in_all _ _ _ _ Hinp)) as U1.
    pose proof (existsb_false _ _ _ Hreg (assoc_in_all _ _ _ _ Hin)) as U2.
    cbn [fst snd] in U1, U2.
    rewrite (lower_no_upper _ U1) in Hp. rewrite (lower_no_upper _ U2) in Hm.
    rewrite (prefix_shorter_lt p (lower uri) p' Hp Hm E) in Hge. discriminate.
Qed.

(* ------------------------------------------------------------------ *)
(** * Host order: a key tried later never beats a key tried earlier *)
Lemma host_beats_irrefl a : host_beats a a = false.
Proof. destruct a; cbn [host_beats]; try reflexivity. apply Nat.ltb_irrefl. Qed.

Lemma host_beats_none a : host_beats HNone a = false.
Proof. destruct a; reflexivity. Qed.

Lemma rev_ge_nil k : rev_ge [] k -> k = [].
Proof.
  unfold rev_ge, str_ltb. cbn [rev]. destruct (rev k) as [|c r] eqn:E; [|discriminate].
  intros _. apply (f_equal (@rev N)) in E. now rewrite rev_involutive in E.
Qed.

(* both keys match the host with glob matching enabled; h is tried before k' *)
Lemma later_never_beats_glob tls t host h k' :
  table_ok t ->
  F_C03_empty_star false tls t host = false -> F_C03_metachar_order false t = false ->
  (forall c, In c (normalize_host host tls) -> 42 < c) ->
  In h (keys t) -> In k' (keys t) ->
  glob_match h (normalize_host host tls) = true ->
  glob_match k' (normalize_host host tls) = true ->
  rev_ge h k' ->
  host_beats (host_class false tls k') (host_class false tls h) = false.
Proof.
  intros Hok H4 H3 Hbytes Hh Hk' Mh Mk' Hge.
  destruct Hok as [Hplain _]. rewrite Forall_forall in Hplain.
  pose proof (Hplain h Hh) as Ph. pose proof (Hplain k' Hk') as Pk'.
  unfold host_class. rewrite (normalize_plain h tls Ph), (normalize_plain k' tls Pk').
  destruct Ph as [_ Ch]. destruct Pk' as [_ Ck'].
  rewrite (host_part_plain h Ch), (host_part_plain k' Ck'). cbn [orb].
  set (nh := normalize_host host tls) in *.
  destruct k' as [|c' k0']; [cbn [is_nil]; apply host_beats_none|].
  set (k' := c' :: k0') in *.
  destruct h as [|ch h0].
  { apply rev_ge_nil in Hge. discriminate. }
  set (h := ch :: h0) in *. cbn [is_nil].
  (* facts from the regions *)
  assert (Sh : star_only h = true).
  { unfold F_C03_metachar_order in H3. cbn [negb andb] in H3.
    pose proof (existsb_false _ _ _ H3 Hh) as E. now apply negb_false_iff in E. }
  assert (Sk' : star_only k' = true).
  { unfold F_C03_metachar_order in H3. cbn [negb andb] in H3.
    pose proof (existsb_false _ _ _ H3 Hk') as E. now apply negb_false_iff in E. }
  destruct (has_meta h) eqn:Mhm; cbn [negb].
  2:{ (* h exact: nothing beats an exact host *)
      destruct (has_meta k'); reflexivity. }
  destruct (has_meta k') eqn:Mk'm; cbn [negb host_beats].
  - (* both wildcards: the later one does not have the longer tail *)
    apply Nat.ltb_ge. destruct (Nat.leb (length (lit_tail k')) (length (lit_tail h))) eqn:E;
      [now apply Nat.leb_le in E|].
    apply Nat.leb_gt in E. exfalso.
    (* rev k' = rev (lit_tail k') ++ rest *)
    destruct (take_lits_split (rev k')) as (rest & Ek & _ & _).
    assert (Et : take_lits (rev k') = rev (lit_tail k')).
    { unfold lit_tail. now rewrite rev_involutive. }
    rewrite Et in Ek.
    pose proof (longer_tail_first h nh (lit_tail k') rest Mhm Sh Mh Hbytes
                  (tail_suffix k' nh Mk') E) as Hlt.
    rewrite <- Ek in Hlt. unfold rev_ge in Hge. congruence.
  - (* k' exact, h wildcard: impossible outside region 4 *)
    exfalso. pose proof (glob_exact k' nh Mk'm Mk') as Enh.
    assert (Hlen : (length (lit_tail h) < length nh)%nat).
    { destruct (tail_suffix h nh Mh) as [x Hx].
      destruct x as [|c x].
      - (* the star matched the empty string: region 4 *)
        exfalso. cbn [app] in Hx.
        unfold F_C03_empty_star in H4. cbn [negb andb] in H4.
        pose proof (existsb_false _ _ _ H4 Hh) as E4. cbn beta in E4.
        rewrite (normalize_plain h tls (Hplain h Hh)) in E4. fold nh in E4.
        rewrite (host_part_plain h Ch) in E4.
        assert (Cnh : has_colon nh = false) by (rewrite <- Enh; exact Ck').
        rewrite (host_part_plain nh Cnh), Mhm in E4. cbn [andb] in E4.
        rewrite Hx, beq_refl in E4. discriminate.
      - rewrite Hx, app_length. cbn [length]. lia. }
    pose proof (longer_tail_first h nh nh [] Mhm Sh Mh Hbytes
                  (ex_intro _ [] eq_refl) Hlen) as Hlt.
    rewrite app_nil_r, <- Enh in Hlt. unfold rev_ge in Hge. congruence.
Qed.

(* ------------------------------------------------------------------ *)
(** * lookup_unbeaten_on_domain *)
Definition host_bytes_ok (host : str) (tls : bool) : Prop :=
  forall c, In c (normalize_host host tls) -> 42 < c.

Lemma keys_of_all_routes t k p id : In (k, p, id) (all_routes t) -> In k (keys t).
Proof.
  intros H. apply all_routes_in in H as [rs [Hin _]].
  unfold keys. apply in_map_iff. now exists (k, rs).
Qed.

Theorem lookup_unbeaten_on_domain t host tls uri m globoff c :
  table_ok t -> region t globoff tls m host uri = None -> host_bytes_ok host tls ->
  lookup t host tls uri m globoff = Some c ->
  forall c', In c' (candidates t globoff tls m host uri) -> beats globoff tls m c' c = false.
Proof.
  intros Hok Hreg Hbytes Hl c' Hc'.
  pose proof (table_ok_wf t Hok) as Hwf.
  destruct (region_none _ _ _ _ _ _ Hreg) as (_ & F6 & F2 & F4 & F3).
  destruct Hok as (Hplain & Hnd & Hsorted).
  assert (Hok : table_ok t) by (repeat split; assumption).
  unfold candidates in Hc'. apply filter_In in Hc' as [Hall' Hcand'].
  destruct c' as [[k' p'] id']. destruct c as [[k p] id].
  unfold lookup in Hl. fold (host_list t host tls globoff) in Hl.
  apply first_some_split in Hl as (l1 & h & l2 & EL & H1 & Hl1).
  pose proof H1 as H1'. apply lookup1_some in H1' as [Ek Hfind].
  (* the candidate's own key answers, so it is not among the hosts tried in vain *)
  pose proof Hall' as Hrs. apply all_routes_in in Hrs as [rs' [Hin' Hp']].
  rewrite <- (assoc_nodup t k' rs' Hnd Hin') in Hp'.
  pose proof (keys_of_all_routes _ _ _ _ Hall') as Hkey'.
  destruct (wf_keys_in t k' Hwf Hkey') as [Hlow' _].
  unfold is_candidate in Hcand'. apply andb_true_iff in Hcand' as [Hhost' Hpath'].
  rewrite (no_dev_path _ _ _ _ _ _ _ _ _ F6 Hall') in Hpath'.
  pose proof (lookup1_complete t k' uri m p' id' Hlow' Hp' Hpath') as Hans.
  assert (HinL : In k' (host_list t host tls globoff ++ [[]])).
  { apply in_or_app. apply orb_true_iff in Hhost' as [Hnil | Hh].
    - right. destruct k'; [now left | discriminate].
    - left. unfold host_list. unfold spec_host_match in Hh. destruct globoff.
      + apply (matching_host_noglob_in t host tls k' Hwf). split; [exact Hkey' | exact Hh].
      + apply (matching_hosts_in t host tls k' Hwf). split; [exact Hkey'|].
        now rewrite (no_dev_host _ _ _ _ _ _ _ F6 eq_refl Hkey'). }
  rewrite EL in HinL. apply in_app_or in HinL as [Hbad | HinL].
  { exfalso. apply Hans. now apply Hl1. }
  (* the host list, with the host-less entry appended, is sorted by reversed name *)
  assert (Hcolon : forall x, In x (host_list t host tls globoff) -> In x (keys t)).
  { intros x Hx. unfold host_list in Hx. destruct globoff.
    - now apply (matching_host_noglob_in t host tls x Hwf) in Hx as [Hx _].
    - now apply (matching_hosts_in t host tls x Hwf) in Hx as [Hx _]. }
  assert (HS : StronglySorted rev_ge (host_list t host tls globoff ++ [[]])).
  { apply sorted_snoc_nil. unfold host_list, matching_host_noglob, matching_hosts.
    rewrite Forall_forall in Hplain.
    destruct globoff; apply sort_hosts_sorted; intros x Hx.
    - apply in_map_iff in Hx as [x0 [<- Hx0]]. apply filter_In in Hx0 as [Hx0 _].
      destruct (Hplain x0 Hx0) as [-> Hc]. exact Hc.
    - apply filter_In in Hx as [Hx _]. now destruct (Hplain x Hx). }
  (* h is the empty key or a key of the table that matched *)
  assert (Hh : In h (host_list t host tls globoff ++ [[]])).
  { rewrite EL. apply in_or_app. right. now left. }
  assert (Hhl : lower h = h).
  { apply in_app_or in Hh as [Hh | [<- | []]]; [|reflexivity].
    now destruct (wf_keys_in t h Hwf (Hcolon h Hh)). }
  rewrite Hhl in Ek. subst k.
  unfold beats. apply orb_false_iff. split.
  - (* host order *)
    destruct HinL as [<- | Hafter]; [apply host_beats_irrefl|].
    rewrite EL in HS. pose proof (sorted_after rev_ge _ _ _ _ HS Hafter) as Hge.
    destruct k' as [|c0 k0]; [unfold host_class at 1; cbn [is_nil]; apply host_beats_none|].
    destruct h as [|ch h0]; [apply rev_ge_nil in Hge; discriminate|].
    apply in_app_or in Hh as [Hh | [E | []]]; [|discriminate].
    cbn [is_nil orb] in Hhost'. unfold spec_host_match in Hhost'.
    destruct globoff.
    + (* glob matching disabled: every host key is exact *)
      unfold host_class. cbn [is_nil orb]. reflexivity.
    + unfold host_list in Hh. apply (matching_hosts_in t host tls _ Hwf) in Hh as [Hhk Hhm].
      rewrite (no_dev_host _ _ _ _ _ _ _ F6 eq_refl Hhk) in Hhm.
      rewrite Forall_forall in Hplain.
      rewrite (normalize_plain _ tls (Hplain _ Hhk)) in Hhm.
      rewrite (normalize_plain _ tls (Hplain _ Hkey')) in Hhost'.
      now apply (later_never_beats_glob tls t host (ch :: h0) (c0 :: k0) Hok F4 F3 Hbytes Hhk Hkey').
  - (* same key: longest path *)
    destruct (beq k' h) eqn:Ekh; [|reflexivity]. apply beq_eq in Ekh. subst k'.
    destruct (is_prefix_matcher m) eqn:Epm; [|reflexivity]. cbn [andb].
    apply Nat.ltb_ge.
    apply (lookup1_longest t h uri m h p id Hsorted F2 Epm H1 p' id' Hp' Hpath').
Qed.

(* ------------------------------------------------------------------ *)
(** * The whole property on the domain *)
Lemma cand_eqb_refl c : cand_eqb c c = true.
Proof. destruct c as [[k p] i]. unfold cand_eqb. now rewrite !beq_refl, N.eqb_refl. Qed.

Theorem lookup_meets_spec_on_domain t host tls uri m globoff :
  table_ok t -> region t globoff tls m host uri = None -> host_bytes_ok host tls ->
  spec_b t globoff tls m host uri (lookup t host tls uri m globoff) = true.
Proof.
  intros Hok Hreg Hbytes.
  pose proof (table_ok_wf t Hok) as Hwf.
  destruct (region_none _ _ _ _ _ _ Hreg) as (_ & F6 & _ & _ & _).
  unfold spec_b. destruct (lookup t host tls uri m globoff) as [c|] eqn:El.
  - apply andb_true_iff. split.
    + apply existsb_exists. exists c. split; [|apply cand_eqb_refl].
      destruct (lookup_sound _ _ _ _ _ _ _ Hwf F6 El) as [Hin Hc].
      unfold candidates. apply filter_In. now split.
    + apply forallb_forall. intros c' Hc'. apply negb_true_iff.
      now apply (lookup_unbeaten_on_domain t host tls uri m globoff c Hok Hreg Hbytes El).
  - destruct (candidates t globoff tls m host uri) as [|c0 cs] eqn:Ec; [reflexivity|].
    exfalso. assert (Hc0 : In c0 (candidates t globoff tls m host uri)) by (rewrite Ec; now left).
    unfold candidates in Hc0. apply filter_In in Hc0 as [Hin Hc].
    destruct Hok as (_ & Hnd & _).
    now apply (lookup_complete t host tls uri m globoff c0 Hwf Hnd F6 Hin Hc).
Qed.

(* ---- the named clauses, as corollaries ---- *)

(* host-less routes are used only when no host-specific route matches *)
Corollary hostless_last t host tls uri m globoff p id :
  table_ok t -> region t globoff tls m host uri = None -> host_bytes_ok host tls ->
  lookup t host tls uri m globoff = Some ([], p, id) ->
  forall k' p' id', In (k', p', id') (candidates t globoff tls m host uri) -> k' = [].
Proof.
  intros Hok Hreg Hb Hl k' p' id' Hc.
  pose proof (lookup_unbeaten_on_domain _ _ _ _ _ _ _ Hok Hreg Hb Hl _ Hc) as H.
  unfold beats in H. apply orb_false_iff in H as [H _].
  destruct k' as [|c k']; [reflexivity|]. exfalso.
  unfold host_class in H. cbn [is_nil] in H.
  destruct (globoff || negb (has_meta (normalize_host (c :: k') tls))); discriminate.
Qed.

(* an exact host beats a wildcard host *)
Corollary exact_beats_wildcard t host tls uri m k p id :
  table_ok t -> region t false tls m host uri = None -> host_bytes_ok host tls ->
  lookup t host tls uri m false = Some (k, p, id) ->
  forall k' p' id', In (k', p', id') (candidates t false tls m host uri) ->
    k' <> [] -> has_meta k' = false -> k <> [] -> has_meta k = false.
Proof.
  intros Hok Hreg Hb Hl k' p' id' Hc Hk' Hm' Hk.
  pose proof (lookup_unbeaten_on_domain _ _ _ _ _ _ _ Hok Hreg Hb Hl _ Hc) as H.
  unfold beats in H. apply orb_false_iff in H as [H _].
  destruct Hok as (Hplain & _ & _). rewrite Forall_forall in Hplain.
  assert (Hkey' : In k' (keys t)).
  { unfold candidates in Hc. apply filter_In in Hc as [Hc _]. now apply keys_of_all_routes in Hc. }
  assert (Hkey : In k (keys t)).
  { destruct (region_none _ _ _ _ _ _ Hreg) as (_ & F6 & _).
    assert (Hwf : wf_keys t).
    { unfold wf_keys. apply Forall_forall. intros x Hx. destruct (Hplain x Hx) as [Hl' Hc'].
      split; [exact Hl' | now apply rhp_stable_nocolon]. }
    destruct (lookup_sound _ _ _ _ _ _ _ Hwf F6 Hl) as [Hin _]. now apply keys_of_all_routes in Hin. }
  unfold host_class in H.
  rewrite (normalize_plain k' tls (Hplain k' Hkey')), (normalize_plain k tls (Hplain k Hkey)) in H.
  destruct k' as [|c' k0']; [congruence|]. destruct k as [|c k0]; [congruence|].
  cbn [is_nil orb] in H. rewrite Hm' in H. cbn [negb] in H.
  destruct (has_meta (c :: k0)); [cbn [negb host_beats] in H; discriminate | reflexivity].
Qed.

(* a longer literal host suffix beats a shorter one *)
Corollary longer_suffix_first t host tls uri m k p id :
  table_ok t -> region t false tls m host uri = None -> host_bytes_ok host tls ->
  lookup t host tls uri m false = Some (k, p, id) ->
  forall k' p' id', In (k', p', id') (candidates t false tls m host uri) ->
    has_meta k' = true -> has_meta k = true ->
    (length (lit_tail k') <= length (lit_tail k))%nat.
Proof.
  intros Hok Hreg Hb Hl k' p' id' Hc Hm' Hm.
  pose proof (lookup_unbeaten_on_domain _ _ _ _ _ _ _ Hok Hreg Hb Hl _ Hc) as H.
  unfold beats in H. apply orb_false_iff in H as [H _].
  destruct Hok as (Hplain & Hnd & Hs). rewrite Forall_forall in Hplain.
  assert (Hkey' : In k' (keys t)).
  { unfold candidates in Hc. apply filter_In in Hc as [Hc _]. now apply keys_of_all_routes in Hc. }
  assert (Hkey : In k (keys t)).
  { destruct (region_none _ _ _ _ _ _ Hreg) as (_ & F6 & _).
    assert (Hwf : wf_keys t).
    { unfold wf_keys. apply Forall_forall. intros x Hx. destruct (Hplain x Hx) as [Hl' Hc'].
      split; [exact Hl' | now apply rhp_stable_nocolon]. }
    destruct (lookup_sound _ _ _ _ _ _ _ Hwf F6 Hl) as [Hin _]. now apply keys_of_all_routes in Hin. }
  unfold host_class in H.
  rewrite (normalize_plain k' tls (Hplain k' Hkey')), (normalize_plain k tls (Hplain k Hkey)) in H.
  destruct (Hplain k' Hkey') as [_ C']. destruct (Hplain k Hkey) as [_ C].
  rewrite (host_part_plain k' C'), (host_part_plain k C) in H.
  destruct k' as [|c' k0']; [discriminate|]. destruct k as [|c k0]; [discriminate|].
  cbn [is_nil orb] in H. rewrite Hm', Hm in H. cbn [negb host_beats] in H.
  now apply Nat.ltb_ge in H.
Qed.

(* [beats] is a strict partial order *)
Lemma host_beats_trans a b c : host_beats a b = true -> host_beats b c = true -> host_beats a c = true.
Proof.
  destruct a, b, c; cbn [host_beats]; try congruence; try reflexivity.
  intros H1 H2. apply Nat.ltb_lt in H1. apply Nat.ltb_lt in H2. apply Nat.ltb_lt. lia.
Qed.

Theorem beats_irrefl globoff tls m c : beats globoff tls m c c = false.
Proof.
  destruct c as [[k p] i]. unfold beats. rewrite host_beats_irrefl, Nat.ltb_irrefl.
  now rewrite andb_false_r.
Qed.

Theorem beats_trans globoff tls m a b c :
  beats globoff tls m a b = true -> beats globoff tls m b c = true -> beats globoff tls m a c = true.
Proof.
  destruct a as [[ka pa] ia]. destruct b as [[kb pb] ib]. destruct c as [[kc pc] ic].
  unfold beats. intros H1 H2.
  apply orb_true_iff in H1 as [H1 | H1]; apply orb_true_iff in H2 as [H2 | H2]; apply orb_true_iff.
  - left. eapply host_beats_trans; eassumption.
  - left. apply andb_true_iff in H2 as [H2 _]. apply andb_true_iff in H2 as [H2 _].
    apply beq_eq in H2. now subst kc.
  - left. apply andb_true_iff in H1 as [H1 _]. apply andb_true_iff in H1 as [H1 _].
    apply beq_eq in H1. now subst ka.
  - right. apply andb_true_iff in H1 as [H1 L1]. apply andb_true_iff in H1 as [E1 M1].
    apply andb_true_iff in H2 as [H2 L2]. apply andb_true_iff in H2 as [E2 M2].
    apply beq_eq in E1. apply beq_eq in E2. subst. rewrite beq_refl, M1. cbn [andb].
    apply Nat.ltb_lt in L1. apply Nat.ltb_lt in L2. apply Nat.ltb_lt. lia.
Qed.

(* ------------------------------------------------------------------ *)
(** * NewTable establishes [table_ok] for definitions whose hosts carry no port *)
Lemma add_route_keys_in t k p id x :
  In x (keys (add_route t k p id)) <-> x = k \/ In x (keys t).
Proof.
  unfold keys. induction t as [|[k' rs] t IH]; cbn [add_route map fst In].
  - intuition congruence.
  - destruct (beq k' k) eqn:E; cbn [map fst In].
    + apply beq_eq in E. subst. intuition congruence.
    + rewrite IH. intuition congruence.
Qed.

Lemma add_route_nodup t k p id : NoDup (keys t) -> NoDup (keys (add_route t k p id)).
Proof.
  induction t as [|[k' rs] t IH]; intros Hnd.
  - cbn. constructor; [intros [] | constructor].
  - cbn [add_route]. destruct (beq k' k) eqn:E.
    + exact Hnd.
    + unfold keys in *. cbn [map fst] in *. inversion Hnd as [|? ? Hnot Hnd']; subst.
      constructor; [|now apply IH].
      intros Hin. apply (add_route_keys_in t k p id k') in Hin as [-> | Hin].
      * rewrite beq_refl in E. discriminate.
      * contradiction.
Qed.

Lemma has_colon_lower h : has_colon (lower h) = has_colon h.
Proof.
  unfold has_colon, lower. induction h as [|c h IH]; cbn [map existsb]; [reflexivity|].
  rewrite IH. f_equal. unfold lower_byte, is_upper, ch_colon.
  destruct ((65 <=? c) && (c <=? 90)) eqn:E; [|reflexivity].
  apply andb_true_iff in E as [E1 E2]. apply N.leb_le in E1. apply N.leb_le in E2.
  destruct (c + 32 =? 58) eqn:A; destruct (c =? 58) eqn:B; try reflexivity.
  - apply N.eqb_eq in A. lia.
  - apply N.eqb_eq in B. lia.
Qed.

Definition tbl_inv (t : table) : Prop := NoDup (keys t) /\ Forall key_plain (keys t).

Lemma add_defs_inv defs : forall t,
  (forall d, In d defs -> has_colon (fst (fst d)) = false) -> tbl_inv t ->
  tbl_inv (fold_left (fun t d => let '(h, p, id) := d in add_route t (lower h) p id) defs t).
Proof.
  induction defs as [|[[h p] id] defs IH]; intros t Hd Ht; cbn [fold_left]; [exact Ht|].
  apply IH; [intros d Hin; apply Hd; now right|].
  destruct Ht as [Hnd Hpl]. split; [now apply add_route_nodup|].
  rewrite Forall_forall in Hpl |- *. intros x Hx.
  apply add_route_keys_in in Hx as [-> | Hx]; [|now apply Hpl].
  split; [apply lower_idem|]. rewrite has_colon_lower. apply (Hd (h, p, id)). now left.
Qed.

Lemma new_table_keys defs : keys (new_table defs) = keys (add_defs defs).
Proof. unfold new_table, keys. rewrite map_map. reflexivity. Qed.

Theorem new_table_ok defs :
  (forall d, In d defs -> has_colon (fst (fst d)) = false) -> table_ok (new_table defs).
Proof.
  intros Hd. unfold table_ok. rewrite new_table_keys.
  destruct (add_defs_inv defs [] Hd) as [Hnd Hpl]; [split; constructor|].
  split; [exact Hpl|]. split; [exact Hnd | apply new_table_sorted].
Qed.

(* non-vacuity of the domain: the example table of Proofs.Lookup *)
Local Open Scope string_scope.
Theorem on_domain_nonvacuous :
  let t := new_table ex_defs in
  table_ok t /\ region t false false MPrefix (bs "B.A.FOO.COM") (bs "/x/y") = None
  /\ host_bytes_ok (bs "B.A.FOO.COM") false.
Proof.
  destruct lookup_nonvacuous as (_ & Hnd & Hs & Hr & _).
  split; [|split; [exact Hr|]].
  - split; [|split; [exact Hnd | exact Hs]].
    vm_compute keys. repeat constructor.
  - unfold host_bytes_ok. vm_compute normalize_host. intros c Hc. cbn [In] in Hc.
    repeat (destruct Hc as [<- | Hc]; [reflexivity|]). destruct Hc.
Qed.
