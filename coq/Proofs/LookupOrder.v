(** The ordering clauses of C03 on the domain outside the finding regions:
    exact host beats wildcard, longer literal host suffix first, host-less last,
    longest path within a host; and their composition [lookup_meets_spec_on_domain]. *)
From Coq Require Import String List NArith Bool Lia PeanoNat Sorting.Sorted.
From Fabio Require Import Lib.Bytes Model.Glob Model.Lookup Proofs.LookupGlob Proofs.Lookup.
Import ListNotations.
Local Open Scope N_scope.

(* ------------------------------------------------------------------ *)
(** * Byte order of strings with a common prefix *)
Lemma str_ltb_app_common a x y : str_ltb (a ++ x) (a ++ y) = str_ltb x y.
Proof.
  unfold str_ltb. induction a as [|c a IH]; cbn [app str_cmp]; [reflexivity|].
  now rewrite N.compare_refl.
Qed.

Lemma str_ltb_head c d x y : c < d -> str_ltb (c :: x) (d :: y) = true.
Proof.
  intros H. unfold str_ltb. cbn [str_cmp].
  apply N.compare_lt_iff in H. now rewrite H.
Qed.

(* A wildcard key h that matches nh sorts, reversed, strictly before every string that
   begins with the reverse of a longer suffix T of nh, provided the metacharacter that
   precedes h's literal tail is below the byte of nh at that place. *)
Lemma longer_tail_first h nh T R :
  has_meta h = true -> glob_match h nh = true ->
  (exists x, nh = x ++ T) -> (length (lit_tail h) < length T)%nat ->
  (forall m d, is_meta m = true ->
     nth_error (rev h) (length (lit_tail h)) = Some m ->
     nth_error (rev nh) (length (lit_tail h)) = Some d -> m < d) ->
  str_ltb (rev h) (rev T ++ R) = true.
Proof.
  intros Hmeta Hmatch [x Hx] Hlen Hmd.
  destruct (tail_suffix h nh Hmatch) as [x0 Hx0].
  set (t := lit_tail h) in *.
  assert (HT : exists y, T = y ++ t /\ y <> []).
  { rewrite Hx0 in Hx. apply app_eq_app in Hx as [l [[_ E] | [_ E]]].
    - exists l. split; [exact E|]. intros ->. cbn in E. subst T. lia.
    - exfalso. rewrite E, app_length in Hlen. lia. }
  destruct HT as (y & -> & Hy).
  destruct (take_lits_split (rev h)) as (rest & E & _ & Hrest).
  assert (Et : take_lits (rev h) = rev t).
  { unfold t, lit_tail. now rewrite rev_involutive. }
  rewrite Et in E.
  destruct Hrest as [-> | (m & rest' & -> & Hm)].
  { exfalso. rewrite app_nil_r in E. unfold has_meta in Hmeta.
    rewrite <- (existsb_rev is_meta h), E, existsb_rev in Hmeta.
    fold (has_meta t) in Hmeta. unfold t in Hmeta. rewrite has_meta_lit_tail in Hmeta. discriminate. }
  destruct (rev y) as [|d ry] eqn:Ey.
  { exfalso. apply Hy. apply (f_equal (@rev N)) in Ey. now rewrite rev_involutive in Ey. }
  assert (Hlt : m < d).
  { apply Hmd; [exact Hm | |].
    - rewrite E. rewrite nth_error_app2 by (rewrite rev_length; lia).
      rewrite rev_length, Nat.sub_diag. reflexivity.
    - rewrite Hx, !rev_app_distr, <- app_assoc.
      rewrite nth_error_app2 by (rewrite rev_length; lia).
      rewrite rev_length, Nat.sub_diag, Ey. reflexivity. }
  rewrite E, rev_app_distr, <- app_assoc, str_ltb_app_common, Ey.
  cbn [app]. now apply str_ltb_head.
Qed.

(* ------------------------------------------------------------------ *)
(** * Shape of the host list: a list sorted by reversed name, descending, then the
      exact hosts moved to the front *)
Definition rev_ge (a b : str) : Prop := str_ltb (rev a) (rev b) = false.
Definition nonexact (h : str) : bool := negb (is_exact_host h).

Lemma sorted_map_rev S :
  StronglySorted (kge str_ltb) S -> StronglySorted rev_ge (map (@rev N) S).
Proof.
  induction 1 as [|a S Hs IH Hall]; cbn [map]; constructor; [exact IH|].
  apply Forall_forall. intros y Hy. apply in_map_iff in Hy as [z [<- Hz]].
  rewrite Forall_forall in Hall. unfold rev_ge. rewrite !rev_involutive. now apply Hall.
Qed.

Lemma sorted_weaken {A} (R R' : A -> A -> Prop) l :
  StronglySorted R l -> (forall a b, In a l -> In b l -> R a b -> R' a b) -> StronglySorted R' l.
Proof.
  induction 1 as [|a l Hs IH Hall]; intros Himp; constructor.
  - apply IH. intros x y Hx Hy. apply Himp; now right.
  - rewrite Forall_forall in Hall |- *. intros y Hy.
    apply Himp; [now left | now right | now apply Hall].
Qed.

(* for hosts without a colon the sort order is the byte order of the reversed names *)
Lemma host_ge_rev_ge a b :
  has_colon a = false -> has_colon b = false -> host_ltb a b = false -> rev_ge a b.
Proof.
  intros Ca Cb H. unfold host_ltb in H. rewrite (rhp_nocolon a Ca), (rhp_nocolon b Cb) in H.
  unfold rev_ge. destruct (beq (rev a) (rev b)) eqn:E; [|exact H].
  apply beq_eq in E. rewrite E. apply str_ltb_irrefl.
Qed.

Lemma sort_hosts_shape l :
  (forall k, In k l -> has_colon k = false) ->
  exists S, StronglySorted rev_ge S /\ sort_hosts_rhp l = partition_exact S.
Proof.
  intros Hc. destruct l as [|a [|b l]].
  - exists []. split; [constructor | reflexivity].
  - exists [a]. split; [constructor; constructor|].
    unfold partition_exact. cbn [filter sort_hosts_rhp]. destruct (is_exact_host a); reflexivity.
  - set (L := a :: b :: l) in *. exists (sort_desc host_ltb L). split; [|reflexivity].
    apply (sorted_weaken (kge host_ltb)).
    + apply sort_desc_sorted; [apply host_ltb_asym | apply host_ltb_ge_trans].
    + intros x y Hx Hy. apply sort_desc_in in Hx. apply sort_desc_in in Hy.
      apply host_ge_rev_ge; now apply Hc.
Qed.

Lemma sorted_snoc_nil l : StronglySorted rev_ge l -> StronglySorted rev_ge (l ++ [[]]).
Proof.
  induction 1 as [|a l Hs IH Hall]; cbn [app].
  - constructor; constructor.
  - constructor; [exact IH|]. apply Forall_app. split; [exact Hall|].
    constructor; [|constructor]. unfold rev_ge. cbn [rev]. unfold str_ltb.
    destruct (rev a); reflexivity.
Qed.

Lemma sorted_after {A} (R : A -> A -> Prop) l1 h l2 y :
  StronglySorted R (l1 ++ h :: l2) -> In y l2 -> R h y.
Proof.
  induction l1 as [|a l1 IH]; cbn [app]; intros Hs Hy.
  - inversion Hs as [|? ? _ Hall]; subst. rewrite Forall_forall in Hall. now apply Hall.
  - inversion Hs; subst. now apply IH.
Qed.

(* an element that is not in the front part sits in the back part, with the same successors *)
Lemma app_split_right {A} (E X : list A) l1 h l2 :
  E ++ X = l1 ++ h :: l2 -> ~ In h E -> exists l1', X = l1' ++ h :: l2.
Proof.
  revert l1. induction E as [|e E IH]; intros l1 H Hn.
  - now exists l1.
  - destruct l1 as [|a l1]; cbn [app] in H; injection H as He H.
    + exfalso. apply Hn. left. exact He.
    + apply (IH l1 H). intros Hin. apply Hn. now right.
Qed.

(* the element appended last has no successors *)
Lemma snoc_split_last {A} (l : list A) x l1 l2 :
  l ++ [x] = l1 ++ x :: l2 -> ~ In x l -> l2 = [].
Proof.
  intros H Hn. destruct (app_split_right l [x] l1 x l2 H Hn) as [l1' E].
  destruct l1' as [|a l1']; cbn [app] in E.
  - now injection E as <-.
  - injection E as _ E. destruct l1'; discriminate.
Qed.

(* ------------------------------------------------------------------ *)
(** * The domain *)
Definition key_plain (k : str) : Prop :=
  lower k = k /\ has_colon k = false /\ existsb is_unmodelled k = false.
Definition table_ok (t : table) : Prop :=
  Forall key_plain (keys t) /\ NoDup (keys t) /\ table_sorted t.

Lemma table_ok_wf t : table_ok t -> wf_keys t.
Proof.
  intros [H _]. unfold wf_keys. rewrite Forall_forall in H |- *. intros k Hk.
  now destruct (H k Hk) as (Hl & _).
Qed.

Lemma has_suffix_colon k r : has_colon k = false -> has_colon r = true -> has_suffix k r = false.
Proof.
  intros Hk Hr. destruct (has_suffix k r) eqn:E; [|reflexivity].
  apply has_suffix_spec in E as [x ->]. unfold has_colon in *.
  rewrite existsb_app, Hr, orb_true_r in Hk. discriminate.
Qed.

Lemma normalize_plain k tls : key_plain k -> normalize_host k tls = k.
Proof.
  intros (Hl & Hc & _). unfold normalize_host, strip_port.
  rewrite (has_suffix_colon k s_80 Hc eq_refl), (has_suffix_colon k s_443 Hc eq_refl).
  rewrite !andb_false_r. exact Hl.
Qed.

Lemma host_part_plain k : has_colon k = false -> host_part k = k.
Proof. intros H. unfold host_part. unfold has_colon in H. now rewrite (last_index_byte_none _ _ H). Qed.

(* for non-empty keys without class / alternation / escape syntax the code's notion of an
   exact host (non-empty, none of * ? [ { \) is the specification's (no metacharacter) *)
Lemma glob_char_plain k :
  existsb is_unmodelled k = false -> existsb is_glob_char k = existsb is_meta k.
Proof.
  induction k as [|c k IH]; [reflexivity|]. cbn [existsb]. intros Hu.
  apply orb_false_iff in Hu as [Hc Hu]. rewrite (IH Hu). f_equal.
  unfold is_glob_char, is_meta, ch_star, ch_qm. unfold is_unmodelled in Hc.
  apply orb_false_iff in Hc as [Hc H92]. apply orb_false_iff in Hc as [H91 H123].
  rewrite H91, H123, H92. now rewrite !orb_false_r.
Qed.

Lemma is_exact_plain k : key_plain k -> k <> [] -> is_exact_host k = negb (has_meta k).
Proof.
  intros (_ & _ & Hu) Hk. destruct k as [|c k]; [congruence|].
  unfold is_exact_host, has_meta. now rewrite (glob_char_plain _ Hu).
Qed.

Lemma rev_ge_nil k : rev_ge [] k -> k = [].
Proof.
  unfold rev_ge, str_ltb. cbn [rev]. destruct (rev k) as [|c r] eqn:E; [|discriminate].
  intros _. apply (f_equal (@rev N)) in E. now rewrite rev_involutive in E.
Qed.

Lemma region_none t globoff tls m host uri :
  region t globoff tls m host uri = None ->
  F_C03_gobwas_overlap globoff tls m t host uri = false /\
  F_C03_metachar_order globoff tls t host = false.
Proof.
  unfold region.
  destruct (F_C03_gobwas_overlap globoff tls m t host uri); [discriminate|].
  destruct (F_C03_metachar_order globoff tls t host); [discriminate|].
  intros _. repeat split.
Qed.

(* ------------------------------------------------------------------ *)
(** * Where the selected key and the candidates' keys sit in the host list *)
Lemma host_beats_irrefl a : host_beats a a = false.
Proof. destruct a; cbn [host_beats]; try reflexivity. apply Nat.ltb_irrefl. Qed.

Lemma host_beats_none a : host_beats HNone a = false.
Proof. destruct a; reflexivity. Qed.

Lemma host_beats_exact_r a : host_beats a HExact = false.
Proof. destruct a; reflexivity. Qed.

Lemma keys_of_all_routes t k p id : In (k, p, id) (all_routes t) -> In k (keys t).
Proof.
  intros H. apply all_routes_in in H as [rs [Hin _]].
  unfold keys. apply in_map_iff. now exists (k, rs).
Qed.

Lemma host_list_keys t host tls globoff x :
  wf_keys t -> In x (host_list t host tls globoff) -> In x (keys t).
Proof.
  intros Hwf Hx. unfold host_list in Hx. destruct globoff.
  - now apply (matching_host_noglob_in t host tls x Hwf) in Hx as [Hx _].
  - now apply (matching_hosts_in t host tls x Hwf) in Hx as [Hx _].
Qed.

(* the selected key is an element of (host list ++ [""]) none of whose predecessors has a
   matching route; every candidate's key is that element or one of its successors *)
Lemma lookup_position t host tls uri m globoff k p id :
  table_ok t ->
  lookup t host tls uri m globoff = Some (k, p, id) ->
  exists l1 l2,
    host_list t host tls globoff ++ [[]] = l1 ++ k :: l2 /\
    lookup1 t k uri m = Some (k, p, id) /\
    forall k' p' id', In (k', p', id') (candidates t globoff tls m host uri) ->
      (k' = k \/ In k' l2) /\ In k' (keys t) /\
      In (p', id') (assoc t k') /\ path_match m uri p' = true /\
      (k' = [] \/ spec_host_match globoff tls k' host = true).
Proof.
  intros Hok Hl. pose proof (table_ok_wf t Hok) as Hwf.
  destruct Hok as (Hplain & Hnd & Hsorted).
  unfold lookup in Hl. fold (host_list t host tls globoff) in Hl.
  apply first_some_split in Hl as (l1 & h & l2 & EL & H1 & Hl1).
  pose proof H1 as H1'. apply lookup1_some in H1' as [Ek _].
  assert (Hh : In h (host_list t host tls globoff ++ [[]])).
  { rewrite EL. apply in_or_app. right. now left. }
  assert (Hhl : lower h = h).
  { apply in_app_or in Hh as [Hh | [<- | []]]; [|reflexivity].
    exact (wf_keys_in t h Hwf (host_list_keys t host tls globoff h Hwf Hh)). }
  rewrite Hhl in Ek. subst k.
  exists l1, l2. split; [exact EL|]. split; [exact H1|].
  intros k' p' id' Hc'. unfold candidates in Hc'. apply filter_In in Hc' as [Hall' Hcand'].
  pose proof Hall' as Hrs. apply all_routes_in in Hrs as [rs' [Hin' Hp']].
  rewrite <- (assoc_nodup t k' rs' Hnd Hin') in Hp'.
  pose proof (keys_of_all_routes _ _ _ _ Hall') as Hkey'.
  pose proof (wf_keys_in t k' Hwf Hkey') as Hlow'.
  unfold is_candidate in Hcand'. apply andb_true_iff in Hcand' as [Hhost' Hpath'].
  apply spec_path_implies in Hpath'.
  pose proof (lookup1_complete t k' uri m p' id' Hlow' Hp' Hpath') as Hans.
  assert (Hk'nil : k' = [] \/ spec_host_match globoff tls k' host = true).
  { apply orb_true_iff in Hhost' as [Hnil | Hh']; [left | now right].
    destruct k'; [reflexivity | discriminate]. }
  assert (HinL : In k' (host_list t host tls globoff ++ [[]])).
  { apply in_or_app. destruct Hk'nil as [-> | Hh']; [right; now left | left].
    unfold host_list. unfold spec_host_match in Hh'. destruct globoff.
    - apply (matching_host_noglob_in t host tls k' Hwf). split; [exact Hkey' | exact Hh'].
    - apply (matching_hosts_in t host tls k' Hwf). split; [exact Hkey'|].
      now apply glob_implies_gobwas. }
  rewrite EL in HinL. apply in_app_or in HinL as [Hbad | HinL].
  { exfalso. apply Hans. now apply Hl1. }
  repeat split; try assumption. destruct HinL as [<- | HinL]; [now left | now right].
Qed.

(* the host list is [exact hosts of S] ++ [patterns of S] for a list S sorted by reversed name *)
Lemma host_list_shape t host tls globoff :
  table_ok t ->
  exists S, StronglySorted rev_ge S /\ host_list t host tls globoff = partition_exact S.
Proof.
  intros (Hplain & _ & _). rewrite Forall_forall in Hplain.
  unfold host_list, matching_host_noglob, matching_hosts.
  destruct globoff; apply sort_hosts_shape; intros x Hx.
  - apply in_map_iff in Hx as [x0 [<- Hx0]]. apply filter_In in Hx0 as [Hx0 _].
    destruct (Hplain x0 Hx0) as (-> & Hc & _). exact Hc.
  - apply filter_In in Hx as [Hx _]. now destruct (Hplain x Hx) as (_ & Hc & _).
Qed.

(* ------------------------------------------------------------------ *)
(** * An exact host beats every pattern (since /repo bc98e3c: no side condition) *)
Theorem exact_beats_wildcard t host tls uri m k p id :
  table_ok t ->
  lookup t host tls uri m false = Some (k, p, id) ->
  forall k' p' id', In (k', p', id') (candidates t false tls m host uri) ->
    k' <> [] -> has_meta k' = false -> k <> [] /\ has_meta k = false.
Proof.
  intros Hok Hl k' p' id' Hc Hk' Hm'.
  pose proof (table_ok_wf t Hok) as Hwf.
  destruct (lookup_position _ _ _ _ _ _ _ _ _ Hok Hl) as (l1 & l2 & EL & _ & Hpos).
  destruct (Hpos _ _ _ Hc) as (Hwhere & Hkey' & _).
  destruct Hwhere as [<- | Hafter]; [now split|].
  pose proof Hok as Hok'. destruct Hok' as (Hplain & _ & _). rewrite Forall_forall in Hplain.
  destruct (is_exact_host k) eqn:Ex.
  - (* the selected key is an exact host *)
    destruct k as [|c k0]; [discriminate|]. split; [discriminate|].
    assert (Hk : In (c :: k0) (host_list t host tls false)).
    { assert (H : In (c :: k0) (host_list t host tls false ++ [[]])).
      { rewrite EL. apply in_or_app. right. now left. }
      apply in_app_or in H as [H | [H | []]]; [exact H | discriminate]. }
    rewrite (is_exact_plain _ (Hplain _ (host_list_keys t host tls false _ Hwf Hk))) in Ex
      by discriminate.
    now apply negb_true_iff in Ex.
  - (* it is not: then everything after it is a pattern or the empty key *)
    exfalso. destruct (host_list_shape t host tls false Hok) as (S & _ & Eshape).
    rewrite Eshape in EL. unfold partition_exact in EL. rewrite <- app_assoc in EL.
    assert (HnE : ~ In k (filter is_exact_host S)).
    { intros H. apply filter_In in H as [_ H]. congruence. }
    destruct (app_split_right _ _ _ _ _ EL HnE) as [l1' E2].
    assert (Hk'W : In k' (filter (fun h => negb (is_exact_host h)) S ++ [[]])).
    { rewrite E2. apply in_or_app. right. now right. }
    apply in_app_or in Hk'W as [Hk'W | [E | []]]; [|congruence].
    apply filter_In in Hk'W as [_ Hk'W].
    rewrite (is_exact_plain _ (Hplain _ Hkey') Hk'), Hm' in Hk'W. discriminate.
Qed.

(* ------------------------------------------------------------------ *)
(** * Among patterns the longer literal host suffix comes first *)
Lemma nth_error_skipn {A} n : forall (l : list A) x,
  nth_error l n = Some x -> exists r, skipn n l = x :: r.
Proof.
  induction n as [|n IH]; intros [|a l] x H; cbn in H; try discriminate.
  - injection H as ->. now exists l.
  - cbn [skipn]. now apply IH.
Qed.

Lemma wild_order tls t host h k' :
  table_ok t -> F_C03_metachar_order false tls t host = false ->
  In h (keys t) -> In k' (keys t) ->
  glob_match h (normalize_host host tls) = true ->
  glob_match k' (normalize_host host tls) = true ->
  has_meta h = true -> has_meta k' = true -> rev_ge h k' ->
  host_beats (host_class false tls k') (host_class false tls h) = false.
Proof.
  intros Hok F3 Hh Hk' Mh Mk' Mhm Mk'm Hge.
  destruct Hok as (Hplain & _ & _). rewrite Forall_forall in Hplain.
  pose proof (Hplain h Hh) as Ph. pose proof (Hplain k' Hk') as Pk'.
  unfold host_class. rewrite (normalize_plain h tls Ph), (normalize_plain k' tls Pk').
  destruct Ph as (_ & Ch & _). destruct Pk' as (_ & Ck' & _).
  rewrite (host_part_plain h Ch), (host_part_plain k' Ck'). cbn [orb].
  set (nh := normalize_host host tls) in *.
  destruct k' as [|c' k0']; [discriminate|]. destruct h as [|ch h0]; [discriminate|].
  cbn [is_nil]. rewrite Mhm, Mk'm. cbn [negb host_beats].
  set (k' := c' :: k0') in *. set (h := ch :: h0) in *.
  apply Nat.ltb_ge. destruct (Nat.leb (length (lit_tail k')) (length (lit_tail h))) eqn:E;
    [now apply Nat.leb_le in E|].
  apply Nat.leb_gt in E. exfalso.
  destruct (take_lits_split (rev k')) as (rest & Ek & _ & _).
  assert (Et : take_lits (rev k') = rev (lit_tail k')).
  { unfold lit_tail. now rewrite rev_involutive. }
  rewrite Et in Ek.
  (* outside region 3 the pair (h, k') is not a low pair *)
  assert (L : low_pair tls nh h k' = false).
  { unfold F_C03_metachar_order in F3. cbn [negb andb] in F3.
    pose proof (existsb_false _ _ _ F3 Hh) as E3. cbn beta in E3. fold nh in E3.
    exact (existsb_false _ _ _ E3 Hk'). }
  unfold low_pair in L.
  rewrite (normalize_plain h tls (Hplain h Hh)), (normalize_plain k' tls (Hplain k' Hk')) in L.
  rewrite (host_part_plain h Ch), (host_part_plain k' Ck'), Mhm, Mk'm, Mh, Mk' in L.
  apply Nat.ltb_lt in E. rewrite E in L. cbn [andb] in L. apply Nat.ltb_lt in E.
  assert (Hmd : forall m d, is_meta m = true ->
            nth_error (rev h) (length (lit_tail h)) = Some m ->
            nth_error (rev nh) (length (lit_tail h)) = Some d -> m < d).
  { intros m d _ Hnm Hnd. unfold meta_before_tail in L. rewrite Hnm in L.
    apply orb_false_iff in L as [L _]. unfold byte_before in L.
    assert (Hs : has_suffix nh (lit_tail h) = true).
    { apply has_suffix_spec. destruct (tail_suffix h nh Mh) as [x Hx]. now exists x. }
    rewrite Hs, Hnd in L. now apply N.leb_gt in L. }
  pose proof (longer_tail_first h nh (lit_tail k') rest Mhm Mh (tail_suffix k' nh Mk') E Hmd) as Hlt.
  rewrite <- Ek in Hlt. unfold rev_ge in Hge. congruence.
Qed.

(* ------------------------------------------------------------------ *)
(** * lookup_unbeaten_on_domain *)
Theorem lookup_unbeaten_on_domain t host tls uri m globoff c :
  table_ok t -> region t globoff tls m host uri = None ->
  lookup t host tls uri m globoff = Some c ->
  forall c', In c' (candidates t globoff tls m host uri) -> beats globoff tls m c' c = false.
Proof.
  intros Hok Hreg Hl c' Hc'.
  pose proof (table_ok_wf t Hok) as Hwf.
  destruct (region_none _ _ _ _ _ _ Hreg) as (F6 & F3).
  destruct c' as [[k' p'] id']. destruct c as [[h p] id].
  pose proof Hl as Hsel.
  destruct (lookup_position _ _ _ _ _ _ _ _ _ Hok Hl) as (l1 & l2 & EL & H1 & Hpos).
  destruct (Hpos _ _ _ Hc') as (Hwhere & Hkey' & Hp' & Hpath' & Hhost').
  unfold beats. apply orb_false_iff. split.
  - (* host order *)
    destruct Hwhere as [<- | Hafter]; [apply host_beats_irrefl|].
    destruct k' as [|c0 k0]; [unfold host_class at 1; cbn [is_nil]; apply host_beats_none|].
    destruct Hhost' as [E | Hhost']; [discriminate|].
    pose proof Hok as Hok'. destruct Hok' as (Hplain & _ & _). rewrite Forall_forall in Hplain.
    destruct (host_list_shape t host tls globoff Hok) as (S & HS & Eshape).
    (* if h is not an exact host, what follows it is sorted by reversed name *)
    assert (Hrest : is_exact_host h = false ->
                    rev_ge h (c0 :: k0) /\ is_exact_host (c0 :: k0) = false).
    { intros Ex. rewrite Eshape in EL. unfold partition_exact in EL. rewrite <- app_assoc in EL.
      assert (HnE : ~ In h (filter is_exact_host S)).
      { intros H. apply filter_In in H as [_ H]. congruence. }
      destruct (app_split_right _ _ _ _ _ EL HnE) as [l1' E2].
      assert (HSW : StronglySorted rev_ge (filter (fun x => negb (is_exact_host x)) S ++ [[]])).
      { apply sorted_snoc_nil. now apply sorted_filter. }
      rewrite E2 in HSW. split; [exact (sorted_after rev_ge _ _ _ _ HSW Hafter)|].
      assert (Hk'W : In (c0 :: k0) (filter (fun x => negb (is_exact_host x)) S ++ [[]])).
      { rewrite E2. apply in_or_app. right. now right. }
      apply in_app_or in Hk'W as [Hk'W | [E | []]]; [|discriminate].
      apply filter_In in Hk'W as [_ Hk'W]. now apply negb_true_iff in Hk'W. }
    destruct h as [|ch h0].
    { (* the empty key: nothing non-empty follows it *)
      destruct (Hrest eq_refl) as [Hge _]. apply rev_ge_nil in Hge. discriminate. }
    destruct globoff.
    { unfold host_class. cbn [is_nil orb]. reflexivity. }
    assert (Hh : In (ch :: h0) (host_list t host tls false)).
    { assert (H : In (ch :: h0) (host_list t host tls false ++ [[]])).
      { rewrite EL. apply in_or_app. right. now left. }
      apply in_app_or in H as [H | [H | []]]; [exact H | discriminate]. }
    pose proof (host_list_keys t host tls false _ Hwf Hh) as Hhk.
    destruct (has_meta (ch :: h0)) eqn:Mh.
    2:{ unfold host_class at 2. rewrite (normalize_plain _ tls (Hplain _ Hhk)), Mh.
        cbn [is_nil orb negb]. apply host_beats_exact_r. }
    assert (Ex : is_exact_host (ch :: h0) = false).
    { rewrite (is_exact_plain _ (Hplain _ Hhk)) by discriminate. now rewrite Mh. }
    destruct (Hrest Ex) as [Hge Hk'W].
    rewrite (is_exact_plain _ (Hplain _ Hkey')) in Hk'W by discriminate.
    apply negb_false_iff in Hk'W.
    unfold host_list in Hh. apply (matching_hosts_in t host tls _ Hwf) in Hh as [_ Hhm].
    destruct (no_dev_selected _ _ _ _ _ _ _ _ _ F6 Hsel) as [Dh _].
    rewrite (Dh eq_refl) in Hhm by discriminate.
    rewrite (normalize_plain _ tls (Hplain _ Hhk)) in Hhm.
    unfold spec_host_match in Hhost'. rewrite (normalize_plain _ tls (Hplain _ Hkey')) in Hhost'.
    exact (wild_order tls t host _ _ Hok F3 Hhk Hkey' Hhm Hhost' Mh Hk'W Hge).
  - (* same key: longest path *)
    destruct (beq k' h) eqn:Ekh; [|reflexivity]. apply beq_eq in Ekh. subst k'.
    destruct (is_prefix_matcher m) eqn:Epm; [|reflexivity]. cbn [andb].
    apply Nat.ltb_ge. destruct Hok as (_ & _ & Hsorted).
    apply (lookup1_longest t h uri m h p id Hsorted Epm H1 p' id' Hp' Hpath').
Qed.

(* ------------------------------------------------------------------ *)
(** * The whole property on the domain *)
Lemma cand_eqb_refl c : cand_eqb c c = true.
Proof. destruct c as [[k p] i]. unfold cand_eqb. now rewrite !beq_refl, N.eqb_refl. Qed.

Theorem lookup_meets_spec_on_domain t host tls uri m globoff :
  table_ok t -> region t globoff tls m host uri = None ->
  spec_b t globoff tls m host uri (lookup t host tls uri m globoff) = true.
Proof.
  intros Hok Hreg.
  pose proof (table_ok_wf t Hok) as Hwf.
  destruct (region_none _ _ _ _ _ _ Hreg) as (F6 & _).
  unfold spec_b. destruct (lookup t host tls uri m globoff) as [c|] eqn:El.
  - apply andb_true_iff. split.
    + apply existsb_exists. exists c. split; [|apply cand_eqb_refl].
      destruct (lookup_sound _ _ _ _ _ _ _ Hwf F6 El) as [Hin Hc].
      unfold candidates. apply filter_In. now split.
    + apply forallb_forall. intros c' Hc'. apply negb_true_iff.
      now apply (lookup_unbeaten_on_domain t host tls uri m globoff c Hok Hreg El).
  - destruct (candidates t globoff tls m host uri) as [|c0 cs] eqn:Ec; [reflexivity|].
    exfalso. assert (Hc0 : In c0 (candidates t globoff tls m host uri)) by (rewrite Ec; now left).
    unfold candidates in Hc0. apply filter_In in Hc0 as [Hin Hc].
    destruct Hok as (_ & Hnd & _).
    now apply (lookup_complete t host tls uri m globoff c0 Hwf Hnd Hin Hc).
Qed.

(* ---- the named clauses, as corollaries ---- *)

(* host-less routes are used only when no host-specific route matches *)
Corollary hostless_last t host tls uri m globoff p id :
  table_ok t -> region t globoff tls m host uri = None ->
  lookup t host tls uri m globoff = Some ([], p, id) ->
  forall k' p' id', In (k', p', id') (candidates t globoff tls m host uri) -> k' = [].
Proof.
  intros Hok Hreg Hl k' p' id' Hc.
  pose proof (lookup_unbeaten_on_domain _ _ _ _ _ _ _ Hok Hreg Hl _ Hc) as H.
  unfold beats in H. apply orb_false_iff in H as [H _].
  destruct k' as [|c k']; [reflexivity|]. exfalso.
  unfold host_class in H. cbn [is_nil] in H.
  destruct (globoff || negb (has_meta (normalize_host (c :: k') tls))); discriminate.
Qed.

(* a longer literal host suffix beats a shorter one *)
Corollary longer_suffix_first t host tls uri m k p id :
  table_ok t -> region t false tls m host uri = None ->
  lookup t host tls uri m false = Some (k, p, id) ->
  forall k' p' id', In (k', p', id') (candidates t false tls m host uri) ->
    has_meta k' = true -> has_meta k = true ->
    (length (lit_tail k') <= length (lit_tail k))%nat.
Proof.
  intros Hok Hreg Hl k' p' id' Hc Hm' Hm.
  pose proof (lookup_unbeaten_on_domain _ _ _ _ _ _ _ Hok Hreg Hl _ Hc) as H.
  unfold beats in H. apply orb_false_iff in H as [H _].
  pose proof (table_ok_wf t Hok) as Hwf.
  destruct Hok as (Hplain & Hnd & Hs). rewrite Forall_forall in Hplain.
  assert (Hkey' : In k' (keys t)).
  { unfold candidates in Hc. apply filter_In in Hc as [Hc _]. now apply keys_of_all_routes in Hc. }
  assert (Hkey : In k (keys t)).
  { destruct (region_none _ _ _ _ _ _ Hreg) as (F6 & _).
    destruct (lookup_sound _ _ _ _ _ _ _ Hwf F6 Hl) as [Hin _]. now apply keys_of_all_routes in Hin. }
  unfold host_class in H.
  rewrite (normalize_plain k' tls (Hplain k' Hkey')), (normalize_plain k tls (Hplain k Hkey)) in H.
  destruct (Hplain k' Hkey') as (_ & C' & _). destruct (Hplain k Hkey) as (_ & C & _).
  rewrite (host_part_plain k' C'), (host_part_plain k C) in H.
  destruct k' as [|c' k0']; [discriminate|]. destruct k as [|c k0]; [discriminate|].
  cbn [is_nil orb] in H. rewrite Hm', Hm in H. cbn [negb host_beats] in H.
  now apply Nat.ltb_ge in H.
Qed.

(* [beats] is a strict partial order *)
Lemma host_beats_trans a b c : host_beats a b = true -> host_beats b c = true -> host_beats a c = true.
Proof.
  destruct a, b, c; cbn [host_beats]; try congruence; try reflexivity.
  intros H1 H2. apply Nat.ltb_lt in H1. apply Nat.ltb_lt in H2. apply Nat.ltb_lt. lia.
Qed.

Theorem beats_irrefl globoff tls m c : beats globoff tls m c c = false.
Proof.
  destruct c as [[k p] i]. unfold beats. rewrite host_beats_irrefl, Nat.ltb_irrefl.
  now rewrite andb_false_r.
Qed.

Theorem beats_trans globoff tls m a b c :
  beats globoff tls m a b = true -> beats globoff tls m b c = true -> beats globoff tls m a c = true.
Proof.
  destruct a as [[ka pa] ia]. destruct b as [[kb pb] ib]. destruct c as [[kc pc] ic].
  unfold beats. intros H1 H2.
  apply orb_true_iff in H1 as [H1 | H1]; apply orb_true_iff in H2 as [H2 | H2]; apply orb_true_iff.
  - left. eapply host_beats_trans; eassumption.
  - left. apply andb_true_iff in H2 as [H2 _]. apply andb_true_iff in H2 as [H2 _].
    apply beq_eq in H2. now subst kc.
  - left. apply andb_true_iff in H1 as [H1 _]. apply andb_true_iff in H1 as [H1 _].
    apply beq_eq in H1. now subst ka.
  - right. apply andb_true_iff in H1 as [H1 L1]. apply andb_true_iff in H1 as [E1 M1].
    apply andb_true_iff in H2 as [H2 L2]. apply andb_true_iff in H2 as [E2 M2].
    apply beq_eq in E1. apply beq_eq in E2. subst. rewrite beq_refl, M1. cbn [andb].
    apply Nat.ltb_lt in L1. apply Nat.ltb_lt in L2. apply Nat.ltb_lt. lia.
Qed.

(* ------------------------------------------------------------------ *)
(** * NewTable establishes [table_ok] for definitions whose hosts carry no port *)
Lemma add_route_keys_in t k p id x :
  In x (keys (add_route t k p id)) <-> x = k \/ In x (keys t).
Proof.
  unfold keys. induction t as [|[k' rs] t IH]; cbn [add_route map fst In].
  - intuition congruence.
  - destruct (beq k' k) eqn:E; cbn [map fst In].
    + apply beq_eq in E. subst. intuition congruence.
    + rewrite IH. intuition congruence.
Qed.

Lemma add_route_nodup t k p id : NoDup (keys t) -> NoDup (keys (add_route t k p id)).
Proof.
  induction t as [|[k' rs] t IH]; intros Hnd.
  - cbn. constructor; [intros [] | constructor].
  - cbn [add_route]. destruct (beq k' k) eqn:E.
    + exact Hnd.
    + unfold keys in *. cbn [map fst] in *. inversion Hnd as [|? ? Hnot Hnd']; subst.
      constructor; [|now apply IH].
      intros Hin. apply (add_route_keys_in t k p id k') in Hin as [-> | Hin].
      * rewrite beq_refl in E. discriminate.
      * contradiction.
Qed.

Lemma has_colon_lower h : has_colon (lower h) = has_colon h.
Proof.
  unfold has_colon, lower. induction h as [|c h IH]; cbn [map existsb]; [reflexivity|].
  rewrite IH. f_equal. unfold lower_byte, is_upper, ch_colon.
  destruct ((65 <=? c) && (c <=? 90)) eqn:E; [|reflexivity].
  apply andb_true_iff in E as [E1 E2]. apply N.leb_le in E1. apply N.leb_le in E2.
  destruct (c + 32 =? 58) eqn:A; destruct (c =? 58) eqn:B; try reflexivity.
  - apply N.eqb_eq in A. lia.
  - apply N.eqb_eq in B. lia.
Qed.

Lemma unmodelled_lower h : existsb is_unmodelled (lower h) = existsb is_unmodelled h.
Proof.
  unfold lower. induction h as [|c h IH]; cbn [map existsb]; [reflexivity|].
  rewrite IH. f_equal. unfold lower_byte, is_upper, is_unmodelled.
  destruct ((65 <=? c) && (c <=? 90)) eqn:E; [|reflexivity].
  apply andb_true_iff in E as [E1 E2]. apply N.leb_le in E1. apply N.leb_le in E2.
  assert (A1 : (c + 32 =? 91) = false) by (apply N.eqb_neq; lia).
  assert (A2 : (c + 32 =? 123) = false) by (apply N.eqb_neq; lia).
  assert (A3 : (c + 32 =? 92) = false) by (apply N.eqb_neq; lia).
  assert (B1 : (c =? 91) = false) by (apply N.eqb_neq; lia).
  assert (B2 : (c =? 123) = false) by (apply N.eqb_neq; lia).
  assert (B3 : (c =? 92) = false) by (apply N.eqb_neq; lia).
  now rewrite A1, A2, A3, B1, B2, B3.
Qed.

Definition tbl_inv (t : table) : Prop := NoDup (keys t) /\ Forall key_plain (keys t).

Lemma add_defs_inv defs : forall t,
  (forall d, In d defs -> has_colon (fst (fst d)) = false /\ existsb is_unmodelled (fst (fst d)) = false) -> tbl_inv t ->
  tbl_inv (fold_left (fun t d => let '(h, p, id) := d in add_route t (lower h) p id) defs t).
Proof.
  induction defs as [|[[h p] id] defs IH]; intros t Hd Ht; cbn [fold_left]; [exact Ht|].
  apply IH; [intros d Hin; apply Hd; now right|].
  destruct Ht as [Hnd Hpl]. split; [now apply add_route_nodup|].
  rewrite Forall_forall in Hpl |- *. intros x Hx.
  apply add_route_keys_in in Hx as [-> | Hx]; [|now apply Hpl].
  destruct (Hd (h, p, id) (or_introl eq_refl)) as [Hc Hu]. cbn [fst] in Hc, Hu.
  split; [apply lower_idem|]. split; [now rewrite has_colon_lower | now rewrite unmodelled_lower].
Qed.

Lemma new_table_keys defs : keys (new_table defs) = keys (add_defs defs).
Proof. unfold new_table, keys. rewrite map_map. reflexivity. Qed.

Theorem new_table_ok defs :
  (forall d, In d defs -> has_colon (fst (fst d)) = false /\ existsb is_unmodelled (fst (fst d)) = false) ->
  table_ok (new_table defs).
Proof.
  intros Hd. unfold table_ok. rewrite new_table_keys.
  destruct (add_defs_inv defs [] Hd) as [Hnd Hpl]; [split; constructor|].
  split; [exact Hpl|]. split; [exact Hnd | apply new_table_sorted].
Qed.

(* non-vacuity of the domain: the example table of Proofs.Lookup *)
Local Open Scope string_scope.
Theorem on_domain_nonvacuous :
  let t := new_table ex_defs in
  let h := bs "B.A.FOO.COM" in
  table_ok t
  /\ region t false false MPrefix h (bs "/x/y") = None
  (* glob matching disabled, iprefix, glob matcher, TLS with the default port *)
  /\ region t true false MPrefix (bs "*.A.foo.com") (bs "/x/y") = None
  /\ lookup t (bs "*.A.foo.com") false (bs "/x/y") MPrefix true = Some (bs "*.a.foo.com", bs "/x", 4)
  /\ region t false false MIPrefix h (bs "/X/y") = None
  /\ lookup t h false (bs "/X/y") MIPrefix false = Some (bs "*.a.foo.com", bs "/x", 4)
  /\ region t false true MGlob (bs "b.a.foo.com:443") (bs "/x") = None
  /\ lookup t (bs "b.a.foo.com:443") true (bs "/x") MGlob false = Some (bs "*.a.foo.com", bs "/x", 4).
Proof.
  destruct lookup_nonvacuous as (_ & Hnd & Hs & Hr & _).
  split; [|vm_compute; repeat split; reflexivity].
  split; [|split; [exact Hnd | exact Hs]].
  vm_compute keys. repeat constructor.
Qed.

(* ------------------------------------------------------------------ *)
(** * NewTable establishes the hypotheses of sound / complete for ALL definitions (ports,
      any syntax): keys lower-case and pairwise distinct *)
Definition tbl_inv0 (t : table) : Prop := NoDup (keys t) /\ Forall (fun k => lower k = k) (keys t).

Lemma add_defs_inv0 defs : forall t, tbl_inv0 t ->
  tbl_inv0 (fold_left (fun t d => let '(h, p, id) := d in add_route t (lower h) p id) defs t).
Proof.
  induction defs as [|[[h p] id] defs IH]; intros t Ht; cbn [fold_left]; [exact Ht|].
  apply IH. destruct Ht as [Hnd Hl]. split; [now apply add_route_nodup|].
  rewrite Forall_forall in Hl |- *. intros x Hx.
  apply add_route_keys_in in Hx as [-> | Hx]; [apply lower_idem | now apply Hl].
Qed.

Theorem new_table_wf defs : wf_keys (new_table defs) /\ NoDup (keys (new_table defs)).
Proof.
  unfold wf_keys. rewrite new_table_keys.
  destruct (add_defs_inv0 defs []) as [Hnd Hl]; [split; constructor|]. now split.
Qed.
