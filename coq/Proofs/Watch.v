(** Proofs about Model/Watch.v, for every table type and every table builder: after any
    history of config deliveries the active table is the table of the most recent
    combined text that the builder accepted (so: the table of the final service and
    manual texts when that is valid; unchanged by an invalid candidate); every table
    installed at or after a service delivery is built from that service text or a later
    one. *)
From Coq Require Import String List NArith Bool Lia.
From Fabio Require Import Lib.Outcome Lib.Bytes Model.Consul Model.Watch Model.ConsulSpec Proofs.Consul.
Import ListNotations.
Local Open Scope N_scope.

Lemma next_text_nonempty s m : next_text s m <> [].
Proof. unfold next_text. destruct s; discriminate. Qed.

Lemma last_svc_app h e d : last_svc (h ++ [e]) d = match e with Svc t => t | Man _ => last_svc h d end.
Proof.
  revert d. induction h as [|[t|t] h IH]; intros d; cbn [app last_svc];
    [destruct e; reflexivity | apply IH | apply IH].
Qed.
Lemma last_man_app h e d : last_man (h ++ [e]) d = match e with Man t => t | Svc _ => last_man h d end.
Proof.
  revert d. induction h as [|[t|t] h IH]; intros d; cbn [app last_man];
    [destruct e; reflexivity | apply IH | apply IH].
Qed.

Definition is_man (e : event) : bool := match e with Man _ => true | Svc _ => false end.

Section WatchProofs.
  Variable table : Type.
  Variable build : str -> option table.
  Notation wstate := (wstate table).
  Notation step := (step table build).
  Notation step_inst := (step_inst table build).
  Notation run := (run table build).
  Notation installs := (installs table build).
  Notation receive := (receive table).

  (* lastTable is the text the active table was built from, or nothing was installed yet *)
  Definition inv (w : wstate) : Prop :=
    (w_last w = [] /\ w_first w = false) \/ (build (w_last w) = Some (w_active w) /\ w_first w = true).

  Lemma inv_init t0 : inv (w_init table t0).
  Proof. left. split; reflexivity. Qed.

  (* the candidate text of the iteration that receives [e] in state [w] *)
  Definition cur_text (w : wstate) (e : event) : str :=
    next_text (match e with Svc t => t | Man _ => w_svc w end) (match e with Man t => t | Svc _ => w_man w end).

  (* one iteration, declaratively: the candidate replaces the active table iff the builder
     accepts it; lastTable plays no visible role *)
  Lemma step_spec w e : inv w ->
    inv (step w e) /\
    w_svc (step w e) = match e with Svc t => t | Man _ => w_svc w end /\
    w_man (step w e) = match e with Man t => t | Svc _ => w_man w end /\
    w_active (step w e) = match build (cur_text w e) with Some t => t | None => w_active w end /\
    w_first (step w e) = match build (cur_text w e) with Some _ => true | None => w_first w end.
  Proof.
    intros Hinv. unfold step, step_inst, cur_text.
    destruct e as [t|t]; cbn [receive w_svc w_man w_last w_active w_first].
    - set (next := next_text t (w_man w)).
      destruct (beq next (w_last w)) eqn:Eb; cbn [fst w_svc w_man w_last w_active w_first].
      + apply beq_eq in Eb. destruct Hinv as [[H0 Hf]|[Hb Hf]].
        * exfalso. apply (next_text_nonempty t (w_man w)). fold next. congruence.
        * rewrite Eb, Hb. repeat split; try reflexivity; [right; now split | exact Hf].
      + destruct (build next) as [tb|] eqn:Eq; cbn [fst w_svc w_man w_last w_active w_first].
        * repeat split; try reflexivity. right. now split.
        * repeat split; try reflexivity. exact Hinv.
    - set (next := next_text (w_svc w) t).
      destruct (beq next (w_last w)) eqn:Eb; cbn [fst w_svc w_man w_last w_active w_first].
      + apply beq_eq in Eb. destruct Hinv as [[H0 Hf]|[Hb Hf]].
        * exfalso. apply (next_text_nonempty (w_svc w) t). fold next. congruence.
        * rewrite Eb, Hb. repeat split; try reflexivity; [right; now split | exact Hf].
      + destruct (build next) as [tb|] eqn:Eq; cbn [fst w_svc w_man w_last w_active w_first].
        * repeat split; try reflexivity. right. now split.
        * repeat split; try reflexivity. exact Hinv.
  Qed.

  Lemma run_app w h e : run w (h ++ [e]) = step (run w h) e.
  Proof. unfold run, Watch.run. now rewrite fold_left_app. Qed.

  Lemma run_inv h : forall w, inv w -> inv (run w h).
  Proof.
    induction h as [|e h IH]; intros w Hw; [exact Hw|].
    cbn [run Watch.run fold_left]. apply IH. now apply step_spec.
  Qed.

  Lemma run_init_inv t0 h : inv (run (w_init table t0) h).
  Proof. apply run_inv. apply inv_init. Qed.

  Lemma run_svc_man h : forall w, inv w ->
    w_svc (run w h) = last_svc h (w_svc w) /\ w_man (run w h) = last_man h (w_man w).
  Proof.
    induction h as [|e h IH]; intros w Hw; [now split|].
    cbn [run Watch.run fold_left]. destruct (step_spec w e Hw) as [Hi [Hs [Hm _]]].
    destruct (IH _ Hi) as [H1 H2]. fold (run (step w e) h). rewrite H1, H2, Hs, Hm.
    destruct e; now split.
  Qed.

  (* watch_quiescent: whatever happened before, once the last service text and the last
     manual text are (s, m) and their combination is accepted, the active table is its table *)
  Theorem watch_quiescent w h e T : inv w ->
    build (next_text (last_svc (h ++ [e]) (w_svc w)) (last_man (h ++ [e]) (w_man w))) = Some T ->
    w_active (run w (h ++ [e])) = T /\ w_first (run w (h ++ [e])) = true.
  Proof.
    intros Hw Hb. rewrite run_app.
    pose proof (run_inv h w Hw) as Hi. destruct (step_spec (run w h) e Hi) as [_ [_ [_ [Ha Hf]]]].
    destruct (run_svc_man h w Hw) as [Hs Hm].
    rewrite last_svc_app, last_man_app in Hb.
    unfold cur_text in Ha, Hf. rewrite Hs, Hm in Ha, Hf.
    destruct e; rewrite Hb in Ha, Hf; now split.
  Qed.

  (* watch_keeps_last_good: a rejected candidate changes nothing the proxies can see, and
     the next accepted candidate is applied *)
  Theorem watch_keeps_last_good w e : inv w -> build (cur_text w e) = None ->
    w_active (step w e) = w_active w /\ w_last (step w e) = w_last w /\ w_first (step w e) = w_first w /\
    forall e2 T, build (cur_text (step w e) e2) = Some T -> w_active (step (step w e) e2) = T.
  Proof.
    intros Hw Hb. destruct (step_spec w e Hw) as [Hi [_ [_ [Ha Hf]]]]. rewrite Hb in Ha, Hf.
    split; [exact Ha|]. split; [|split; [exact Hf|]].
    - unfold step, step_inst. unfold cur_text in Hb.
      destruct e as [t|t]; cbn [receive w_svc w_man w_last] in *.
      + destruct (beq (next_text t (w_man w)) (w_last w)); [reflexivity|]. now rewrite Hb.
      + destruct (beq (next_text (w_svc w) t) (w_last w)); [reflexivity|]. now rewrite Hb.
    - intros e2 T Hb2. destruct (step_spec (step w e) e2 Hi) as [_ [_ [_ [Ha2 _]]]]. now rewrite Hb2 in Ha2.
  Qed.

  (* the complete characterisation: after every history the active table is the table of
     the most recent accepted combined text, the start table if there was none *)
  Theorem run_expected t0 h :
    w_active (run (w_init table t0) h) = expected_active table build t0 h /\
    w_first (run (w_init table t0) h) = expected_first_rev table build (rev h).
  Proof.
    unfold expected_active. induction h as [|e h IH] using rev_ind; [now split|].
    rewrite run_app, rev_app_distr. cbn [rev app]. cbn [expected_active_rev expected_first_rev].
    cbn [rev]. rewrite !rev_involutive.
    pose proof (run_inv h _ (inv_init t0)) as Hi.
    destruct (step_spec _ e Hi) as [_ [_ [_ [Ha Hf]]]].
    destruct (run_svc_man h _ (inv_init t0)) as [Hs Hm]. cbn [w_init w_svc w_man] in Hs, Hm.
    rewrite last_svc_app, last_man_app. unfold cur_text in Ha, Hf. rewrite Hs, Hm in Ha, Hf.
    destruct IH as [IHa IHf]. rewrite Ha, Hf, IHa, IHf. split; reflexivity.
  Qed.

  (* every installed text was accepted by the builder and is the combination of the then
     current service and manual texts *)
  Lemma installs_manual_only h : forall w,
    forallb is_man h = true ->
    forall t, In t (installs w h) -> exists m, t = next_text (w_svc w) m /\ build t <> None.
  Proof.
    induction h as [|e h IH]; intros w Hman t; cbn [installs Watch.installs]; [intros []|].
    cbn [forallb] in Hman. apply andb_true_iff in Hman as [He Hh].
    destruct e as [x|x]; [discriminate|].
    unfold step_inst, Watch.step_inst. cbn [receive w_svc w_man w_last w_active w_first].
    destruct (beq (next_text (w_svc w) x) (w_last w)).
    - intros Hin. apply (IH _ Hh) in Hin. exact Hin.
    - destruct (build (next_text (w_svc w) x)) as [tb|] eqn:Eb.
      + intros [<-|Hin]; [exists x; split; [reflexivity | congruence]|].
        apply (IH _ Hh) in Hin. exact Hin.
      + intros Hin. apply (IH _ Hh) in Hin. exact Hin.
  Qed.

  (* from the delivery of the service text [s] on, as long as no newer service text
     arrives, every installed table is built from [s] (and some manual text) *)
  Theorem installs_after_svc w s h :
    forallb is_man h = true ->
    forall t, In t (installs w (Svc s :: h)) -> exists m, t = next_text s m /\ build t <> None.
  Proof.
    intros Hman t. cbn [installs Watch.installs].
    unfold step_inst, Watch.step_inst. cbn [receive w_svc w_man w_last w_active w_first].
    destruct (beq (next_text s (w_man w)) (w_last w)).
    - intros Hin. apply (installs_manual_only h _ Hman) in Hin. exact Hin.
    - destruct (build (next_text s (w_man w))) as [tb|] eqn:Eb.
      + intros [<-|Hin]; [exists (w_man w); split; [reflexivity | congruence]|].
        apply (installs_manual_only h _ Hman) in Hin. exact Hin.
      + intros Hin. apply (installs_manual_only h _ Hman) in Hin. exact Hin.
  Qed.

  Lemma installs_app w h1 h2 : installs w (h1 ++ h2) = installs w h1 ++ installs (run w h1) h2.
  Proof.
    revert w. induction h1 as [|e h1 IH]; intros w; [reflexivity|].
    cbn [app installs Watch.installs run Watch.run fold_left].
    unfold step, Watch.step. destruct (step_inst w e) as [w' [i|]]; cbn [fst app]; now rewrite IH.
  Qed.
End WatchProofs.

(* unhealthy_absent, over the generated commands: let the watcher push the config of the
   registry state (checks, catalog) after an arbitrary history [h1]; as long as no newer
   service config arrives, every table installed from then on is built from a text whose
   service part consists of exactly the lines [ls], and every such line is a command of a
   catalog entry whose instance is registered and healthy in that state. *)
Theorem unhealthy_absent (table : Type) (build : str -> option table)
        prefix status strict checks catalog ls (w : wstate table) h1 h2 t :
  config_lines prefix catalog (watch_passing prefix status strict checks) = Ok ls ->
  forallb is_man h2 = true ->
  In t (installs table build w (h1 ++ Svc (join (sort_desc ls) [10]) :: h2)) ->
  In t (installs table build w h1) \/
  (exists m, t = next_text (join (sort_desc ls) [10]) m /\ build t <> None) /\
  forall x, In x (sort_desc ls) ->
    exists e, In e catalog /\ In x (e_cmds e) /\
              registered (checks_with_tag_prefix prefix checks) (e_node e) (e_sid e) /\
              healthy (checks_with_tag_prefix prefix checks) status strict (e_node e) (e_sid e).
Proof.
  intros Hcfg Hman Hin. rewrite installs_app in Hin. apply in_app_or in Hin as [Hin|Hin]; [now left|].
  right. split; [exact (installs_after_svc table build _ _ _ Hman t Hin)|].
  intros x Hx. exact (svc_lines_from_healthy _ _ _ _ _ _ _ Hcfg Hx).
Qed.

(* ---- the last delivered service config is the final registry state's ---- *)
Fixpoint svc_texts (h : list event) : list str :=
  match h with
  | [] => []
  | Svc t :: r => t :: svc_texts r
  | Man _ :: r => svc_texts r
  end.
Lemma last_cons_default {A} (l : list A) t d : last (t :: l) d = last l t.
Proof. revert t. induction l as [|x l IH]; intros t; [reflexivity|]. cbn [last] in *. destruct l; [reflexivity | apply IH]. Qed.
Lemma last_svc_texts h : forall d, last_svc h d = last (svc_texts h) d.
Proof.
  induction h as [|[t|t] h IH]; intros d; cbn [last_svc svc_texts]; [reflexivity | | apply IH].
  rewrite IH. symmetry. apply last_cons_default.
Qed.
Definition delivers (prefix : str) (status : list str) (strict : bool) (o : observation) : bool :=
  is_ok (observe_config prefix status strict o).

Lemma watch_deliveries_app prefix status strict a b :
  watch_deliveries prefix status strict (a ++ b) =
  watch_deliveries prefix status strict a ++ watch_deliveries prefix status strict b.
Proof. unfold watch_deliveries. apply flat_map_app. Qed.

(* a failed round (health query or a catalog lookup fails) delivers nothing: the histories of
   deliveries with and without it are the same, so the table is not touched by it *)
Theorem failed_round_delivers_nothing prefix status strict a o b :
  delivers prefix status strict o = false ->
  watch_deliveries prefix status strict (a ++ o :: b) = watch_deliveries prefix status strict (a ++ b).
Proof.
  intros H. rewrite !watch_deliveries_app. f_equal. unfold watch_deliveries at 1. cbn [flat_map].
  unfold delivers in H. destruct (observe_config prefix status strict o); [discriminate | reflexivity | reflexivity].
Qed.

Lemma watch_deliveries_all_failed prefix status strict fails :
  forallb (fun o => negb (delivers prefix status strict o)) fails = true ->
  watch_deliveries prefix status strict fails = [].
Proof.
  induction fails as [|o fails IH]; [reflexivity|]. cbn [forallb]. intros H. apply andb_true_iff in H as [Ho Hf].
  unfold watch_deliveries. cbn [flat_map]. fold (watch_deliveries prefix status strict fails). rewrite (IH Hf).
  unfold delivers in Ho. destruct (observe_config prefix status strict o); [discriminate | reflexivity | reflexivity].
Qed.

(* the service texts of a delivery history being the watcher's deliveries for the observed
   rounds (in order, Model/Consul.v [watch_deliveries]), the last service text is the config of
   the last round that succeeded - failed rounds after it change nothing *)
Theorem last_delivery_is_final_state prefix status strict obs final fails tf h d :
  svc_texts h = watch_deliveries prefix status strict (obs ++ final :: fails) ->
  observe_config prefix status strict final = Ok tf ->
  forallb (fun o => negb (delivers prefix status strict o)) fails = true ->
  last_svc h d = tf.
Proof.
  intros H Hf Hfails. rewrite last_svc_texts, H.
  change (final :: fails) with ([final] ++ fails). rewrite !watch_deliveries_app.
  rewrite (watch_deliveries_all_failed _ _ _ fails Hfails), app_nil_r.
  unfold watch_deliveries at 2. cbn [flat_map]. rewrite Hf. cbn [app]. apply last_last.
Qed.

(* quiescence in terms of the registry: once the registry's view stops changing at the state
   observed in round [final] (later rounds, if any, fail), the active table is the table of
   final's config plus the last manual text *)
Theorem watch_quiescent_final_state (table : Type) (build : str -> option table)
        prefix status strict obs final fails tf (w : wstate table) h e T :
  inv table build w ->
  svc_texts (h ++ [e]) = watch_deliveries prefix status strict (obs ++ final :: fails) ->
  observe_config prefix status strict final = Ok tf ->
  forallb (fun o => negb (delivers prefix status strict o)) fails = true ->
  build (next_text tf (last_man (h ++ [e]) (w_man w))) = Some T ->
  w_active (run table build w (h ++ [e])) = T /\ w_first (run table build w (h ++ [e])) = true.
Proof.
  intros Hw Hd Hf Hfails Hb. apply watch_quiescent; [exact Hw|].
  now rewrite (last_delivery_is_final_state _ _ _ _ _ _ _ _ (w_svc w) Hd Hf Hfails).
Qed.

(* ---- the manual side: the last delivered manual text is the final KV state's ---- *)
Fixpoint man_texts (h : list event) : list str :=
  match h with
  | [] => []
  | Man t :: r => t :: man_texts r
  | Svc _ :: r => man_texts r
  end.
Lemma last_man_texts h : forall d, last_man h d = last (man_texts h) d.
Proof.
  induction h as [|[t|t] h IH]; intros d; cbn [last_man man_texts]; [reflexivity | apply IH |].
  rewrite IH. symmetry. apply last_cons_default.
Qed.
Definition kv_failed (o : kv_observation) : bool := match o with KvErr => true | KvState _ => false end.
Lemma kv_deliveries_all_failed fails : forallb kv_failed fails = true -> kv_deliveries fails = [].
Proof.
  induction fails as [|[|p] fails IH]; cbn [forallb kv_failed andb]; [reflexivity | exact IH | discriminate].
Qed.
Theorem last_manual_is_final_kv obs pairs fails h d :
  man_texts h = kv_deliveries (obs ++ KvState pairs :: fails) ->
  forallb kv_failed fails = true ->
  last_man h d = kv_text pairs.
Proof.
  intros H Hf. rewrite last_man_texts, H. unfold kv_deliveries. rewrite flat_map_app. cbn [flat_map].
  fold (kv_deliveries fails). rewrite (kv_deliveries_all_failed fails Hf). cbn [app]. apply last_last.
Qed.

(* quiescence in terms of the registry AND the KV store: once the health/catalog view stops
   changing at the state observed in round [final] and the KV path at [pairs] (later rounds of
   either watcher, if any, fail), the active table is the table of final's config followed by the
   operator's text for [pairs] *)
Theorem watch_quiescent_registry (table : Type) (build : str -> option table)
        prefix status strict obs final fails tf kobs pairs kfails (w : wstate table) h e T :
  inv table build w ->
  svc_texts (h ++ [e]) = watch_deliveries prefix status strict (obs ++ final :: fails) ->
  observe_config prefix status strict final = Ok tf ->
  forallb (fun o => negb (delivers prefix status strict o)) fails = true ->
  man_texts (h ++ [e]) = kv_deliveries (kobs ++ KvState pairs :: kfails) ->
  forallb kv_failed kfails = true ->
  build (next_text tf (kv_text pairs)) = Some T ->
  w_active (run table build w (h ++ [e])) = T /\ w_first (run table build w (h ++ [e])) = true.
Proof.
  intros Hw Hd Hf Hfails Hk Hkf Hb. apply watch_quiescent; [exact Hw|].
  rewrite (last_delivery_is_final_state _ _ _ _ _ _ _ _ (w_svc w) Hd Hf Hfails).
  now rewrite (last_manual_is_final_kv _ _ _ _ (w_man w) Hk Hkf).
Qed.

(* non-vacuity: a concrete builder and a history with an invalid candidate in the middle *)
Example watch_nonvacuous :
  let build := fun t : str => if has_prefix t (bs "bad") then None else Some t in
  let h := [Svc (bs "a"); Man (bs "m"); Svc (bs "bad"); Man (bs "m2"); Svc (bs "b")] in
  map (w_active) (trace str build (w_init str []) h)
  = [bs "a" ++ [10]; bs "a" ++ 10 :: bs "m"; bs "a" ++ 10 :: bs "m"; bs "a" ++ 10 :: bs "m"; bs "b" ++ 10 :: bs "m2"]
  /\ installs str build (w_init str []) h = [bs "a" ++ [10]; bs "a" ++ 10 :: bs "m"; bs "b" ++ 10 :: bs "m2"].
Proof. vm_compute. split; reflexivity. Qed.
