(** C06 - proofs about route/glob_cache.go as modelled in Model/GlobCacheC06.v. *)
From Coq Require Import String List NArith Bool Arith Lia Permutation.
From Fabio Require Import Lib.Outcome Lib.Bytes Model.Interleave Model.GlobCacheC06.
Import ListNotations.

Lemma gc_get_hit : forall s pat ok v, m_load (c_m s) pat = Some v -> gc_get s pat ok = (s, Some (Ok v)).
Proof. intros [l h n m] pat ok v H. cbn in H. unfold gc_get. cbn. rewrite H. cbn. reflexivity. Qed.

Lemma gc_get_bad : forall s pat, m_load (c_m s) pat = None -> gc_get s pat false = (s, Some (Err 1%N)).
Proof. intros [l h n m] pat H. cbn in H. unfold gc_get. cbn. rewrite H. cbn. reflexivity. Qed.

Lemma gc_get_append : forall s pat, m_load (c_m s) pat = None -> Nat.ltb (c_n s) (length (c_l s)) = true ->
  gc_get s pat true = ({| c_l := upd (c_l s) (c_n s) pat; c_h := c_h s; c_n := S (c_n s); c_m := m_store (c_m s) pat pat |}, Some (Ok pat)).
Proof.
  intros [l h n m] pat H L. cbn [c_l c_h c_n c_m] in *. unfold gc_get. cbn -[Nat.ltb]. rewrite H. cbn -[Nat.ltb]. rewrite L. cbn -[Nat.ltb]. rewrite L. cbn. reflexivity.
Qed.

Lemma gc_get_evict : forall s pat old n', m_load (c_m s) pat = None -> Nat.ltb (c_n s) (length (c_l s)) = false ->
  nth_error (c_l s) (c_h s) = Some old -> c_n s = S n' ->
  gc_get s pat true = ({| c_l := upd (c_l s) (c_h s) pat; c_h := Nat.modulo (S (c_h s)) (S n'); c_n := c_n s;
                          c_m := m_store (m_delete (c_m s) old) pat pat |}, Some (Ok pat)).
Proof.
  intros [l h n m] pat old n' H L O N. cbn [c_l c_h c_n c_m] in *. subst n. unfold gc_get. cbn -[Nat.modulo Nat.ltb].
  rewrite H. cbn -[Nat.modulo Nat.ltb]. rewrite L. cbn -[Nat.modulo Nat.ltb]. rewrite O. cbn -[Nat.modulo Nat.ltb].
  assert (Hh : Nat.ltb h (length l) = true).
  { apply Nat.ltb_lt. apply nth_error_Some. rewrite O. discriminate. }
  rewrite Hh. cbn -[Nat.modulo Nat.ltb]. reflexivity.
Qed.

Lemma gc_get_dead : forall s pat, m_load (c_m s) pat = None -> Nat.ltb (c_n s) (length (c_l s)) = false ->
  nth_error (c_l s) (c_h s) = None -> gc_get s pat true = (s, Some Panic).
Proof.
  intros [l h n m] pat H L O. cbn [c_l c_h c_n c_m] in *. unfold gc_get. cbn -[Nat.ltb]. rewrite H. cbn -[Nat.ltb]. rewrite L. cbn -[Nat.ltb]. rewrite O. cbn. reflexivity.
Qed.

(* ---- the map ---- *)
Lemma m_load_none : forall m k, m_load m k = None <-> ~ In k (m_keys m).
Proof.
  induction m as [|[k' v'] m IH]; intros k; cbn; [tauto|].
  destruct (beq k' k) eqn:E.
  - apply beq_eq in E. subst. split; [discriminate|]. intros H. exfalso. apply H. now left.
  - apply beq_neq in E. rewrite IH. split; intros H; [intros [A|A]; [congruence|tauto] | tauto].
Qed.
Lemma m_load_some : forall m k v, m_load m k = Some v -> In (k, v) m.
Proof.
  induction m as [|[k' v'] m IH]; intros k v; cbn; [discriminate|].
  destruct (beq k' k) eqn:E.
  - apply beq_eq in E. subst. intros H. inversion H. now left.
  - intros H. right. now apply IH.
Qed.
Lemma m_store_fresh : forall m k v, m_load m k = None -> m_store m k v = m ++ [(k, v)].
Proof.
  induction m as [|[k' v'] m IH]; intros k v; cbn; [reflexivity|].
  destruct (beq k' k); [discriminate|]. intros H. now rewrite IH.
Qed.
Lemma m_delete_in : forall m old k v, In (k, v) (m_delete m old) -> In (k, v) m.
Proof.
  induction m as [|[k' v'] m IH]; intros old k v; cbn; [tauto|].
  destruct (beq k' old); [tauto|]. intros [H|H]; [now left | right; eauto].
Qed.
Lemma m_delete_keys : forall m old k, In k (m_keys (m_delete m old)) -> In k (m_keys m).
Proof.
  induction m as [|[k' v'] m IH]; intros old k; cbn; [tauto|].
  destruct (beq k' old); cbn; [tauto|]. intros [H|H]; [now left | right; eauto].
Qed.
Lemma m_delete_nodup : forall m old, NoDup (m_keys m) -> NoDup (m_keys (m_delete m old)).
Proof.
  induction m as [|[k' v'] m IH]; intros old H; cbn; [constructor|].
  inversion H; subst. destruct (beq k' old); [assumption|]. cbn. constructor; [|now apply IH].
  intros A. apply m_delete_keys in A. contradiction.
Qed.
Lemma m_delete_gone : forall m old, NoDup (m_keys m) -> ~ In old (m_keys (m_delete m old)).
Proof.
  induction m as [|[k' v'] m IH]; intros old H; cbn; [tauto|].
  inversion H; subst. destruct (beq k' old) eqn:E.
  - apply beq_eq in E. now subst.
  - apply beq_neq in E. cbn. intros [A|A]; [congruence | now apply (IH old)].
Qed.

(* ---- the ring ---- *)
Lemma upd_length : forall {A} (l : list A) i v, length (upd l i v) = length l.
Proof. induction l; intros [|i] v; cbn; auto. Qed.
Lemma upd_nth_same : forall {A} (l : list A) i v, i < length l -> nth_error (upd l i v) i = Some v.
Proof. induction l; intros [|i] v H; cbn in *; try lia; auto. apply IHl. lia. Qed.
Lemma upd_nth_other : forall {A} (l : list A) i j v, i <> j -> nth_error (upd l i v) j = nth_error l j.
Proof. induction l; intros [|i] [|j] v H; cbn; auto; try congruence. Qed.
Lemma in_firstn_nth : forall {A} (l : list A) n x, In x (firstn n l) <-> exists j, j < n /\ nth_error l j = Some x.
Proof.
  induction l as [|a l IH]; intros n x.
  - rewrite firstn_nil. split; [intros []|]. intros [j [_ H]]. destruct j; discriminate.
  - destruct n; cbn.
    + split; [intros []|]. intros [j [H _]]. lia.
    + rewrite IH. split.
      * intros [H|[j [H1 H2]]]; [exists 0; subst; split; [lia|reflexivity] | exists (S j); split; [lia|assumption]].
      * intros [[|j] [H1 H2]]; cbn in H2; [left; congruence | right; exists j; split; [lia|assumption]].
Qed.

Lemma nodup_snoc : forall {A} (l : list A) x, ~ In x l -> NoDup l -> NoDup (l ++ [x]).
Proof.
  induction l as [|a l IH]; intros x H N; cbn.
  - constructor; [intros []|constructor].
  - inversion N; subst. constructor.
    + intros B. apply in_app_or in B. destruct B as [B|[B|[]]]; [contradiction|]. subst. apply H. now left.
    + apply IH; [|assumption]. intros B. apply H. now right.
Qed.

Definition gc_inv (size : nat) (s : gshared) : Prop :=
  length (c_l s) = size /\ c_n s <= size /\ c_h s < size /\ NoDup (m_keys (c_m s))
  /\ incl (m_keys (c_m s)) (firstn (c_n s) (c_l s)) /\ (forall k v, In (k, v) (c_m s) -> v = k).

Lemma gc_new_inv : forall size, 0 < size -> gc_inv size (gc_new size).
Proof.
  intros size H. unfold gc_inv, gc_new. cbn. rewrite repeat_length.
  split; [reflexivity|]. split; [lia|]. split; [lia|]. split; [constructor|]. split; [intros x []|intros k v []].
Qed.

Lemma gc_get_inv : forall size s pat ok, gc_inv size s ->
  let '(s', o) := gc_get s pat ok in
  gc_inv size s' /\ o = Some (if ok then Ok pat else
                                match m_load (c_m s) pat with Some _ => Ok pat | None => Err 1%N end).
Proof.
  intros size s pat ok (HL & HN & HH & HD & HI & HV).
  destruct (m_load (c_m s) pat) as [v|] eqn:EL.
  - rewrite (gc_get_hit s pat ok v EL). apply m_load_some in EL. apply HV in EL. subst v.
    split; [repeat split; assumption | destruct ok; reflexivity].
  - destruct ok; [|rewrite (gc_get_bad s pat EL); split; [repeat split; assumption | reflexivity]].
    destruct (Nat.ltb (c_n s) (length (c_l s))) eqn:EN.
    + rewrite (gc_get_append s pat EL EN). apply Nat.ltb_lt in EN. split; [|reflexivity].
      unfold gc_inv. cbn [c_l c_h c_n c_m]. rewrite upd_length, (m_store_fresh _ _ _ EL).
      unfold m_keys. rewrite map_app. cbn [map fst]. fold (m_keys (c_m s)).
      repeat split; try lia; try assumption.
      * apply nodup_snoc; [now apply m_load_none|assumption].
      * intros k Hk. apply in_app_or in Hk. apply in_firstn_nth. destruct Hk as [Hk|[Hk|[]]].
        -- apply HI in Hk. apply in_firstn_nth in Hk. destruct Hk as [j [J1 J2]].
           exists j. split; [lia|]. rewrite upd_nth_other; [assumption|lia].
        -- subst k. exists (c_n s). split; [lia|]. now apply upd_nth_same.
      * intros k v Hk. apply in_app_or in Hk. destruct Hk as [Hk|[Hk|[]]]; [now apply HV | now inversion Hk].
    + apply Nat.ltb_ge in EN.
      assert (Hn : c_n s = size) by lia.
      destruct (nth_error (c_l s) (c_h s)) as [old|] eqn:EO; [|apply nth_error_None in EO; lia].
      destruct (c_n s) as [|n'] eqn:En; [lia|].
      rewrite (gc_get_evict s pat old n' EL); [|apply Nat.ltb_ge; lia|assumption|assumption].
      split; [|reflexivity].
      assert (EL' : m_load (m_delete (c_m s) old) pat = None).
      { apply m_load_none. intros A. apply m_delete_keys in A. now apply m_load_none in EL. }
      unfold gc_inv. cbn [c_l c_h c_n c_m]. rewrite upd_length, (m_store_fresh _ _ _ EL').
      unfold m_keys. rewrite map_app. cbn [map fst]. fold (m_keys (m_delete (c_m s) old)).
      repeat split; try lia.
      * rewrite Hn. apply Nat.mod_upper_bound. lia.
      * apply nodup_snoc; [now apply m_load_none | now apply m_delete_nodup].
      * intros k Hk. apply in_app_or in Hk. apply in_firstn_nth. destruct Hk as [Hk|[Hk|[]]].
        -- assert (Hne : k <> old) by (intros ->; now apply (m_delete_gone (c_m s) old HD)).
           apply m_delete_keys in Hk. apply HI in Hk. apply in_firstn_nth in Hk. destruct Hk as [j [J1 J2]].
           exists j. split; [lia|]. rewrite upd_nth_other; [assumption|]. intros E. rewrite <- E in J2. congruence.
        -- subst k. exists (c_h s). split; [lia|]. apply upd_nth_same. lia.
      * intros k v Hk. apply in_app_or in Hk. destruct Hk as [Hk|[Hk|[]]]; [apply m_delete_in in Hk; now apply HV | now inversion Hk].
Qed.

Definition call_ok (call : str * bool) (o : option (outcome str)) : Prop :=
  o = Some (Ok (fst call)) \/ (snd call = false /\ o = Some (Err 1%N)).

Lemma gc_history_inv : forall size calls s, gc_inv size s ->
  let '(s', os) := gc_history s calls in gc_inv size s' /\ Forall2 call_ok calls os.
Proof.
  intros size calls. induction calls as [|[p ok] calls IH]; intros s Hs; cbn [gc_history].
  - split; [assumption|constructor].
  - pose proof (gc_get_inv size s p ok Hs) as G. destruct (gc_get s p ok) as [s1 o].
    destruct G as [G1 G2]. specialize (IH s1 G1). destruct (gc_history s1 calls) as [s2 os].
    destruct IH as [I1 I2]. split; [assumption|]. constructor; [|assumption].
    unfold call_ok. cbn [fst snd]. subst o. destruct ok; [now left|].
    destruct (m_load (c_m s) p); [now left | right; split; reflexivity].
Qed.

Lemma gc_inv_bounds : forall size s, gc_inv size s ->
  c_n s <= size /\ length (m_keys (c_m s)) <= size /\ incl (m_keys (c_m s)) (c_l s) /\ length (c_l s) = size.
Proof.
  intros size s (HL & HN & HH & HD & HI & HV). split; [assumption|]. split; [|split; [|assumption]].
  - pose proof (NoDup_incl_length HD HI) as B. rewrite firstn_length in B. lia.
  - intros k Hk. apply HI in Hk. apply in_firstn_nth in Hk. destruct Hk as [j [_ J]]. eapply nth_error_In; eassumption.
Qed.

(* globcache_seq_inv: one goroutine at a time, size > 0, any history of Get *)
Theorem globcache_seq_inv_l : forall size calls, 0 < size ->
  let '(s, os) := gc_history (gc_new size) calls in
  c_n s <= size /\ length (m_keys (c_m s)) <= size /\ incl (m_keys (c_m s)) (c_l s) /\ length (c_l s) = size
  /\ Forall2 call_ok calls os.
Proof.
  intros size calls H. pose proof (gc_history_inv size calls (gc_new size) (gc_new_inv size H)) as G.
  destruct (gc_history (gc_new size) calls) as [s os]. destruct G as [G1 G2].
  destruct (gc_inv_bounds size s G1) as (A & B & C & D). repeat split; assumption.
Qed.

Example globcache_seq_nonvacuous :
  let '(s, os) := gc_history (gc_new 2) [(bs "a*", true); (bs "[", false); (bs "b*", true); (bs "c*", true); (bs "a*", true)] in
  c_n s = 2 /\ m_keys (c_m s) = [bs "c*"; bs "a*"] /\ c_l s = [bs "c*"; bs "a*"] /\ c_h s = 0 /\
  os = [Some (Ok (bs "a*")); Some (Err 1%N); Some (Ok (bs "b*")); Some (Ok (bs "c*")); Some (Ok (bs "a*"))].
Proof. vm_compute. repeat split. Qed.

(* ---- what the unsynchronised bookkeeping allows ---- *)
(* a state with the head outside the ring is dead: every miss panics and leaves it as it is *)
Lemma gc_dead_state_l : forall s pat, length (c_l s) <= c_h s -> length (c_l s) <= c_n s ->
  m_load (c_m s) pat = None -> gc_get s pat true = (s, Some Panic).
Proof.
  intros s pat H1 H2 H3. apply gc_get_dead; [assumption| now apply Nat.ltb_ge | now apply nth_error_None].
Qed.

(* two goroutines Get two new patterns on a fresh cache of size 1 (n = size - 1):
   both pass the check n < len(l), both write l[0], the increments follow each other:
   n = 2 > len(l) = 1 and two entries in a map configured for one;
   afterwards, sequentially: the next miss moves h to 1 = len(l); every later miss panics, for ever *)
Lemma globcache_race_refuted_w :
  exists sched, let '(s, ts) := run g_step_unrepaired sched (gc_new 1) [g_init_unrepaired (bs "a*") true; g_init_unrepaired (bs "b*") true] in
    g_results_unrepaired ts = [Some (Ok (bs "a*")); Some (Ok (bs "b*"))]
    /\ c_n s = 2 /\ length (c_l s) = 1 /\ length (m_keys (c_m s)) = 2
    /\ let '(s1, o1) := gc_get s (bs "c*") true in o1 = Some (Ok (bs "c*")) /\ c_h s1 = 1
    /\ let '(s2, o2) := gc_get s1 (bs "d*") true in o2 = Some Panic /\ s2 = s1
    /\ forall pat, m_load (c_m s1) pat = None -> gc_get s1 pat true = (s1, Some Panic).
Proof.
  exists [0; 1; 0; 1; 0; 1; 0; 1; 0; 1; 0; 0; 1; 1].
  vm_compute run. cbv beta iota. split; [reflexivity|]. split; [reflexivity|]. split; [reflexivity|]. split; [reflexivity|].
  vm_compute gc_get at 1. cbv beta iota. split; [reflexivity|]. split; [reflexivity|].
  vm_compute gc_get at 1. cbv beta iota. split; [reflexivity|]. split; [reflexivity|].
  intros pat H. apply gc_dead_state_l; [cbn; lia | cbn; lia | assumption].
Qed.

(* the immediate crash: B passed the check, A appended (n = len(l)), B indexes l[n] *)
Lemma globcache_race_panic_w :
  exists sched, let '(s, ts) := run g_step_unrepaired sched (gc_new 1) [g_init_unrepaired (bs "a*") true; g_init_unrepaired (bs "b*") true] in
    g_results_unrepaired ts = [Some (Ok (bs "a*")); Some Panic].
Proof. exists [1; 1; 0; 0; 0; 0; 0; 0; 0; 1; 1; 1]. vm_compute. reflexivity. Qed.

(* ---- every interleaving: a Get that returns returns the requested compiled pattern ---- *)
Definition m_wf (m : list (str * str)) : Prop := forall k v, In (k, v) m -> v = k.
Definition g_thread_ok (l : glocal) : Prop :=
  match g_res l with
  | Some (Ok v) => v = g_pat l
  | Some (Err _) => g_ok l = false
  | _ => True
  end.

Lemma m_store_in : forall m k v k' v', In (k', v') (m_store m k v) -> (k', v') = (k, v) \/ In (k', v') m.
Proof.
  induction m as [|[a b] m IH]; intros k v k' v'; cbn.
  - intros [H|[]]; left; now symmetry.
  - destruct (beq a k).
    + intros [H|H]; [left; now symmetry | right; now right].
    + intros [H|H]; [right; now left|]. apply IH in H. destruct H; [now left | right; now right].
Qed.
Lemma m_store_wf : forall m k, m_wf m -> m_wf (m_store m k k).
Proof. intros m k H a b I. apply m_store_in in I. destruct I as [I|I]; [now inversion I | now apply H]. Qed.
Lemma m_delete_wf : forall m k, m_wf m -> m_wf (m_delete m k).
Proof. intros m k H a b I. apply m_delete_in in I. now apply H. Qed.

Lemma g_step_sound : forall s l, m_wf (c_m s) -> g_thread_ok l ->
  m_wf (c_m (fst (g_step_unrepaired s l))) /\ g_thread_ok (snd (g_step_unrepaired s l)).
Proof.
  intros s l Hm Hl. unfold g_step_unrepaired.
  destruct (g_at l) eqn:E; cbn [fst snd]; try (split; assumption);
    try (split; [assumption | unfold g_thread_ok in *; cbn; assumption]).
  - destruct (m_load (c_m s) (g_pat l)) as [v|] eqn:EL; cbn [fst snd].
    + split; [assumption|]. unfold g_thread_ok. cbn. apply m_load_some in EL. now apply Hm.
    + destruct (g_ok l) eqn:EO; cbn [fst snd]; (split; [assumption|]); unfold g_thread_ok in *; cbn; assumption.
  - destruct (Nat.ltb (c_n s) (length (c_l s))); cbn [fst snd]; (split; [assumption|]); unfold g_thread_ok in *; cbn; assumption.
  - cbn [c_m s_m]. split; [now apply m_store_wf | unfold g_thread_ok in *; cbn; assumption].
  - destruct (Nat.ltb (g_r l) (length (c_l s))); cbn [fst snd]; (split; [assumption|]); unfold g_thread_ok in *; cbn; try assumption; exact I.
  - split; [assumption|]. unfold g_thread_ok. cbn. reflexivity.
  - destruct (nth_error (c_l s) (g_r l)); cbn [fst snd]; (split; [assumption|]); unfold g_thread_ok in *; cbn; try assumption; exact I.
  - cbn [c_m s_m]. split; [now apply m_delete_wf | unfold g_thread_ok in *; cbn; assumption].
  - cbn [c_m s_m]. split; [now apply m_store_wf | unfold g_thread_ok in *; cbn; assumption].
  - destruct (Nat.ltb (g_r l) (length (c_l s))); cbn [fst snd]; (split; [assumption|]); unfold g_thread_ok in *; cbn; try assumption; exact I.
  - destruct (g_r2 l); cbn [fst snd]; (split; [assumption|]); unfold g_thread_ok; cbn; [exact I | reflexivity].
Qed.

Lemma Forall_upd : forall {A} (P : A -> Prop) l i v, Forall P l -> P v -> Forall P (upd l i v).
Proof.
  intros A P l. induction l as [|a l IH]; intros [|i] v H Hv; cbn; try assumption;
    inversion H; subst; constructor; auto.
Qed.

Theorem globcache_any_schedule_result_l : forall sched s ts, m_wf (c_m s) -> Forall g_thread_ok ts ->
  m_wf (c_m (fst (run g_step_unrepaired sched s ts))) /\ Forall g_thread_ok (snd (run g_step_unrepaired sched s ts)).
Proof.
  induction sched as [|i sched IH]; intros s ts Hm Ht; cbn [run].
  - split; assumption.
  - unfold step1. destruct (nth_error ts i) as [l|] eqn:E.
    + assert (Hl : g_thread_ok l).
      { eapply Forall_forall; [exact Ht|]. eapply nth_error_In; eassumption. }
      pose proof (g_step_sound s l Hm Hl) as [S1 S2]. destruct (g_step_unrepaired s l) as [s' l']. cbn [fst snd] in *.
      apply IH; [assumption | now apply Forall_upd].
    + apply IH; assumption.
Qed.

(* ------------------------------------------------------------------ the code as it is (fix d9b7eff):
   lock-free fast path, then one critical section.  EVERY schedule, any number of goroutines. *)
Definition q_thread_ok (l : qlocal) : Prop :=
  (q_at l = QCrit -> q_ok l = true) /\
  match q_res l with
  | None => q_at l <> QDone                 (* a finished Get has a result ... *)
  | Some (Ok v) => v = q_pat l              (* ... the glob compiled from ITS pattern, *)
  | Some (Err _) => q_ok l = false          (* an error only if the pattern does not compile, *)
  | Some Panic => False                     (* never a panic *)
  end.

Lemma g_init_ok : forall pat ok, q_thread_ok (g_init pat ok).
Proof. intros. unfold q_thread_ok, g_init. cbn. split; discriminate. Qed.

Lemma g_step_inv : forall size s l, gc_inv size s -> q_thread_ok l ->
  gc_inv size (fst (g_step s l)) /\ q_thread_ok (snd (g_step s l)).
Proof.
  intros size s l Hs [Hc Hr]. unfold g_step. destruct (q_at l) eqn:E.
  - destruct (m_load (c_m s) (q_pat l)) as [v|] eqn:EL; cbn [fst snd].
    + split; [assumption|]. unfold q_thread_ok, q_ret. cbn. split; [discriminate|].
      apply m_load_some in EL. destruct Hs as (_ & _ & _ & _ & _ & HV). now apply HV.
    + destruct (q_ok l) eqn:EO; cbn [fst snd]; (split; [assumption|]); unfold q_thread_ok, q_ret; cbn.
      * split; [intros _; assumption || reflexivity | discriminate].
      * split; [discriminate | assumption || reflexivity].
  - pose proof (gc_get_inv size s (q_pat l) true Hs) as G. destruct (gc_get s (q_pat l) true) as [s' o].
    destruct G as [G1 G2]. cbv beta iota. cbn [fst snd]. split; [exact G1|]. subst o. unfold q_thread_ok, q_ret. cbn.
    split; [discriminate | reflexivity].
  - cbn [fst snd]. split; [assumption|]. unfold q_thread_ok. rewrite E. split; assumption.
Qed.

Theorem globcache_every_schedule_l : forall size sched s ts, gc_inv size s -> Forall q_thread_ok ts ->
  gc_inv size (fst (run g_step sched s ts)) /\ Forall q_thread_ok (snd (run g_step sched s ts)).
Proof.
  intros size sched. induction sched as [|i sched IH]; intros s ts Hs Ht; cbn [run].
  - split; assumption.
  - unfold step1. destruct (nth_error ts i) as [l|] eqn:E; [|apply IH; assumption].
    assert (Hl : q_thread_ok l) by (eapply Forall_forall; [exact Ht | eapply nth_error_In; eassumption]).
    pose proof (g_step_inv size s l Hs Hl) as [S1 S2]. destruct (g_step s l) as [s' l']. cbn [fst snd] in *.
    apply IH; [assumption | now apply Forall_upd].
Qed.

(* the statement of the property: a fresh cache of any size > 0, any number of goroutines each calling
   Get with any pattern, ANY schedule (so: every reachable state): n <= size, at most size map entries,
   all of them in l, and no Get has panicked or returned anything but the glob of its own pattern *)
Theorem globcache_conc_inv_l : forall size calls sched, 0 < size ->
  let r := run g_step sched (gc_new size) (map (fun c => g_init (fst c) (snd c)) calls) in
  c_n (fst r) <= size /\ length (m_keys (c_m (fst r))) <= size /\ incl (m_keys (c_m (fst r))) (c_l (fst r))
  /\ length (c_l (fst r)) = size /\ Forall q_thread_ok (snd r).
Proof.
  intros size calls sched H. cbv zeta.
  assert (Ht : Forall q_thread_ok (map (fun c => g_init (fst c) (snd c)) calls)).
  { apply Forall_forall. intros x Hx. apply in_map_iff in Hx. destruct Hx as [c [<- _]]. apply g_init_ok. }
  destruct (globcache_every_schedule_l size sched _ _ (gc_new_inv size H) Ht) as [G1 G2].
  destruct (gc_inv_bounds size _ G1) as (A & B & C & D). repeat split; assumption.
Qed.

Example globcache_conc_nonvacuous :
  let r := run g_step [0; 1; 2; 1; 0; 2; 3; 3] (gc_new 1)
               [g_init (bs "a*") true; g_init (bs "b*") true; g_init (bs "a*") true; g_init (bs "[") false] in
  g_results (snd r) = [Some (Ok (bs "a*")); Some (Ok (bs "b*")); Some (Ok (bs "a*")); Some (Err 1%N)]
  /\ c_n (fst r) = 1 /\ m_keys (c_m (fst r)) = [bs "a*"].
Proof. vm_compute. repeat split. Qed.
