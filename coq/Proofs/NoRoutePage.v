(** Proofs about Model.NoRoutePage: the page a request without a route receives after any
    history of registry deliveries (set, replace, repeat, remove) and under any schedule of
    the watcher's atomic actions. *)
From Coq Require Import String List NArith ZArith Bool Lia.
From Fabio Require Import Lib.Outcome Lib.Bytes Model.UrlPathC07 Model.HttpFwd Model.NoRoutePage
  Proofs.HttpFwd.
Import ListNotations.
Local Open Scope N_scope.

(* ---------- the watcher's loop ---------- *)
Lemma watch_step_next stored next : watch_step stored next = next.
Proof.
  unfold watch_step. destruct (beq next stored) eqn:E; [|reflexivity].
  apply beq_eq in E. now subst.
Qed.

Lemma last_default_irrelevant {A} (l : list A) d d' : l <> [] -> last l d = last l d'.
Proof.
  induction l as [|a l IH]; intros N; [contradiction|].
  destruct l as [|b l]; [reflexivity|]. cbn [last] in *. apply IH. discriminate.
Qed.

Lemma last_cons_default {A} (a : A) l d : last (a :: l) d = last l a.
Proof.
  destruct l as [|b l]; [reflexivity|].
  change (last (a :: b :: l) d) with (last (b :: l) d). apply last_default_irrelevant. discriminate.
Qed.

(* the store after any sequence of deliveries holds the last value delivered *)
Theorem watch_run_last deliveries : forall stored, watch_run stored deliveries = last deliveries stored.
Proof.
  induction deliveries as [|p r IH]; intros stored; [reflexivity|].
  unfold watch_run. cbn [fold_left]. fold (watch_run (watch_step stored p) r).
  rewrite IH, watch_step_next. symmetry. apply last_cons_default.
Qed.

Theorem watch_run_set stored deliveries p : watch_run stored (deliveries ++ [p]) = p.
Proof. rewrite watch_run_last. apply last_last. Qed.

(* a removal empties the store whatever was configured before *)
Theorem watch_run_removed stored deliveries : watch_run stored (deliveries ++ [[]]) = [].
Proof. apply watch_run_set. Qed.

(* ---------- histories of deliveries and requests ---------- *)
Lemma pages_of_app a b : pages_of (a ++ b) = pages_of a ++ pages_of b.
Proof. unfold pages_of. apply flat_map_app. Qed.

Lemma configured_page_delivery init pre p : configured_page init (pre ++ [NrPage p]) = p.
Proof. unfold configured_page. rewrite pages_of_app. cbn [pages_of flat_map app]. apply last_last. Qed.

Lemma configured_page_request init pre q : configured_page init (pre ++ [NrReq q]) = configured_page init pre.
Proof. unfold configured_page. rewrite pages_of_app. cbn [pages_of flat_map app]. now rewrite app_nil_r. Qed.

Lemma firstn_length_app {A} (a b : list A) : firstn (length a) (a ++ b) = a.
Proof.
  rewrite firstn_app, firstn_all, Nat.sub_diag. cbn [firstn]. apply app_nil_r.
Qed.

Lemma configured_status_noroute status : noroute_status status = configured_status status.
Proof. unfold configured_status. apply noroute_status_spec. Qed.

Definition expected_at (status : Z) (init : str) (h : list nr_step) (i : nat) : response :=
  {| rs_status := configured_status status; rs_headers := [];
     rs_body := configured_page init (firstn i h) |}.

Lemma nr_run_gen wire status init : forall h pre,
  nr_run wire status (configured_page init pre) h
  = map (fun i => Ok (None, expected_at status init (pre ++ h) i)) (req_positions (length pre) h).
Proof.
  induction h as [|s r IH]; intros pre; [reflexivity|].
  destruct s as [p|q].
  - cbn [nr_run req_positions]. rewrite watch_step_next.
    transitivity (nr_run wire status (configured_page init (pre ++ [NrPage p])) r);
      [now rewrite configured_page_delivery|].
    rewrite (IH (pre ++ [NrPage p])). rewrite <- app_assoc. cbn [app].
    rewrite app_length. cbn [length]. now rewrite Nat.add_1_r.
  - cbn [nr_run req_positions map]. f_equal.
    + unfold serve_http, noroute_response, expected_at. cbn [cf_noroute_status cf_noroute_html].
      rewrite configured_status_noroute, firstn_length_app. reflexivity.
    + transitivity (nr_run wire status (configured_page init (pre ++ [NrReq q])) r);
        [now rewrite configured_page_request|].
      rewrite (IH (pre ++ [NrReq q])). rewrite <- app_assoc. cbn [app].
      rewrite app_length. cbn [length]. now rewrite Nat.add_1_r.
Qed.

(* every request of every history gets the configured status and the page in force at its
   position, and no upstream is contacted *)
Theorem nr_run_spec wire status init h :
  nr_run wire status init h = map (fun r => Ok (None, r)) (nr_expected status init h).
Proof.
  pose proof (nr_run_gen wire status init h []) as G. cbn [app length] in G.
  change (configured_page init []) with init in G. rewrite G.
  unfold nr_expected. rewrite map_map. reflexivity.
Qed.

Lemma nr_spec_go_expected status init h : forall pos,
  nr_spec_go status init h pos (map (fun i => (false, expected_at status init h i)) pos) = true.
Proof.
  induction pos as [|i pos IH]; [reflexivity|].
  cbn [map nr_spec_go negb andb expected_at rs_status rs_body].
  now rewrite Z.eqb_refl, beq_refl, IH.
Qed.

(* the boolean specification of the check holds of the model's own observables *)
Theorem nr_spec_b_holds wire status init h :
  nr_spec_b status init h (nr_model_obs (nr_run wire status init h)) = true.
Proof.
  rewrite nr_run_spec. unfold nr_spec_b, nr_model_obs, nr_expected. rewrite !map_map.
  apply nr_spec_go_expected.
Qed.

(* set / replace / repeat / remove / set again / remove again, a request after each and one in front *)
Definition nr_example_history (q : request) : list nr_step :=
  [NrReq q; NrPage [49]; NrPage [49]; NrReq q; NrPage [50; 50]; NrReq q; NrPage []; NrPage []; NrReq q;
   NrPage [49]; NrReq q; NrPage []; NrReq q].

Example nr_run_nonvacuous :
  let q := {| rq_method := [71]; rq_target := [47]; rq_host := [104]; rq_headers := []; rq_body := [] |} in
  map (fun o => match o with Ok (None, r) => Some (rs_status r, rs_body r) | _ => None end)
      (nr_run false 503 [] (nr_example_history q))
  = [Some (503%Z, []); Some (503%Z, [49]); Some (503%Z, [50; 50]); Some (503%Z, []); Some (503%Z, [49]);
     Some (503%Z, [])]
  /\ nr_changes [] (nr_example_history q) = 5%nat.
Proof. vm_compute. split; reflexivity. Qed.

(* the specification tells a removed page that keeps being served from a correct run *)
Example nr_spec_rejects_stale_page :
  let q := {| rq_method := [71]; rq_target := [47]; rq_host := [104]; rq_headers := []; rq_body := [] |} in
  let r b := (false, {| rs_status := 503; rs_headers := []; rs_body := b |}) in
  nr_spec_b 503 [] (nr_example_history q) [r []; r [49]; r [50; 50]; r [50; 50]; r [49]; r [49]] = false
  /\ nr_spec_b 503 [] (nr_example_history q) [r []; r [49]; r [50; 50]; r []; r [49]; r []] = true.
Proof. vm_compute. split; reflexivity. Qed.

(* ---------- the watcher in atomic actions, any schedule ---------- *)
Definition w_inv (init : str) (deliveries : list str) (w : watcher) : Prop :=
  exists past,
    w_store w = last past init /\
    match w_pc w with
    | WIdle => deliveries = past ++ w_queue w
    | WGot => deliveries = past ++ w_next w :: w_queue w
    | WCompared => deliveries = past ++ w_next w :: w_queue w /\ w_same w = beq (w_next w) (w_store w)
    end.

Lemma w_inv_init init deliveries : w_inv init deliveries (w_init init deliveries).
Proof. exists []. split; reflexivity. Qed.

Lemma w_inv_step init deliveries w : w_inv init deliveries w -> w_inv init deliveries (w_step w).
Proof.
  intros (past & St & I). unfold w_step. destruct (w_pc w) eqn:PC.
  - destruct (w_queue w) as [|p r] eqn:Q.
    + exists past. rewrite PC, Q. split; assumption.
    + exists past. cbn [w_store w_pc w_next w_queue]. split; assumption.
  - exists past. cbn [w_store w_pc w_next w_queue w_same]. repeat split; assumption.
  - destruct I as (I & Sm). exists (past ++ [w_next w]).
    cbn [w_store w_pc w_next w_queue w_same]. split.
    + rewrite last_last. destruct (w_same w) eqn:E; [|reflexivity].
      symmetry in Sm. apply beq_eq in Sm. now symmetry.
    + rewrite <- app_assoc. exact I.
Qed.

Definition sched_page_ok (init : str) (deliveries : list str) (o : nat * bool * str) : Prop :=
  snd o = last (firstn (length deliveries - fst (fst o) - (if snd (fst o) then 0 else 1)) deliveries) init.

Lemma w_inv_obs init deliveries w :
  w_inv init deliveries w -> sched_page_ok init deliveries (length (w_queue w), w_idle w, w_store w).
Proof.
  intros (past & St & I). unfold sched_page_ok, w_idle. cbn [fst snd]. rewrite St.
  destruct (w_pc w).
  - subst deliveries. rewrite app_length.
    replace (length past + length (w_queue w) - length (w_queue w) - 0)%nat with (length past) by lia.
    now rewrite firstn_length_app.
  - subst deliveries. rewrite app_length. cbn [length].
    replace (length past + S (length (w_queue w)) - length (w_queue w) - 1)%nat with (length past) by lia.
    now rewrite firstn_length_app.
  - destruct I as (I & _). subst deliveries. rewrite app_length. cbn [length].
    replace (length past + S (length (w_queue w)) - length (w_queue w) - 1)%nat with (length past) by lia.
    now rewrite firstn_length_app.
Qed.

(* under every schedule a request is answered with the last page of the deliveries the watcher
   has taken off the channel, the one it is just handling excepted *)
Theorem sched_run_pages init deliveries sched :
  Forall (sched_page_ok init deliveries) (sched_run (w_init init deliveries) sched).
Proof.
  pose proof (w_inv_init init deliveries) as I. revert I. generalize (w_init init deliveries).
  induction sched as [|b r IH]; intros w I; [constructor|].
  destruct b; cbn [sched_run].
  - apply IH. now apply w_inv_step.
  - constructor; [now apply w_inv_obs | now apply IH].
Qed.

(* in particular: once the watcher is back at its channel the page served is what the loop
   model computes from the deliveries taken so far *)
Corollary sched_run_idle init deliveries sched rem page :
  In (rem, true, page) (sched_run (w_init init deliveries) sched) ->
  page = watch_run init (firstn (length deliveries - rem) deliveries).
Proof.
  intros H. pose proof (sched_run_pages init deliveries sched) as F.
  rewrite Forall_forall in F. specialize (F _ H). unfold sched_page_ok in F. cbn [fst snd] in F.
  rewrite Nat.sub_0_r in F. now rewrite watch_run_last.
Qed.

Example sched_run_nonvacuous :
  sched_run (w_init [48] [[49]; []; [50]])
            [false; true; false; true; true; false; true; true; false; true; true; false; true; true; true; true; false]
  = [(3%nat, true, [48]); (2%nat, false, [48]); (2%nat, true, [49]); (1%nat, false, [49]); (0%nat, false, []);
     (0%nat, true, [50])].
Proof. vm_compute. reflexivity. Qed.
