From Coq Require Import String List NArith Bool Lia Arith Sorted.
From Fabio Require Import Lib.Outcome Lib.Bytes Model.CertStore.
Import ListNotations.
Local Open Scope N_scope.

(* ================= specification, written without reference to the index ================= *)
Definition has_name (certs : list cert) (i : nat) (n : str) : Prop :=
  exists c, nth_error certs i = Some c /\ In n c.
(* the certificate of the set that carries name n; when several do, the one loaded last *)
Definition last_with (certs : list cert) (i : nat) (n : str) : Prop :=
  has_name certs i n /\ forall j, (i < j)%nat -> ~ has_name certs j n.
Definition none_with (certs : list cert) (n : str) : Prop := forall i, ~ has_name certs i n.

(* ---- "a wildcard covers the name", label by label: the pattern has as many labels as
   the name, its first [s] >= 1 labels are "*", the others are the name's own ---- *)
Definition star : str := [42].
Definition covers_with (s : nat) (ps ns : list str) : Prop :=
  (1 <= s <= length ns)%nat /\ ps = repeat star s ++ skipn s ns.
Definition covers (s : nat) (pat name : str) : Prop :=
  covers_with s (split_byte pat 46) (split_byte name 46).

(* [name] is the requested server name, lower-cased and without trailing dots.  What the
   code does: exact name (the last loaded certificate among several), else the covering
   wildcard with the fewest stars (again the last loaded), else the default *)
Inductive selects (certs : list cert) (strict : bool) (name : str) : pick -> Prop :=
| sel_exact i :
    last_with certs i name -> selects certs strict name (PCert i)
| sel_wild s pat i :
    none_with certs name ->
    covers s pat name ->
    (forall s' pat', (s' < s)%nat -> covers s' pat' name -> none_with certs pat') ->
    last_with certs i pat ->
    selects certs strict name (PCert i)
| sel_default :
    none_with certs name ->
    (forall s pat, covers s pat name -> none_with certs pat) ->
    selects certs strict name (if strict then PNone else PCert 0).

(* what the property demands, and no more: a certificate carrying the name, otherwise one
   carrying a wildcard that covers it, otherwise the first / none *)
Definition presents (certs : list cert) (strict : bool) (name : str) (p : pick) : Prop :=
  (exists i, p = PCert i /\ has_name certs i name) \/
  (none_with certs name /\ exists i s pat, p = PCert i /\ covers s pat name /\ has_name certs i pat) \/
  (none_with certs name /\ (forall s pat, covers s pat name -> none_with certs pat) /\
   p = if strict then PNone else PCert 0).
Lemma selects_presents certs strict name p : selects certs strict name p -> presents certs strict name p.
Proof.
  intros [i [H _] | s pat i Hn Hc _ [H _] | Hn Hw].
  - left. now exists i.
  - right. left. split; [exact Hn|]. now exists i, s, pat.
  - right. right. now repeat split.
Qed.

(* ================= the index ================= *)
Lemma lookup_last_app a b n :
  lookup_last (a ++ b) n = match lookup_last b n with Some w => Some w | None => lookup_last a n end.
Proof.
  induction a as [|[k v] a IH]; cbn [app lookup_last]; [now destruct (lookup_last b n)|].
  rewrite IH. destruct (lookup_last b n); reflexivity.
Qed.

Definition mem (n : str) (c : cert) : bool := existsb (fun m => beq m n) c.
Lemma mem_In n c : mem n c = true <-> In n c.
Proof.
  unfold mem. rewrite existsb_exists. split.
  - intros (m & Hm & E). apply beq_eq in E. now subst.
  - intros H. exists n. split; [exact H | apply beq_refl].
Qed.

Lemma lookup_last_cert c i n :
  lookup_last (map (fun m => (m, i)) c) n = if mem n c then Some i else None.
Proof.
  induction c as [|m c IH]; [reflexivity|].
  cbn [map lookup_last]. rewrite IH. unfold mem. cbn [existsb]. fold (mem n c).
  destruct (mem n c); [now rewrite orb_true_r|]. rewrite orb_false_r. reflexivity.
Qed.

Fixpoint last_idx (certs : list cert) (n : str) : option nat :=
  match certs with
  | [] => None
  | c :: r => match last_idx r n with
              | Some w => Some (S w)
              | None => if mem n c then Some O else None
              end
  end.

(* the set as the index sees it: every certificate name lower-cased (DNS names compare
   case-insensitively) *)
Definition folded (certs : list cert) : list cert := map (map lower) certs.
Lemma folded_length certs : length (folded certs) = length certs.
Proof. apply map_length. Qed.

Lemma lookup_build_from certs : forall i n,
  lookup_last (build_from i certs) n = option_map (Nat.add i) (last_idx (folded certs) n).
Proof.
  induction certs as [|c r IH]; intros i n; [reflexivity|].
  cbn [build_from folded map last_idx]. fold (folded r).
  replace (map (fun m => (lower m, i)) c) with (map (fun m => (m, i)) (map lower c)) by (now rewrite map_map).
  rewrite lookup_last_app, IH, lookup_last_cert.
  destruct (last_idx (folded r) n) as [w|]; cbn [option_map]; [f_equal; lia|].
  destruct (mem n (map lower c)); cbn [option_map]; [f_equal; lia | reflexivity].
Qed.
Lemma lookup_build certs n : lookup_last (build_index certs) n = last_idx (folded certs) n.
Proof. unfold build_index. rewrite lookup_build_from. now destruct (last_idx (folded certs) n). Qed.

Lemma last_idx_none certs n : last_idx certs n = None <-> none_with certs n.
Proof.
  induction certs as [|c r IH]; cbn [last_idx].
  - split; [|reflexivity]. intros _ i (c & H & _). now destruct i.
  - destruct (last_idx r n) as [w|] eqn:E.
    + split; [discriminate|]. intros H. exfalso.
      assert (Hn : ~ none_with r n) by (intros X; apply IH in X; discriminate).
      apply Hn. intros i (c' & Hc & Hin). apply (H (S i)). now exists c'.
    + destruct (mem n c) eqn:M.
      * split; [discriminate|]. intros H. exfalso. apply (H O). exists c. split; [reflexivity | now apply mem_In].
      * split; [|reflexivity]. intros _ [|i] (c' & Hc & Hin).
        -- cbn in Hc. inversion Hc; subst. apply mem_In in Hin. congruence.
        -- apply (proj1 IH eq_refl i). now exists c'.
Qed.

Lemma last_idx_some certs n i : last_idx certs n = Some i -> last_with certs i n.
Proof.
  revert i; induction certs as [|c r IH]; intros i; cbn [last_idx]; [discriminate|].
  destruct (last_idx r n) as [w|] eqn:E.
  - intros H. inversion H; subst. destruct (IH w eq_refl) as ((c' & Hc & Hin) & Hmax).
    split; [now exists c'|]. intros [|j] Hj; [lia|].
    intros (c'' & Hc'' & Hin''). apply (Hmax j); [lia | now exists c''].
  - destruct (mem n c) eqn:M; [|discriminate]. intros H. inversion H; subst.
    split; [exists c; split; [reflexivity | now apply mem_In]|].
    intros [|j] Hj; [lia|]. intros (c'' & Hc'' & Hin'').
    apply (proj1 (last_idx_none r n) E j). now exists c''.
Qed.

Lemma last_idx_lt certs n i : last_idx certs n = Some i -> (i < length certs)%nat.
Proof.
  intros H. apply last_idx_some in H as ((c & Hc & _) & _). apply nth_error_Some. congruence.
Qed.

(* ================= strings.Split / strings.Join on '.', and the candidates ================= *)
Definition no_dot (l : str) : bool := forallb (fun c => negb (c =? 46)) l.
Lemma split_no_dot l : no_dot l = true -> split_byte l 46 = [l].
Proof.
  induction l as [|x l IH]; cbn [split_byte no_dot forallb]; [reflexivity|].
  intros H. apply andb_true_iff in H as [H1 H2]. apply negb_true_iff in H1.
  rewrite H1, (IH H2). reflexivity.
Qed.
Lemma split_app_dot x r : no_dot x = true -> split_byte (x ++ 46 :: r) 46 = x :: split_byte r 46.
Proof.
  induction x as [|y x IH]; cbn [app split_byte no_dot forallb].
  - intros _. reflexivity.
  - intros H. apply andb_true_iff in H as [H1 H2]. apply negb_true_iff in H1.
    rewrite H1, (IH H2). reflexivity.
Qed.
Lemma split_join46 ls :
  ls <> [] -> Forall (fun l => no_dot l = true) ls -> split_byte (join ls [46]) 46 = ls.
Proof.
  induction ls as [|t ts IH]; intros Hne H; [congruence|].
  inversion H as [|? ? Ht Hts]; subst.
  destruct ts as [|t2 ts].
  - cbn [join]. now apply split_no_dot.
  - change (join (t :: t2 :: ts) [46]) with (t ++ 46 :: join (t2 :: ts) [46]).
    rewrite split_app_dot by assumption. f_equal. apply IH; [discriminate | assumption].
Qed.
Lemma split_labels name :
  Forall (fun l => no_dot l = true) (split_byte name 46) /\ split_byte name 46 <> [].
Proof.
  induction name as [|x s [IHf IHn]]; cbn [split_byte].
  - split; [repeat constructor | discriminate].
  - destruct (x =? 46) eqn:E.
    + split; [constructor; [reflexivity | exact IHf] | discriminate].
    + destruct (split_byte s 46) as [|w ws]; [congruence|].
      inversion IHf as [|? ? Hw Hws]; subst.
      split; [|discriminate]. constructor; [|exact Hws].
      cbn [no_dot forallb]. rewrite E. exact Hw.
Qed.
Lemma join_split46 s : join (split_byte s 46) [46] = s.
Proof.
  induction s as [|x s IH]; cbn [split_byte]; [reflexivity|].
  destruct (split_labels s) as [_ Hne].
  destruct (x =? 46) eqn:E.
  - apply N.eqb_eq in E. subst x.
    destruct (split_byte s 46) as [|w ws]; [congruence|].
    change (join ([] :: w :: ws) [46]) with (46 :: join (w :: ws) [46]). now rewrite IH.
  - destruct (split_byte s 46) as [|w ws]; [congruence|].
    destruct ws as [|w2 ws].
    + cbn [join] in *. now rewrite IH.
    + change (join ((x :: w) :: w2 :: ws) [46]) with (x :: (w ++ 46 :: join (w2 :: ws) [46])).
      change (join (w :: w2 :: ws) [46]) with (w ++ 46 :: join (w2 :: ws) [46]) in IH.
      now rewrite IH.
Qed.

(* [stars k] = k star labels, then the name's own labels *)
Lemma stars_spec : forall k labels, (k <= length labels)%nat -> stars k labels = repeat star k ++ skipn k labels.
Proof.
  induction k as [|k IH]; intros labels Hk; [now destruct labels|].
  destruct labels as [|l r]; [cbn in Hk; lia|].
  cbn [stars repeat app skipn]. cbn [length] in Hk. rewrite IH by lia. reflexivity.
Qed.
(* the k-th candidate of the scan is exactly the (k+1)-star pattern covering the name ... *)
Lemma candidate_covers name k :
  (k < length (split_byte name 46))%nat -> covers (S k) (candidate (split_byte name 46) k) name.
Proof.
  intros Hk. unfold covers, covers_with, candidate. split; [lia|].
  rewrite stars_spec by lia.
  apply split_join46; [discriminate|].
  apply Forall_app. split.
  - apply Forall_forall. intros x Hx. apply repeat_spec in Hx. now subst.
  - destruct (split_labels name) as [Hf _].
    rewrite <- (firstn_skipn (S k) (split_byte name 46)) in Hf. now apply Forall_app in Hf.
Qed.
(* ... and every covering pattern is one of the candidates *)
Lemma covers_candidate s pat name :
  covers s pat name -> (s - 1 < length (split_byte name 46))%nat /\ pat = candidate (split_byte name 46) (s - 1).
Proof.
  intros [Hs Hp]. split; [lia|]. unfold candidate.
  replace (S (s - 1)) with s by lia. rewrite stars_spec by lia. rewrite <- Hp.
  symmetry. apply join_split46.
Qed.

(* ================= the candidate scan ================= *)
Lemma first_hit_seq ix (f : nat -> str) : forall len s,
  match first_hit ix (map f (seq s len)) with
  | Some i => exists k, (s <= k < s + len)%nat /\ lookup_last ix (f k) = Some i /\
                        forall k', (s <= k' < k)%nat -> lookup_last ix (f k') = None
  | None => forall k, (s <= k < s + len)%nat -> lookup_last ix (f k) = None
  end.
Proof.
  induction len as [|len IH]; intros s; cbn [seq map first_hit]; [intros k Hk; lia|].
  destruct (lookup_last ix (f s)) as [i|] eqn:E.
  - exists s. split; [lia|]. split; [exact E|]. intros k' Hk'. lia.
  - specialize (IH (S s)). destruct (first_hit ix (map f (seq (S s) len))) as [i|].
    + destruct IH as (k & Hk & Hl & Hmin). exists k. split; [lia|]. split; [exact Hl|].
      intros k' Hk'. destruct (Nat.eq_dec k' s) as [->|Hne]; [exact E | apply Hmin; lia].
    + intros k Hk. destruct (Nat.eq_dec k s) as [->|Hne]; [exact E | apply IH; lia].
Qed.

(* ================= getCertificate meets the specification ================= *)
Lemma get_cert_spec certs sn strict :
  certs <> [] -> (strict = true \/ 2 <= length certs)%nat ->
  selects (folded certs) strict (normalize sn) (store_pick certs sn strict).
Proof.
  intros Hne Hdom. unfold store_pick, get_certificate.
  destruct certs as [|c0 rest]; [contradiction|]. set (certs := c0 :: rest) in *.
  assert (Hshort : negb strict && (Nat.eqb (length certs) 1 || false) = false).
  { destruct Hdom as [->|H]; [reflexivity|].
    destruct strict; [reflexivity|]. cbn [negb andb]. rewrite orb_false_r. apply Nat.eqb_neq. lia. }
  rewrite Hshort. rewrite lookup_build.
  set (name := normalize sn).
  destruct (last_idx (folded certs) name) as [i|] eqn:E.
  - apply sel_exact. now apply last_idx_some.
  - apply last_idx_none in E.
    unfold candidates. set (labels := split_byte name 46).
    pose proof (first_hit_seq (build_index certs) (candidate labels) (length labels) 0) as H.
    destruct (first_hit (build_index certs) (map (candidate labels) (seq 0 (length labels)))) as [i|].
    + destruct H as (k & Hk & Hl & Hmin). rewrite lookup_build in Hl.
      apply (sel_wild (folded certs) strict name (S k) (candidate labels k) i);
        [exact E | apply candidate_covers; fold labels; lia | | now apply last_idx_some].
      intros s' pat' Hs' Hc. pose proof Hc as [[Hs1 _] _].
      apply covers_candidate in Hc as [_ ->]. fold labels.
      apply last_idx_none. rewrite <- lookup_build. apply Hmin. lia.
    + apply sel_default; [exact E|]. intros s pat Hc.
      apply covers_candidate in Hc as [Hk ->]. fold labels in Hk |- *. apply last_idx_none.
      rewrite <- lookup_build. apply H. lia.
Qed.
(* the hypotheses of [get_cert_spec] are met by the interesting cases *)
Example get_cert_spec_nonvacuous :
  let certs := [[bs "a.com"]; [bs "b.com"; bs "*.b.com"]; [bs "*.*.c.com"]] in
  certs <> [] /\ (true = true \/ 2 <= length certs)%nat /\ (false = true \/ 2 <= length certs)%nat /\
  store_pick certs (bs "X.Y.C.com..") true = PCert 2 /\
  store_pick certs (bs "w.B.com") false = PCert 1 /\
  store_pick certs (bs "zzz") false = PCert 0 /\
  store_pick certs (bs "zzz") true = PNone /\
  covers 2 (bs "*.*.c.com") (normalize (bs "X.Y.C.com..")).
Proof.
  cbv zeta. split; [discriminate|]. split; [now left|]. split; [right; cbn; lia|].
  repeat (split; [vm_compute; reflexivity|]).
  unfold covers, covers_with. vm_compute. split; [split; repeat constructor | reflexivity].
Qed.

(* ---- the property's demand as a boolean (used by Check/C11.v as the spec): a scan of
   the folded set for the name, then for any covering pattern; no index, no "last", no
   "fewest stars".  It is sound for [presents] ---- *)
Definition hit_any (c : cert) (pats : list str) : bool := existsb (fun p => mem p c) pats.
Definition presents_b (certs : certset) (sn : str) (strict : bool) (p : pick) : bool :=
  let lc := folded certs in
  let name := normalize sn in
  let cands := candidates name in
  if existsb (mem name) lc then
    match p with
    | PCert i => match nth_error lc i with Some c => mem name c | None => false end
    | _ => false
    end
  else if existsb (fun c => hit_any c cands) lc then
    match p with
    | PCert i => match nth_error lc i with Some c => hit_any c cands | None => false end
    | _ => false
    end
  else pick_eqb p (if strict then PNone else PCert 0).
Lemma pick_eqb_eq a b : pick_eqb a b = true -> a = b.
Proof.
  destruct a, b; cbn [pick_eqb]; try discriminate; try reflexivity.
  intros H. apply Nat.eqb_eq in H. now subst.
Qed.
Lemma existsb_false_none (lc : list cert) n : existsb (mem n) lc = false -> none_with lc n.
Proof.
  intros H i (c & Hc & Hin). apply nth_error_In in Hc.
  assert (X : existsb (mem n) lc = true) by (apply existsb_exists; exists c; split; [exact Hc | now apply mem_In]).
  congruence.
Qed.
Lemma presents_b_sound certs sn strict p :
  presents_b certs sn strict p = true -> presents (folded certs) strict (normalize sn) p.
Proof.
  unfold presents_b. set (lc := folded certs). set (name := normalize sn).
  destruct (existsb (mem name) lc) eqn:E1.
  - destruct p as [i| |]; try discriminate. destruct (nth_error lc i) as [c|] eqn:N; [|discriminate].
    intros M. left. exists i. split; [reflexivity|]. exists c. split; [exact N | now apply mem_In].
  - apply existsb_false_none in E1.
    destruct (existsb (fun c => hit_any c (candidates name)) lc) eqn:E2.
    + destruct p as [i| |]; try discriminate. destruct (nth_error lc i) as [c|] eqn:N; [|discriminate].
      intros M. right. left. split; [exact E1|].
      unfold hit_any in M. apply existsb_exists in M as (pat & Hpat & Hm).
      unfold candidates in Hpat. apply in_map_iff in Hpat as (k & <- & Hk). apply in_seq in Hk.
      exists i, (S k), (candidate (split_byte name 46) k). split; [reflexivity|].
      split; [apply candidate_covers; lia|]. exists c. split; [exact N | now apply mem_In].
    + intros H. apply pick_eqb_eq in H. right. right. split; [exact E1|]. split; [|exact H].
      intros s pat Hc i (c & Hn & Hin). apply covers_candidate in Hc as [Hk ->].
      assert (X : existsb (fun c => hit_any c (candidates name)) lc = true).
      { apply existsb_exists. exists c. split; [now apply nth_error_In in Hn|].
        unfold hit_any. apply existsb_exists. exists (candidate (split_byte name 46) (s - 1)).
        split; [|now apply mem_In]. unfold candidates. apply in_map. apply in_seq. lia. }
      congruence.
Qed.

(* the answer is never outside the set *)
Lemma pick_in_set certs sn strict i : store_pick certs sn strict = PCert i -> (i < length certs)%nat.
Proof.
  unfold store_pick, get_certificate. destruct certs as [|c0 rest]; [discriminate|].
  set (certs := c0 :: rest).
  destruct (negb strict && _); [intros H; inversion H; cbn; lia|].
  rewrite lookup_build.
  destruct (last_idx (folded certs) (normalize sn)) as [j|] eqn:E.
  - intros H. inversion H; subst. apply last_idx_lt in E. now rewrite folded_length in E.
  - pose proof (first_hit_seq (build_index certs) (candidate (split_byte (normalize sn) 46))
                  (length (split_byte (normalize sn) 46)) 0) as H.
    unfold candidates.
    destruct (first_hit _ _) as [j|].
    + destruct H as (k & _ & Hl & _). rewrite lookup_build in Hl. intros X. inversion X; subst.
      apply last_idx_lt in Hl. now rewrite folded_length in Hl.
    + destruct strict; [discriminate|]. intros X. inversion X. cbn. lia.
Qed.

Lemma empty_store_err sn strict : store_pick [] sn strict = PErrNoCerts.
Proof. reflexivity. Qed.
Lemma store_pick_nonempty certs sn strict : certs <> [] -> store_pick certs sn strict <> PErrNoCerts.
Proof.
  unfold store_pick, get_certificate. destruct certs as [|c0 rest]; [contradiction|]. intros _.
  destruct (negb strict && _); [discriminate|].
  destruct (lookup_last _ _); [discriminate|]. destruct (first_hit _ _); [discriminate|].
  destruct strict; discriminate.
Qed.
Lemma single_nonstrict c sn : store_pick [c] sn false = PCert 0.
Proof. reflexivity. Qed.
(* strict listeners never fall back: no certificate unless a name or a covering wildcard matches *)
Lemma strict_none certs sn :
  store_pick certs sn true = PNone ->
  none_with (folded certs) (normalize sn) /\
  forall s pat, covers s pat (normalize sn) -> none_with (folded certs) pat.
Proof.
  unfold store_pick, get_certificate. destruct certs as [|c0 rest]; [discriminate|].
  set (certs := c0 :: rest). cbn [negb andb]. rewrite lookup_build.
  destruct (last_idx (folded certs) (normalize sn)) eqn:E; [discriminate|].
  pose proof (first_hit_seq (build_index certs) (candidate (split_byte (normalize sn) 46))
                (length (split_byte (normalize sn) 46)) 0) as H.
  unfold candidates. destruct (first_hit _ _); [discriminate|]. intros _.
  split; [now apply last_idx_none|]. intros s pat Hc. apply covers_candidate in Hc as [Hk ->].
  apply last_idx_none. rewrite <- lookup_build. apply H. lia.
Qed.

(* request names are matched case-insensitively and regardless of trailing dots *)
Lemma strip_dots_rev_app_dots r k : strip_dots_rev (repeat 46 k ++ r) = strip_dots_rev r.
Proof. induction k as [|k IH]; [reflexivity|]. cbn [repeat app strip_dots_rev]. exact IH. Qed.
Lemma normalize_trailing_dots sn k : normalize (sn ++ repeat 46 k) = normalize sn.
Proof.
  unfold normalize. rewrite lower_app, rev_app_distr.
  assert (H : lower (repeat 46 k) = repeat 46 k).
  { induction k as [|k IH]; [reflexivity|]. cbn [repeat lower map]. unfold lower in IH. now rewrite IH. }
  rewrite H. assert (Hr : rev (repeat 46 k) = repeat 46 k).
  { assert (Hsnoc : forall m, repeat 46 m ++ [46] = 46 :: repeat 46 m).
    { induction m as [|m IHm]; [reflexivity|]. cbn [repeat app]. now rewrite IHm. }
    clear H. induction k as [|k IHk]; [reflexivity|]. cbn [repeat rev]. now rewrite IHk, Hsnoc. }
  now rewrite Hr, strip_dots_rev_app_dots.
Qed.
Lemma normalize_case a b : lower a = lower b -> normalize a = normalize b.
Proof. unfold normalize. now intros ->. Qed.

(* the index as it was before the repair: certificate names were NOT folded, so a
   certificate named with an upper-case letter was unreachable by its own name (the
   request is lower-cased, the index key was not) *)
Lemma upper_case_cert_name_refuted :
  exists certs sn, has_name certs 1 sn /\
    get_certificate certs (Some (build_from_unfolded 0 certs)) sn false = PCert 0.
Proof.
  exists [[bs "a.com"%string]; [bs "Foo.com"%string]], (bs "Foo.com"%string).
  split; [exists [bs "Foo.com"%string]; split; [reflexivity | now left] | vm_compute; reflexivity].
Qed.
(* after the repair the same certificate is found, whatever the spelling on either side *)
Lemma upper_case_cert_name_found :
  store_pick [[bs "a.com"%string]; [bs "Foo.com"%string]] (bs "fOO.com."%string) false = PCert 1.
Proof. vm_compute. reflexivity. Qed.

(* ================= handshakes interleaved with set replacement, coarse ================= *)
(* spec: the set current at the handshake's load, computed by a plain scan of the prefix *)
Fixpoint current (cur : list cert) (prefix : list action) : list cert :=
  match prefix with
  | [] => cur
  | APublish c :: r => current c r
  | AHandshake _ _ :: r => current cur r
  end.
Fixpoint handshakes (sched : list action) (k : nat) : list (nat * str * bool) :=
  match sched with
  | [] => []
  | APublish _ :: r => handshakes r (S k)
  | AHandshake n s :: r => (k, n, s) :: handshakes r (S k)
  end.

Lemma handshakes_ge sched : forall m k n s, In (k, n, s) (handshakes sched m) -> (m <= k)%nat.
Proof.
  induction sched as [|a r IH]; intros m k n s; [contradiction|].
  destruct a; cbn [handshakes]; [intros H; apply IH in H; lia|].
  intros [H|H]; [inversion H; lia | apply IH in H; lia].
Qed.

Lemma run_store_single_set : forall sched cur,
  run_store cur sched =
  map (fun h => match h with (k, n, s) => store_pick (current cur (firstn k sched)) n s end) (handshakes sched 0).
Proof.
  assert (G : forall sched cur m,
    run_store cur sched =
    map (fun h => match h with (k, n, s) => store_pick (current cur (firstn (k - m) sched)) n s end)
        (handshakes sched m)).
  { induction sched as [|a sched IH]; intros cur m; [reflexivity|].
    destruct a as [c|n s]; cbn [run_store handshakes map].
    - rewrite (IH c (S m)). apply map_ext_in. intros [[k n] s] Hin.
      apply handshakes_ge in Hin.
      replace (k - m)%nat with (S (k - S m)) by lia. reflexivity.
    - rewrite Nat.sub_diag. cbn [firstn current]. f_equal.
      rewrite (IH cur (S m)). apply map_ext_in. intros [[k n'] s'] Hin.
      apply handshakes_ge in Hin.
      replace (k - m)%nat with (S (k - S m)) by lia. reflexivity. }
  intros sched cur. rewrite (G sched cur 0%nat).
  apply map_ext. intros [[k n] s]. now rewrite Nat.sub_0_r.
Qed.

(* ================= the same, over the steps that are atomic in the code ================= *)
(* abstract machine: only certificate sets, no index.  A handshake is answered from the
   one set its load saw, by [store_pick] - the complete index of exactly that set - whatever
   is prepared or stored between its load and its pick *)
Definition astate := (certset * option certset * list (nat * certset))%type.
Definition astate0 : astate := ([], None, []).
Definition abs_step (st : astate) (a : faction) : astate * list pick :=
  let '(cur, pend, snaps) := st in
  match a with
  | FBuild c => ((cur, Some c, snaps), [])
  | FStore => match pend with Some c => ((c, None, snaps), []) | None => (st, []) end
  | FLoad t => ((cur, pend, (t, cur) :: snaps), [])
  | FPick t n s => match snap_get t snaps with
                   | Some c => (st, [store_pick c n s])
                   | None => (st, [])
                   end
  end.
Fixpoint run_abs (st : astate) (sched : list faction) : list pick :=
  match sched with
  | [] => []
  | a :: r => let '(st', out) := abs_step st a in out ++ run_abs st' r
  end.

(* a stored value answers as the complete index of its own certificates would *)
Definition answers_as (v : certstore_v) (c : certset) : Prop := forall n s, pick_on v n s = store_pick c n s.
Definition opt_rel {A B} (R : A -> B -> Prop) (a : option A) (b : option B) : Prop :=
  match a, b with Some x, Some y => R x y | None, None => True | _, _ => False end.
Definition snaps_rel (a : list (nat * certstore_v)) (b : list (nat * certset)) : Prop :=
  Forall2 (fun x y => fst x = fst y /\ answers_as (snd x) (snd y)) a b.
Definition frel (st : fstate) (ast : astate) : Prop :=
  let '(store, pend, snaps) := st in let '(cur, apend, asnaps) := ast in
  answers_as store cur /\ opt_rel answers_as pend apend /\ snaps_rel snaps asnaps.

Lemma snap_get_rel t a b : snaps_rel a b -> opt_rel answers_as (snap_get t a) (snap_get t b).
Proof.
  induction 1 as [|[u v] [u' c] a b [Hu Hv] _ IH]; [exact I|].
  cbn [snap_get]. cbn [fst snd] in Hu, Hv. subst u'. destruct (Nat.eqb u t); [exact Hv | exact IH].
Qed.

Lemma fine_refines : forall sched st ast,
  frel st ast -> run_fine mk_built st sched = run_abs ast sched.
Proof.
  induction sched as [|a r IH]; intros [[store pend] snaps] [[cur apend] asnaps] (Hs & Hp & Hn); [reflexivity|].
  cbn [run_fine run_abs]. destruct a as [c| |t|t n s]; cbn [fine_step abs_step].
  - cbn [app]. apply IH. split; [exact Hs|]. split; [|exact Hn]. intros n s. reflexivity.
  - destruct pend as [v|], apend as [c|]; try contradiction; cbn [app]; apply IH.
    + split; [exact Hp|]. split; [exact I | exact Hn].
    + split; [exact Hs|]. split; [exact I | exact Hn].
  - cbn [app]. apply IH. split; [exact Hs|]. split; [exact Hp|].
    constructor; [split; [reflexivity | exact Hs] | exact Hn].
  - pose proof (snap_get_rel t snaps asnaps Hn) as Hg.
    destruct (snap_get t snaps) as [v|], (snap_get t asnaps) as [c|]; try contradiction.
    + cbn [app]. rewrite (Hg n s). f_equal. apply IH. split; [exact Hs|]. split; [exact Hp | exact Hn].
    + cbn [app]. apply IH. split; [exact Hs|]. split; [exact Hp | exact Hn].
Qed.
Lemma frel0 : frel fstate0 astate0.
Proof. split; [intros n s; reflexivity|]. split; [exact I | constructor]. Qed.
Lemma run_fine_single_set sched : run_fine mk_built fstate0 sched = run_abs astate0 sched.
Proof. apply fine_refines, frel0. Qed.

(* every answer of the abstract machine comes from one set: the initial one or one that was
   stored; never from a set that was only prepared, never from two *)
Fixpoint stored_sets (pend : option certset) (sched : list faction) : list certset :=
  match sched with
  | [] => []
  | FBuild c :: r => stored_sets (Some c) r
  | FStore :: r => match pend with Some c => c :: stored_sets None r | None => stored_sets None r end
  | _ :: r => stored_sets pend r
  end.
Lemma run_abs_from_stored : forall sched cur pend snaps p,
  In p (run_abs (cur, pend, snaps) sched) ->
  exists c n s, p = store_pick c n s /\
    (c = cur \/ In c (map snd snaps) \/ In c (stored_sets pend sched)).
Proof.
  induction sched as [|a r IH]; intros cur pend snaps p; [contradiction|].
  cbn [run_abs]. destruct a as [c| |t|t n s]; cbn [abs_step stored_sets].
  - cbn [app]. intros H. apply IH in H as (c' & n & s & -> & Hc). exists c', n, s. split; [reflexivity|].
    destruct Hc as [Hc|[Hc|Hc]]; auto.
  - destruct pend as [c|]; cbn [app]; intros H; apply IH in H as (c' & n & s & -> & Hc);
      exists c', n, s; (split; [reflexivity|]).
    + destruct Hc as [Hc|[Hc|Hc]]; [right; right; left; now symmetry | auto | right; right; now right].
    + destruct Hc as [Hc|[Hc|Hc]]; auto.
  - cbn [app]. intros H. apply IH in H as (c' & n & s & -> & Hc). exists c', n, s. split; [reflexivity|].
    cbn [map snd In] in Hc. destruct Hc as [Hc|[[Hc|Hc]|Hc]]; auto.
  - destruct (snap_get t snaps) as [c|] eqn:G; cbn [app].
    + intros [H|H].
      * exists c, n, s. split; [now symmetry|]. right. left.
        clear -G. induction snaps as [|[u v] snaps IHs]; [discriminate|].
        cbn [snap_get] in G. cbn [map snd In]. destruct (Nat.eqb u t); [inversion G; now left | right; now apply IHs].
      * apply IH in H as (c' & n' & s' & -> & Hc). now exists c', n', s'.
    + intros H. apply IH in H as (c' & n' & s' & -> & Hc). now exists c', n', s'.
Qed.

(* the wrong order - store the value, then build its index - leaves a nil index in the
   store: the handshake below is not answered as its set demands *)
Lemma store_before_build_refuted :
  exists sched, run_fine mk_store_first fstate0 sched <> run_abs astate0 sched.
Proof.
  exists [FBuild [[bs "a.com"%string]; [bs "b.com"%string]]; FStore; FLoad 0; FPick 0 (bs "b.com"%string) false].
  vm_compute. discriminate.
Qed.
Example run_fine_example :
  run_fine mk_built fstate0
    [FBuild [[bs "a.com"%string]; [bs "b.com"%string]]; FStore; FLoad 0;
     FBuild [[bs "b.com"%string]; [bs "a.com"%string]]; FLoad 1; FStore; FLoad 2;
     FPick 0 (bs "b.com"%string) false; FPick 1 (bs "b.com"%string) true; FPick 2 (bs "b.com"%string) true]
  = [PCert 1; PCert 1; PCert 0].
Proof. vm_compute. reflexivity. Qed.

(* ================= loadCertificates ================= *)
Lemma str_cmp_le_trans : forall a b c, str_cmp a b <> Gt -> str_cmp b c <> Gt -> str_cmp a c <> Gt.
Proof.
  induction a as [|x a IH]; intros [|y b] [|z c]; cbn [str_cmp]; intros H1 H2; try congruence.
  destruct (N.compare_spec x y) as [E1|E1|E1]; destruct (N.compare_spec y z) as [E2|E2|E2]; try congruence.
  - subst. rewrite N.compare_refl. eauto.
  - subst. apply N.compare_lt_iff in E2. rewrite E2. discriminate.
  - subst. apply N.compare_lt_iff in E1. rewrite E1. discriminate.
  - assert (H : x < z) by lia. apply N.compare_lt_iff in H. rewrite H. discriminate.
Qed.
Definition file_le (a b : str * cert) : Prop := str_cmp (fst a) (fst b) <> Gt.
Lemma insert_file_in e l x : In x (insert_file e l) <-> x = e \/ In x l.
Proof.
  induction l as [|h t IH]; cbn [insert_file In]; [intuition|].
  destruct (str_ltb (fst h) (fst e)); cbn [In]; rewrite ?IH; intuition.
Qed.
Lemma sort_files_in l x : In x (sort_files l) <-> In x l.
Proof.
  induction l as [|h t IH]; cbn [sort_files fold_right In]; [reflexivity|].
  fold (sort_files t). rewrite insert_file_in, IH. intuition.
Qed.
Lemma insert_file_sorted e l : StronglySorted file_le l -> StronglySorted file_le (insert_file e l).
Proof.
  induction 1 as [|h t Hs IH Hh]; cbn [insert_file]; [repeat constructor|].
  unfold str_ltb. destruct (str_cmp (fst h) (fst e)) eqn:E.
  - constructor; [now constructor|]. constructor.
    + unfold file_le. rewrite str_cmp_antisym, E. discriminate.
    + apply Forall_forall. intros x Hx. rewrite Forall_forall in Hh.
      apply (str_cmp_le_trans _ (fst h)); [rewrite str_cmp_antisym, E; discriminate | now apply Hh].
  - constructor; [exact IH|]. apply Forall_forall. intros x Hx. apply insert_file_in in Hx as [->|Hx].
    + unfold file_le. rewrite E. discriminate.
    + rewrite Forall_forall in Hh. now apply Hh.
  - constructor; [now constructor|]. constructor.
    + unfold file_le. rewrite str_cmp_antisym, E. discriminate.
    + apply Forall_forall. intros x Hx. rewrite Forall_forall in Hh.
      apply (str_cmp_le_trans _ (fst h)); [rewrite str_cmp_antisym, E; discriminate | now apply Hh].
Qed.
Lemma sort_files_sorted l : StronglySorted file_le (sort_files l).
Proof.
  induction l as [|h t IH]; cbn [sort_files fold_right]; [constructor|]. now apply insert_file_sorted.
Qed.

(* the certificates come out in ascending order of their certificate file names ... *)
Lemma load_files_sorted m : StronglySorted file_le (fst (load_files m)).
Proof. unfold load_files. destruct (load_loop _ _ _ _). apply sort_files_sorted. Qed.
(* ... so the first certificate - the default - is the one whose file name is least *)
Lemma load_first_least m f c rest bad :
  load_files m = ((f, c) :: rest, bad) -> forall f' c', In (f', c') rest -> str_cmp f f' <> Gt.
Proof.
  intros H f' c' Hin. pose proof (load_files_sorted m) as S. rewrite H in S. cbn [fst] in S.
  inversion S as [|? ? _ Hall]; subst. rewrite Forall_forall in Hall. exact (Hall _ Hin).
Qed.

(* which pairs are loaded, independently of the loop: *)
Definition usable_pair (m : blocks) (names : list str) (cf : str) (c : cert) : Prop :=
  exists name kf, In name names /\ classify name = Some (cf, kf) /\ key_pair m cf kf = Some c.
Lemma assoc_mem_in {A} k (x : list (str * A)) : assoc_mem k x = true -> exists v, In (k, v) x.
Proof.
  induction x as [|[k' v] x IH]; cbn [assoc_mem]; [discriminate|].
  intros H. apply orb_true_iff in H as [H|H].
  - apply beq_eq in H. subst. exists v. now left.
  - destruct (IH H) as [w Hw]. exists w. now right.
Qed.
Lemma assoc_mem_cons {A} k e (x : list (str * A)) : assoc_mem k x = true -> assoc_mem k (e :: x) = true.
Proof. destruct e. cbn [assoc_mem]. intros ->. apply orb_true_r. Qed.
Lemma load_loop_spec all : forall names x bad x' bad',
  load_loop all names x bad = (x', bad') ->
  (* sound *)
  (forall cf c, In (cf, c) x' -> In (cf, c) x \/ usable_pair all names cf c) /\
  (* nothing is dropped *)
  (forall cf, assoc_mem cf x = true -> assoc_mem cf x' = true) /\
  (* without an error every classified name has its pair in the result *)
  (bad' = false -> bad = false /\
     forall name cf kf, In name names -> classify name = Some (cf, kf) -> assoc_mem cf x' = true) /\
  (* an error is a pair that cannot be made *)
  (bad' = true -> bad = true \/
     exists name cf kf, In name names /\ classify name = Some (cf, kf) /\ key_pair all cf kf = None).
Proof.
  induction names as [|name r IH]; intros x bad x' bad' H; cbn [load_loop] in H.
  - inversion H; subst. split; [|split; [|split]].
    + intros cf c Hin. now left.
    + auto.
    + intros ->. split; [reflexivity|]. intros name cf kf [].
    + intros ->. now left.
  - assert (Lift : forall x0 : list (str * cert),
      (forall cf c, In (cf, c) x' -> In (cf, c) x0 \/ usable_pair all r cf c) ->
      forall cf c, In (cf, c) x' -> In (cf, c) x0 \/ usable_pair all (name :: r) cf c).
    { intros x0 S1 cf c Hin. destruct (S1 cf c Hin) as [Hx|(n & kf & Hn & Hc & Hk)]; [now left|].
      right. exists n, kf. split; [now right|]. split; assumption. }
    assert (Lift4 : forall b0 : bool,
      (bad' = true -> b0 = true \/ exists n cf kf, In n r /\ classify n = Some (cf, kf) /\ key_pair all cf kf = None) ->
      bad' = true -> b0 = true \/ exists n cf kf, In n (name :: r) /\ classify n = Some (cf, kf) /\ key_pair all cf kf = None).
    { intros b0 S4 Hb. destruct (S4 Hb) as [?|(n & cf & kf & Hn & Hc & Hk)]; [now left|].
      right. exists n, cf, kf. split; [now right|]. split; assumption. }
    destruct (classify name) as [[cf0 kf0]|] eqn:C;
      [destruct (assoc_mem cf0 x) eqn:M; [|destruct (key_pair all cf0 kf0) as [c0|] eqn:K]|];
      destruct (IH _ _ _ _ H) as (S1 & S2 & S3 & S4); (split; [|split; [|split]]).
    + now apply Lift.
    + exact S2.
    + intros Hb. destruct (S3 Hb) as [Hb0 Hall]. split; [exact Hb0|].
      intros name' cf kf [<-|Hn] Hc; [|now apply (Hall name' cf kf)].
      rewrite C in Hc. inversion Hc; subst. now apply S2.
    + now apply Lift4.
    + intros cf c Hin. destruct (S1 cf c Hin) as [[E|Hx]|(n & kf & Hn & Hc & Hk)].
      * inversion E; subst. right. exists name, kf0. split; [now left|]. split; assumption.
      * now left.
      * right. exists n, kf. split; [now right|]. split; assumption.
    + intros cf Hm. apply S2. now apply assoc_mem_cons.
    + intros Hb. destruct (S3 Hb) as [Hb0 Hall]. split; [exact Hb0|].
      intros name' cf kf [<-|Hn] Hc; [|now apply (Hall name' cf kf)].
      rewrite C in Hc. inversion Hc; subst. apply S2. cbn [assoc_mem]. now rewrite beq_refl.
    + now apply Lift4.
    + now apply Lift.
    + exact S2.
    + intros Hb. destruct (S3 Hb) as [Hb0 _]. discriminate.
    + intros _. right. exists name, cf0, kf0. split; [now left|]. split; assumption.
    + now apply Lift.
    + exact S2.
    + intros Hb. destruct (S3 Hb) as [Hb0 Hall]. split; [exact Hb0|].
      intros name' cf kf [<-|Hn] Hc; [congruence | now apply (Hall name' cf kf)].
    + now apply Lift4.
Qed.
(* every certificate of the result is a cert/key pair of the source that X509KeyPair accepts *)
Lemma load_files_sound m cf c : In (cf, c) (fst (load_files m)) -> usable_pair m (map fst m) cf c.
Proof.
  unfold load_files. destruct (load_loop m (map fst m) [] false) as [x bad] eqn:E. cbn [fst].
  intros H. apply (proj1 (sort_files_in _ _)) in H. destruct (load_loop_spec _ _ _ _ _ _ E) as (S1 & _).
  destruct (S1 cf c H) as [[]|?]; assumption.
Qed.
(* without an error, every cert, key or combined file of the source has its pair in the result *)
Lemma load_files_complete m name cf kf :
  snd (load_files m) = false -> In name (map fst m) -> classify name = Some (cf, kf) ->
  exists c, In (cf, c) (fst (load_files m)).
Proof.
  unfold load_files. destruct (load_loop m (map fst m) [] false) as [x bad] eqn:E. cbn [fst snd].
  intros Hb Hn Hc. destruct (load_loop_spec _ _ _ _ _ _ E) as (_ & _ & S3 & _).
  destruct (S3 Hb) as [_ S]. apply (S name cf kf Hn) in Hc. apply assoc_mem_in in Hc as [c Hin].
  exists c. now apply sort_files_in.
Qed.
(* an error means some pair of the source is incomplete or unusable *)
Lemma load_files_error m :
  snd (load_files m) = true ->
  exists name cf kf, In name (map fst m) /\ classify name = Some (cf, kf) /\ key_pair m cf kf = None.
Proof.
  unfold load_files. destruct (load_loop m (map fst m) [] false) as [x bad] eqn:E. cbn [snd].
  intros Hb. destruct (load_loop_spec _ _ _ _ _ _ E) as (_ & _ & _ & S4).
  destruct (S4 Hb) as [?|?]; [discriminate | assumption].
Qed.
(* a source without certificate files loads as nothing, without an error *)
Lemma load_no_pem_files m :
  (forall name, In name (map fst m) -> classify name = None) -> load_certificates m = ([], false).
Proof.
  intros H. unfold load_certificates, load_files.
  assert (G : forall names x bad, (forall n, In n names -> classify n = None) -> load_loop m names x bad = (x, bad)).
  { induction names as [|n r IH]; intros x bad Hn; [reflexivity|]. cbn [load_loop].
    rewrite (Hn n (or_introl eq_refl)). apply IH. intros n' Hn'. apply Hn. now right. }
  rewrite (G _ _ _ H). reflexivity.
Qed.

Definition pf (id : N) (c : option (N * cert)) (k : option N) : pfile := {| f_id := id; f_cert := c; f_key := k |}.
Example load_example :
  load_certificates
    [(bs "b-key.pem", pf 1 None (Some 7)); (bs "z.pem", pf 2 (Some (9, [bs "z.com"])) (Some 9));
     (bs "b-cert.pem", pf 3 (Some (7, [bs "b.com"])) None); (bs "README", pf 4 None None);
     (bs "a-cert.pem", pf 5 (Some (7, [bs "a.com"])) None); (bs "a-key.pem", pf 1 None (Some 7))]
  = ([[bs "a.com"]; [bs "b.com"]; [bs "z.com"]], false)
  /\ load_certificates [(bs "a-key.pem", pf 1 None (Some 7))] = ([], true)
  /\ load_certificates [(bs "README", pf 4 None None)] = ([], false)
  /\ load_certificates [] = ([], false).
Proof. vm_compute. repeat split. Qed.

(* ================= the reload loop ================= *)
Lemma cert_eqb_eq a b : cert_eqb a b = true <-> a = b.
Proof. apply list_eqb_eq. apply beq_eq. Qed.
Lemma pfile_eqb_eq a b : pfile_eqb a b = true <-> a = b.
Proof.
  unfold pfile_eqb. destruct a as [ia ca ka], b as [ib cb kb]. cbn [f_id f_cert f_key].
  rewrite !andb_true_iff, N.eqb_eq.
  rewrite (opt_eqb_eq _ N.eqb_eq).
  rewrite (opt_eqb_eq (fun x y : N * cert => (fst x =? fst y) && cert_eqb (snd x) (snd y))).
  - split; [intros [[-> ->] ->]; reflexivity | intros H; inversion H; auto].
  - intros [x1 x2] [y1 y2]. cbn [fst snd]. rewrite andb_true_iff, N.eqb_eq, cert_eqb_eq.
    split; [intros [-> ->]; reflexivity | intros H; inversion H; auto].
Qed.
Lemma blocks_eqb_eq a b : blocks_eqb a b = true <-> a = b.
Proof.
  apply list_eqb_eq. intros [n1 f1] [n2 f2]. cbn [fst snd].
  rewrite andb_true_iff, beq_eq, pfile_eqb_eq. split; [intros [-> ->]; reflexivity | intros H; inversion H; auto].
Qed.
Lemma same_blocks_eq a b : same_blocks a b = true <-> a = b.
Proof. apply opt_eqb_eq. apply blocks_eqb_eq. Qed.

(* a load the loop can use: no error, a certificate build without an error, at least one
   certificate.  Nothing here mentions [last], the comparison or the sleeps *)
Definition usable (l : load) : option certset :=
  match l with
  | LoadErr => None
  | Loaded next => match built next with
                   | (c :: r, false) => Some (c :: r)
                   | _ => None
                   end
  end.

(* every publication is of a usable load whose blocks differ from the last published ones;
   anything else publishes nothing, leaves the loop's memory alone and sleeps *)
Lemma watch_step_publish once last l ev last' stop :
  watch_step once last l = (ev, last', stop) ->
  (forall set, In (EPublish set) ev ->
     exists next, l = Loaded next /\ same_blocks next last = false /\ usable l = Some set /\ last' = next) /\
  ((forall set, ~ In (EPublish set) ev) -> last' = last /\ stop = false /\ ev = [ESleep]).
Proof.
  unfold watch_step. destruct l as [|next].
  - intros H. inversion H; subst. split; [intros set [X|[]]; discriminate | auto].
  - destruct (same_blocks next last) eqn:E.
    + intros H. inversion H; subst. split; [intros set [X|[]]; discriminate | auto].
    + unfold usable. destruct (built next) as [[|c r] [|]]; intros H; inversion H; subst;
        try (split; [intros set [X|[]]; discriminate | auto]).
      split.
      * intros set [X|[]]. inversion X; subst. exists last'. auto.
      * intros Hno. exfalso. apply (Hno (c :: r)). now left.
Qed.

(* no spinning: in the trace of any script, two loads are always separated by a sleep
   or a publication *)
Fixpoint no_adjacent_loads (tr : list event) : bool :=
  match tr with
  | ELoad :: ((ELoad :: _) as r) => false
  | _ :: r => no_adjacent_loads r
  | [] => true
  end.
Lemma watch_step_one_event once last l ev last' stop :
  watch_step once last l = (ev, last', stop) -> exists e, ev = [e] /\ e <> ELoad.
Proof.
  unfold watch_step. destruct l as [|next].
  - intros H. inversion H; subst. exists ESleep. split; [reflexivity | discriminate].
  - destruct (same_blocks next last).
    + intros H. inversion H; subst. exists ESleep. split; [reflexivity | discriminate].
    + destruct (built next) as [[|c r] [|]]; intros H; inversion H; subst;
        try (exists ESleep; split; [reflexivity | discriminate]).
      exists (EPublish (c :: r)). split; [reflexivity | discriminate].
Qed.
Lemma watch_no_spin once : forall script last,
  no_adjacent_loads (watch_run watch_step once last script) = true.
Proof.
  unfold watch_run.
  induction script as [|l r IH]; intros last; [reflexivity|].
  cbn [watch_iters]. destruct (watch_step once last l) as [[ev last'] stop] eqn:E.
  apply watch_step_one_event in E as (e & -> & He).
  cbn [flat_map app].
  destruct e; [congruence | |]; cbn [no_adjacent_loads];
    (destruct stop; [reflexivity | apply IH]).
Qed.

Definition good_a : blocks :=
  [(bs "a-cert.pem", pf 1 (Some (7, [bs "a.example"])) None); (bs "a-key.pem", pf 2 None (Some 7))].
Definition orphan_key : blocks := [(bs "zz-key.pem", pf 2 None (Some 7))].

(* the loop as it was before 2594210: a bad load is followed by the next load with nothing
   in between *)
Lemma watch_spinning_refuted :
  exists script, no_adjacent_loads (watch_run watch_step_spinning false None script) = false.
Proof. exists [Loaded (Some orphan_key); Loaded (Some orphan_key)]. vm_compute. reflexivity. Qed.

(* ---- what is published ---- *)
Definition pubs (tr : list event) : list certset :=
  flat_map (fun e => match e with EPublish s => [s] | _ => [] end) tr.

(* ================= watch loop and store together ================= *)
(* spec: the certificates of the last usable load of the history ([cur] if there is none).
   A plain fold over the history: no [last], no comparison of blocks, no sleeps *)
Fixpoint last_good (cur : certset) (script : list load) : certset :=
  match script with
  | [] => cur
  | l :: r => last_good (match usable l with Some s => s | None => cur end) r
  end.
(* the loop's memory and the store agree: what the loop remembers as published is what the
   store holds *)
Definition linked (last : option blocks) (cur : certset) : Prop :=
  match last with Some m => usable (Loaded (Some m)) = Some cur | None => True end.

Lemma watch_step_store last cur l ev last' stop :
  linked last cur -> watch_step false last l = (ev, last', stop) ->
  stop = false /\ linked last' (match usable l with Some s => s | None => cur end) /\
  forall rest, run_store cur (store_actions ev ++ rest) =
               run_store (match usable l with Some s => s | None => cur end) rest.
Proof.
  intros Hl. unfold watch_step. destruct l as [|next].
  - intros H. inversion H; subst. cbn [usable]. auto.
  - destruct (same_blocks next last) eqn:E.
    + apply same_blocks_eq in E. subst next. intros H. inversion H; subst.
      destruct last' as [m|].
      * cbn [linked] in Hl. rewrite Hl. auto.
      * assert (U : usable (Loaded None) = None) by (vm_compute; reflexivity). rewrite U. auto.
    + unfold usable. destruct (built next) as [[|c r] [|]] eqn:B; intros H; inversion H; subst; auto.
      split; [reflexivity|]. split; [|reflexivity].
      destruct last' as [m|]; [|exact I]. cbn [linked]. unfold usable. now rewrite B.
Qed.

(* after every prefix of every load history, a handshake is answered from the certificates
   of the last usable load of that prefix (periodic sources) *)
Lemma e2e_periodic : forall script last cur n s,
  linked last cur ->
  run_store cur (e2e_actions watch_step false last script n s) =
  map (fun k => store_pick (last_good cur (firstn (S k) script)) n s) (seq 0 (length script)).
Proof.
  unfold e2e_actions.
  induction script as [|l r IH]; intros last cur n s Hl; [reflexivity|].
  cbn [watch_iters]. destruct (watch_step false last l) as [[ev last'] stop] eqn:E.
  destruct (watch_step_store _ _ _ _ _ _ Hl E) as (-> & Hl' & Hrun).
  cbn [flat_map]. rewrite <- app_assoc, Hrun. cbn [app run_store].
  cbn [length seq map firstn last_good]. f_equal.
  set (cur' := match usable l with Some s0 => s0 | None => cur end) in *.
  etransitivity; [exact (IH last' cur' n s Hl')|].
  rewrite <- seq_shift, map_map. reflexivity.
Qed.

(* one-shot sources (refresh <= 0): the loop is the periodic loop cut after the first usable load *)
Fixpoint upto_first_good (script : list load) : list load :=
  match script with
  | [] => []
  | l :: r => match usable l with Some _ => [l] | None => l :: upto_first_good r end
  end.
Lemma once_truncates : forall script,
  watch_iters watch_step true None script = watch_iters watch_step false None (upto_first_good script).
Proof.
  induction script as [|l r IH]; [reflexivity|].
  cbn [upto_first_good].
  destruct l as [|next].
  - cbn [usable watch_iters watch_step]. now rewrite IH.
  - destruct next as [m|].
    + assert (S : same_blocks (Some m) None = false) by reflexivity.
      unfold usable. cbn [watch_iters]. unfold watch_step at 1. rewrite S.
      destruct (built (Some m)) as [[|c r'] [|]] eqn:B.
      * cbn [watch_iters]. unfold watch_step at 2. rewrite S, B. now rewrite IH.
      * cbn [watch_iters]. unfold watch_step at 2. rewrite S, B. now rewrite IH.
      * cbn [watch_iters]. unfold watch_step at 2. rewrite S, B. now rewrite IH.
      * cbn [watch_iters]. unfold watch_step. rewrite S, B. reflexivity.
    + assert (U : usable (Loaded None) = None) by (vm_compute; reflexivity). rewrite U.
      cbn [watch_iters]. assert (W : forall o, watch_step o None (Loaded None) = ([ESleep], None, false)) by (intros o; reflexivity).
      rewrite !W. now rewrite IH.
Qed.
Lemma watch_run_once script :
  watch_run watch_step true None script = watch_run watch_step false None (upto_first_good script).
Proof. unfold watch_run. now rewrite once_truncates. Qed.
Lemma e2e_once script cur n s :
  run_store cur (e2e_actions watch_step true None script n s) =
  map (fun k => store_pick (last_good cur (firstn (S k) (upto_first_good script))) n s)
      (seq 0 (length (upto_first_good script))).
Proof. unfold e2e_actions. rewrite once_truncates. now apply (e2e_periodic _ None cur n s). Qed.

(* what is published = the usable loads that differ from the last published blocks, in order *)
Fixpoint published (last : option blocks) (script : list load) : list certset :=
  match script with
  | [] => []
  | l :: r =>
      match l, usable l with
      | Loaded next, Some set => if same_blocks next last then published last r else set :: published next r
      | _, _ => published last r
      end
  end.
Lemma watch_publishes : forall script last,
  pubs (watch_run watch_step false last script) = published last script.
Proof.
  unfold watch_run.
  induction script as [|l r IH]; intros last; [reflexivity|].
  cbn [watch_iters published]. destruct l as [|next].
  - cbn [watch_step flat_map app pubs usable]. apply IH.
  - unfold watch_step, usable. destruct (same_blocks next last).
    + destruct (built next) as [[|c r'] [|]]; cbn [flat_map app pubs]; apply IH.
    + destruct (built next) as [[|c r'] [|]]; cbn [flat_map app pubs]; try apply IH.
      f_equal. apply IH.
Qed.

(* the working set is never removed: an unusable load changes nothing, and once a usable
   load has happened no handshake is left without certificates *)
Lemma last_good_app cur a b : last_good cur (a ++ b) = last_good (last_good cur a) b.
Proof. revert cur; induction a as [|l a IH]; intros cur; [reflexivity|]. cbn [app last_good]. apply IH. Qed.
Lemma unusable_keeps_set cur script l :
  usable l = None -> last_good cur (script ++ [l]) = last_good cur script.
Proof. intros H. rewrite last_good_app. cbn [last_good]. now rewrite H. Qed.
Lemma usable_nonempty l set : usable l = Some set -> set <> [].
Proof.
  destruct l as [|next]; [discriminate|]. unfold usable.
  destruct (built next) as [[|c r] [|]]; try discriminate. intros H. inversion H. discriminate.
Qed.
Lemma last_good_nonempty : forall script cur,
  (cur <> [] \/ exists l, In l script /\ usable l <> None) -> last_good cur script <> [].
Proof.
  induction script as [|l r IH]; intros cur H; cbn [last_good].
  - destruct H as [H|(l & [] & _)]. exact H.
  - apply IH. destruct (usable l) as [set|] eqn:U.
    + left. now apply usable_nonempty in U.
    + destruct H as [H|(l' & [<-|Hin] & Hu)]; [now left | congruence | right; now exists l'].
Qed.
Lemma nth_error_firstn_in {A} : forall (l : list A) j k x,
  nth_error l j = Some x -> (j < k)%nat -> In x (firstn k l).
Proof.
  induction l as [|a l IH]; intros [|j] [|k] x H Hk; cbn [nth_error firstn In] in *; try discriminate; try lia.
  - inversion H. now left.
  - right. apply (IH j); [exact H | lia].
Qed.
Lemma working_set_never_removed script cur n s k :
  (exists j, (j <= k)%nat /\ exists l, nth_error script j = Some l /\ usable l <> None) ->
  (k < length script)%nat ->
  nth k (run_store cur (e2e_actions watch_step false None script n s)) PNone <> PErrNoCerts.
Proof.
  intros (j & Hj & l & Hl & Hu) Hk.
  rewrite (e2e_periodic script None cur n s I).
  rewrite (nth_indep _ PNone (store_pick (last_good cur (firstn (S 0) script)) n s))
    by (now rewrite map_length, seq_length).
  rewrite (map_nth (fun k => store_pick (last_good cur (firstn (S k) script)) n s)).
  rewrite seq_nth by exact Hk. cbn [Nat.add].
  apply store_pick_nonempty. apply last_good_nonempty. right. exists l. split; [|exact Hu].
  apply (nth_error_firstn_in _ j); [exact Hl | lia].
Qed.

(* the loop as it was before 887d762: a source that has nothing for a moment (the files
   are being replaced; only a README is left) takes the working set away *)
Lemma empty_load_unpublishes_refuted :
  exists script n s,
    usable (nth 0 script LoadErr) <> None /\
    run_store [] (e2e_actions watch_step_unrepaired false None script n s) = [PCert 0; PErrNoCerts; PErrNoCerts] /\
    run_store [] (e2e_actions watch_step false None script n s) = [PCert 0; PCert 0; PCert 0].
Proof.
  exists [Loaded (Some good_a); Loaded (Some []); Loaded (Some [(bs "README", pf 9 None None)])],
         (bs "a.example"), true.
  split; [vm_compute; discriminate|]. split; vm_compute; reflexivity.
Qed.

Example e2e_example :
  let script := [Loaded (Some orphan_key); Loaded (Some good_a); LoadErr; Loaded (Some []); Loaded (Some good_a)] in
  run_store [] (e2e_actions watch_step false None script (bs "A.example.") true)
    = [PErrNoCerts; PCert 0; PCert 0; PCert 0; PCert 0]
  /\ watch_run watch_step false None script
    = [ELoad; ESleep; ELoad; EPublish [[bs "a.example"]]; ELoad; ESleep; ELoad; ESleep; ELoad; ESleep]
  /\ watch_run watch_step true None script = [ELoad; ESleep; ELoad; EPublish [[bs "a.example"]]].
Proof. vm_compute. repeat split. Qed.

(* what the property says, for the code: *)
Lemma store_pick_presents certs sn strict :
  certs <> [] -> (strict = true \/ 2 <= length certs)%nat ->
  presents (folded certs) strict (normalize sn) (store_pick certs sn strict).
Proof. intros H1 H2. now apply selects_presents, get_cert_spec. Qed.
Lemma e2e_periodic_from_start script n s :
  run_store [] (e2e_actions watch_step false None script n s) =
  map (fun k => store_pick (last_good [] (firstn (S k) script)) n s) (seq 0 (length script)).
Proof. now apply e2e_periodic. Qed.

(* ================= an unusable entry makes the whole snapshot unusable ================= *)
(* the key file that goes with a certificate file: determined by the certificate file's name
   alone, whichever of the two (or the combined file) the loop came across first *)
Definition key_file_of (cf : str) : str :=
  if has_suffix cf s_cert then replace_suffix cf s_cert s_key else cf.
Lemma replace_suffix_app r old new : replace_suffix (r ++ old) old new = r ++ new.
Proof.
  unfold replace_suffix. rewrite app_length.
  replace (length r + length old - length old)%nat with (length r + 0)%nat by lia.
  rewrite firstn_app_2. cbn [firstn]. now rewrite app_nil_r.
Qed.
Lemma classify_key name cf kf : classify name = Some (cf, kf) -> kf = key_file_of cf.
Proof.
  unfold classify, key_file_of.
  destruct (has_suffix name s_cert) eqn:E1.
  - intros H. inversion H; subst. now rewrite E1.
  - destruct (has_suffix name s_key) eqn:E2.
    + intros H. inversion H; subst. apply has_suffix_spec in E2 as [r ->].
      rewrite replace_suffix_app.
      assert (S : has_suffix (r ++ s_cert) s_cert = true) by (apply has_suffix_spec; now exists r).
      rewrite S. now rewrite replace_suffix_app.
    + destruct (has_suffix name s_pem); [|discriminate].
      intros H. inversion H; subst. now rewrite E1.
Qed.
(* the converse of [load_files_error]: one certificate, key or combined file of the snapshot
   whose pair cannot be made (missing, empty, unparsable, mismatched) fails the whole load -
   it is never loaded as the smaller set of the pairs that can be made *)
Lemma unusable_entry_fails_load m name cf kf :
  In name (map fst m) -> classify name = Some (cf, kf) -> key_pair m cf kf = None ->
  snd (load_files m) = true.
Proof.
  intros Hn Hc Hk. destruct (snd (load_files m)) eqn:E; [reflexivity|]. exfalso.
  destruct (load_files_complete m name cf kf E Hn Hc) as [c Hin].
  apply load_files_sound in Hin as (name' & kf' & _ & Hc' & Hk').
  apply classify_key in Hc. apply classify_key in Hc'. subst kf kf'. congruence.
Qed.
Lemma load_error_unusable m : snd (load_files m) = true -> usable (Loaded (Some m)) = None.
Proof.
  unfold usable, built, load_certificates. destruct (load_files m) as [x bad]. cbn [snd].
  intros ->. now destruct (map snd x).
Qed.
(* a block without a certificate (an empty or whitespace-only file, a file being rewritten)
   where a certificate is expected, or without a private key where a key is expected *)
Lemma no_cert_no_pair m cf kf f : blocks_find m cf = Some f -> f_cert f = None -> key_pair m cf kf = None.
Proof.
  intros Hf Hc. unfold key_pair. rewrite Hf. destruct (blocks_find m kf); [|reflexivity]. now rewrite Hc.
Qed.
Lemma no_key_no_pair m cf kf f : blocks_find m kf = Some f -> f_key f = None -> key_pair m cf kf = None.
Proof.
  intros Hf Hk. unfold key_pair. rewrite Hf. destruct (blocks_find m cf) as [c|]; [|reflexivity].
  rewrite Hk. now destruct (f_cert c) as [[? ?]|].
Qed.
Lemma unusable_entry_keeps_set cur script m name cf kf :
  In name (map fst m) -> classify name = Some (cf, kf) -> key_pair m cf kf = None ->
  last_good cur (script ++ [Loaded (Some m)]) = last_good cur script.
Proof.
  intros Hn Hc Hk. apply unusable_keeps_set, load_error_unusable.
  now apply (unusable_entry_fails_load m name cf kf).
Qed.
(* ... and the handshake after such a snapshot is answered as the one before it was *)
Lemma unusable_entry_handshake script m name cf kf n s :
  In name (map fst m) -> classify name = Some (cf, kf) -> key_pair m cf kf = None ->
  nth (length script) (run_store [] (e2e_actions watch_step false None (script ++ [Loaded (Some m)]) n s)) PNone
  = store_pick (last_good [] script) n s.
Proof.
  intros Hn Hc Hk. rewrite e2e_periodic_from_start.
  assert (L : (length script < length (script ++ [Loaded (Some m)]))%nat) by (rewrite app_length; cbn; lia).
  rewrite (nth_indep _ PNone (store_pick (last_good [] (firstn (S 0) (script ++ [Loaded (Some m)]))) n s))
    by (now rewrite map_length, seq_length).
  rewrite (map_nth (fun k => store_pick (last_good [] (firstn (S k) (script ++ [Loaded (Some m)]))) n s)).
  rewrite seq_nth by exact L. cbn [Nat.add].
  rewrite firstn_all2 by (rewrite app_length; cbn; lia).
  now rewrite (unusable_entry_keeps_set [] script m name cf kf).
Qed.
Definition good_b_cert : str * pfile := (bs "b-cert.pem", pf 3 (Some (7, [bs "b.example"])) None).
Definition good_ab : blocks := good_a ++ [good_b_cert; (bs "b-key.pem", pf 2 None (Some 7))].
(* b-key.pem is there but empty (id 0: other bytes than before, no key in them) *)
Definition ab_key_emptied : blocks := good_a ++ [good_b_cert; (bs "b-key.pem", pf 0 None None)].
Example unusable_entry_example :
  In (bs "b-key.pem") (map fst ab_key_emptied) /\
  classify (bs "b-key.pem") = Some (bs "b-cert.pem", bs "b-key.pem") /\
  key_pair ab_key_emptied (bs "b-cert.pem") (bs "b-key.pem") = None /\
  load_certificates ab_key_emptied = ([[bs "a.example"]], true) /\
  run_store [] (e2e_actions watch_step false None
                  [Loaded (Some good_ab); Loaded (Some ab_key_emptied); Loaded (Some ab_key_emptied); Loaded (Some good_ab)]
                  (bs "b.example") true)
  = [PCert 1; PCert 1; PCert 1; PCert 1].
Proof. vm_compute. repeat split. right; right; right; now left. Qed.

(* ================= the whole certificate value: leaf, chain, staple ================= *)
Lemma present_on_pick set n s : pick_of (present_on set n s) = store_pick (names_of set) n s.
Proof.
  unfold present_on. destruct (store_pick (names_of set) n s) as [i| |]; try reflexivity.
  now destruct (nth_error set i).
Qed.
(* the name-level store of the theorems above is the projection of this one *)
Lemma run_mstore_projects : forall sched cur,
  map pick_of (run_mstore cur sched) = run_store (names_of cur) (map strip_material sched).
Proof.
  induction sched as [|a r IH]; intros cur; [reflexivity|].
  destruct a as [c|n s]; cbn [run_mstore map strip_material run_store]; [apply IH|].
  now rewrite present_on_pick, IH.
Qed.
(* what is presented is an element of the set, complete: the one at the selected position *)
Lemma present_on_member set n s i c :
  present_on set n s = RCert i c -> nth_error set i = Some c /\ store_pick (names_of set) n s = PCert i.
Proof.
  unfold present_on. destruct (store_pick (names_of set) n s) as [j| |]; try discriminate.
  destruct (nth_error set j) as [d|] eqn:E; [|discriminate]. intros H. inversion H; subst. auto.
Qed.
Lemma present_on_inside set n s i : present_on set n s <> ROutside i.
Proof.
  unfold present_on. destruct (store_pick (names_of set) n s) as [j| |] eqn:P; try discriminate.
  apply pick_in_set in P. unfold names_of in P. rewrite map_length in P.
  destruct (nth_error set j) eqn:E; [discriminate|]. apply nth_error_None in E. lia.
Qed.
Definition is_handshake (a : maction) : Prop := match a with MHandshake _ _ => True | MPublish _ => False end.
Lemma run_mstore_app : forall a cur b,
  Forall is_handshake a -> run_mstore cur (a ++ b) = run_mstore cur a ++ run_mstore cur b.
Proof.
  induction a as [|x a IH]; intros cur b H; [reflexivity|].
  inversion H as [|? ? Hx Ha]; subst. destruct x as [c|n s]; [contradiction|].
  cbn [app run_mstore]. now rewrite IH.
Qed.
(* every handshake is answered from the set of the last publication before it, whatever was
   in the store before and whatever that set has in common with it: the answers before the
   publication are a function of the schedule before it, those after it of the new set *)
Lemma run_mstore_publish : forall pre cur set rest,
  run_mstore cur (pre ++ MPublish set :: rest) = run_mstore cur pre ++ run_mstore set rest.
Proof.
  induction pre as [|x pre IH]; intros cur set rest; [reflexivity|].
  destruct x as [c|n s]; cbn [app run_mstore]; [apply IH|]. now rewrite IH.
Qed.
Lemma handshake_after_publication pre cur set mid n s post :
  Forall is_handshake mid ->
  run_mstore cur (pre ++ MPublish set :: mid ++ MHandshake n s :: post) =
  run_mstore cur pre ++ run_mstore set mid ++ present_on set n s :: run_mstore set post.
Proof. intros H. rewrite run_mstore_publish. f_equal. now rewrite run_mstore_app. Qed.
(* the same leaf republished with another chain: the next handshake is given the new chain *)
Definition shop_old : fcert := {| fc_names := [bs "shop.test"]; fc_leaf := 1; fc_rest := 10 |}.
Definition shop_new : fcert := {| fc_names := [bs "shop.test"]; fc_leaf := 1; fc_rest := 11 |}.
Definition api_cert : fcert := {| fc_names := [bs "api.test"]; fc_leaf := 2; fc_rest := 10 |}.
Example republished_chain_example :
  run_mstore [] [MHandshake (bs "shop.test") true;
                 MPublish [api_cert; shop_old]; MHandshake (bs "shop.test") true;
                 MPublish [api_cert; shop_new]; MHandshake (bs "Shop.test.") true; MHandshake (bs "x.test") true;
                 MHandshake (bs "x.test") false]
  = [RErrNoCerts; RCert 1 shop_old; RCert 1 shop_new; RNone; RCert 0 api_cert]
  /\ Forall is_handshake [MHandshake (bs "x.test") true]
  /\ fc_leaf shop_old = fc_leaf shop_new /\ fc_rest shop_old <> fc_rest shop_new.
Proof. split; [vm_compute; reflexivity|]. split; [repeat constructor|]. split; [reflexivity | discriminate]. Qed.
