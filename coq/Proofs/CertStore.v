From Coq Require Import String List NArith Bool Lia Arith.
From Fabio Require Import Lib.Outcome Lib.Bytes Model.CertStore.
Import ListNotations.
Local Open Scope N_scope.

(* ================= specification, written without reference to the index ================= *)
Definition has_name (certs : list cert) (i : nat) (n : str) : Prop :=
  exists c, nth_error certs i = Some c /\ In n c.
(* the certificate of the set that carries name n; when several do, the one loaded last *)
Definition last_with (certs : list cert) (i : nat) (n : str) : Prop :=
  has_name certs i n /\ forall j, (i < j)%nat -> ~ has_name certs j n.
Definition none_with (certs : list cert) (n : str) : Prop := forall i, ~ has_name certs i n.

(* [name] is the requested server name, lower-cased and without trailing dots *)
Inductive selects (certs : list cert) (strict : bool) (name : str) : pick -> Prop :=
| sel_exact i :
    last_with certs i name -> selects certs strict name (PCert i)
| sel_wild k i :
    none_with certs name ->
    (k < length (split_byte name 46))%nat ->
    (forall k', (k' < k)%nat -> none_with certs (candidate (split_byte name 46) k')) ->
    last_with certs i (candidate (split_byte name 46) k) ->
    selects certs strict name (PCert i)
| sel_default :
    none_with certs name ->
    (forall k, (k < length (split_byte name 46))%nat -> none_with certs (candidate (split_byte name 46) k)) ->
    selects certs strict name (if strict then PNone else PCert 0).

(* ================= the index ================= *)
Lemma lookup_last_app a b n :
  lookup_last (a ++ b) n = match lookup_last b n with Some w => Some w | None => lookup_last a n end.
Proof.
  induction a as [|[k v] a IH]; cbn [app lookup_last]; [now destruct (lookup_last b n)|].
  rewrite IH. destruct (lookup_last b n); reflexivity.
Qed.

Definition mem (n : str) (c : cert) : bool := existsb (fun m => beq m n) c.
Lemma mem_In n c : mem n c = true <-> In n c.
Proof.
  unfold mem. rewrite existsb_exists. split.
  - intros (m & Hm & E). apply beq_eq in E. now subst.
  - intros H. exists n. split; [exact H | apply beq_refl].
Qed.

Lemma lookup_last_cert c i n :
  lookup_last (map (fun m => (m, i)) c) n = if mem n c then Some i else None.
Proof.
  induction c as [|m c IH]; [reflexivity|].
  cbn [map lookup_last]. rewrite IH. unfold mem. cbn [existsb]. fold (mem n c).
  destruct (mem n c); [now rewrite orb_true_r|]. rewrite orb_false_r. reflexivity.
Qed.

Fixpoint last_idx (certs : list cert) (n : str) : option nat :=
  match certs with
  | [] => None
  | c :: r => match last_idx r n with
              | Some w => Some (S w)
              | None => if mem n c then Some O else None
              end
  end.

(* the set as the index sees it: every certificate name lower-cased (DNS names compare
   case-insensitively) *)
Definition folded (certs : list cert) : list cert := map (map lower) certs.
Lemma folded_length certs : length (folded certs) = length certs.
Proof. apply map_length. Qed.

Lemma lookup_build_from certs : forall i n,
  lookup_last (build_from i certs) n = option_map (Nat.add i) (last_idx (folded certs) n).
Proof.
  induction certs as [|c r IH]; intros i n; [reflexivity|].
  cbn [build_from folded map last_idx]. fold (folded r).
  replace (map (fun m => (lower m, i)) c) with (map (fun m => (m, i)) (map lower c)) by (now rewrite map_map).
  rewrite lookup_last_app, IH, lookup_last_cert.
  destruct (last_idx (folded r) n) as [w|]; cbn [option_map]; [f_equal; lia|].
  destruct (mem n (map lower c)); cbn [option_map]; [f_equal; lia | reflexivity].
Qed.
Lemma lookup_build certs n : lookup_last (build_index certs) n = last_idx (folded certs) n.
Proof. unfold build_index. rewrite lookup_build_from. now destruct (last_idx (folded certs) n). Qed.

Lemma last_idx_none certs n : last_idx certs n = None <-> none_with certs n.
Proof.
  induction certs as [|c r IH]; cbn [last_idx].
  - split; [|reflexivity]. intros _ i (c & H & _). now destruct i.
  - destruct (last_idx r n) as [w|] eqn:E.
    + split; [discriminate|]. intros H. exfalso.
      assert (Hn : ~ none_with r n) by (intros X; apply IH in X; discriminate).
      apply Hn. intros i (c' & Hc & Hin). apply (H (S i)). now exists c'.
    + destruct (mem n c) eqn:M.
      * split; [discriminate|]. intros H. exfalso. apply (H O). exists c. split; [reflexivity | now apply mem_In].
      * split; [|reflexivity]. intros _ [|i] (c' & Hc & Hin).
        -- cbn in Hc. inversion Hc; subst. apply mem_In in Hin. congruence.
        -- apply (proj1 IH eq_refl i). now exists c'.
Qed.

Lemma last_idx_some certs n i : last_idx certs n = Some i -> last_with certs i n.
Proof.
  revert i; induction certs as [|c r IH]; intros i; cbn [last_idx]; [discriminate|].
  destruct (last_idx r n) as [w|] eqn:E.
  - intros H. inversion H; subst. destruct (IH w eq_refl) as ((c' & Hc & Hin) & Hmax).
    split; [now exists c'|]. intros [|j] Hj; [lia|].
    intros (c'' & Hc'' & Hin''). apply (Hmax j); [lia | now exists c''].
  - destruct (mem n c) eqn:M; [|discriminate]. intros H. inversion H; subst.
    split; [exists c; split; [reflexivity | now apply mem_In]|].
    intros [|j] Hj; [lia|]. intros (c'' & Hc'' & Hin'').
    apply (proj1 (last_idx_none r n) E j). now exists c''.
Qed.

Lemma last_idx_lt certs n i : last_idx certs n = Some i -> (i < length certs)%nat.
Proof.
  intros H. apply last_idx_some in H as ((c & Hc & _) & _). apply nth_error_Some. congruence.
Qed.

(* ================= the candidate scan ================= *)
Lemma first_hit_seq ix (f : nat -> str) : forall len s,
  match first_hit ix (map f (seq s len)) with
  | Some i => exists k, (s <= k < s + len)%nat /\ lookup_last ix (f k) = Some i /\
                        forall k', (s <= k' < k)%nat -> lookup_last ix (f k') = None
  | None => forall k, (s <= k < s + len)%nat -> lookup_last ix (f k) = None
  end.
Proof.
  induction len as [|len IH]; intros s; cbn [seq map first_hit]; [intros k Hk; lia|].
  destruct (lookup_last ix (f s)) as [i|] eqn:E.
  - exists s. split; [lia|]. split; [exact E|]. intros k' Hk'. lia.
  - specialize (IH (S s)). destruct (first_hit ix (map f (seq (S s) len))) as [i|].
    + destruct IH as (k & Hk & Hl & Hmin). exists k. split; [lia|]. split; [exact Hl|].
      intros k' Hk'. destruct (Nat.eq_dec k' s) as [->|Hne]; [exact E | apply Hmin; lia].
    + intros k Hk. destruct (Nat.eq_dec k s) as [->|Hne]; [exact E | apply IH; lia].
Qed.

(* ================= getCertificate meets the specification ================= *)
Lemma get_cert_spec certs sn strict :
  certs <> [] -> (strict = true \/ 2 <= length certs)%nat ->
  selects (folded certs) strict (normalize sn) (store_pick certs sn strict).
Proof.
  intros Hne Hdom. unfold store_pick, get_certificate.
  destruct certs as [|c0 rest]; [contradiction|]. set (certs := c0 :: rest) in *.
  assert (Hshort : negb strict && (Nat.eqb (length certs) 1 || false) = false).
  { destruct Hdom as [->|H]; [reflexivity|].
    destruct strict; [reflexivity|]. cbn [negb andb]. rewrite orb_false_r. apply Nat.eqb_neq. lia. }
  rewrite Hshort. rewrite lookup_build.
  set (name := normalize sn).
  destruct (last_idx (folded certs) name) as [i|] eqn:E.
  - apply sel_exact. now apply last_idx_some.
  - apply last_idx_none in E.
    unfold candidates. set (labels := split_byte name 46).
    pose proof (first_hit_seq (build_index certs) (candidate labels) (length labels) 0) as H.
    destruct (first_hit (build_index certs) (map (candidate labels) (seq 0 (length labels)))) as [i|].
    + destruct H as (k & Hk & Hl & Hmin). rewrite lookup_build in Hl.
      apply (sel_wild (folded certs) strict name k i); [exact E | fold labels; lia | | fold labels; now apply last_idx_some].
      intros k' Hk'. fold labels. apply last_idx_none. rewrite <- lookup_build. apply Hmin. lia.
    + apply sel_default; [exact E|]. intros k Hk. fold labels. apply last_idx_none.
      rewrite <- lookup_build. apply H. fold labels in Hk. lia.
Qed.

(* the answer is never outside the set *)
Lemma pick_in_set certs sn strict i : store_pick certs sn strict = PCert i -> (i < length certs)%nat.
Proof.
  unfold store_pick, get_certificate. destruct certs as [|c0 rest]; [discriminate|].
  set (certs := c0 :: rest).
  destruct (negb strict && _); [intros H; inversion H; cbn; lia|].
  rewrite lookup_build.
  destruct (last_idx (folded certs) (normalize sn)) as [j|] eqn:E.
  - intros H. inversion H; subst. apply last_idx_lt in E. now rewrite folded_length in E.
  - pose proof (first_hit_seq (build_index certs) (candidate (split_byte (normalize sn) 46))
                  (length (split_byte (normalize sn) 46)) 0) as H.
    unfold candidates.
    destruct (first_hit _ _) as [j|].
    + destruct H as (k & _ & Hl & _). rewrite lookup_build in Hl. intros X. inversion X; subst.
      apply last_idx_lt in Hl. now rewrite folded_length in Hl.
    + destruct strict; [discriminate|]. intros X. inversion X. cbn. lia.
Qed.

Lemma empty_store_err sn strict : store_pick [] sn strict = PErrNoCerts.
Proof. reflexivity. Qed.
Lemma single_nonstrict c sn : store_pick [c] sn false = PCert 0.
Proof. reflexivity. Qed.
(* strict listeners never fall back: no certificate unless a name or wildcard matches *)
Lemma strict_none certs sn :
  store_pick certs sn true = PNone ->
  none_with (folded certs) (normalize sn) /\
  forall k, (k < length (split_byte (normalize sn) 46))%nat ->
            none_with (folded certs) (candidate (split_byte (normalize sn) 46) k).
Proof.
  unfold store_pick, get_certificate. destruct certs as [|c0 rest]; [discriminate|].
  set (certs := c0 :: rest). cbn [negb andb]. rewrite lookup_build.
  destruct (last_idx (folded certs) (normalize sn)) eqn:E; [discriminate|].
  pose proof (first_hit_seq (build_index certs) (candidate (split_byte (normalize sn) 46))
                (length (split_byte (normalize sn) 46)) 0) as H.
  unfold candidates. destruct (first_hit _ _); [discriminate|]. intros _.
  split; [now apply last_idx_none|]. intros k Hk. apply last_idx_none. rewrite <- lookup_build. apply H. lia.
Qed.

(* request names are matched case-insensitively and regardless of trailing dots *)
Lemma strip_dots_rev_app_dots r k : strip_dots_rev (repeat 46 k ++ r) = strip_dots_rev r.
Proof. induction k as [|k IH]; [reflexivity|]. cbn [repeat app strip_dots_rev]. exact IH. Qed.
Lemma normalize_trailing_dots sn k : normalize (sn ++ repeat 46 k) = normalize sn.
Proof.
  unfold normalize. rewrite lower_app, rev_app_distr.
  assert (H : lower (repeat 46 k) = repeat 46 k).
  { induction k as [|k IH]; [reflexivity|]. cbn [repeat lower map]. unfold lower in IH. now rewrite IH. }
  rewrite H. assert (Hr : rev (repeat 46 k) = repeat 46 k).
  { assert (Hsnoc : forall m, repeat 46 m ++ [46] = 46 :: repeat 46 m).
    { induction m as [|m IHm]; [reflexivity|]. cbn [repeat app]. now rewrite IHm. }
    clear H. induction k as [|k IHk]; [reflexivity|]. cbn [repeat rev]. now rewrite IHk, Hsnoc. }
  now rewrite Hr, strip_dots_rev_app_dots.
Qed.
Lemma normalize_case a b : lower a = lower b -> normalize a = normalize b.
Proof. unfold normalize. now intros ->. Qed.

(* the index as it was before the repair: certificate names were NOT folded, so a
   certificate named with an upper-case letter was unreachable by its own name (the
   request is lower-cased, the index key was not) *)
Lemma upper_case_cert_name_refuted :
  exists certs sn, has_name certs 1 sn /\
    get_certificate certs (Some (build_from_unfolded 0 certs)) sn false = PCert 0.
Proof.
  exists [[bs "a.com"%string]; [bs "Foo.com"%string]], (bs "Foo.com"%string).
  split; [exists [bs "Foo.com"%string]; split; [reflexivity | now left] | vm_compute; reflexivity].
Qed.
(* after the repair the same certificate is found, whatever the spelling on either side *)
Lemma upper_case_cert_name_found :
  store_pick [[bs "a.com"%string]; [bs "Foo.com"%string]] (bs "fOO.com."%string) false = PCert 1.
Proof. vm_compute. reflexivity. Qed.

(* ================= handshakes interleaved with set replacement ================= *)
(* spec: the set current at the handshake's load, computed by a plain scan of the prefix *)
Fixpoint current (cur : list cert) (prefix : list action) : list cert :=
  match prefix with
  | [] => cur
  | APublish c :: r => current c r
  | AHandshake _ _ :: r => current cur r
  end.
Fixpoint handshakes (sched : list action) (k : nat) : list (nat * str * bool) :=
  match sched with
  | [] => []
  | APublish _ :: r => handshakes r (S k)
  | AHandshake n s :: r => (k, n, s) :: handshakes r (S k)
  end.

Lemma handshakes_ge sched : forall m k n s, In (k, n, s) (handshakes sched m) -> (m <= k)%nat.
Proof.
  induction sched as [|a r IH]; intros m k n s; [contradiction|].
  destruct a; cbn [handshakes]; [intros H; apply IH in H; lia|].
  intros [H|H]; [inversion H; lia | apply IH in H; lia].
Qed.

Lemma run_store_single_set : forall sched cur,
  run_store cur sched =
  map (fun h => match h with (k, n, s) => store_pick (current cur (firstn k sched)) n s end) (handshakes sched 0).
Proof.
  assert (G : forall sched cur m,
    run_store cur sched =
    map (fun h => match h with (k, n, s) => store_pick (current cur (firstn (k - m) sched)) n s end)
        (handshakes sched m)).
  { induction sched as [|a sched IH]; intros cur m; [reflexivity|].
    destruct a as [c|n s]; cbn [run_store handshakes map].
    - rewrite (IH c (S m)). apply map_ext_in. intros [[k n] s] Hin.
      apply handshakes_ge in Hin.
      replace (k - m)%nat with (S (k - S m)) by lia. reflexivity.
    - rewrite Nat.sub_diag. cbn [firstn current]. f_equal.
      rewrite (IH cur (S m)). apply map_ext_in. intros [[k n'] s'] Hin.
      apply handshakes_ge in Hin.
      replace (k - m)%nat with (S (k - S m)) by lia. reflexivity. }
  intros sched cur. rewrite (G sched cur 0%nat).
  apply map_ext. intros [[k n] s]. now rewrite Nat.sub_0_r.
Qed.

(* ================= the reload loop ================= *)
(* every publication is of a good load whose blocks differ from the last published ones;
   a bad load or an error publishes nothing and leaves the state alone *)
Lemma watch_step_publish once last l ev last' stop :
  watch_step once last l = (ev, last', stop) ->
  (forall set, In (EPublish set) ev ->
     exists id, l = Blocks id (Some set) /\ last <> Some id /\ last' = Some id) /\
  ((forall set, ~ In (EPublish set) ev) -> last' = last /\ stop = false).
Proof.
  unfold watch_step. destruct l as [|id good].
  - intros H. inversion H; subst. split; [intros set [X|[]]; discriminate | auto].
  - destruct (match last with Some l0 => l0 =? id | None => false end) eqn:E.
    + intros H. inversion H; subst. split; [intros set [X|[]]; discriminate | auto].
    + destruct good as [set0|]; intros H; inversion H; subst.
      * split.
        -- intros set [X|[]]. inversion X; subst. exists id. repeat split.
           intros Hl. subst last. now rewrite N.eqb_refl in E.
        -- intros Hno. exfalso. apply (Hno set0). now left.
      * split; [intros set [X|[]]; discriminate | auto].
Qed.

(* no spinning: in the trace of any script, two loads are always separated by a sleep
   or a publication *)
Fixpoint no_adjacent_loads (tr : list event) : bool :=
  match tr with
  | ELoad :: ((ELoad :: _) as r) => false
  | _ :: r => no_adjacent_loads r
  | [] => true
  end.
Lemma watch_no_spin once : forall script last,
  no_adjacent_loads (watch_run watch_step once last script) = true.
Proof.
  induction script as [|l r IH]; intros last; [reflexivity|].
  cbn [watch_run]. destruct (watch_step once last l) as [[ev last'] stop] eqn:E.
  unfold watch_step in E. destruct l as [|id good].
  - inversion E; subst. cbn [app no_adjacent_loads]. apply IH.
  - destruct (match last with Some l0 => l0 =? id | None => false end).
    + inversion E; subst. cbn [app no_adjacent_loads]. apply IH.
    + destruct good; inversion E; subst; cbn [app no_adjacent_loads]; [|apply IH].
      destruct stop; [reflexivity | apply IH].
Qed.

(* the loop as it was: a bad load is followed by the next load with nothing in between *)
Lemma watch_spinning_refuted :
  exists script, no_adjacent_loads (watch_run watch_step_spinning false None script) = false.
Proof. exists [Blocks 1 None; Blocks 1 None]. reflexivity. Qed.

(* the sequence of publications = the good loads that differ from the last published, in order *)
Fixpoint published (last : option N) (script : list load) : list N :=
  match script with
  | [] => []
  | Blocks id (Some set) :: r =>
      if match last with Some l0 => l0 =? id | None => false end then published last r
      else set :: published (Some id) r
  | _ :: r => published last r
  end.
Definition pubs (tr : list event) : list N :=
  flat_map (fun e => match e with EPublish s => [s] | _ => [] end) tr.
Lemma watch_publishes : forall script last,
  pubs (watch_run watch_step false last script) = published last script.
Proof.
  induction script as [|l r IH]; intros last; [reflexivity|].
  destruct l as [|id [set|]]; cbn [watch_run published watch_step].
  - cbn [pubs flat_map app]. apply IH.
  - destruct (match last with Some l0 => l0 =? id | None => false end);
      cbn [pubs flat_map app]; [apply IH | f_equal; apply IH].
  - destruct (match last with Some l0 => l0 =? id | None => false end);
      cbn [pubs flat_map app]; apply IH.
Qed.

Example spec_example :
  store_pick [[bs "a.com"]; [bs "b.com"; bs "*.b.com"]; [bs "*.*.c.com"]] (bs "X.Y.C.com..") true = PCert 2
  /\ store_pick [[bs "a.com"]; [bs "b.com"; bs "*.b.com"]] (bs "w.B.com") false = PCert 1
  /\ store_pick [[bs "a.com"]; [bs "b.com"; bs "*.b.com"]] (bs "zzz") false = PCert 0
  /\ store_pick [[bs "a.com"]; [bs "b.com"; bs "*.b.com"]] (bs "zzz") true = PNone.
Proof. vm_compute. repeat split. Qed.
