(** Proofs for C13, round 6: the scheme of the self-redirect test over every combination of
    X-Forwarded-Proto (absent / any value), Forwarded (absent / without proto / with proto) and
    the connection (plain / TLS).  Model and specification: Model/RedirectProto.v. *)
From Coq Require Import String List NArith ZArith Bool Lia.
From Fabio Require Import Lib.Outcome Lib.Bytes Model.Redirect Model.RedirectSpec Model.RedirectProto Proofs.Redirect.
Import ListNotations.
Local Open Scope N_scope.

(* ------------------------------------------------------------------ *)
(** * http.Header.Get against "the fields of that name in the order sent" *)
Lemma header_get_fields hs name :
  header_get hs name = match fields_named hs name with v :: _ => v | [] => [] end.
Proof.
  unfold fields_named. induction hs as [|[k v] hs IH]; [reflexivity|].
  cbn [header_get filter fst]. unfold same_name at 1.
  destruct (beq (lower k) (lower name)); [reflexivity|exact IH].
Qed.

Lemma said_x_get hs : header_get hs h_xfp = match said_x hs with XSays s => s | XNone => [] end.
Proof.
  rewrite header_get_fields. unfold said_x. destruct (fields_named hs h_xfp) as [|v r]; [reflexivity|].
  destruct v; reflexivity.
Qed.
Lemma said_x_nonempty hs s : said_x hs = XSays s -> s <> [].
Proof.
  unfold said_x. destruct (fields_named hs h_xfp) as [|v r]; [discriminate|].
  destruct v; cbn [is_nil]; intros H; inversion H; discriminate.
Qed.

(* ------------------------------------------------------------------ *)
(** * the scheme Lookup derives = the decision table, for EVERY list of header fields *)
Lemma proto_all_combinations hs tls :
  lookup_proto hs tls = own_scheme_said (said_x hs) (said_f hs) tls.
Proof.
  unfold lookup_proto. rewrite said_x_get.
  destruct (said_x hs) as [|s] eqn:EX.
  - cbn [is_nil]. destruct (said_f hs); reflexivity.
  - assert (Hs := said_x_nonempty hs s EX). destruct s as [|c s]; [congruence|].
    cbn [is_nil]. destruct (said_f hs); reflexivity.
Qed.

Lemma eff_scheme_wire hs host path rawpath query tls :
  eff_scheme (request_of hs host path rawpath query tls) = lookup_proto hs tls.
Proof.
  unfold eff_scheme, request_of, lookup_proto. cbn [q_xfp q_tls].
  destruct (header_get hs h_xfp); reflexivity.
Qed.

Lemma said_request_eq hs host path rawpath query tls :
  said_request hs host path rawpath query tls = request_of hs host path rawpath query tls.
Proof. unfold said_request, request_of. now rewrite said_x_get. Qed.

(* ------------------------------------------------------------------ *)
(** * the host loop against the reference loop for the scheme of the decision table *)
Lemma ref_lookup_hdr_own q : forall cands, ref_lookup_hdr q cands = ref_lookup_own (eff_scheme q) q cands.
Proof.
  induction cands as [|c cands IH]; [reflexivity|].
  destruct c as [t|]; cbn [ref_lookup_hdr ref_lookup_own]; [|exact IH].
  rewrite IH. reflexivity.
Qed.
Lemma lookup_ref_own q cands : chosen_target (lookup q cands) = ref_lookup_own (eff_scheme q) q cands.
Proof. unfold lookup. rewrite lookup_loop_ref. apply ref_lookup_hdr_own. Qed.

(* THE CLAUSE over all combinations: whatever header fields the request carries and whatever the
   connection, Lookup answers with the first host whose route is not a redirect to
   <own scheme>://<host><path>, the own scheme being the one of the decision table *)
Theorem self_skip_all_combinations hs host path rawpath query tls cands :
  chosen_target (lookup (request_of hs host path rawpath query tls) cands)
  = ref_lookup_own (own_scheme_said (said_x hs) (said_f hs) tls) (said_request hs host path rawpath query tls) cands.
Proof.
  rewrite lookup_ref_own, eff_scheme_wire, proto_all_combinations, said_request_eq. reflexivity.
Qed.

(* every candidate carries 0 or a 3xx code (C13_code_range: what every option text yields) *)
Definition codes_ok (cands : list (option target)) : bool :=
  forallb (fun o => match o with Some t => (t_code t =? 0)%Z || code_ok (t_code t) | None => true end) cands.

Lemma ref_lookup_own_in own q : forall cands t, ref_lookup_own own q cands = Some t -> In (Some t) cands.
Proof.
  induction cands as [|c cands IH]; intros t H; [discriminate|].
  destruct c as [t0|]; cbn [ref_lookup_own] in H.
  - destruct (t_code t0 =? 0)%Z; [inversion H; now left|].
    destruct (back_to own (q_host q) (q_path q) (build_redirect_url t0 q)); [right; now apply IH|inversion H; now left].
  - right. now apply IH.
Qed.

Lemma serve_lookup_ref q cands :
  codes_ok cands = true ->
  handle q cands = ref_answer_own (eff_scheme q) q cands.
Proof.
  intros Hc. unfold handle, ref_answer_own. rewrite <- lookup_ref_own.
  destruct (lookup q cands) as [[t ou]|] eqn:EL; cbn [chosen_target option_map fst]; [|reflexivity].
  assert (Hin : In (Some t) cands).
  { apply (ref_lookup_own_in (eff_scheme q) q). rewrite <- lookup_ref_own, EL. reflexivity. }
  unfold codes_ok in Hc. rewrite forallb_forall in Hc. specialize (Hc _ Hin). cbn beta iota in Hc.
  destruct (t_code t =? 0)%Z eqn:E0.
  - unfold serve. rewrite E0. reflexivity.
  - cbn [orb] in Hc. assert (Hr : is_redirect t = true) by (unfold is_redirect; now rewrite E0).
    destruct (no_upstream_on_redirect q cands t ou EL Hr) as [_ H]. unfold handle in H. rewrite EL in H. now apply H.
Qed.

(* ... and the whole answer: status, Location and who is contacted *)
Theorem answer_all_combinations hs host path rawpath query tls cands :
  codes_ok cands = true ->
  handle_full hs host path rawpath query tls cands
  = ref_answer_own (own_scheme_said (said_x hs) (said_f hs) tls) (said_request hs host path rawpath query tls) cands.
Proof.
  intros Hc. unfold handle_full, serve_hdr.
  change (serve (lookup ?q cands)) with (handle q cands).
  rewrite (serve_lookup_ref _ cands Hc), eff_scheme_wire, proto_all_combinations, said_request_eq. reflexivity.
Qed.

(* ------------------------------------------------------------------ *)
(** * a Forwarded field, wherever it stands and whatever it says, changes nothing *)
Lemma forwarded_not_xfp k : same_name k h_forwarded = true -> same_name k h_xfp = false.
Proof.
  unfold same_name. intros H. apply beq_eq in H. rewrite H. vm_compute. reflexivity.
Qed.
Lemma header_get_without l1 k v l2 name : same_name k name = false ->
  header_get (l1 ++ (k, v) :: l2) name = header_get (l1 ++ l2) name.
Proof.
  intros Hk. induction l1 as [|[k1 v1] l1 IH].
  - cbn [app header_get]. unfold same_name in Hk. now rewrite Hk.
  - cbn [app header_get]. now rewrite IH.
Qed.
Theorem forwarded_irrelevant l1 k v l2 host path rawpath query tls cands :
  same_name k h_forwarded = true ->
  handle_full (l1 ++ (k, v) :: l2) host path rawpath query tls cands
  = handle_full (l1 ++ l2) host path rawpath query tls cands.
Proof.
  intros Hk. apply headers_irrelevant. apply header_get_without. now apply forwarded_not_xfp.
Qed.
Lemma fields_named_without l1 k v l2 name : same_name k name = false ->
  fields_named (l1 ++ (k, v) :: l2) name = fields_named (l1 ++ l2) name.
Proof.
  intros Hk. unfold fields_named. rewrite !filter_app. cbn [filter fst]. now rewrite Hk.
Qed.
Lemma said_x_without_forwarded l1 k v l2 : same_name k h_forwarded = true ->
  said_x (l1 ++ (k, v) :: l2) = said_x (l1 ++ l2).
Proof. intros Hk. unfold said_x. now rewrite (fields_named_without l1 k v l2 h_xfp (forwarded_not_xfp k Hk)). Qed.

(* ------------------------------------------------------------------ *)
(** * the two directions of the clause, for a request that reports its scheme *)
Lemma handle_skip q t rest : is_redirect t = true -> is_self (build_redirect_url t q) q = true ->
  handle q (Some t :: rest) = handle q rest.
Proof.
  intros Hr Hs. unfold handle, lookup. cbn [lookup_loop].
  unfold is_redirect in Hr. apply negb_true_iff in Hr. rewrite Hr, Hs. reflexivity.
Qed.
Lemma is_self_back_to u q : is_self u q = back_to (eff_scheme q) (q_host q) (q_path q) u.
Proof. reflexivity. Qed.

(* a redirect to <own scheme>://<host><path> is skipped in favour of the next matching host -
   whatever Forwarded header the request carries besides and whatever the connection is *)
Theorem pointing_back_skipped hs host path rawpath query tls t rest :
  is_redirect t = true ->
  back_to (own_scheme_said (said_x hs) (said_f hs) tls) host path
          (build_redirect_url t (said_request hs host path rawpath query tls)) = true ->
  handle_full hs host path rawpath query tls (Some t :: rest) = handle_full hs host path rawpath query tls rest.
Proof.
  intros Hr Hb. unfold handle_full, serve_hdr.
  change (serve (lookup ?q ?c)) with (handle q c). apply handle_skip; [exact Hr|].
  rewrite is_self_back_to, eff_scheme_wire, proto_all_combinations. rewrite said_request_eq in Hb. exact Hb.
Qed.
Corollary reported_scheme_skipped hs host path rawpath query tls t rest s :
  said_x hs = XSays s -> is_redirect t = true ->
  back_to s host path (build_redirect_url t (said_request hs host path rawpath query tls)) = true ->
  handle_full hs host path rawpath query tls (Some t :: rest) = handle_full hs host path rawpath query tls rest.
Proof.
  intros EX Hr Hb. apply pointing_back_skipped; [exact Hr|]. rewrite EX. destruct (said_f hs); exact Hb.
Qed.

(* a redirect to another scheme is answered with its 3xx and no upstream call *)
Theorem other_scheme_answered hs host path rawpath query tls t rest :
  is_redirect t = true -> code_ok (t_code t) = true ->
  u_scheme (build_redirect_url t (said_request hs host path rawpath query tls))
    <> own_scheme_said (said_x hs) (said_f hs) tls ->
  handle_full hs host path rawpath query tls (Some t :: rest)
  = RRedirect (t_code t) (hex_escape_non_ascii (url_string (build_redirect_url t (said_request hs host path rawpath query tls))))
  /\ upstream_calls (handle_full hs host path rawpath query tls (Some t :: rest)) = O.
Proof.
  intros Hr Hc Hne. rewrite said_request_eq in *.
  set (q := request_of hs host path rawpath query tls) in *.
  assert (Hs : is_self (build_redirect_url t q) q = false).
  { rewrite is_self_back_to.
    replace (eff_scheme q) with (own_scheme_said (said_x hs) (said_f hs) tls)
      by (unfold q; now rewrite eff_scheme_wire, proto_all_combinations).
    unfold back_to. destruct (beq (u_scheme (build_redirect_url t q)) _) eqn:E; [|reflexivity].
    apply beq_eq in E. contradiction. }
  assert (EL : lookup q (Some t :: rest) = Some (t, Some (build_redirect_url t q))).
  { unfold lookup. cbn [lookup_loop]. unfold is_redirect in Hr. apply negb_true_iff in Hr. now rewrite Hr, Hs. }
  destruct (no_upstream_on_redirect q _ t _ EL Hr) as [H0 H1].
  unfold handle_full, serve_hdr. fold q. change (serve (lookup q ?c)) with (handle q c).
  split; [now apply H1|exact H0].
Qed.

(* ------------------------------------------------------------------ *)
(** * non-vacuity: the usual "http -> https" pair of routes, over the whole grid *)
(* route add web example.com:80/ https://example.com$path opts "redirect=301"
   route add web example.com/    http://upstream/ *)
Definition t_to_https : target := mkTarget 0 (bs "https") (bs "example.com$path") [] [] [] [] 301%Z.
Definition t_web : target := mkTarget 1 (bs "http") (bs "10.0.0.9:80") [47] [] [] [] 0%Z.
Definition grid_answer (c : nat * nat * bool) : response :=
  match c with (i, j, tls) =>
    handle_full (grid_f j ++ grid_x i) (bs "example.com") (bs "/account/settings") [] [] tls [Some t_to_https; Some t_web]
  end.
Definition grid_expected (c : nat * nat * bool) : response :=
  match c with (i, j, tls) =>
    (* the client used https: X-Forwarded-Proto says so, or nothing is said and the connection is TLS *)
    if match i with O => tls | S O => false | _ => true end
    then RProxy 1 else RRedirect 301%Z (bs "https://example.com/account/settings")
  end.
Example grid_nonvacuous :
  length grid = 24%nat
  /\ map grid_answer grid = map grid_expected grid
  /\ map (fun i => said_x (grid_x i)) [0;1;2]%nat = [XNone; XSays s_http; XSays s_https]
  /\ map (fun j => said_f (grid_f j)) [0;1;2;3]%nat = [FNone; FNoProto; FProto s_http; FProto s_https]
  (* the witness of the seeded change C13-K: behind a TLS terminating load balancer that sends both headers *)
  /\ handle_full [(bs "X-Forwarded-Proto", bs "https"); (bs "Forwarded", bs "for=203.0.113.7")]
       (bs "example.com") (bs "/account/settings") [] [] false [Some t_to_https; Some t_web] = RProxy 1
  /\ back_to (bs "https") (bs "example.com") (bs "/account/settings")
       (build_redirect_url t_to_https (said_request [(bs "X-Forwarded-Proto", bs "https"); (bs "Forwarded", bs "for=203.0.113.7")]
                                         (bs "example.com") (bs "/account/settings") [] [] false)) = true
  (* a plain http request is sent to https *)
  /\ handle_full [(bs "Forwarded", bs "for=203.0.113.7")] (bs "example.com") (bs "/account/settings") [] [] false
       [Some t_to_https; Some t_web] = RRedirect 301%Z (bs "https://example.com/account/settings")
  (* today a Forwarded proto does not stand in for a missing X-Forwarded-Proto (assumption) *)
  /\ handle_full [(bs "Forwarded", bs "for=203.0.113.7;proto=https")] (bs "example.com") (bs "/account/settings") [] [] false
       [Some t_to_https; Some t_web] = RRedirect 301%Z (bs "https://example.com/account/settings")
  /\ said_f [(bs "forwarded", bs "for=192.0.2.43, for=198.51.100.17; Proto=https;by=10.0.0.1")] = FProto s_https
  /\ said_f [(bs "Forwarded", bs "for=1.2.3.4; httpproto=http/1.1")] = FNoProto
  /\ codes_ok [Some t_to_https; Some t_web] = true.
Proof. vm_compute. repeat split; reflexivity. Qed.
