(** C06 - further proofs about Model/Interleave.v: static redirect templates under every schedule;
    consecutive cursor values => exact per-target counts; [window] = [map slot o consecutive]. *)
From Coq Require Import String List NArith Bool Arith Lia Permutation.
From Fabio Require Import Lib.Outcome Lib.Bytes Model.Interleave Model.GlobCacheC06 Proofs.Interleave Proofs.GlobCacheC06.
Import ListNotations.

(* ------------------------------------------------------------------ redirect: static templates, every schedule *)
Definition static (t : uobj) : Prop := ~ In Hole t /\ ~ In HHole t.

Lemma static_strip : forall t, ~ In Hole t -> strip t = t.
Proof.
  induction t as [|x t IH]; intros H; [reflexivity|].
  assert (Ht : ~ In Hole t) by (intros A; apply H; now right).
  destruct x; cbn [strip]; try (now rewrite IH).
  destruct t as [|y t]; [reflexivity|]. destruct y; try (now rewrite IH). exfalso. apply H. right. now left.
Qed.
Lemma static_fill : forall t p, ~ In Hole t -> fill t p = t.
Proof.
  induction t as [|x t IH]; intros p H; [reflexivity|].
  assert (Ht : ~ In Hole t) by (intros A; apply H; now right).
  destruct x; cbn [fill]; try (now rewrite IH). exfalso. apply H. now left.
Qed.
Lemma static_fill_host : forall t h, ~ In HHole t -> fill_host t h = t.
Proof.
  induction t as [|x t IH]; intros h H; [reflexivity|].
  assert (Ht : ~ In HHole t) by (intros A; apply H; now right).
  destruct x; cbn [fill_host]; try (now rewrite IH). exfalso. apply H. now left.
Qed.
Lemma static_own : forall t p h, static t -> rd_own t p h = render t.
Proof. intros t p h [H1 H2]. unfold rd_own. now rewrite static_strip, static_fill, static_fill_host. Qed.

Definition rd_sh_ok (tmpl : uobj) (s : rd_shared) : Prop :=
  Forall (fun o => o = tmpl) (rd_heap s) /\ (forall a, rd_ptr s = Some a -> a < length (rd_heap s)).
Definition rd_th_ok (tmpl : uobj) (s : rd_shared) (l : rd_local) : Prop :=
  (rd_at l <> DAlloc -> rd_at l <> DDone -> rd_ptr s <> None)
  /\ match rd_got l with None => rd_at l <> DDone | Some r => r = Ok (render tmpl) end.

Lemma rd_modify_static : forall tmpl f s l next, rd_sh_ok tmpl s -> rd_ptr s <> None -> f tmpl = tmpl ->
  rd_modify f s l next = ({| rd_heap := rd_heap s; rd_ptr := rd_ptr s |}, rd_goto l next).
Proof.
  intros tmpl f [heap ptr] l next [H1 H2] Hp Hf. cbn [rd_heap rd_ptr] in *. unfold rd_modify. cbn [rd_ptr rd_heap].
  destruct ptr as [a|]; [|congruence]. specialize (H2 a eq_refl).
  destruct (nth_error heap a) as [o|] eqn:E; [|apply nth_error_None in E; lia].
  assert (o = tmpl) by (eapply (proj1 (Forall_forall _ _) H1); eapply nth_error_In; eassumption). subst o. rewrite Hf.
  f_equal. f_equal. clear -E. revert a E. induction heap as [|x heap IH]; intros [|a] E; cbn in *; try discriminate.
  - now inversion E.
  - f_equal. now apply IH.
Qed.

Lemma rd_step_static : forall tmpl s l, static tmpl -> rd_sh_ok tmpl s -> rd_th_ok tmpl s l ->
  rd_sh_ok tmpl (fst (rd_step_unrepaired tmpl s l)) /\ rd_th_ok tmpl (fst (rd_step_unrepaired tmpl s l)) (snd (rd_step_unrepaired tmpl s l))
  /\ (rd_ptr s <> None -> rd_ptr (fst (rd_step_unrepaired tmpl s l)) <> None).
Proof.
  intros tmpl s l [St1 St2] Hs [T1 T2]. unfold rd_step_unrepaired. destruct (rd_at l) eqn:At.
  - (* alloc *) cbn [fst snd]. destruct Hs as [H1 H2]. split; [|split].
    + split; cbn [rd_heap rd_ptr].
      * apply Forall_app. split; [assumption | constructor; [reflexivity|constructor]].
      * intros a Ha. inversion Ha; subst. rewrite app_length. cbn. lia.
    + unfold rd_th_ok, rd_goto. cbn. split; [intros; discriminate | discriminate].
    + cbn. intros _. discriminate.
  - rewrite (rd_modify_static tmpl strip s l DFill Hs); [|apply T1; congruence | now apply static_strip].
    cbn [fst snd]. destruct s as [heap ptr]. cbn [rd_heap rd_ptr] in *. split; [assumption|]. split; [|auto].
    unfold rd_th_ok, rd_goto. cbn. split; [intros; apply T1; congruence | discriminate].
  - rewrite (rd_modify_static tmpl (fun o => fill o (rd_path l)) s l DHost Hs); [|apply T1; congruence | now apply static_fill].
    cbn [fst snd]. destruct s as [heap ptr]. cbn [rd_heap rd_ptr] in *. split; [assumption|]. split; [|auto].
    unfold rd_th_ok, rd_goto. cbn. split; [intros; apply T1; congruence | discriminate].
  - rewrite (rd_modify_static tmpl (fun o => fill_host o (rd_host l)) s l DRead Hs); [|apply T1; congruence | now apply static_fill_host].
    cbn [fst snd]. destruct s as [heap ptr]. cbn [rd_heap rd_ptr] in *. split; [assumption|]. split; [|auto].
    unfold rd_th_ok, rd_goto. cbn. split; [intros; apply T1; congruence | discriminate].
  - (* read *) assert (Hp : rd_ptr s <> None) by (apply T1; congruence). destruct Hs as [H1 H2].
    destruct (rd_ptr s) as [a|] eqn:Ep; [|congruence]. specialize (H2 a eq_refl).
    destruct (nth_error (rd_heap s) a) as [o|] eqn:E; [|apply nth_error_None in E; lia].
    assert (o = tmpl) by (eapply (proj1 (Forall_forall _ _) H1); eapply nth_error_In; eassumption). subst o.
    cbn [fst snd]. split; [split; [assumption | intros b Hb; rewrite Ep in Hb; inversion Hb; subst; assumption]|].
    split; [|intros _; congruence]. unfold rd_th_ok, rd_ret. cbn. split; [intros _ X; congruence | reflexivity].
  - cbn [fst snd]. split; [assumption|]. split; [unfold rd_th_ok; rewrite At; split; assumption | auto].
Qed.

Lemma redirect_static_inv : forall tmpl sched s ts, static tmpl -> rd_sh_ok tmpl s -> Forall (rd_th_ok tmpl s) ts ->
  rd_sh_ok tmpl (fst (run (rd_step_unrepaired tmpl) sched s ts))
  /\ Forall (rd_th_ok tmpl (fst (run (rd_step_unrepaired tmpl) sched s ts))) (snd (run (rd_step_unrepaired tmpl) sched s ts)).
Proof.
  intros tmpl sched. induction sched as [|i sched IH]; intros s ts St Hs Ht; cbn [run]; [split; assumption|].
  unfold step1. destruct (nth_error ts i) as [l|] eqn:E; [|apply IH; assumption].
  assert (Hl : rd_th_ok tmpl s l) by (eapply (proj1 (Forall_forall _ _) Ht); eapply nth_error_In; eassumption).
  pose proof (rd_step_static tmpl s l St Hs Hl) as (S1 & S2 & S3). destruct (rd_step_unrepaired tmpl s l) as [s' l']. cbn [fst snd] in *.
  apply IH; [assumption|assumption|]. apply Forall_upd; [|assumption].
  eapply Forall_impl; [|exact Ht]. intros x [X1 X2]. split; [|assumption]. intros A B. apply S3. now apply X1.
Qed.

(* redirect_static_every_schedule: a template without $path and $host - the shared write stores the
   same value whoever performs it - is answered correctly under EVERY schedule, any number of requests:
   a request that has been answered got its own URL.  Together with redirect_cross_talk_refuted this
   delimits finding F-C06-1 exactly: templates that substitute something from the request. *)
Theorem redirect_static_every_schedule_l : forall tmpl sched reqs, static tmpl ->
  Forall (fun l => match rd_got l with
                   | None => rd_at l <> DDone
                   | Some r => r = Ok (rd_own tmpl (rd_path l) (rd_host l))
                   end)
         (snd (run (rd_step_unrepaired tmpl) sched rd_start (map (fun q => rd_init_unrepaired (fst q) (snd q)) reqs))).
Proof.
  intros tmpl sched reqs St.
  assert (H0 : rd_sh_ok tmpl rd_start) by (split; [constructor | intros a Ha; discriminate]).
  assert (H1 : Forall (rd_th_ok tmpl rd_start) (map (fun q => rd_init_unrepaired (fst q) (snd q)) reqs)).
  { apply Forall_forall. intros x Hx. apply in_map_iff in Hx. destruct Hx as [q [<- _]].
    unfold rd_th_ok, rd_init_unrepaired. cbn. split; [intros X; congruence | discriminate]. }
  destruct (redirect_static_inv tmpl sched _ _ St H0 H1) as [_ R].
  eapply Forall_impl; [|exact R]. intros l [_ T]. destruct (rd_got l); [|assumption].
  rewrite static_own by assumption. assumption.
Qed.

Example redirect_static_nonvacuous :
  static [Lit (bs "http://new.example/fixed")] /\
  rd_results_unrepaired (snd (run (rd_step_unrepaired [Lit (bs "http://new.example/fixed")]) [0; 1; 1; 0; 0; 1; 1; 0; 0; 1] rd_start
                       [rd_init_unrepaired (bs "/a") (bs "x.example"); rd_init_unrepaired (bs "/b") (bs "y.example")]))
  = [Some (Ok (bs "http://new.example/fixed")); Some (Ok (bs "http://new.example/fixed"))].
Proof.
  split; [split; intros [A|[]]; discriminate | vm_compute; reflexivity].
Qed.
(* ------------------------------------------------------------------ consecutive cursor values => per-target counts *)
Lemma cycle_positions : forall L s, s < L ->
  map (fun i => (s + i) mod L) (seq 0 L) = seq s (L - s) ++ seq 0 s.
Proof.
  intros L s Hs.
  replace (seq 0 L) with (seq 0 (L - s) ++ seq (L - s) s) by (rewrite <- seq_app; f_equal; lia).
  rewrite map_app. f_equal.
  - rewrite (map_ext_in _ (fun i => s + i)).
    + rewrite map_add_seq. f_equal. lia.
    + intros i Hi. apply in_seq in Hi. rewrite mod_piece by lia. destruct (s + i <? L) eqn:E; [reflexivity|apply Nat.ltb_ge in E; lia].
  - rewrite (map_ext_in _ (fun i => i - (L - s))).
    + replace (seq (L - s) s) with (seq ((L - s) + 0) s) by (f_equal; lia). apply map_sub_seq.
    + intros i Hi. apply in_seq in Hi. rewrite mod_piece by lia. destruct (s + i <? L) eqn:E; [apply Nat.ltb_lt in E; lia | lia].
Qed.

Lemma positions_consecutive : forall len c j, 0 < len -> (c + N.of_nat j <= two64)%N ->
  positions len (consecutive c j) = map (fun i => (N.to_nat (N.modulo c (N.of_nat len)) + i) mod len) (seq 0 j).
Proof.
  intros len c j HL Hw. unfold positions, consecutive. rewrite map_map. apply map_ext_in.
  intros i Hi. apply in_seq in Hi. rewrite (N.mod_small (c + N.of_nat i) two64) by lia.
  rewrite !N2Nat.inj_mod, N2Nat.inj_add, !Nat2N.id. rewrite Nat.add_mod_idemp_l by lia. reflexivity.
Qed.

Lemma skipn_cons_nth : forall {A} (l : list A) a d, a < length l -> skipn a l = nth a l d :: skipn (S a) l.
Proof. induction l as [|x l IH]; intros [|a] d H; cbn in *; try lia; [reflexivity|]. apply IH. lia. Qed.
Lemma map_nth_seq : forall (ring : list nat) d n a, a + n <= length ring ->
  map (fun p => nth p ring d) (seq a n) = firstn n (skipn a ring).
Proof.
  intros ring d n. induction n as [|n IH]; intros a H; [reflexivity|].
  cbn [seq map]. rewrite (skipn_cons_nth ring a d) by lia. cbn [firstn]. f_equal. apply IH. lia.
Qed.

Lemma picks_one_cycle : forall (ring : list nat) d s t, s < length ring ->
  count_nat t (map (fun i => nth ((s + i) mod length ring) ring d) (seq 0 (length ring))) = count_nat t ring.
Proof.
  intros ring d s t Hs.
  rewrite <- (map_map (fun i => (s + i) mod length ring) (fun p => nth p ring d)).
  rewrite cycle_positions by assumption. rewrite map_app, count_nat_app.
  rewrite !map_nth_seq by lia. rewrite skipn_O.
  rewrite firstn_all2 by (rewrite skipn_length; lia).
  rewrite <- (firstn_skipn s ring) at 3. rewrite count_nat_app. lia.
Qed.

Lemma picks_full_cycles : forall (ring : list nat) d k s t, s < length ring ->
  count_nat t (map (fun i => nth ((s + i) mod length ring) ring d) (seq 0 (k * length ring))) = k * count_nat t ring.
Proof.
  intros ring d k s t Hs. induction k as [|k IH]; [reflexivity|].
  cbn [Nat.mul]. rewrite seq_app, map_app, count_nat_app, picks_one_cycle by assumption. cbn [Nat.add].
  replace (seq (length ring) (k * length ring)) with (seq (length ring + 0) (k * length ring)) by (f_equal; lia).
  rewrite <- map_add_seq, map_map.
  rewrite (map_ext _ (fun i => nth ((s + i) mod length ring) ring d)); [rewrite IH; reflexivity|].
  intros i. f_equal. replace (s + (length ring + i)) with (s + i + 1 * length ring) by lia. apply Nat.mod_add. lia.
Qed.

(* what a pick returns, as a function of the cursor value it used *)
Lemma slot_nth : forall (ring : list nat) d x, ring <> [] ->
  slot ring x = Ok (nth (N.to_nat (N.modulo x (N.of_nat (length ring)))) ring d).
Proof.
  intros ring d x H. unfold slot. destruct ring as [|a r]; [congruence|].
  set (L := length (a :: r)). assert (HL : 0 < L) by (cbn; lia).
  assert (B : N.to_nat (N.modulo x (N.of_nat L)) < L).
  { rewrite N2Nat.inj_mod, Nat2N.id. apply Nat.mod_upper_bound. lia. }
  destruct (nth_error (a :: r) (N.to_nat (N.modulo x (N.of_nat L)))) as [t|] eqn:E.
  - f_equal. symmetry. now apply nth_error_nth.
  - apply nth_error_None in E. fold L in E. lia.
Qed.

(* rr_exact_target_shares: k full turns of ANY ring from any cursor value (no uint64 wrap inside the run):
   target t is picked exactly k x (number of ring slots holding t) times *)
Theorem rr_exact_target_shares_l : forall (ring : list nat) d c k t, ring <> [] ->
  (c + N.of_nat (k * length ring) <= two64)%N ->
  count_nat t (map (fun p => nth p ring d) (positions (length ring) (consecutive c (k * length ring)))) = k * count_nat t ring.
Proof.
  intros ring d c k t H Hw. assert (HL : 0 < length ring) by (destruct ring; [congruence | cbn; lia]).
  rewrite positions_consecutive by assumption. rewrite map_map. apply picks_full_cycles.
  rewrite N2Nat.inj_mod, Nat2N.id. apply Nat.mod_upper_bound. lia.
Qed.
Lemma picks_are_slots : forall (ring : list nat) d cs, ring <> [] ->
  map (slot ring) cs = map Ok (map (fun p => nth p ring d) (positions (length ring) cs)).
Proof. intros ring d cs H. unfold positions. rewrite !map_map. apply map_ext. intros x. now apply slot_nth. Qed.

(* ------------------------------------------------------------------ window = map slot o consecutive *)
Lemma nth_firstn_lt : forall {A} (l : list A) j n d, n < j -> nth n (firstn j l) d = nth n l d.
Proof. induction l as [|x l IH]; intros [|j] [|n] d H; cbn; try lia; try reflexivity. apply IH. lia. Qed.
Lemma nth_skipn_add : forall {A} (l : list A) s n d, nth n (skipn s l) d = nth (s + n) l d.
Proof. induction l as [|x l IH]; intros [|s] n d; cbn; try reflexivity; [destruct n; reflexivity | apply IH]. Qed.
Lemma concat_repeat_length : forall {A} (ring : list A) m, length (concat (repeat ring m)) = m * length ring.
Proof. intros A ring m. induction m as [|m IH]; cbn; [reflexivity|]. rewrite app_length, IH. reflexivity. Qed.
Lemma nth_concat_repeat : forall {A} (ring : list A) d m x, 0 < length ring -> x < m * length ring ->
  nth x (concat (repeat ring m)) d = nth (x mod length ring) ring d.
Proof.
  intros A ring d m. induction m as [|m IH]; intros x HL Hx; [cbn in Hx; lia|].
  cbn [repeat concat]. destruct (Nat.ltb_spec x (length ring)).
  - rewrite app_nth1 by assumption. now rewrite Nat.mod_small.
  - rewrite app_nth2 by assumption. rewrite IH; [|assumption | cbn in Hx; lia]. f_equal.
    replace x with ((x - length ring) + 1 * length ring) at 2 by lia. rewrite Nat.mod_add by lia. reflexivity.
Qed.
Lemma nth_map_seq : forall {A} (g : nat -> A) j n d, n < j -> nth n (map g (seq 0 j)) d = g n.
Proof.
  intros A g j n d H. rewrite (nth_indep _ d (g 0)) by (rewrite map_length, seq_length; assumption).
  rewrite map_nth. f_equal. rewrite seq_nth by assumption. reflexivity.
Qed.

Lemma window_as_map : forall (ring : list nat) d c j, ring <> [] ->
  window ring c j = map (fun i => nth ((N.to_nat (N.modulo c (N.of_nat (length ring))) + i) mod length ring) ring d) (seq 0 j).
Proof.
  intros ring d c j H. assert (HL : 0 < length ring) by (destruct ring; [congruence | cbn; lia]).
  unfold window. set (L := length ring) in *. set (s := N.to_nat (N.modulo c (N.of_nat L))).
  assert (Hs : s < L) by (unfold s; rewrite N2Nat.inj_mod, Nat2N.id; apply Nat.mod_upper_bound; lia).
  pose proof (Nat.div_mod j L ltac:(lia)) as Dm. pose proof (Nat.mod_upper_bound j L ltac:(lia)) as Mb.
  set (q := j / L) in *. assert (Big : s + j < (q + 2) * L) by nia.
  apply (nth_ext _ _ d d).
  - rewrite firstn_length, skipn_length, concat_repeat_length, map_length, seq_length. fold L. lia.
  - intros n Hn. rewrite firstn_length, skipn_length, concat_repeat_length in Hn. fold L in Hn.
    assert (Hnj : n < j) by lia.
    rewrite nth_firstn_lt by assumption. rewrite nth_skipn_add. rewrite nth_concat_repeat; [|assumption | fold L; lia].
    rewrite nth_map_seq by assumption. reflexivity.
Qed.

(* window_is_slots: what check_case computes for the expected picks is what the picks are *)
Theorem window_is_slots_l : forall (ring : list nat) c j, ring <> [] -> (c + N.of_nat j <= two64)%N ->
  map (slot ring) (consecutive c j) = map Ok (window ring c j).
Proof.
  intros ring c j H Hw. assert (HL : 0 < length ring) by (destruct ring; [congruence | cbn; lia]).
  rewrite (picks_are_slots ring 0 _ H). f_equal. rewrite positions_consecutive by assumption.
  rewrite map_map. symmetry. now apply window_as_map.
Qed.

Example rr_exact_target_shares_nonvacuous :
  count_nat 1 (map (fun p => nth p [0; 1; 1; 2; 1] 0) (positions 5 (consecutive 18446744073709551600 (3 * 5)))) = 3 * 3
  /\ window [0; 1; 1; 2; 1] 7 6 = [1; 2; 1; 0; 1; 1].
Proof. vm_compute. split; reflexivity. Qed.

(* ------------------------------------------------------------------ rndPicker: every schedule, a member of the ring *)
Definition rn_ok (ring : list nat) (l : rn_local) : Prop :=
  Forall (fun o => exists t, o = Ok t /\ In t ring) (rn_picks l).

Theorem rnd_pick_member_l : forall {St} (draw : St -> nat -> St * nat) ring,
  (forall st n, 0 < n -> snd (draw st n) < n) -> ring <> [] ->
  forall sched st ts, Forall (rn_ok ring) ts -> Forall (rn_ok ring) (snd (run (rn_step draw ring) sched st ts)).
Proof.
  intros St draw ring Hd Hr sched. induction sched as [|i sched IH]; intros st ts H; cbn [run]; [assumption|].
  unfold step1. destruct (nth_error ts i) as [l|] eqn:E; [|apply IH; assumption].
  assert (Hl : rn_ok ring l) by (eapply (proj1 (Forall_forall _ _) H); eapply nth_error_In; eassumption).
  assert (S : rn_ok ring (snd (rn_step draw ring st l))).
  { unfold rn_step. destruct (rn_todo l) as [|k]; [assumption|].
    destruct ring as [|a r] eqn:Er; [congruence|]. rewrite <- Er in *.
    assert (HL : 0 < length ring) by (rewrite Er; cbn; lia).
    pose proof (Hd st (length ring) HL) as B. destruct (draw st (length ring)) as [st' ix]. cbn [fst snd] in *.
    unfold rn_ok. cbn [rn_picks]. apply Forall_app. split; [assumption|]. constructor; [|constructor].
    destruct (nth_error ring ix) as [t|] eqn:En; [|apply nth_error_None in En; lia].
    exists t. split; [reflexivity | eapply nth_error_In; eassumption]. }
  destruct (rn_step draw ring st l) as [st' l']. cbn [snd] in S. apply IH. now apply Forall_upd.
Qed.

Example rnd_pick_nonvacuous :
  map rn_picks (snd (run (rn_step (fun st n => (S st, st mod n)) [0; 1; 1]) [0; 1; 0; 1] 4 [rn_init 2; rn_init 2]))
  = [[Ok 1; Ok 0]; [Ok 1; Ok 1]].
Proof. vm_compute. reflexivity. Qed.

(* ------------------------------------------------------------------ rr picks per table generation *)
Lemma concat_map_upd : forall {L} (f : L -> list N) ts i l l' x, nth_error ts i = Some l -> f l' = f l ++ x ->
  Permutation (concat (map f (upd ts i l'))) (concat (map f ts) ++ x).
Proof.
  intros L f. induction ts as [|a ts IH]; intros [|i] l l' x H E; cbn in H; try discriminate.
  - inversion H; subst. cbn. rewrite E. rewrite <- !app_assoc. apply Permutation_app_head. apply Permutation_app_comm.
  - cbn. rewrite <- app_assoc. apply Permutation_app_head. eapply IH; eassumption.
Qed.
Lemma concat_map_upd_same : forall {L} (f : L -> list N) ts i l l', nth_error ts i = Some l -> f l' = f l ->
  concat (map f (upd ts i l')) = concat (map f ts).
Proof.
  intros L f. induction ts as [|a ts IH]; intros [|i] l l' H E; cbn in H; try discriminate.
  - inversion H; subst. cbn. now rewrite E.
  - cbn. f_equal. eapply IH; eassumption.
Qed.

Definition tb_wf (s : tb_shared) (ts : list tb_local) : Prop :=
  tb_cur s < length (tb_cursors s)
  /\ Forall (fun c => (c < two64)%N) (tb_cursors s)
  /\ Forall (fun l => tb_at l = TPick -> tb_reg l < length (tb_cursors s)) ts.

Lemma nth_app_zero : forall (l : list N) g, nth g (l ++ [0%N]) 0%N = nth g l 0%N.
Proof.
  intros l g. destruct (Nat.lt_ge_cases g (length l)) as [H|H].
  - now rewrite app_nth1.
  - rewrite app_nth2 by assumption. rewrite (nth_overflow l) by assumption.
    destruct (g - length l) as [|[|k]]; reflexivity.
Qed.
Lemma nth_upd_same : forall (l : list N) g v, g < length l -> nth g (upd l g v) 0%N = v.
Proof. induction l as [|a l IH]; intros [|g] v H; cbn in *; try lia; try reflexivity. apply IH. lia. Qed.
Lemma nth_upd_other : forall (l : list N) g h v, g <> h -> nth g (upd l h v) 0%N = nth g l 0%N.
Proof. induction l as [|a l IH]; intros [|g] [|h] v H; cbn; try reflexivity; try congruence. apply IH. congruence. Qed.
Lemma cur_lt : forall s g, Forall (fun c => (c < two64)%N) (tb_cursors s) -> (cur_of s g < two64)%N.
Proof.
  intros s g H. unfold cur_of. destruct (Nat.lt_ge_cases g (length (tb_cursors s))) as [L|L].
  - eapply (proj1 (Forall_forall _ _) H). now apply nth_In.
  - rewrite nth_overflow by assumption. unfold two64. lia.
Qed.

Lemma tb_step_wf : forall s ts i l, tb_wf s ts -> nth_error ts i = Some l ->
  tb_wf (fst (tb_step s l)) (upd ts i (snd (tb_step s l))).
Proof.
  intros s ts i l (W1 & W2 & W3) H.
  assert (Wl : tb_at l = TPick -> tb_reg l < length (tb_cursors s)) by (eapply (proj1 (Forall_forall _ _) W3); eapply nth_error_In; eassumption).
  unfold tb_step. destruct (tb_at l) eqn:At; cbv zeta; cbn [fst snd]; unfold tb_wf; cbn [tb_cur tb_cursors].
  - split; [assumption|]. split; [assumption|]. apply Forall_upd; [assumption|]. cbn. intros _. assumption.
  - split; [now rewrite upd_length|]. split.
    + apply Forall_upd; [assumption|]. apply N.mod_lt. unfold two64. lia.
    + rewrite upd_length. apply Forall_upd; [assumption|]. cbn. destruct (tb_todo l) as [|[|k]]; discriminate.
  - rewrite app_length. cbn [length]. split; [lia|]. split.
    + apply Forall_app. split; [assumption|]. constructor; [unfold two64; lia | constructor].
    + apply Forall_upd.
      * eapply Forall_impl; [|exact W3]. cbn. intros x Hx Hy. specialize (Hx Hy). lia.
      * cbn. destruct (tb_todo l) as [|[|k]]; discriminate.
  - split; [assumption|]. split; [assumption|]. apply Forall_upd; [assumption|]. rewrite At. discriminate.
Qed.

(* rr_exact_per_table: every schedule of lookups (GetTable, then fetch-and-add on that table's route) and
   table replacements (one atomic publication each), any number of goroutines and writers: for EVERY
   table generation g the picks it served are exactly the next j consecutive values of ITS cursor, each
   once (a generation not yet installed has cursor 0 and is installed with cursor 0) *)
Theorem rr_exact_per_table_l : forall g sched s ts, tb_wf s ts ->
  exists j, Permutation (seen_gen g (snd (run tb_step sched s ts))) (seen_gen g ts ++ consecutive (cur_of s g) j)
            /\ cur_of (fst (run tb_step sched s ts)) g = N.modulo (cur_of s g + N.of_nat j) two64.
Proof.
  intros g sched. induction sched as [|i sched IH]; intros s ts W; cbn [run].
  - exists 0. cbn. rewrite app_nil_r, N.add_0_r. split; [reflexivity|]. symmetry. apply N.mod_small. apply cur_lt. apply W.
  - unfold step1. destruct (nth_error ts i) as [l|] eqn:E; [|apply IH; assumption].
    pose proof (tb_step_wf s ts i l W E) as W'.
    destruct W as (W1 & W2 & W3).
    assert (Wl : tb_at l = TPick -> tb_reg l < length (tb_cursors s)) by (eapply (proj1 (Forall_forall _ _) W3); eapply nth_error_In; eassumption).
    destruct (tb_step s l) as [s' l'] eqn:St. cbn [fst snd] in W'.
    destruct (IH s' (upd ts i l') W') as [j [P Q]].
    unfold tb_step in St. destruct (tb_at l) eqn:At; inversion St; subst s' l'; clear St.
    + (* GetTable *) exists j. unfold seen_gen in *. rewrite (concat_map_upd_same (seen_of g) ts i l _ E) in P by reflexivity.
      split; assumption.
    + (* the pick *) destruct (Nat.eq_dec (tb_reg l) g) as [Eg|Eg].
      * subst g. exists (S j).
        assert (C' : cur_of {| tb_cur := tb_cur s; tb_cursors := upd (tb_cursors s) (tb_reg l) (N.modulo (cur_of s (tb_reg l) + 1) two64) |} (tb_reg l)
                     = N.modulo (cur_of s (tb_reg l) + 1) two64).
        { unfold cur_of at 1. cbn [tb_cursors]. apply nth_upd_same. now apply Wl. }
        rewrite C' in P, Q. split.
        -- rewrite P. rewrite (consecutive_S _ j (cur_lt s (tb_reg l) W2)).
           unfold seen_gen. rewrite (concat_map_upd (seen_of (tb_reg l)) ts i l _ [cur_of s (tb_reg l)] E).
           ++ rewrite <- app_assoc. reflexivity.
           ++ unfold seen_of. cbn [tb_seen]. rewrite filter_app, map_app. cbn [filter fst]. rewrite Nat.eqb_refl. reflexivity.
        -- rewrite Q. rewrite N.add_mod_idemp_l by (unfold two64; lia). f_equal. lia.
      * exists j.
        assert (C' : cur_of {| tb_cur := tb_cur s; tb_cursors := upd (tb_cursors s) (tb_reg l) (N.modulo (cur_of s (tb_reg l) + 1) two64) |} g = cur_of s g).
        { unfold cur_of at 1. cbn [tb_cursors]. apply nth_upd_other. congruence. }
        rewrite C' in P, Q. split; [|assumption].
        unfold seen_gen in *. rewrite (concat_map_upd_same (seen_of g) ts i l _ E) in P; [assumption|].
        unfold seen_of. cbn [tb_seen]. rewrite filter_app, map_app. cbn [filter fst].
        destruct (Nat.eqb_spec (tb_reg l) g); [congruence|]. cbn. now rewrite app_nil_r.
    + (* SetTable *) exists j.
      assert (C' : cur_of {| tb_cur := length (tb_cursors s); tb_cursors := tb_cursors s ++ [0%N] |} g = cur_of s g).
      { unfold cur_of. cbn [tb_cursors]. apply nth_app_zero. }
      rewrite C' in P, Q. split; [|assumption].
      unfold seen_gen in *. rewrite (concat_map_upd_same (seen_of g) ts i l _ E) in P by reflexivity. assumption.
    + exists j. unfold seen_gen in *. rewrite (concat_map_upd_same (seen_of g) ts i l _ E) in P by reflexivity.
      split; assumption.
Qed.

Example rr_exact_per_table_nonvacuous :
  let r := run tb_step [0; 2; 1; 0; 1; 0; 1; 0; 1] {| tb_cur := 0; tb_cursors := [5%N] |} [tb_reader 2; tb_reader 2; tb_writer 1] in
  tb_wf {| tb_cur := 0; tb_cursors := [5%N] |} [tb_reader 2; tb_reader 2; tb_writer 1]
  /\ map tb_seen (snd r) = [[(0, 5%N); (1, 1%N)]; [(1, 0%N); (1, 2%N)]; []] /\ tb_cursors (fst r) = [6%N; 3%N].
Proof.
  split; [|vm_compute; split; reflexivity].
  split; [cbn; lia|]. split; [repeat constructor|]. repeat constructor; cbn; discriminate.
Qed.

(* ------------------------------------------------------------------ the access decision: every schedule *)
From Fabio Require Import Model.Access Model.AccessC06.

Definition ac_ok (pip : str -> option ipaddr) (sh : str -> option str) (r : rules) (l : ac_local) : Prop :=
  match ac_verdict l with None => True | Some v => v = ac_alone pip sh r (ac_rq l) end.

(* access_every_schedule: any number of requests against one target, EVERY schedule: the rule map is never
   written and the verdict each request receives is the access function of that request alone - whatever
   other requests (same peer, other X-Forwarded-For; same X-Forwarded-For, other peer) ran before or meanwhile *)
Theorem access_every_schedule_l : forall pip sh sched r ts, Forall (ac_ok pip sh r) ts ->
  fst (run (ac_step pip sh) sched r ts) = r /\ Forall (ac_ok pip sh r) (snd (run (ac_step pip sh) sched r ts)).
Proof.
  intros pip sh sched. induction sched as [|i sched IH]; intros r ts H; cbn [run]; [split; [reflexivity|assumption]|].
  unfold step1. destruct (nth_error ts i) as [l|] eqn:E; [|apply IH; assumption].
  assert (Hl : ac_ok pip sh r l) by (eapply (proj1 (Forall_forall _ _) H); eapply nth_error_In; eassumption).
  unfold ac_step. destruct (ac_verdict l) as [v|] eqn:Ev.
  - apply IH. apply Forall_upd; assumption.
  - apply IH. apply Forall_upd; [assumption|]. unfold ac_ok. cbn. reflexivity.
Qed.

Theorem access_every_schedule_results_l : forall pip sh sched r reqs,
  let res := run (ac_step pip sh) sched r (map ac_init reqs) in
  fst res = r /\ Forall (fun l => forall v, ac_verdict l = Some v -> v = ac_alone pip sh r (ac_rq l)) (snd res).
Proof.
  intros pip sh sched r reqs. cbv zeta.
  assert (H : Forall (ac_ok pip sh r) (map ac_init reqs)).
  { apply Forall_forall. intros x Hx. apply in_map_iff in Hx. destruct Hx as [q [<- _]]. exact I. }
  destruct (access_every_schedule_l pip sh sched r _ H) as [A B]. split; [assumption|].
  eapply Forall_impl; [|exact B]. intros l Hl v Hv. unfold ac_ok in Hl. rewrite Hv in Hl. assumption.
Qed.
(* ------------------------------------------------------------------ composed: exact share under every schedule *)
(* the target a pick returns, as a function of the cursor value it used ([slot ring x = Ok (pickv ring d x)]) *)
Definition pickv (ring : list nat) (d : nat) (x : N) : nat := nth (N.to_nat (N.modulo x (N.of_nat (length ring)))) ring d.

Lemma count_nat_perm : forall t a b, Permutation a b -> count_nat t a = count_nat t b.
Proof. intros t a b P. induction P; cbn; try lia. Qed.
Lemma consecutive_length : forall c j, length (consecutive c j) = j.
Proof. intros. unfold consecutive. now rewrite map_length, seq_length. Qed.
Lemma pickv_positions : forall ring d cs, map (pickv ring d) cs = map (fun p => nth p ring d) (positions (length ring) cs).
Proof. intros. unfold positions, pickv. now rewrite map_map. Qed.

(* rr_exact_share_every_schedule: fresh goroutines, ANY schedule, any split of the picks among them: when
   k*len lookups have been performed (k full turns of the ring, no uint64 wrap inside the run) target t has
   been returned exactly k x (its number of ring slots) times *)
Theorem rr_exact_share_every_schedule_l : forall sched (ring : list nat) d c ts k t,
  (c < two64)%N -> ring <> [] -> all_seen ts = [] ->
  length (all_seen (snd (run rr_step_atomic sched c ts))) = k * length ring ->
  (c + N.of_nat (k * length ring) <= two64)%N ->
  count_nat t (map (pickv ring d) (all_seen (snd (run rr_step_atomic sched c ts)))) = k * count_nat t ring.
Proof.
  intros sched ring d c ts k t Hc Hr H0 Hl Hw.
  destruct (rr_atomic_exact_l sched c ts Hc) as [j [P _]]. rewrite H0 in P. cbn [app] in P.
  assert (Hj : j = k * length ring).
  { apply Permutation_length in P. rewrite consecutive_length in P. lia. }
  subst j. rewrite (count_nat_perm t _ _ (Permutation_map (pickv ring d) P)).
  rewrite pickv_positions. now apply rr_exact_target_shares_l.
Qed.

(* any number of picks: between floor and ceil of the turns, times the slots *)
Lemma count_prefix_le : forall (f : nat -> nat) t r L, r <= L ->
  count_nat t (map f (seq 0 r)) <= count_nat t (map f (seq 0 L)).
Proof.
  intros f t r L H. replace L with (r + (L - r)) by lia. rewrite seq_app, map_app, count_nat_app. lia.
Qed.

Theorem rr_share_bounds_l : forall (ring : list nat) d c j t, ring <> [] -> (c + N.of_nat j <= two64)%N ->
  (j / length ring) * count_nat t ring <= count_nat t (map (pickv ring d) (consecutive c j))
  /\ count_nat t (map (pickv ring d) (consecutive c j)) <= (j / length ring + 1) * count_nat t ring.
Proof.
  intros ring d c j t Hr Hw. assert (HL : 0 < length ring) by (destruct ring; [congruence | cbn; lia]).
  set (L := length ring) in *. rewrite pickv_positions. fold L. rewrite positions_consecutive by assumption.
  rewrite map_map. set (s := N.to_nat (N.modulo c (N.of_nat L))).
  assert (Hs : s < L) by (unfold s; rewrite N2Nat.inj_mod, Nat2N.id; apply Nat.mod_upper_bound; lia).
  set (q := j / L). set (r := j mod L).
  assert (Ej : j = q * L + r) by (unfold q, r; rewrite Nat.mul_comm; apply Nat.div_mod; lia).
  assert (Hrr : r < L) by (unfold r; apply Nat.mod_upper_bound; lia).
  clearbody q r s. subst L. rewrite Ej. rewrite seq_app, map_app, count_nat_app. cbn [Nat.add].
  rewrite (picks_full_cycles ring d q s t Hs).
  replace (seq (q * length ring) r) with (seq (q * length ring + 0) r) by (f_equal; lia). rewrite <- map_add_seq, map_map.
  rewrite (map_ext _ (fun i => nth ((s + i) mod length ring) ring d)).
  2:{ intros i. f_equal. replace (s + (q * length ring + i)) with (s + i + q * length ring) by lia. apply Nat.mod_add. lia. }
  pose proof (count_prefix_le (fun i => nth ((s + i) mod length ring) ring d) t r (length ring) ltac:(lia)) as B.
  rewrite (picks_one_cycle ring d s t Hs) in B.
  split; lia.
Qed.

(* ... under every schedule *)
Theorem rr_share_bounds_every_schedule_l : forall sched (ring : list nat) d c ts t,
  (c < two64)%N -> ring <> [] -> all_seen ts = [] ->
  let picks := all_seen (snd (run rr_step_atomic sched c ts)) in
  (c + N.of_nat (length picks) <= two64)%N ->
  (length picks / length ring) * count_nat t ring <= count_nat t (map (pickv ring d) picks)
  /\ count_nat t (map (pickv ring d) picks) <= (length picks / length ring + 1) * count_nat t ring.
Proof.
  intros sched ring d c ts t Hc Hr H0 picks Hw. unfold picks in *.
  destruct (rr_atomic_exact_l sched c ts Hc) as [j [P _]]. rewrite H0 in P. cbn [app] in P.
  assert (Hj : length (all_seen (snd (run rr_step_atomic sched c ts))) = j).
  { apply Permutation_length in P. now rewrite consecutive_length in P. }
  rewrite Hj in *. rewrite (count_nat_perm t _ _ (Permutation_map (pickv ring d) P)).
  now apply rr_share_bounds_l.
Qed.

Example rr_exact_share_every_schedule_nonvacuous :
  let ts := snd (run rr_step_atomic [0; 1; 1; 0; 2; 1; 0; 2; 2] 7%N [rr_init 3; rr_init 3; rr_init 3]) in
  all_seen [rr_init 3; rr_init 3; rr_init 3] = [] /\ length (all_seen ts) = 3 * 3
  /\ count_nat 1 (map (pickv [0; 1; 1] 0) (all_seen ts)) = 3 * 2.
Proof. vm_compute. repeat split. Qed.
