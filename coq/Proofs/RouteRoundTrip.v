(** C05, text round trip: Table.String() re-parsed by NewTable rebuilds the table.
    Part 1 (this section): table level -- running the add commands that the renderer emits
    rebuilds the table, for every table in the stated domain (induction over the table).
    Part 2: scanner inversion -- the character-level parser applied to a rendered line returns
    exactly the fields it was rendered from.
    Part 3: composition. *)
From Coq Require Import String List NArith ZArith Bool Lia.
From Fabio Require Import Lib.Outcome Lib.Bytes Model.WtF64 Model.TableCmd Model.RouteText Proofs.TableCmd.
Import ListNotations.
Local Open Scope N_scope.

(* ================= Part 1: re-adding the rendered commands ================= *)
(* the add command a target is rendered as (TargetConfig), as a parsed definition *)
Definition def_of (h p : str) (tg : target) : def :=
  {| d_cmd := CmdAdd; d_svc := t_svc tg; d_src := h ++ p; d_dst := t_url tg; d_w := t_fw tg;
     d_tags := t_tags tg; d_opts := t_opts tg |}.
Definition route_defs (h : str) (r : route) : list def := map (def_of h (r_path r)) (r_targets r).
Definition host_defs (hr : str * list route) : list def := flat_map (route_defs (fst hr)) (snd hr).
Definition table_defs (t : table) : list def := flat_map host_defs t.

(* the table with its hosts in the order String() emits them *)
Definition reorder (t : table) : table :=
  flat_map (fun h => match lookup h t with Some rs => [(h, rs)] | None => [] end) (config_hosts t).

(* no target is absorbed by the de-duplication when the targets are added in order *)
Definition twin_free (ts : list target) : Prop :=
  forall a tg b, ts = a ++ tg :: b ->
    existsb (same_target (t_svc tg) (t_url tg) (t_fw tg) (t_tags tg)) a = false.

Section Rebuild.
  Variable canon : str -> option str.
  Variable glob_ok : str -> bool.

  Definition tg_good (tg : target) : Prop :=
    t_url tg <> [] /\ canon (t_url tg) = Some (t_url tg) /\ w_is_neg (t_fw tg) = false.
  Definition route_good (h : str) (r : route) : Prop :=
    r_targets r <> [] /\ hostpath (h ++ r_path r) = (h, r_path r) /\ h ++ r_path r <> []
    /\ glob_ok (r_path r) = true /\ Forall tg_good (r_targets r) /\ twin_free (r_targets r).
  Definition host_good (hr : str * list route) : Prop :=
    lower (fst hr) = fst hr /\ glob_ok (fst hr) = true /\ snd hr <> []
    /\ NoDup (map r_path (snd hr)) /\ Forall (route_good (fst hr)) (snd hr).
  Definition table_good (t : table) : Prop := NoDup (map fst t) /\ Forall host_good t.

  Lemma run_from_app a b : forall t,
    run_from canon glob_ok t (a ++ b)
    = bind (run_from canon glob_ok t a) (fun t' => run_from canon glob_ok t' b).
  Proof.
    induction a as [|d a IH]; intros t; cbn [app run_from bind]; auto.
    destruct (apply_def canon glob_ok t d); cbn [bind]; auto.
  Qed.

  Lemma match_nonnil {A B} (l : list A) (x y : B) :
    l <> [] -> match l with [] => x | _ :: _ => y end = y.
  Proof. destruct l; [congruence | reflexivity]. Qed.

  Lemma w_clamp_nonneg w : w_is_neg w = false -> w_clamp w = w.
  Proof. destruct w; cbn; auto; discriminate. Qed.

  (* the table while host h is being rebuilt: routes [pre] done so far *)
  Definition st (acc : table) (h : str) (pre : list route) : table :=
    match pre with [] => acc | _ => acc ++ [(h, pre)] end.

  Lemma add_existing acc h pre p ts0 tg :
    ~ In h (map fst acc) -> ~ In p (map r_path pre) ->
    hostpath (h ++ p) = (h, p) -> lower h = h -> h ++ p <> [] -> tg_good tg ->
    existsb (same_target (t_svc tg) (t_url tg) (t_fw tg) (t_tags tg)) ts0 = false ->
    add_route canon glob_ok (acc ++ [(h, pre ++ [ {| r_path := p; r_targets := ts0 |} ])]) (def_of h p tg)
    = Ok (acc ++ [(h, pre ++ [ {| r_path := p; r_targets := ts0 ++ [tg] |} ])]).
  Proof.
    intros Hh Hp Hhp Hl Hne (Hu & Hc & Hw) Hex. unfold add_route. cbn [def_of d_src d_dst d_svc d_w d_tags d_opts].
    rewrite Hhp. rewrite (match_nonnil _ _ _ Hne), (match_nonnil _ _ _ Hu). rewrite Hc, Hl.
    rewrite (lookup_mid h acc _ [] Hh).
    rewrite (find_mid p pre _ [] Hp) by reflexivity.
    rewrite (upd_host_mid h _ acc _ [] Hh).
    rewrite (upd_route_mid p _ pre _ [] Hp) by reflexivity.
    unfold add_target. cbn [r_targets r_path]. rewrite (w_clamp_nonneg _ Hw), Hex.
    destruct tg; reflexivity.
  Qed.

  Lemma add_first acc h pre p tg :
    ~ In h (map fst acc) -> ~ In p (map r_path pre) ->
    hostpath (h ++ p) = (h, p) -> lower h = h -> glob_ok h = true -> h ++ p <> [] -> glob_ok p = true -> tg_good tg ->
    add_route canon glob_ok (st acc h pre) (def_of h p tg)
    = Ok (acc ++ [(h, pre ++ [ {| r_path := p; r_targets := [tg] |} ])]).
  Proof.
    intros Hh Hp Hhp Hl Hgh Hne Hg (Hu & Hc & Hw). unfold add_route. cbn [def_of d_src d_dst d_svc d_w d_tags d_opts].
    rewrite Hhp. rewrite (match_nonnil _ _ _ Hne), (match_nonnil _ _ _ Hu). rewrite Hc, Hl, Hg, Hgh.
    unfold add_target. cbn [r_targets r_path existsb app]. rewrite (w_clamp_nonneg _ Hw).
    assert (Etg : {| t_svc := t_svc tg; t_url := t_url tg; t_fw := t_fw tg; t_tags := t_tags tg; t_opts := t_opts tg |} = tg)
      by (destruct tg; reflexivity).
    rewrite Etg. unfold st. destruct pre as [|r0 pre'].
    - rewrite (lookup_notin h acc Hh). reflexivity.
    - rewrite (lookup_mid h acc _ [] Hh). rewrite (find_notin p _ Hp).
      rewrite (upd_host_mid h _ acc _ [] Hh). reflexivity.
  Qed.

  Lemma add_targets acc h pre p :
    ~ In h (map fst acc) -> ~ In p (map r_path pre) ->
    hostpath (h ++ p) = (h, p) -> lower h = h -> h ++ p <> [] ->
    forall ts ts0, Forall tg_good ts ->
      (forall a tg b, ts = a ++ tg :: b ->
         existsb (same_target (t_svc tg) (t_url tg) (t_fw tg) (t_tags tg)) (ts0 ++ a) = false) ->
      run_from canon glob_ok (acc ++ [(h, pre ++ [ {| r_path := p; r_targets := ts0 |} ])]) (map (def_of h p) ts)
      = Ok (acc ++ [(h, pre ++ [ {| r_path := p; r_targets := ts0 ++ ts |} ])]).
  Proof.
    intros Hh Hp Hhp Hl Hne. induction ts as [|tg ts IH]; intros ts0 Hg Htw; cbn [map run_from].
    - now rewrite app_nil_r.
    - inversion Hg as [|? ? Hg1 Hg2]; subst. unfold apply_def at 1. cbn [def_of d_cmd].
      fold (def_of h p tg). rewrite add_existing; auto.
      2:{ specialize (Htw [] tg ts eq_refl). now rewrite app_nil_r in Htw. }
      cbn [bind]. rewrite IH; auto.
      + now rewrite <- app_assoc.
      + intros a tg' b E. rewrite <- app_assoc. cbn [app]. apply (Htw (tg :: a) tg' b). now rewrite E.
  Qed.

  Lemma add_route_all acc h pre r :
    ~ In h (map fst acc) -> ~ In (r_path r) (map r_path pre) -> lower h = h -> glob_ok h = true -> route_good h r ->
    run_from canon glob_ok (st acc h pre) (route_defs h r) = Ok (st acc h (pre ++ [r])).
  Proof.
    intros Hh Hp Hl Hgh (Hne & Hhp & Hsrc & Hgl & Hg & Htw). destruct r as [p ts]. cbn [r_path r_targets] in *.
    unfold route_defs. cbn [r_path r_targets]. destruct ts as [|tg ts]; [congruence|].
    inversion Hg as [|? ? Hg1 Hg2]; subst. cbn [map run_from]. unfold apply_def at 1. cbn [def_of d_cmd].
    fold (def_of h p tg). rewrite add_first; auto. cbn [bind].
    rewrite (add_targets acc h pre p Hh Hp Hhp Hl Hsrc ts [tg] Hg2).
    - unfold st. cbn [app]. destruct (pre ++ [ {| r_path := p; r_targets := tg :: ts |} ]) eqn:E; [|now rewrite <- E].
      apply app_eq_nil in E as [_ E]. discriminate.
    - intros a tg' b E. apply (Htw (tg :: a) tg' b). now rewrite E.
  Qed.

  Lemma add_host_all acc h : ~ In h (map fst acc) -> lower h = h -> glob_ok h = true ->
    forall rs pre, NoDup (map r_path (pre ++ rs)) -> Forall (route_good h) rs ->
      run_from canon glob_ok (st acc h pre) (flat_map (route_defs h) rs) = Ok (st acc h (pre ++ rs)).
  Proof.
    intros Hh Hl Hgh. induction rs as [|r rs IH]; intros pre Hnd Hg; cbn [flat_map].
    - now rewrite app_nil_r.
    - inversion Hg as [|? ? Hg1 Hg2]; subst. rewrite run_from_app.
      rewrite add_route_all; auto.
      2:{ rewrite map_app in Hnd. cbn [map] in Hnd. apply NoDup_remove_2 in Hnd.
          intros Hin. apply Hnd, in_or_app. now left. }
      cbn [bind]. rewrite IH; auto.
      + now rewrite <- app_assoc.
      + now rewrite <- app_assoc.
  Qed.

  (* running the rendered commands of a good table, from any disjoint table, appends it *)
  Lemma rebuild_from es : forall acc, NoDup (map fst (acc ++ es)) -> Forall host_good es ->
    run_from canon glob_ok acc (table_defs es) = Ok (acc ++ es).
  Proof.
    induction es as [|[h rs] es IH]; intros acc Hnd Hg; cbn [table_defs flat_map].
    - now rewrite app_nil_r.
    - inversion Hg as [|? ? (Hl & Hgh & Hne & Hp & Hr) Hg2]; subst. cbn [fst snd] in *.
      rewrite run_from_app. unfold host_defs at 1. cbn [fst snd].
      assert (Hh : ~ In h (map fst acc)).
      { rewrite map_app in Hnd. cbn [map fst] in Hnd. apply NoDup_remove_2 in Hnd.
        intros Hin. apply Hnd, in_or_app. now left. }
      change acc with (st acc h []) at 1. rewrite add_host_all; auto. cbn [app bind].
      unfold st. destruct rs as [|r0 rs']; [congruence|].
      fold (table_defs es). rewrite IH; auto.
      + now rewrite <- app_assoc.
      + now rewrite <- app_assoc.
  Qed.

  Theorem rebuild t : table_good t -> run canon glob_ok (table_defs t) = Ok t.
  Proof. intros [Hnd Hg]. unfold run. now rewrite rebuild_from. Qed.
End Rebuild.

(* ---- the host order of String() ---- *)
Lemma insert_host_in x h l : In x (insert_host_desc h l) <-> x = h \/ In x l.
Proof.
  induction l as [|y l IH]; cbn [insert_host_desc In]; [intuition|].
  destruct (str_ltb y h); cbn [In]; rewrite ?IH; intuition.
Qed.

Lemma insert_host_nodup h l : NoDup l -> ~ In h l -> NoDup (insert_host_desc h l).
Proof.
  induction l as [|y l IH]; cbn [insert_host_desc]; intros Hd Hn.
  - constructor; auto.
  - destruct (str_ltb y h); [constructor; auto|].
    inversion Hd; subst. constructor.
    + rewrite insert_host_in. intros [->|?]; [apply Hn; now left | auto].
    + apply IH; auto. intros ?. apply Hn. now right.
Qed.

Lemma sort_hosts_in x l : In x (fold_right insert_host_desc [] l) <-> In x l.
Proof. induction l as [|y l IH]; cbn [fold_right In]; [tauto|]. rewrite insert_host_in, IH. intuition. Qed.

Lemma sort_hosts_nodup l : NoDup l -> NoDup (fold_right insert_host_desc [] l).
Proof.
  induction l as [|y l IH]; cbn [fold_right]; intros Hd; [constructor|].
  inversion Hd; subst. apply insert_host_nodup; auto. now rewrite sort_hosts_in.
Qed.

Lemma config_hosts_in h t : In h (config_hosts t) <-> In h (map fst t) \/ h = [].
Proof.
  unfold config_hosts. rewrite in_app_iff, sort_hosts_in, filter_In. cbn [In]. split.
  - intros [[H1 _]|[H1|[]]]; [left; exact H1 | right; now rewrite <- H1].
  - intros [Hin| ->]; [|auto]. destruct h as [|c h]; [auto|]. left. split; auto.
Qed.

Lemma config_hosts_nodup t : NoDup (map fst t) -> NoDup (config_hosts t).
Proof.
  intros Hd. unfold config_hosts. apply NoDup_app_single.
  - apply sort_hosts_nodup. now apply NoDup_filter.
  - rewrite sort_hosts_in, filter_In. intros [_ H]. discriminate.
Qed.

Section Reorder.
  Variable t : table.
  Let F (h : str) : table := match lookup h t with Some rs => [(h, rs)] | None => [] end.

  Lemma reorder_lookup_in hs h : In h hs -> lookup h (flat_map F hs) = lookup h t.
  Proof.
    induction hs as [|x hs IH]; intros Hin; [destruct Hin|]. cbn [flat_map]. unfold F at 1.
    destruct (beq x h) eqn:E.
    - apply beq_true_eq in E. subst x. destruct (lookup h t) as [rs|] eqn:EL.
      + cbn [app lookup]. now rewrite beq_refl.
      + cbn [app]. clear IH Hin. induction hs as [|y hs IH2]; [reflexivity|].
        cbn [flat_map]. unfold F at 1. destruct (lookup y t) as [rs'|] eqn:EL'; cbn [app lookup]; auto.
        destruct (beq y h) eqn:E2; auto. apply beq_true_eq in E2. congruence.
    - destruct Hin as [->|Hin]; [now rewrite beq_refl in E|].
      destruct (lookup x t); cbn [app lookup]; rewrite ?E; auto.
  Qed.

  Lemma reorder_lookup_notin hs h : ~ In h hs -> lookup h (flat_map F hs) = None.
  Proof.
    induction hs as [|x hs IH]; intros Hn; [reflexivity|]. cbn [flat_map]. unfold F at 1.
    assert (E : beq x h = false).
    { destruct (beq x h) eqn:E; auto. apply beq_true_eq in E. subst. exfalso. apply Hn. now left. }
    destruct (lookup x t); cbn [app lookup]; rewrite ?E; apply IH; intros ?; apply Hn; now right.
  Qed.

  Lemma reorder_fst_in hs x : In x (map fst (flat_map F hs)) -> In x hs.
  Proof.
    induction hs as [|y hs IH]; cbn [flat_map]; [auto|]. unfold F at 1.
    destruct (lookup y t); cbn [app map fst In]; intuition.
  Qed.

  Lemma reorder_fst_nodup hs : NoDup hs -> NoDup (map fst (flat_map F hs)).
  Proof.
    induction hs as [|y hs IH]; cbn [flat_map]; intros Hd; [constructor|]. inversion Hd; subst. unfold F at 1.
    destruct (lookup y t); cbn [app map fst]; auto. constructor; auto.
    intros Hin. apply reorder_fst_in in Hin. auto.
  Qed.
End Reorder.

(* the re-ordered table has the same routes under every host *)
Theorem reorder_lookup t h : lookup h (reorder t) = lookup h t.
Proof.
  unfold reorder. destruct (lookup h t) as [rs|] eqn:EL.
  - rewrite reorder_lookup_in; auto. apply config_hosts_in. left.
    apply lookup_in in EL. apply in_map_iff. now exists (h, rs).
  - destruct (in_dec (list_eq_dec N.eq_dec) h (config_hosts t)) as [Hin|Hn].
    + rewrite reorder_lookup_in; auto.
    + now apply reorder_lookup_notin.
Qed.

Lemma reorder_good canon glob_ok t : table_good canon glob_ok t -> table_good canon glob_ok (reorder t).
Proof.
  intros [Hd Hg]. split.
  - apply reorder_fst_nodup. now apply config_hosts_nodup.
  - apply Forall_forall. intros [h rs] Hin. unfold reorder in Hin. apply in_flat_map in Hin as (h' & _ & Hin).
    destruct (lookup h' t) as [rs'|] eqn:EL; [|destruct Hin]. destruct Hin as [Heq|[]]. inversion Heq; subst.
    apply lookup_in in EL. rewrite Forall_forall in Hg. exact (Hg _ EL).
Qed.

(* Part 1, final form: the commands String() emits, run on an empty table, rebuild the table
   with its hosts in String()'s order *)
Theorem rebuild_rendered canon glob_ok t :
  table_good canon glob_ok t -> run canon glob_ok (table_defs (reorder t)) = Ok (reorder t).
Proof. intros H. apply rebuild. now apply reorder_good. Qed.

(* ================= Part 2: scanner inversion ================= *)
(* byte classes: a token byte is anything strings.TrimSpace / \s would not touch; a quoted byte
   is anything but the quote *)
Definition tokc (c : N) : bool := negb (go_space c).
Definition tokb (s : str) : bool := negb (at_end s) && forallb tokc s.
Definition qc (c : N) : bool := negb (c =? 34).

Lemma tokc_re c : tokc c = true -> re_space c = false.
Proof. unfold tokc, go_space. destruct (re_space c); cbn; auto; discriminate. Qed.

Lemma span_app (p : N -> bool) t r :
  forallb p t = true -> match r with [] => True | c :: _ => p c = false end ->
  span p (t ++ r) = (t, r).
Proof.
  intros Ht Hr. induction t as [|c t IH]; cbn [app].
  - destruct r as [|c r]; cbn [span]; auto. now rewrite Hr.
  - cbn [forallb] in Ht. apply andb_true_iff in Ht as [Hc Ht]. cbn [span]. rewrite Hc, (IH Ht). reflexivity.
Qed.

(* what may follow a token: end of line or a space *)
Definition stops (r : str) : Prop := match r with [] => True | c :: _ => re_space c = true end.

Lemma tok_app t r : tokb t = true -> stops r -> tok (t ++ r) = Some (t, r).
Proof.
  unfold tokb. intros Ht Hr. apply andb_true_iff in Ht as [Hne Ht]. unfold tok.
  rewrite (span_app (fun c => negb (re_space c)) t r).
  - destruct t; [discriminate | reflexivity].
  - apply forallb_forall. intros c Hc. rewrite forallb_forall in Ht. now rewrite (tokc_re _ (Ht _ Hc)).
  - destruct r as [|c r]; auto. cbn in Hr. now rewrite Hr.
Qed.

Lemma ws1_tok t r : tokb t = true -> ws1 (sp ++ t ++ r) = Some (t ++ r).
Proof.
  unfold tokb. intros Ht. apply andb_true_iff in Ht as [Hne Ht]. destruct t as [|c t]; [discriminate|].
  cbn [forallb] in Ht. apply andb_true_iff in Ht as [Hc _]. apply tokc_re in Hc.
  unfold ws1, sp. cbn [app span]. change (re_space 32) with true. cbn iota. now rewrite Hc.
Qed.

Lemma skipn_len_app (l r : str) : skipn (length l) (l ++ r) = r.
Proof. induction l as [|c l IH]; cbn [length skipn app]; auto. Qed.

Lemma lit_app l r : lit l (l ++ r) = Some r.
Proof.
  unfold lit. assert (H : has_prefix (l ++ r) l = true) by (apply has_prefix_spec; now exists r).
  rewrite H. now rewrite skipn_len_app.
Qed.

Lemma quoted_app q r : forallb qc q = true -> quoted ([34] ++ q ++ [34] ++ r) = Some (q, r).
Proof.
  intros Hq. unfold quoted. cbn [app]. rewrite (span_app (fun c => negb (c =? 34)) q (34 :: r)); auto.
Qed.

(* keyword clauses, as the renderer writes them *)
Definition clause_w (o : option str) : str :=
  match o with Some w => sp ++ k_weight ++ sp ++ w | None => [] end.
Definition clause_q (kw : str) (o : option str) : str :=
  match o with Some q => sp ++ kw ++ sp ++ [34] ++ q ++ [34] | None => [] end.

Definition add_tail (svc src dst : str) (ow otg oop : option str) : str :=
  sp ++ svc ++ sp ++ src ++ sp ++ dst ++ clause_w ow ++ clause_q k_tags otg ++ clause_q k_opts oop.
Definition add_line (svc src dst : str) (ow otg oop : option str) : str :=
  k_route ++ sp ++ k_add ++ add_tail svc src dst ow otg oop.

Definition ow_ok (o : option str) : Prop := match o with Some w => tokb w = true | None => True end.
Definition oq_ok (o : option str) : Prop := match o with Some q => forallb qc q = true | None => True end.

Lemma stops_clauses ow otg oop : stops (clause_w ow ++ clause_q k_tags otg ++ clause_q k_opts oop).
Proof. destruct ow, otg, oop; cbn; auto. Qed.
Lemma stops_clauses2 otg oop : stops (clause_q k_tags otg ++ clause_q k_opts oop).
Proof. destruct otg, oop; cbn; auto. Qed.
Lemma stops_clause1 oop : stops (clause_q k_opts oop).
Proof. destruct oop; cbn; auto. Qed.

(* a group whose keyword is not there does not match *)
Lemma no_weight_here otg oop : kw_tok k_weight (clause_q k_tags otg ++ clause_q k_opts oop) = None.
Proof. destruct otg, oop; reflexivity. Qed.
Lemma no_tags_here oop : kw_quoted k_tags (clause_q k_opts oop) = None.
Proof. destruct oop; reflexivity. Qed.
Lemma no_opts_here : kw_quoted k_opts [] = None.
Proof. reflexivity. Qed.

Lemma kw_tok_here kw w r : tokb kw = true -> tokb w = true -> stops r ->
  kw_tok kw (sp ++ kw ++ sp ++ w ++ r) = Some (w, r).
Proof.
  intros Hk Hw Hr. unfold kw_tok, obind. rewrite (ws1_tok kw _ Hk), lit_app, (ws1_tok w r Hw).
  now apply tok_app.
Qed.

Lemma kw_quoted_here kw q r : tokb kw = true -> forallb qc q = true ->
  kw_quoted kw (sp ++ kw ++ sp ++ [34] ++ q ++ [34] ++ r) = Some (q, r).
Proof.
  intros Hk Hq. unfold kw_quoted, obind. rewrite (ws1_tok kw _ Hk), lit_app.
  assert (E : ws1 (sp ++ [34] ++ q ++ [34] ++ r) = Some ([34] ++ q ++ [34] ++ r)) by reflexivity.
  rewrite E. now apply quoted_app.
Qed.

Lemma opt_weight ow r : ow_ok ow -> stops r -> kw_tok k_weight r = None ->
  opt_group (kw_tok k_weight) (clause_w ow ++ r) = (ow, r).
Proof.
  intros Hw Hr Hn. unfold opt_group. destruct ow as [w|]; cbn [clause_w].
  - rewrite <- !app_assoc. rewrite kw_tok_here; auto.
  - cbn [app]. now rewrite Hn.
Qed.

Lemma opt_quoted kw o r : tokb kw = true -> oq_ok o -> kw_quoted kw r = None ->
  opt_group (kw_quoted kw) (clause_q kw o ++ r) = (o, r).
Proof.
  intros Hk Hq Hn. unfold opt_group. destruct o as [q|]; cbn [clause_q].
  - rewrite <- !app_assoc. rewrite kw_quoted_here; auto.
  - cbn [app]. now rewrite Hn.
Qed.

(* reAdd on a rendered tail returns the fields it was rendered from *)
Theorem match_add_rendered svc src dst ow otg oop :
  tokb svc = true -> tokb src = true -> tokb dst = true -> ow_ok ow -> oq_ok otg -> oq_ok oop ->
  match_add (add_tail svc src dst ow otg oop) = Some (svc, src, dst, ow, otg, oop).
Proof.
  intros Hs Hr Hd Hw Ht Ho. unfold match_add, add_tail, obind.
  rewrite (ws1_tok svc _ Hs). rewrite (tok_app svc _ Hs) by (cbn; auto).
  rewrite (ws1_tok src _ Hr). rewrite (tok_app src _ Hr) by (cbn; auto).
  rewrite (ws1_tok dst _ Hd). rewrite (tok_app dst _ Hd) by apply stops_clauses.
  rewrite (opt_weight ow _ Hw (stops_clauses2 _ _) (no_weight_here _ _)).
  rewrite (opt_quoted k_tags otg _ eq_refl Ht (no_tags_here _)).
  rewrite <- (app_nil_r (clause_q k_opts oop)).
  rewrite (opt_quoted k_opts oop [] eq_refl Ho no_opts_here). reflexivity.
Qed.

(* ---- the line as a whole: TrimSpace, bufio's \r, comment / blank / keyword dispatch ---- *)
Fixpoint lastc (l : str) : option N :=
  match l with
  | [] => None
  | [c] => Some c
  | _ :: l' => lastc l'
  end.

Lemma lastc_snoc l c : lastc l = Some c -> exists x, l = x ++ [c].
Proof.
  induction l as [|a l IH]; [discriminate|]. destruct l as [|b l].
  - cbn. intros H; inversion H. now exists [].
  - intros H. change (lastc (b :: l) = Some c) in H. destruct (IH H) as [x ->]. now exists (a :: x).
Qed.

Definition good_last (l : str) : Prop := exists c, lastc l = Some c /\ tokc c = true.

Lemma lastc_app a b : b <> [] -> lastc (a ++ b) = lastc b.
Proof.
  intros Hb. induction a as [|c a IH]; auto. cbn [app]. destruct (a ++ b) eqn:E.
  - apply app_eq_nil in E as [_ E]. congruence.
  - rewrite <- E in *. cbn [lastc]. rewrite E. rewrite <- E. exact IH.
Qed.

Lemma good_last_app a b : good_last b -> good_last (a ++ b).
Proof.
  intros (c & Hc & Ht). exists c. split; auto. rewrite lastc_app; auto. intros ->. discriminate.
Qed.

Lemma good_last_tok t : tokb t = true -> good_last t.
Proof.
  unfold tokb. intros H. apply andb_true_iff in H as [Hne Ht].
  induction t as [|c t IH]; [discriminate|]. cbn [forallb] in Ht. apply andb_true_iff in Ht as [Hc Ht].
  destruct t as [|d t]; [exists c; auto|]. destruct (IH eq_refl Ht) as (e & He & Hte). exists e. split; auto.
Qed.

Lemma good_last_quote x : good_last (x ++ [34]).
Proof. apply good_last_app. exists 34. split; reflexivity. Qed.

Lemma drop_while_head p c l : p c = false -> drop_while p (c :: l) = c :: l.
Proof. intros H. cbn [drop_while]. now rewrite H. Qed.

Lemma trim_space_id c l : tokc c = true -> good_last (c :: l) -> trim_space (c :: l) = c :: l.
Proof.
  intros Hc (e & He & Hte). unfold trim_space. unfold tokc in *.
  rewrite drop_while_head by (now destruct (go_space c)).
  destruct (lastc_snoc _ _ He) as [x E]. rewrite E, rev_app_distr. cbn [rev app].
  rewrite drop_while_head by (now destruct (go_space e)).
  change (e :: rev x) with (rev [e] ++ rev x). now rewrite <- rev_app_distr, rev_involutive.
Qed.

Lemma drop_cr_id l : good_last l -> drop_cr l = l.
Proof.
  intros (e & He & Hte). destruct (lastc_snoc _ _ He) as [x E]. unfold drop_cr. rewrite E, rev_app_distr.
  cbn [rev app]. destruct e as [|e]; auto.
  destruct (N.eq_dec (N.pos e) 13) as [E13|N13]; [rewrite E13 in Hte; discriminate|].
  destruct e as [e|e|]; auto; destruct e as [e|e|]; auto; destruct e as [e|e|]; auto;
    destruct e as [e|e|]; auto. congruence.
Qed.

Lemma add_line_good_last svc src dst ow otg oop :
  tokb dst = true -> ow_ok ow -> good_last (add_line svc src dst ow otg oop).
Proof.
  intros Hd Hw. unfold add_line, add_tail.
  destruct oop as [q|]; cbn [clause_q].
  { repeat apply good_last_app. exists 34. split; reflexivity. }
  rewrite app_nil_r. destruct otg as [q|]; cbn [clause_q].
  { repeat apply good_last_app. exists 34. split; reflexivity. }
  rewrite app_nil_r. destruct ow as [w|]; cbn [clause_w].
  { repeat apply good_last_app. now apply good_last_tok. }
  rewrite app_nil_r. repeat apply good_last_app. now apply good_last_tok.
Qed.

Section Scanner.
  Variable pweight : str -> outcome wt.

  (* Part 2, final form: the character-level parser applied to a rendered line returns exactly
     the fields the line was rendered from (weight, tags and options as their raw texts) *)
  Theorem parse_line_rendered svc src dst ow otg oop :
    tokb svc = true -> tokb src = true -> tokb dst = true -> ow_ok ow -> oq_ok otg -> oq_ok oop ->
    parse_line pweight (drop_cr (add_line svc src dst ow otg oop))
    = match parse_weight pweight ow with
      | Ok f => Ok (Some (mk CmdAdd svc src dst f (parse_tags (ostr otg)) (parse_opts (ostr oop))))
      | _ => Err e_weight_value
      end.
  Proof.
    intros Hs Hr Hd Hw Ht Ho.
    pose proof (add_line_good_last svc src dst ow otg oop Hd Hw) as Hgl.
    rewrite (drop_cr_id _ Hgl). unfold parse_line.
    assert (Etrim : trim_space (add_line svc src dst ow otg oop) = add_line svc src dst ow otg oop).
    { unfold add_line, k_route in *. cbn [app] in *. now apply trim_space_id. }
    rewrite Etrim.
    assert (Ekw : route_kw k_add (add_line svc src dst ow otg oop) = Some (add_tail svc src dst ow otg oop))
      by reflexivity.
    assert (Ec : is_comment (add_line svc src dst ow otg oop) || at_end (add_line svc src dst ow otg oop) = false)
      by reflexivity.
    rewrite Ec, Ekw. unfold parse_route_add. rewrite match_add_rendered by assumption.
    destruct (parse_weight pweight ow); reflexivity.
  Qed.
End Scanner.

(* ================= Part 3: field texts and composition ================= *)
(* THE SAFE BYTE CLASS: printable ASCII without space, quote and backslash *)
Definition safe (c : N) : bool := (33 <=? c) && (c <? 127) && negb (c =? 34) && negb (c =? 92).
Definition stok (s : str) : bool := negb (at_end s) && forallb safe s.
Definition lc (c : N) : bool := negb (c =? 10).

Ltac neqb :=
  repeat match goal with
         | |- context [?a =? ?b] =>
             let E := fresh "E" in destruct (a =? b) eqn:E; [apply N.eqb_eq in E; lia|]
         end.

Lemma safe_bounds c : safe c = true -> 33 <= c /\ c < 127 /\ c <> 34 /\ c <> 92.
Proof.
  unfold safe. intros H. repeat (apply andb_true_iff in H as [H ?]).
  apply N.leb_le in H. apply N.ltb_lt in H2. apply negb_true_iff in H1, H0. apply N.eqb_neq in H1, H0. auto.
Qed.

Lemma safe_tokc c : safe c = true -> tokc c = true.
Proof. intros H. apply safe_bounds in H as (? & ? & ? & ?). unfold tokc, go_space, re_space. neqb. reflexivity. Qed.
Lemma safe_qc c : safe c = true -> qc c = true.
Proof. intros H. apply safe_bounds in H as (? & ? & ? & ?). unfold qc. neqb. reflexivity. Qed.
Lemma safe_lc c : safe c = true -> lc c = true.
Proof. intros H. apply safe_bounds in H as (? & ? & ? & ?). unfold lc. neqb. reflexivity. Qed.
Lemma tokc_lc c : tokc c = true -> lc c = true.
Proof. unfold lc. intros H. destruct (c =? 10) eqn:E; auto. apply N.eqb_eq in E. subst. discriminate H. Qed.
Lemma safe_quote_byte c : safe c = true -> quote_byte c = [c].
Proof.
  intros H. apply safe_bounds in H as (? & ? & ? & ?). unfold quote_byte. neqb.
  replace (32 <=? c) with true by (symmetry; apply N.leb_le; lia).
  replace (c <? 127) with true by (symmetry; apply N.ltb_lt; lia). reflexivity.
Qed.

Lemma forallb_impl {A} (f g : A -> bool) l : (forall x, f x = true -> g x = true) -> forallb f l = true -> forallb g l = true.
Proof. intros H Hf. apply forallb_forall. intros x Hx. rewrite forallb_forall in Hf. auto. Qed.

Lemma stok_tokb s : stok s = true -> tokb s = true.
Proof.
  unfold stok, tokb. intros H. apply andb_true_iff in H as [H1 H2]. rewrite H1. cbn.
  eapply forallb_impl; [apply safe_tokc | exact H2].
Qed.

(* ---- %q on safe bytes adds the quotes and nothing else ---- *)
Lemma quote_go_safe s : forallb (fun c => safe c || (c =? 44)) s = true -> quote_go s = [34] ++ s ++ [34].
Proof.
  intros H. unfold quote_go. cbn [app]. f_equal. f_equal.
  induction s as [|c s IH]; auto. cbn [forallb] in H. apply andb_true_iff in H as [Hc Hs].
  cbn [flat_map]. rewrite (IH Hs). apply orb_true_iff in Hc as [Hc|Hc].
  - now rewrite safe_quote_byte.
  - apply N.eqb_eq in Hc. subst c. reflexivity.
Qed.

(* ---- strings.Split / strings.Join ---- *)
Definition nosep (sep : N) (l : str) : bool := forallb (fun c => negb (c =? sep)) l.

Lemma split_nosep sep l : nosep sep l = true -> split_byte l sep = [l].
Proof.
  induction l as [|c l IH]; intros H; [reflexivity|]. cbn [nosep forallb] in H. apply andb_true_iff in H as [Hc Hl].
  apply negb_true_iff in Hc. cbn [split_byte]. rewrite Hc. unfold nosep in IH. now rewrite (IH Hl).
Qed.

Lemma split_app_sep sep l r : nosep sep l = true -> split_byte (l ++ [sep] ++ r) sep = l :: split_byte r sep.
Proof.
  induction l as [|c l IH]; intros H; cbn [app split_byte].
  - now rewrite N.eqb_refl.
  - cbn [nosep forallb] in H. apply andb_true_iff in H as [Hc Hl]. apply negb_true_iff in Hc. rewrite Hc.
    unfold nosep in IH. cbn [app] in IH. now rewrite (IH Hl).
Qed.

Lemma split_join sep ls : ls <> [] -> Forall (fun l => nosep sep l = true) ls ->
  split_byte (join ls [sep]) sep = ls.
Proof.
  induction ls as [|x ls IH]; intros Hne H; [congruence|]. inversion H as [|? ? Hx Hls]; subst.
  destruct ls as [|y ls].
  - cbn [join]. now apply split_nosep.
  - change (join (x :: y :: ls) [sep]) with (x ++ [sep] ++ join (y :: ls) [sep]).
    rewrite split_app_sep by assumption. f_equal. apply IH; [discriminate | assumption].
Qed.

Lemma join_cons_ne x l sep : x <> [] -> join (x :: l) sep <> [].
Proof. destruct x as [|c x]; [congruence|]. intros _. destruct l; cbn [join app]; discriminate. Qed.

Lemma forallb_join (f : N -> bool) ls sep : Forall (fun l => forallb f l = true) ls -> forallb f sep = true ->
  forallb f (join ls sep) = true.
Proof.
  intros H Hs. induction H as [|x ls Hx Hls IH]; [reflexivity|]. destruct ls as [|y ls]; [exact Hx|].
  change (join (x :: y :: ls) sep) with (x ++ sep ++ join (y :: ls) sep). now rewrite !forallb_app, Hx, Hs, IH.
Qed.

Lemma trim_space_tok t : forallb tokc t = true -> trim_space t = t.
Proof.
  destruct t as [|c t]; [reflexivity|]. intros H. pose proof H as H'. cbn [forallb] in H'. apply andb_true_iff in H' as [Hc _].
  apply trim_space_id; auto. apply good_last_tok. unfold tokb. now rewrite H.
Qed.

(* parseTags inverts the renderer's strings.Join(tags, ",").  Since /repo dfc4ae0 the tags are
   written raw, so a tag may hold ANY ASCII byte except the quote, the comma and the newline
   (backslash and control bytes included; the model's TrimSpace / ToLower are the ASCII ones, so
   bytes >= 128 stay outside, as everywhere in this development); it must be non-empty and unchanged by TrimSpace
   (which is what parseTags applies to it). *)
Definition tagc (c : N) : bool := qc c && lc c && negb (c =? 44) && (c <? 128).
Definition tag_ok (t : str) : bool := negb (at_end t) && forallb tagc t && beq (trim_space t) t.

Lemma tagc_nosep t : forallb tagc t = true -> nosep 44 t = true.
Proof. apply forallb_impl. intros c H. unfold tagc in H. apply andb_true_iff in H as [H _]. now apply andb_true_iff in H as [_ ?]. Qed.

Theorem parse_tags_join tags : tags <> [] -> Forall (fun t => tag_ok t = true) tags ->
  parse_tags (join tags [44]) = tags.
Proof.
  intros Hne H. unfold parse_tags.
  assert (Hj : join tags [44] <> []).
  { destruct tags as [|x l]; [congruence|]. apply join_cons_ne. inversion H as [|? ? Hx _]; subst.
    unfold tag_ok in Hx. destruct x; [discriminate | discriminate]. }
  destruct (join tags [44]) eqn:E; [congruence|]. rewrite <- E.
  rewrite split_join; auto.
  - rewrite <- (map_id tags) at 2. apply map_ext_in. intros t Ht. rewrite Forall_forall in H. specialize (H _ Ht).
    unfold tag_ok in H. apply andb_true_iff in H as [_ H]. now apply beq_eq in H.
  - eapply Forall_impl; [|exact H]. intros t Ht. unfold tag_ok in Ht. apply andb_true_iff in Ht as [Ht _].
    apply andb_true_iff in Ht as [_ Ht]. now apply tagc_nosep.
Qed.

(* ---- strings.Fields ---- *)
Lemma fields_aux_tok t r cur : forallb tokc t = true -> fields_aux (t ++ r) cur = fields_aux r (rev t ++ cur).
Proof.
  revert cur. induction t as [|c t IH]; intros cur H; [reflexivity|]. cbn [forallb] in H. apply andb_true_iff in H as [Hc Ht].
  cbn [app fields_aux]. unfold tokc in Hc. apply negb_true_iff in Hc. rewrite Hc. rewrite (IH _ Ht).
  cbn [rev]. now rewrite <- app_assoc.
Qed.

Lemma fields_join toks : Forall (fun t => tokb t = true) toks -> fields (join toks sp) = toks.
Proof.
  unfold fields. induction toks as [|t toks IH]; intros H; [reflexivity|]. inversion H as [|? ? Ht Hts]; subst.
  unfold tokb in Ht. apply andb_true_iff in Ht as [Hne Ht].
  assert (Hrev : forall B (x y : B), match rev t ++ [] with [] => x | _ :: _ => y end = y).
  { intros. rewrite app_nil_r. destruct (rev t) eqn:E; auto. apply (f_equal (@rev N)) in E. rewrite rev_involutive in E.
    subst t. discriminate. }
  destruct toks as [|y toks].
  - cbn [join]. rewrite <- (app_nil_r t) at 1. rewrite fields_aux_tok by assumption. cbn [fields_aux].
    rewrite Hrev. now rewrite app_nil_r, rev_involutive.
  - change (join (t :: y :: toks) sp) with (t ++ sp ++ join (y :: toks) sp).
    rewrite fields_aux_tok by assumption. unfold sp at 1. cbn [app fields_aux]. change (go_space 32) with true. cbn iota.
    rewrite Hrev. rewrite app_nil_r, rev_involutive. f_equal. now apply IH.
Qed.

(* ---- parseOpts inverts "k=v k=v ..." for keys in ascending order ---- *)
Definition kv_text (kv : str * str) : str := fst kv ++ [61] ++ snd kv.
Definition opts_text (o : list (str * str)) : str := join (map kv_text o) sp.
(* option keys and values: any byte that is no white space and no quote (keys also without =) *)
Definition kvc (c : N) : bool := tokc c && qc c.
Lemma kvc_tokc c : kvc c = true -> tokc c = true.
Proof. unfold kvc. intros H. now apply andb_true_iff in H as [? _]. Qed.
Lemma kvc_qc c : kvc c = true -> qc c = true.
Proof. unfold kvc. intros H. now apply andb_true_iff in H as [_ ?]. Qed.
Lemma kvc_lc c : kvc c = true -> lc c = true.
Proof. intros H. apply tokc_lc. now apply kvc_tokc. Qed.
Definition kv_ok (kv : str * str) : bool := forallb kvc (fst kv) && nosep 61 (fst kv) && forallb kvc (snd kv).
(* keys strictly ascending: every key is greater than all keys before it *)
Definition opts_sorted (l : list (str * str)) : Prop :=
  forall a kv b, l = a ++ kv :: b -> Forall (fun x => str_cmp (fst kv) (fst x) = Gt) a.

Lemma split_eq_kv k v : nosep 61 k = true -> split_eq (k ++ [61] ++ v) = (k, v).
Proof.
  intros H. unfold split_eq.
  assert (E : index_byte (k ++ [61] ++ v) 61 = Some (length k)).
  { induction k as [|c k IH]; [reflexivity|]. cbn [nosep forallb] in H. apply andb_true_iff in H as [Hc Hk].
    apply negb_true_iff in Hc. cbn [app index_byte]. rewrite Hc. cbn [app] in IH. unfold nosep in IH. now rewrite (IH Hk). }
  rewrite E. f_equal.
  - clear. induction k; cbn [length firstn app]; [reflexivity | now f_equal].
  - clear. induction k; cbn [length skipn app]; auto.
Qed.

Lemma opt_insert_last k v m : Forall (fun x => str_cmp k (fst x) = Gt) m -> opt_insert k v m = m ++ [(k, v)].
Proof.
  induction 1 as [|[k' v'] m Hx Hm IH]; [reflexivity|]. cbn [opt_insert app]. cbn [fst] in Hx. rewrite Hx. now rewrite IH.
Qed.

Lemma parse_opts_fold l : forall m0, Forall (fun kv => kv_ok kv = true) l -> opts_sorted (m0 ++ l) ->
  fold_left (fun m f => let '(k, v) := split_eq f in opt_insert k v m) (map kv_text l) m0 = m0 ++ l.
Proof.
  induction l as [|[k v] l IH]; intros m0 H Hs; cbn [map fold_left]; [now rewrite app_nil_r|].
  inversion H as [|? ? Hkv Hl]; subst. unfold kv_ok in Hkv. cbn [fst snd] in Hkv.
  apply andb_true_iff in Hkv as [Hkv _]. apply andb_true_iff in Hkv as [_ Hk].
  change (kv_text (k, v)) with (k ++ [61] ++ v). rewrite split_eq_kv by assumption.
  rewrite opt_insert_last by (exact (Hs m0 (k, v) l eq_refl)).
  rewrite IH; auto.
  - now rewrite <- app_assoc.
  - now rewrite <- app_assoc.
Qed.

Lemma kv_text_tokb kv : kv_ok kv = true -> tokb (kv_text kv) = true.
Proof.
  unfold kv_ok, kv_text, tokb. intros H. apply andb_true_iff in H as [H Hv]. apply andb_true_iff in H as [Hk _].
  assert (E : at_end (fst kv ++ [61] ++ snd kv) = false) by (destruct (fst kv); reflexivity). rewrite E. cbn [negb andb].
  rewrite !forallb_app. rewrite (forallb_impl _ _ _ kvc_tokc Hk), (forallb_impl _ _ _ kvc_tokc Hv). reflexivity.
Qed.

Theorem parse_opts_text o : Forall (fun kv => kv_ok kv = true) o -> opts_sorted o -> parse_opts (opts_text o) = o.
Proof.
  intros H Hs. unfold parse_opts, opts_text. rewrite fields_join.
  - now rewrite (parse_opts_fold o [] H Hs).
  - apply Forall_forall. intros x Hx. apply in_map_iff in Hx as (kv & <- & Hkv). rewrite Forall_forall in H.
    apply kv_text_tokb. auto.
Qed.

(* ---- %.4f prints a token ---- *)
Lemma ge33_tokc c : 33 <= c -> tokc c = true.
Proof. intros H. unfold tokc, go_space, re_space. neqb. reflexivity. Qed.

Lemma digits_fuel_tok f : forall n acc, forallb tokc acc = true -> forallb tokc (digits_fuel f n acc) = true.
Proof.
  induction f as [|f IH]; intros n acc H; cbn [digits_fuel]; auto.
  assert (H' : forallb tokc ((48 + n mod 10) :: acc) = true).
  { cbn [forallb]. rewrite H, ge33_tokc; [reflexivity | generalize (n mod 10); intros; lia]. }
  destruct (n / 10 =? 0); auto.
Qed.

Lemma fmt4_tokb w : tokb (fmt4 w) = true.
Proof.
  unfold fmt4, tokb. set (k := w_fmt4 w).
  assert (E : at_end (itoa (k / 10000) ++ [46] ++ pad4 (k mod 10000)) = false) by (destruct (itoa _); reflexivity).
  rewrite E. cbn [negb andb]. rewrite !forallb_app. unfold itoa. rewrite digits_fuel_tok by reflexivity.
  unfold pad4. cbn [forallb andb].
  repeat match goal with |- context [tokc (48 + ?x)] => rewrite (ge33_tokc (48 + x)) by (generalize x; intros; lia) end.
  reflexivity.
Qed.

(* ---- TargetConfig has the shape the scanner lemmas are about ---- *)
Definition ow_of (tg : target) : option str := if w_is_pos (t_fw tg) then Some (fmt4 (t_fw tg)) else None.
Definition otg_of (tg : target) : option str :=
  match t_tags tg with [] => None | _ => Some (join (t_tags tg) [44]) end.
Definition oop_of (tg : target) : option str :=
  match t_opts tg with [] => None | _ => Some (opts_text (t_opts tg)) end.

Lemma target_config_line h p tg :
  target_config h p tg = add_line (t_svc tg) (h ++ p) (t_url tg) (ow_of tg) (otg_of tg) (oop_of tg).
Proof.
  unfold target_config, add_line, add_tail, ow_of, otg_of, oop_of, opts_text.
  destruct (w_is_pos (t_fw tg)), (t_tags tg), (t_opts tg); cbn [clause_w clause_q];
    rewrite <- ?app_assoc; rewrite ?app_nil_r; reflexivity.
Qed.

Lemma add_line_lc svc src dst ow otg oop :
  forallb lc svc = true -> forallb lc src = true -> forallb lc dst = true ->
  match ow with Some w => forallb lc w = true | None => True end ->
  match otg with Some q => forallb lc q = true | None => True end ->
  match oop with Some q => forallb lc q = true | None => True end ->
  forallb lc (add_line svc src dst ow otg oop) = true.
Proof.
  intros H1 H2 H3 H4 H5 H6. unfold add_line, add_tail.
  destruct ow, otg, oop; cbn [clause_w clause_q]; rewrite !forallb_app;
    rewrite ?H1, ?H2, ?H3, ?H4, ?H5, ?H6; reflexivity.
Qed.

(* ---- the domain of the round trip, per rendered target ---- *)
Definition weight_text_stable (w : wt) : Prop := pweight_dec (fmt4 w) = Ok w.

Definition tg_text_ok (h p : str) (ts : list target) (tg : target) : Prop :=
  tokb (t_svc tg) = true /\ tokb (h ++ p) = true /\ tokb (t_url tg) = true
  /\ Forall (fun t => tag_ok t = true) (t_tags tg)
  /\ Forall (fun kv => kv_ok kv = true) (t_opts tg) /\ opts_sorted (t_opts tg)
  /\ w_is_neg (t_fw tg) = false
  /\ (w_is_pos (t_fw tg) = true -> weight_text_stable (t_fw tg)).

Lemma tags_text_class (f : N -> bool) tags : (forall c, tagc c = true -> f c = true) -> f 44 = true ->
  Forall (fun t => tag_ok t = true) tags -> forallb f (join tags [44]) = true.
Proof.
  intros Hf H44 H. apply forallb_join; [|cbn; now rewrite H44]. eapply Forall_impl; [|exact H]. intros t Ht.
  unfold tag_ok in Ht. apply andb_true_iff in Ht as [Ht _]. apply andb_true_iff in Ht as [_ Ht].
  eapply forallb_impl; eauto.
Qed.
Lemma tagc_qc c : tagc c = true -> qc c = true.
Proof. unfold tagc. intros H. apply andb_true_iff in H as [H _]. apply andb_true_iff in H as [H _]. now apply andb_true_iff in H as [? _]. Qed.
Lemma tagc_lc c : tagc c = true -> lc c = true.
Proof. unfold tagc. intros H. apply andb_true_iff in H as [H _]. apply andb_true_iff in H as [H _]. now apply andb_true_iff in H as [_ ?]. Qed.

Lemma opts_text_class (f : N -> bool) o : (forall c, kvc c = true -> f c = true) -> f 32 = true -> f 61 = true ->
  Forall (fun kv => kv_ok kv = true) o -> forallb f (opts_text o) = true.
Proof.
  intros Hf H32 H61 H. unfold opts_text. apply forallb_join; [|cbn; now rewrite H32].
  apply Forall_forall. intros x Hx. apply in_map_iff in Hx as (kv & <- & Hkv). rewrite Forall_forall in H.
  specialize (H _ Hkv). unfold kv_ok in H. apply andb_true_iff in H as [H Hv]. apply andb_true_iff in H as [Hk _].
  unfold kv_text. rewrite !forallb_app. cbn [forallb]. rewrite H61.
  now rewrite (forallb_impl _ _ _ Hf Hk), (forallb_impl _ _ _ Hf Hv).
Qed.

Lemma tokb_lc s : tokb s = true -> forallb lc s = true.
Proof. unfold tokb. intros H. apply andb_true_iff in H as [_ H]. eapply forallb_impl; [apply tokc_lc | exact H]. Qed.

Lemma stok_class (f : N -> bool) s : (forall c, safe c = true -> f c = true) -> stok s = true -> forallb f s = true.
Proof. intros Hf H. unfold stok in H. apply andb_true_iff in H as [_ H]. eapply forallb_impl; eauto. Qed.

(* one rendered line parses back to the command it was rendered from *)
Theorem target_line_parses h p ts tg : tg_text_ok h p ts tg ->
  parse_line pweight_dec (drop_cr (target_config h p tg)) = Ok (Some (def_of h p tg))
  /\ forallb lc (target_config h p tg) = true.
Proof.
  intros (Hs & Hr & Hu & Htg & Hop & Hsort & Hneg & Hw).
  rewrite (target_config_line h p tg).
  assert (How : ow_ok (ow_of tg)). { unfold ow_of, ow_ok. destruct (w_is_pos _); auto. apply fmt4_tokb. }
  assert (Hotg : oq_ok (otg_of tg)).
  { unfold otg_of, oq_ok. destruct (t_tags tg); auto. apply tags_text_class; auto using tagc_qc. }
  assert (Hoop : oq_ok (oop_of tg)).
  { unfold oop_of, oq_ok. destruct (t_opts tg); auto.
    apply opts_text_class; auto using kvc_qc. }
  split.
  - rewrite parse_line_rendered; auto.
    assert (Ew : parse_weight pweight_dec (ow_of tg) = Ok (t_fw tg)).
    { unfold ow_of. destruct (w_is_pos (t_fw tg)) eqn:Ep.
      - unfold parse_weight. pose proof (fmt4_tokb (t_fw tg)) as Hf. destruct (fmt4 (t_fw tg)) eqn:E; [discriminate|].
        rewrite <- E. exact (Hw eq_refl).
      - destruct (t_fw tg); try discriminate; reflexivity. }
    rewrite Ew. f_equal. f_equal. unfold mk, def_of. f_equal.
    + unfold otg_of. destruct (t_tags tg); [reflexivity|]. cbn [ostr].
      apply parse_tags_join; auto. discriminate.
    + unfold oop_of. destruct (t_opts tg); [reflexivity|]. cbn [ostr].
      now apply parse_opts_text.
  - apply add_line_lc; auto using tokb_lc.
    + unfold ow_of. destruct (w_is_pos _); auto. pose proof (fmt4_tokb (t_fw tg)) as Hf. unfold tokb in Hf.
      apply andb_true_iff in Hf as [_ Hf]. eapply forallb_impl; [apply tokc_lc | exact Hf].
    + unfold otg_of. destruct (t_tags tg); auto. apply tags_text_class; auto using tagc_lc.
    + unfold oop_of. destruct (t_opts tg); auto. apply opts_text_class; auto using kvc_lc.
Qed.

(* ---- lines ---- *)
Lemma parse_lines_map {X} pw (f : X -> str) (g : X -> def) xs :
  Forall (fun x => parse_line pw (drop_cr (f x)) = Ok (Some (g x))) xs ->
  parse_lines pw (map f xs) = Ok (map g xs).
Proof.
  induction 1 as [|x xs Hx Hxs IH]; [reflexivity|]. cbn [map parse_lines]. rewrite Hx. cbn [bind].
  rewrite IH. reflexivity.
Qed.

Lemma parse_join_lines pw lines : Forall (fun l => forallb lc l = true) lines ->
  parse pw (join lines [10]) = parse_lines pw lines.
Proof.
  intros H. unfold parse. destruct lines as [|l ls]; [reflexivity|].
  rewrite split_join; [reflexivity | discriminate | exact H].
Qed.

Lemma flat_map_flat_map {A B C} (f : A -> list B) (g : B -> list C) l :
  flat_map g (flat_map f l) = flat_map (fun x => flat_map g (f x)) l.
Proof. induction l as [|x l IH]; [reflexivity|]. cbn [flat_map]. now rewrite flat_map_app', IH. Qed.

Definition line_of (x : str * str * target) : str := target_config (fst (fst x)) (snd (fst x)) (snd x).
Definition cmd_of (x : str * str * target) : def := def_of (fst (fst x)) (snd (fst x)) (snd x).

Lemma table_defs_flat es : table_defs es = map cmd_of (flat es).
Proof.
  unfold table_defs, flat. rewrite map_flat_map. apply flat_map_ext_in. intros [h rs] _.
  unfold host_defs, flat_routes. cbn [fst snd]. rewrite map_flat_map. apply flat_map_ext_in. intros r _.
  unfold route_defs. rewrite map_map. reflexivity.
Qed.

(* every target has a positive effective weight (no longer a condition of the round trip) *)
Definition all_live (t : table) : Prop :=
  forall h rs r, In (h, rs) t -> In r rs -> forall tg, In tg (r_targets r) -> live (r_targets r) tg = true.

(* String() prints every target (since /repo cb21db5), so no liveness condition is needed *)
Lemma table_config_flat t : table_config t = map line_of (flat (reorder t)).
Proof.
  unfold table_config, reorder, flat. rewrite flat_map_flat_map, map_flat_map.
  apply flat_map_ext_in. intros h _. destruct (lookup h t) as [rs|] eqn:EL; [|reflexivity].
  cbn [flat_map fst snd]. rewrite !app_nil_r. unfold flat_routes. rewrite map_flat_map.
  apply flat_map_ext_in. intros r Hr. unfold route_config. rewrite map_map. reflexivity.
Qed.

Definition text_good (t : table) : Prop :=
  forall h rs r tg, In (h, rs) t -> In r rs -> In tg (r_targets r) -> tg_text_ok h (r_path r) (r_targets r) tg.

Lemma in_reorder t h rs : In (h, rs) (reorder t) -> In (h, rs) t.
Proof.
  unfold reorder. intros Hin. apply in_flat_map in Hin as (h' & _ & Hin).
  destruct (lookup h' t) as [rs'|] eqn:EL; [|destruct Hin]. destruct Hin as [Heq|[]]. inversion Heq; subst.
  now apply lookup_in.
Qed.

Lemma lookup_map_snd (f : list route -> list route) h t :
  lookup h (map (fun hr => (fst hr, f (snd hr))) t) = option_map f (lookup h t).
Proof.
  induction t as [|[k rs] t IH]; [reflexivity|]. cbn [map lookup fst snd]. destruct (beq k h); auto.
Qed.

Section RoundTrip.
  Variable canon : str -> option str.
  Variable glob_ok : str -> bool.

  (* parsing the text of String() gives exactly the commands of Part 1 *)
  Theorem parse_render t : text_good t ->
    parse pweight_dec (render t) = Ok (table_defs (reorder t)).
  Proof.
    intros Hg.
    unfold render. rewrite (table_config_flat t), table_defs_flat.
    assert (Hall : Forall (fun x => parse_line pweight_dec (drop_cr (line_of x)) = Ok (Some (cmd_of x))
                                    /\ forallb lc (line_of x) = true) (flat (reorder t))).
    { apply Forall_forall. intros x Hx. apply in_flat in Hx as (h & rs & r & tg & Hh & Hr & Htg & ->).
      apply in_reorder in Hh. unfold line_of, cmd_of. cbn [fst snd].
      exact (target_line_parses h (r_path r) (r_targets r) tg (Hg h rs r tg Hh Hr Htg)). }
    rewrite parse_join_lines.
    - apply parse_lines_map. eapply Forall_impl; [|exact Hall]. intros x [H _]. exact H.
    - apply Forall_forall. intros l Hin. apply in_map_iff in Hin as (x & <- & Hx).
      rewrite Forall_forall in Hall. exact (proj2 (Hall x Hx)).
  Qed.

  (* C05, text round trip, character level: NewTable(t.String()) succeeds and returns the same
     routes under every host -- every target with its service, URL, weight, tags and options, in
     order -- with the routes of each host sorted as NewTable sorts them. *)
  Theorem render_parse_roundtrip t :
    table_good canon glob_ok t -> text_good t ->
    new_table pweight_dec canon glob_ok (render t) = Ok (sort_table (reorder t))
    /\ forall h, lookup h (sort_table (reorder t)) = option_map sort_routes (lookup h t).
  Proof.
    intros Hgood Htext. split.
    - unfold new_table. rewrite (parse_render t Htext). cbn [bind].
      rewrite (rebuild_rendered canon glob_ok t Hgood). reflexivity.
    - intros h. unfold sort_table. now rewrite lookup_map_snd, reorder_lookup.
  Qed.
End RoundTrip.

(* ================= deciders for the Prop-level side conditions ================= *)
Fixpoint twin_freeb (seen ts : list target) : bool :=
  match ts with
  | [] => true
  | tg :: r => negb (existsb (same_target (t_svc tg) (t_url tg) (t_fw tg) (t_tags tg)) seen)
               && twin_freeb (seen ++ [tg]) r
  end.

Lemma twin_freeb_sound ts : forall seen, twin_freeb seen ts = true ->
  forall a tg b, ts = a ++ tg :: b ->
    existsb (same_target (t_svc tg) (t_url tg) (t_fw tg) (t_tags tg)) (seen ++ a) = false.
Proof.
  induction ts as [|x ts IH]; intros seen H a tg b E; [destruct a; discriminate|].
  cbn [twin_freeb] in H. apply andb_true_iff in H as [H1 H2]. destruct a as [|y a]; cbn [app] in E; inversion E; subst.
  - rewrite app_nil_r. now apply negb_true_iff in H1.
  - specialize (IH _ H2 a tg b eq_refl). now rewrite <- app_assoc in IH.
Qed.

Lemma twin_freeb_ok ts : twin_freeb [] ts = true -> twin_free ts.
Proof. intros H a tg b E. exact (twin_freeb_sound ts [] H a tg b E). Qed.

Fixpoint opts_sortedb (seen l : list (str * str)) : bool :=
  match l with
  | [] => true
  | kv :: r => forallb (fun x => match str_cmp (fst kv) (fst x) with Gt => true | _ => false end) seen
               && opts_sortedb (seen ++ [kv]) r
  end.

Lemma opts_sortedb_sound l : forall seen, opts_sortedb seen l = true ->
  forall a kv b, l = a ++ kv :: b -> Forall (fun x => str_cmp (fst kv) (fst x) = Gt) (seen ++ a).
Proof.
  induction l as [|x l IH]; intros seen H a kv b E; [destruct a; discriminate|].
  cbn [opts_sortedb] in H. apply andb_true_iff in H as [H1 H2]. destruct a as [|y a]; cbn [app] in E; inversion E; subst.
  - rewrite app_nil_r. apply Forall_forall. intros z Hz. rewrite forallb_forall in H1. specialize (H1 _ Hz).
    now destruct (str_cmp (fst kv) (fst z)).
  - specialize (IH _ H2 a kv b eq_refl). now rewrite <- app_assoc in IH.
Qed.

Lemma opts_sortedb_ok l : opts_sortedb [] l = true -> opts_sorted l.
Proof. intros H a kv b E. exact (opts_sortedb_sound l [] H a kv b E). Qed.

(* ================= pweight_dec o fmt4 on the 4-decimal grid ================= *)
(* [weight_text_stable] is the explicit hypothesis of the round trip.  It is proved here, by
   exhaustive kernel evaluation, for every grid weight k/10000 with 1 <= k <= 10000
   (0.0001 .. 1.0000); for larger k it stays a hypothesis (decidable per weight by evaluation). *)
Definition stable_b (w : wt) : bool :=
  match pweight_dec (fmt4 w) with Ok w' => wt_eqb w' w | _ => false end.

Lemma wt_eqb_eq a b : wt_eqb a b = true -> a = b.
Proof.
  destruct a, b; cbn [wt_eqb]; try discriminate; auto; intros H; apply andb_true_iff in H as [H1 H2];
    apply N.eqb_eq in H1; apply Z.eqb_eq in H2; congruence.
Qed.

Lemma stable_b_ok w : stable_b w = true -> weight_text_stable w.
Proof.
  unfold stable_b, weight_text_stable. destruct (pweight_dec (fmt4 w)); try discriminate.
  intros H. apply wt_eqb_eq in H. congruence.
Qed.

Definition grid_limit : nat := N.to_nat 10000.
Lemma grid_all_stable :
  forallb (fun i => stable_b (w_of_dec false (N.of_nat i) 4)) (seq 1 grid_limit) = true.
Proof. vm_compute. reflexivity. Qed.

Theorem grid_weight_stable k : 1 <= k <= 10000 -> weight_text_stable (w_of_dec false k 4).
Proof.
  intros Hk. apply stable_b_ok. pose proof grid_all_stable as H. rewrite forallb_forall in H.
  specialize (H (N.to_nat k)). rewrite N2Nat.id in H. apply H. apply in_seq. unfold grid_limit. lia.
Qed.

(* ================= non-vacuity: a concrete table meets all hypotheses ================= *)
Definition ex_tg : target :=
  {| t_svc := bs "svc-a"; t_url := bs "http://10.0.0.1:80/"; t_fw := w_of_dec false 2500 4;
     t_tags := [bs "a"; bs "b"]; t_opts := [(bs "proto", bs "https"); (bs "strip", bs "/x")] |}.
Definition ex_tg2 : target :=
  {| t_svc := bs "svc-b"; t_url := bs "http://10.0.0.2:80/"; t_fw := WZ; t_tags := []; t_opts := [] |}.
Definition ex_table : table := [(bs "foo.com", [ {| r_path := bs "/"; r_targets := [ex_tg; ex_tg2] |} ])].

Ltac ev := vm_compute; reflexivity.

Theorem roundtrip_nonvacuous : table_good idcanon anyglob ex_table /\ text_good ex_table.
Proof.
  split.
  - split; [constructor; [intros [] | constructor]|].
    constructor; [|constructor]. unfold host_good, ex_table. cbn [fst snd].
    split; [ev|]. split; [reflexivity|]. split; [discriminate|]. split; [constructor; [intros [] | constructor]|].
    constructor; [|constructor]. unfold route_good. cbn [r_targets r_path].
    split; [discriminate|]. split; [ev|]. split; [vm_compute; discriminate|]. split; [reflexivity|]. split.
    + constructor; [|constructor; [|constructor]]; (split; [vm_compute; discriminate|]; split; ev).
    + apply twin_freeb_ok. ev.
  - intros h rs r tg Hh Hr Htg.
    destruct Hh as [Hh|[]]. inversion Hh; subst h rs. clear Hh.
    destruct Hr as [Hr|[]]. subst r. cbn [r_targets r_path] in *.
    destruct Htg as [Htg|[Htg|[]]]; subst tg; unfold tg_text_ok.
    + split; [ev|]. split; [ev|]. split; [ev|].
      split; [constructor; [ev|constructor; [ev|constructor]]|].
      split; [constructor; [ev|constructor; [ev|constructor]]|].
      split; [apply opts_sortedb_ok; ev|]. split; [ev|]. intros _. apply stable_b_ok. ev.
    + split; [ev|]. split; [ev|]. split; [ev|].
      split; [constructor|]. split; [constructor|].
      split; [apply opts_sortedb_ok; ev|]. split; [ev|]. intros H. vm_compute in H. discriminate.
Qed.

(* the tag class reaches beyond the safe byte class: backslash, control and non-ASCII bytes *)
Lemma tag_domain_wide : tag_ok (bs "x\y") = true /\ tag_ok [1; 92; 127] = true /\ tag_ok (bs "a b") = true.
Proof. repeat split; vm_compute; reflexivity. Qed.
