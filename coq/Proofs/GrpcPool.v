(** Proofs about the model of proxy/grpc_handler.go (Model/GrpcPool.v). *)
From Coq Require Import String List NArith Bool Lia Permutation.
From Fabio Require Import Lib.Outcome Lib.Bytes Model.GrpcPool.
From Fabio Require Model.Glob Model.Lookup Proofs.Lookup.
Module ML := Fabio.Model.Lookup.
Module PL := Fabio.Proofs.Lookup.
Import ListNotations.
Local Open Scope N_scope.

(* ---- small facts about the list helpers ---- *)
Lemma mem_In u l : mem u l = true <-> In u l.
Proof.
  unfold mem. rewrite existsb_exists. split.
  - intros [x [Hx E]]. apply beq_eq in E. now subst.
  - intros H. exists u. split; [exact H | apply beq_refl].
Qed.
Lemma mem_false u l : mem u l = false <-> ~ In u l.
Proof. rewrite <- mem_In. destruct (mem u l); split; intros; congruence. Qed.
Lemma memN_In c l : memN c l = true <-> In c l.
Proof.
  unfold memN. rewrite existsb_exists. split.
  - intros [x [Hx E]]. apply N.eqb_eq in E. now subst.
  - intros H. exists c. split; [exact H | apply N.eqb_refl].
Qed.
Lemma memN_app c a b : memN c (a ++ b) = memN c a || memN c b.
Proof. unfold memN. apply existsb_app. Qed.

Lemma assoc_In {A} k (l : list (str * A)) v : assoc k l = Some v -> In (k, v) l.
Proof.
  induction l as [|[k' v'] l IH]; cbn [assoc]; [discriminate|].
  destruct (beq k k') eqn:E.
  - intros H; inversion H; subst. apply beq_eq in E. subst. now left.
  - intros H. right. now apply IH.
Qed.
Lemma assoc_None_notin {A} k (l : list (str * A)) : assoc k l = None -> ~ In k (map fst l).
Proof.
  induction l as [|[k' v'] l IH]; cbn [assoc map fst In]; [tauto|].
  destruct (beq k k') eqn:E; [discriminate|].
  intros H [H1|H1]; [subst; rewrite beq_refl in E; discriminate | now apply IH].
Qed.
Lemma In_assoc_nodup {A} k (v : A) l : NoDup (map fst l) -> In (k, v) l -> assoc k l = Some v.
Proof.
  induction l as [|[k' v'] l IH]; cbn [map fst assoc In]; [tauto|].
  intros ND [H|H].
  - inversion H; subst. now rewrite beq_refl.
  - inversion ND as [|? ? Hn ND']; subst.
    destruct (beq k k') eqn:E.
    + apply beq_eq in E. subst. exfalso. apply Hn. change k' with (fst (k', v)). now apply in_map.
    + now apply IH.
Qed.

Lemma assoc_filter_keep {A} k (v : A) (f : str * A -> bool) l :
  assoc k l = Some v -> f (k, v) = true -> assoc k (filter f l) = Some v.
Proof.
  induction l as [|[k' v'] l IH]; cbn [assoc filter]; [discriminate|].
  destruct (beq k k') eqn:E.
  - intros H Hf; inversion H; subst. apply beq_eq in E; subst. rewrite Hf. cbn [assoc]. now rewrite beq_refl.
  - intros H Hf. destruct (f (k', v')); [cbn [assoc]; rewrite E|]; now apply IH.
Qed.
Lemma assoc_filter_none {A} k (f : str * A -> bool) (l : list (str * A)) :
  (forall v, In (k, v) l -> f (k, v) = false) -> assoc k (filter f l) = None.
Proof.
  induction l as [|[k' v'] l IH]; cbn [filter]; [reflexivity|]. intros H.
  destruct (f (k', v')) eqn:Ef.
  - cbn [assoc]. destruct (beq k k') eqn:E.
    + apply beq_eq in E; subst. rewrite H in Ef; [discriminate | now left].
    + apply IH. intros v Hv. apply H. now right.
  - apply IH. intros v Hv. apply H. now right.
Qed.

Lemma remove_key_In k l k' c : In (k', c) (remove_key k l) <-> In (k', c) l /\ k' <> k.
Proof.
  induction l as [|[k2 c2] l IH]; cbn [remove_key In]; [tauto|].
  destruct (beq k k2) eqn:E.
  - apply beq_eq in E; subst. rewrite IH. split.
    + intros [H1 H2]; split; [now right | exact H2].
    + intros [[H1|H1] H2]; [inversion H1; subst; congruence | tauto].
  - cbn [In]. rewrite IH. apply beq_neq in E. split.
    + intros [H|[H1 H2]]; [inversion H; subst; split; [now left | congruence] | split; [now right | exact H2]].
    + intros [[H|H] H2]; [now left | right; tauto].
Qed.
Lemma assoc_remove_other k u l : u <> k -> assoc u (remove_key k l) = assoc u l.
Proof.
  intros N. induction l as [|[k2 c2] l IH]; cbn [remove_key assoc]; [reflexivity|].
  destruct (beq k k2) eqn:E.
  - apply beq_eq in E; subst. destruct (beq u k2) eqn:E2; [apply beq_eq in E2; congruence | exact IH].
  - cbn [assoc]. now rewrite IH.
Qed.
Lemma remove_key_nodup_fst k l : NoDup (map fst l) -> NoDup (map fst (remove_key k l)).
Proof.
  induction l as [|[k2 c2] l IH]; cbn [remove_key map fst]; [auto|].
  intros ND; inversion ND as [|? ? Hn ND']; subst.
  destruct (beq k k2); [now apply IH|].
  cbn [map fst]. constructor; [|now apply IH].
  intros H. apply in_map_iff in H. destruct H as [[k3 c3] [E H]]. cbn in E; subst.
  apply remove_key_In in H. apply Hn. change k2 with (fst (k2, c3)). apply in_map. tauto.
Qed.
Lemma remove_key_nodup_snd k l : NoDup (map snd l) -> NoDup (map snd (remove_key k l)).
Proof.
  induction l as [|[k2 c2] l IH]; cbn [remove_key map snd]; [auto|].
  intros ND; inversion ND as [|? ? Hn ND']; subst.
  destruct (beq k k2); [now apply IH|].
  cbn [map snd]. constructor; [|now apply IH].
  intros H. apply in_map_iff in H. destruct H as [[k3 c3] [E H]]. cbn in E; subst.
  apply remove_key_In in H. apply Hn. change c2 with (snd (k3, c2)). apply in_map. tauto.
Qed.
Lemma filter_nodup_map {A B} (g : A -> B) (f : A -> bool) l : NoDup (map g l) -> NoDup (map g (filter f l)).
Proof.
  induction l as [|a l IH]; cbn [filter map]; [auto|].
  intros ND; inversion ND as [|? ? Hn ND']; subst.
  destruct (f a); [|now apply IH].
  cbn [map]. constructor; [|now apply IH].
  intros H. apply in_map_iff in H. destruct H as [x [E H]]. apply filter_In in H.
  apply Hn. rewrite <- E. apply in_map. tauto.
Qed.

(* ---- sequentially, newConnection's check-and-set always stores ---- *)
Lemma dial_miss s u :
  (assoc u (p_pool s) = None \/ exists c, assoc u (p_pool s) = Some c /\ live s c = false) ->
  p_dial s u = p_dial_set s u.
Proof.
  intros H. unfold p_dial, p_log_dial, p_set_if_absent, p_dial_set. cbn [p_pool p_shut p_next p_dials].
  destruct H as [H|[c [H L]]]; rewrite H; [reflexivity|].
  unfold live in L. apply negb_false_iff in L. rewrite L. cbn [negb]. now rewrite andb_false_r.
Qed.
Lemma p_get_unfold s u :
  p_get s u = match assoc u (p_pool s) with
              | Some c => if live s c then (s, c) else p_dial_set s u
              | None => p_dial_set s u
              end.
Proof.
  unfold p_get. destruct (assoc u (p_pool s)) as [c|] eqn:E.
  - destruct (live s c) eqn:L; [reflexivity|]. apply dial_miss. right. exists c. tauto.
  - apply dial_miss. now left.
Qed.

(* ---- well-formed pool states ---- *)
Record wf (s : pstate) : Prop := {
  wf_pool : forall k c, In (k, c) (p_pool s) -> c < p_next s;
  wf_shut : forall c, In c (p_shut s) -> c < p_next s;
  wf_keys : NoDup (map fst (p_pool s));
  wf_conns : NoDup (map snd (p_pool s));
  wf_dials : forall c u, In (c, u) (p_dials s) -> c < p_next s
}.

Lemma wf_init : wf p_init.
Proof. constructor; cbn; try tauto; constructor. Qed.

Lemma wf_dial s u : wf s -> wf (fst (p_dial_set s u)).
Proof.
  intros [H1 H2 H3 H4 H5]. unfold p_dial_set. cbn [fst]. constructor; cbn [p_pool p_next p_shut p_dials].
  - intros k c [H|H]; [inversion H; subst; lia|]. apply remove_key_In in H. destruct H as [H _]. apply H1 in H. lia.
  - intros c H. apply H2 in H. lia.
  - cbn [map fst]. constructor; [|now apply remove_key_nodup_fst].
    intros H. apply in_map_iff in H. destruct H as [[k c] [E H]]. cbn in E; subst. apply remove_key_In in H. tauto.
  - cbn [map snd]. constructor; [|now apply remove_key_nodup_snd].
    intros H. apply in_map_iff in H. destruct H as [[k c] [E H]]. cbn in E; subst. apply remove_key_In in H.
    destruct H as [H _]. apply H1 in H. lia.
  - intros c u' H. apply in_app_or in H. destruct H as [H|[H|[]]]; [apply H5 in H; lia | inversion H; subst; lia].
Qed.
Lemma wf_get s u : wf s -> wf (fst (p_get s u)).
Proof.
  intros W. rewrite p_get_unfold. destruct (assoc u (p_pool s)) as [c|]; [destruct (live s c); [exact W|]|]; now apply wf_dial.
Qed.
Lemma wf_tick urls s : wf s -> wf (p_tick urls s).
Proof.
  intros [H1 H2 H3 H4 H5]. unfold p_tick. constructor; cbn [p_pool p_next p_shut p_dials].
  - intros k c H. apply filter_In in H. apply (H1 k c). tauto.
  - intros c H. apply in_app_or in H. destruct H as [H|H]; [now apply H2|].
    apply in_map_iff in H. destruct H as [[k c'] [E H]]. cbn in E; subst. apply filter_In in H. apply (H1 k c). tauto.
  - now apply filter_nodup_map.
  - now apply filter_nodup_map.
  - exact H5.
Qed.
Lemma wf_shutdown s u : wf s -> wf (p_shutdown s u).
Proof.
  intros W. unfold p_shutdown. destruct (assoc u (p_pool s)) as [c|] eqn:E; [|exact W].
  destruct W as [H1 H2 H3 H4 H5]. constructor; cbn [p_pool p_next p_shut p_dials]; auto.
  intros c' [H|H]; [subst; apply assoc_In in E; now apply H1 in E | now apply H2].
Qed.
Lemma wf_step st o : wf (snd st) -> wf (snd (p_step st o)).
Proof.
  destruct st as [urls s]. cbn [snd]. intros W. destruct o; cbn [p_step snd];
    [now apply wf_get | exact W | now apply wf_tick | now apply wf_shutdown].
Qed.
Lemma wf_run ops : forall st, wf (snd st) -> wf (snd (p_run st ops)).
Proof.
  induction ops as [|o ops IH]; intros st W; cbn [p_run fold_left]; [exact W|].
  apply IH. now apply wf_step.
Qed.

(* ---- Get re-uses the pooled live connection ---- *)
Lemma get_reuse s u c : assoc u (p_pool s) = Some c -> live s c = true -> p_get s u = (s, c).
Proof. intros H L. rewrite p_get_unfold. now rewrite H, L. Qed.

Lemma get_fresh s u : (assoc u (p_pool s) = None \/ exists c, assoc u (p_pool s) = Some c /\ live s c = false) ->
  p_get s u = p_dial_set s u.
Proof. intros [H|[c [H L]]]; rewrite p_get_unfold; rewrite H; [reflexivity | now rewrite L]. Qed.

(* [u] has the live connection [c] in the pool *)
Definition holds (s : pstate) (u : url) (c : N) : Prop := assoc u (p_pool s) = Some c /\ live s c = true.

Lemma get_holds s u : wf s -> holds (fst (p_get s u)) u (snd (p_get s u)).
Proof.
  intros W. rewrite p_get_unfold.
  destruct (assoc u (p_pool s)) as [c|] eqn:E; [destruct (live s c) eqn:L; [split; assumption|]|];
    (unfold p_dial_set, holds, live; cbn [fst snd p_pool p_shut assoc]; rewrite beq_refl; split; [reflexivity|];
     destruct (memN (p_next s) (p_shut s)) eqn:M; [|reflexivity];
     apply memN_In in M; apply (wf_shut s W) in M; lia).
Qed.

Lemma dial_other_holds s u v c : v <> u -> holds s u c -> holds (fst (p_dial_set s v)) u c.
Proof.
  intros N [H L]. unfold p_dial_set, holds, live. cbn [fst p_pool p_shut assoc].
  destruct (beq u v) eqn:E; [apply beq_eq in E; congruence|].
  rewrite assoc_remove_other by congruence. split; assumption.
Qed.
Lemma get_keeps_holds s u v c : holds s u c -> holds (fst (p_get s v)) u c /\ (v = u -> p_get s v = (s, c)).
Proof.
  intros H. destruct (list_eq_dec N.eq_dec v u) as [->|Nq].
  - destruct H as [H L]. rewrite (get_reuse s u c H L). cbn [fst]. split; [split; assumption | reflexivity].
  - split; [|congruence]. rewrite p_get_unfold.
    destruct (assoc v (p_pool s)) as [c'|]; [destruct (live s c'); [exact H|]|]; now apply dial_other_holds.
Qed.

Lemma tick_keeps_holds urls s u c : wf s -> In u urls -> holds s u c -> holds (p_tick urls s) u c.
Proof.
  intros W Hin [H L]. unfold holds, p_tick. cbn [p_pool]. split.
  - apply assoc_filter_keep; [exact H|]. cbn [fst snd]. rewrite L. apply mem_In in Hin. now rewrite Hin.
  - unfold live at 1. cbn [p_shut]. rewrite memN_app.
    assert (L1 : memN c (p_shut s) = false) by (unfold live in L; now apply negb_true_iff in L).
    rewrite L1. cbn [orb]. apply negb_true_iff.
    destruct (memN c (map snd _)) eqn:M; [|reflexivity]. exfalso.
    apply memN_In in M. apply in_map_iff in M. destruct M as [[k c'] [E M]]. cbn in E; subst c'.
    apply filter_In in M. destruct M as [M F]. cbn [fst snd] in F.
    (* the same connection under two keys: excluded by wf_conns *)
    assert (k = u).
    { apply assoc_In in H. clear - W M H.
      destruct W as [_ _ _ ND _]. revert ND M H. generalize (p_pool s) as l.
      induction l as [|[k2 c2] l IH]; cbn [map snd In]; [tauto|].
      intros ND M H. inversion ND as [|? ? Hn ND']; subst.
      destruct M as [M|M]; destruct H as [H|H].
      - inversion M; inversion H; subst. reflexivity.
      - inversion M; subst. exfalso. apply Hn. change c with (snd (u, c)). now apply in_map.
      - inversion H; subst. exfalso. apply Hn. change c with (snd (k, c)). now apply in_map.
      - now apply IH. }
    subst k. apply mem_In in Hin. rewrite Hin in F. rewrite andb_false_r in F. discriminate.
Qed.

Lemma shutdown_other_holds s u v c : wf s -> v <> u -> holds s u c -> holds (p_shutdown s v) u c.
Proof.
  intros W Nq [H L]. unfold p_shutdown. destruct (assoc v (p_pool s)) as [c'|] eqn:E; [|split; assumption].
  unfold holds, live. cbn [p_pool p_shut]. split; [exact H|].
  unfold memN. cbn [existsb]. fold (memN c (p_shut s)). unfold live in L. apply negb_true_iff in L. rewrite L.
  rewrite orb_false_r. apply negb_true_iff. apply N.eqb_neq. intros ->.
  apply assoc_In in H. apply assoc_In in E. apply Nq.
  destruct W as [_ _ _ ND _]. clear - ND H E. revert ND H E. generalize (p_pool s) as l.
  induction l as [|[k2 c2] l IH]; cbn [map snd In]; [tauto|].
  intros ND H E. inversion ND as [|? ? Hn ND']; subst.
  destruct H as [H|H]; destruct E as [E|E].
  - inversion H; inversion E; subst. congruence.
  - inversion H; subst. exfalso. apply Hn. change c' with (snd (v, c')). now apply in_map.
  - inversion E; subst. exfalso. apply Hn. change c' with (snd (u, c')). now apply in_map.
  - now apply IH.
Qed.

(* dials for a target *)
Lemma count_dials_dial s u v : count_dials (fst (p_dial_set s v)) u = count_dials s u + (if beq v u then 1 else 0).
Proof.
  unfold count_dials, p_dial_set. cbn [fst p_dials]. rewrite filter_app, app_length, Nat2N.inj_add. cbn [filter snd].
  destruct (beq v u); reflexivity.
Qed.
Lemma count_dials_get_other s u v : v <> u -> count_dials (fst (p_get s v)) u = count_dials s u.
Proof.
  intros Nq. rewrite p_get_unfold.
  destruct (assoc v (p_pool s)) as [c|]; [destruct (live s c); [reflexivity|]|];
    (rewrite count_dials_dial; destruct (beq v u) eqn:E; [apply beq_eq in E; congruence | lia]).
Qed.

(* ---- the table: route selection is C03's lookup ---- *)
Lemma route_targets_in t k p ts : route_targets t k p = Some ts ->
  ts <> [] /\ exists rs, assoc k t = Some rs /\ In (p, ts) rs.
Proof.
  unfold route_targets. destruct (assoc k t) as [rs|] eqn:E; [|discriminate].
  destruct (find (fun r : route => beq (fst r) p) rs) as [[p' ts']|] eqn:F; [|discriminate].
  destruct ts' as [|x ts']; [discriminate|]. intros H; inversion H; subst.
  apply find_some in F. destruct F as [F1 F2]. cbn [fst] in F2. apply beq_eq in F2. subst p'.
  split; [discriminate|]. exists rs. tauto.
Qed.

(* the backend of a call is chosen among the targets of the route that C03's model of
   Table.Lookup selects for (host = the single dsthost value or "", path = the parsed method
   path) with the prefix matcher, no TLS, and the configured GlobMatchingDisabled *)
Theorem lookup_is_c03 t noglob host path :
  lookup t noglob host path =
  match ML.lookup (to_c03 t) host false path ML.MPrefix noglob with
  | Some (k, p, _) => route_targets t k p
  | None => None
  end.
Proof. reflexivity. Qed.

Theorem icpt_lookup_is_c03 t noglob m p :
  icpt_lookup t noglob (Some m) (Some p) =
  Some (match ML.lookup (to_c03 t) (dsthost m) false p ML.MPrefix noglob with
        | Some (k, p', _) => route_targets t k p'
        | None => None
        end).
Proof. reflexivity. Qed.

(* with C03_lookup_sound: the route is a candidate in C03's sense -- its host key matches the
   host named by dsthost (glob or literal as configured; case-insensitively, :80 removed) or
   it has no host, and its path is a prefix of the method path *)
Theorem lookup_sound t noglob host path ts :
  PL.wf_keys (to_c03 t) ->
  ML.F_C03_gobwas_overlap noglob false ML.MPrefix (to_c03 t) host path = false ->
  lookup t noglob host path = Some ts ->
  ts <> [] /\
  exists k p id, ML.is_candidate noglob false ML.MPrefix host path (k, p, id) = true /\
                 In (k, p, id) (ML.all_routes (to_c03 t)) /\
                 exists rs, assoc k t = Some rs /\ In (p, ts) rs.
Proof.
  intros W G. unfold lookup.
  destruct (ML.lookup (to_c03 t) host false path ML.MPrefix noglob) as [[[k p] id]|] eqn:L; [|discriminate].
  intros H. apply route_targets_in in H. destruct H as [Hne Hrs].
  destruct (PL.lookup_sound _ _ _ _ _ _ _ W G L) as [Hin Hc].
  split; [exact Hne|]. exists k, p, id. tauto.
Qed.

Theorem lookup_none t noglob host path : lookup t noglob host path = None ->
  ML.lookup (to_c03 t) host false path ML.MPrefix noglob = None \/
  exists k p id, ML.lookup (to_c03 t) host false path ML.MPrefix noglob = Some (k, p, id) /\
                 route_targets t k p = None.
Proof.
  unfold lookup. destruct (ML.lookup (to_c03 t) host false path ML.MPrefix noglob) as [[[k p] id]|]; [|now left].
  intros H. right. exists k, p, id. tauto.
Qed.

Lemma lookup_in_table t noglob host path ts : lookup t noglob host path = Some ts ->
  forall u, In u ts -> In u (table_urls t).
Proof.
  unfold lookup. destruct (ML.lookup (to_c03 t) host false path ML.MPrefix noglob) as [[[k p] id]|]; [|discriminate].
  intros H u Hu. apply route_targets_in in H. destruct H as [_ [rs [H1 H2]]].
  unfold table_urls. apply in_flat_map. exists (k, rs). split; [now apply assoc_In|].
  cbn [snd]. apply in_flat_map. exists (p, ts). split; [exact H2 | exact Hu].
Qed.

Theorem lookup_by_method_and_dsthost t noglob m m' upath :
  dsthost m = dsthost m' -> icpt_lookup t noglob (Some m) upath = icpt_lookup t noglob (Some m') upath.
Proof. intros E. unfold icpt_lookup. destruct upath; [now rewrite E | reflexivity]. Qed.

Lemma dsthost_single h : dsthost [(k_dsthost, [h])] = h.
Proof. reflexivity. Qed.
Lemma dsthost_absent : dsthost [] = [].
Proof. reflexivity. Qed.
Lemma dsthost_several h1 h2 r : dsthost [(k_dsthost, h1 :: h2 :: r)] = [].
Proof. reflexivity. Qed.

(* ---- histories of the proxy ---- *)
Lemma step_wf ng s o : wf (s_pool s) -> wf (s_pool (step ng s o)).
Proof.
  intros W. destruct o as [m p k|t| |u]; cbn [step].
  - destruct (lookup (s_tbl s) ng (dsthost m) p) as [ts|]; [|exact W].
    destruct (nth_error ts k) as [u|]; [|exact W]. cbn [s_pool]. now apply wf_get.
  - exact W.
  - cbn [s_pool]. now apply wf_tick.
  - cbn [s_pool]. now apply wf_shutdown.
Qed.
Lemma run_wf ng ops : forall s, wf (s_pool s) -> wf (s_pool (run ng s ops)).
Proof.
  induction ops as [|o ops IH]; intros s W; cbn [run fold_left]; [exact W|]. apply IH. now apply step_wf.
Qed.

(* nothing happens to [u]'s connection: no cleanup tick while [u] is outside the table, the
   connection does not enter Shutdown.  Calls (to anybody) and table changes are free. *)
Fixpoint undisturbed (ng : bool) (u : url) (s : state) (ops : list op) : Prop :=
  match ops with
  | [] => True
  | o :: r => match o with
              | CleanupTick => In u (table_urls (s_tbl s))
              | ConnShutdown v => v <> u
              | _ => True
              end /\ undisturbed ng u (step ng s o) r
  end.

Lemma step_keeps ng s o u c :
  wf (s_pool s) -> holds (s_pool s) u c ->
  match o with CleanupTick => In u (table_urls (s_tbl s)) | ConnShutdown v => v <> u | _ => True end ->
  holds (s_pool (step ng s o)) u c /\ count_dials (s_pool (step ng s o)) u = count_dials (s_pool s) u.
Proof.
  intros W H C. destruct o as [m p k|t| |v]; cbn [step].
  - destruct (lookup (s_tbl s) ng (dsthost m) p) as [ts|]; [|split; [exact H | reflexivity]].
    destruct (nth_error ts k) as [v|]; [|split; [exact H | reflexivity]]. cbn [s_pool].
    destruct (get_keeps_holds (s_pool s) u v c H) as [H1 H2]. split; [exact H1|].
    destruct (list_eq_dec N.eq_dec v u) as [E|Nq]; [rewrite (H2 E); reflexivity | now apply count_dials_get_other].
  - split; [exact H | reflexivity].
  - cbn [s_pool]. split; [now apply tick_keeps_holds | reflexivity].
  - cbn [s_pool]. split; [now apply shutdown_other_holds|].
    unfold p_shutdown. destruct (assoc v (p_pool (s_pool s))); reflexivity.
Qed.

Theorem one_conn_per_backend ng : forall ops s u c,
  wf (s_pool s) -> holds (s_pool s) u c -> undisturbed ng u s ops ->
  holds (s_pool (run ng s ops)) u c /\
  count_dials (s_pool (run ng s ops)) u = count_dials (s_pool s) u.
Proof.
  induction ops as [|o ops IH]; intros s u c W H U; cbn [run fold_left]; [split; [exact H | reflexivity]|].
  destruct U as [C U]. destruct (step_keeps ng s o u c W H C) as [H1 H2].
  destruct (IH (step ng s o) u c (step_wf ng s o W) H1 U) as [H3 H4]. split; [exact H3|].
  unfold run in H4. rewrite H4. exact H2.
Qed.

Lemma call_conn_holds ng s m p k u c :
  wf (s_pool s) -> call_conn ng s m p k = Some (u, c) -> holds (s_pool (step ng s (Call m p k))) u c.
Proof.
  intros W. unfold call_conn. cbn [step].
  destruct (lookup (s_tbl s) ng (dsthost m) p) as [ts|]; [|discriminate].
  destruct (nth_error ts k) as [v|]; [|discriminate]. intros E; inversion E; subst. cbn [s_pool].
  now apply get_holds.
Qed.
Lemma call_conn_of_holds ng s m p k u c c' :
  holds (s_pool s) u c -> call_conn ng s m p k = Some (u, c') -> c' = c.
Proof.
  intros [H L]. unfold call_conn.
  destruct (lookup (s_tbl s) ng (dsthost m) p) as [ts|]; [|discriminate].
  destruct (nth_error ts k) as [v|]; [|discriminate]. intros E; inversion E; subst.
  now rewrite (get_reuse _ _ _ H L).
Qed.

(* sequential calls for one backend share one connection while it is live *)
Theorem calls_share_connection ng s m p k u c ops m' p' k' c' :
  wf (s_pool s) ->
  call_conn ng s m p k = Some (u, c) ->
  undisturbed ng u (step ng s (Call m p k)) ops ->
  call_conn ng (run ng (step ng s (Call m p k)) ops) m' p' k' = Some (u, c') ->
  c' = c /\
  count_dials (s_pool (run ng (step ng s (Call m p k)) ops)) u = count_dials (s_pool (step ng s (Call m p k))) u.
Proof.
  intros W C U C'. pose proof (call_conn_holds ng s m p k u c W C) as H.
  destruct (one_conn_per_backend ng ops _ u c (step_wf ng s _ W) H U) as [H1 H2].
  split; [now apply (call_conn_of_holds ng _ m' p' k' u c c' H1) | exact H2].
Qed.

(* ---- cleanup ---- *)
Lemma tick_drops urls s u : ~ In u urls ->
  assoc u (p_pool (p_tick urls s)) = None /\
  forall c, assoc u (p_pool s) = Some c -> memN c (p_shut (p_tick urls s)) = true.
Proof.
  intros Hn. apply mem_false in Hn. unfold p_tick. cbn [p_pool p_shut]. split.
  - apply assoc_filter_none. intros v _. cbn [fst snd]. rewrite Hn. apply andb_false_r.
  - intros c H. rewrite memN_app. destruct (memN c (p_shut s)) eqn:M; [reflexivity|]. cbn [orb].
    apply memN_In. apply in_map_iff. exists (u, c). split; [reflexivity|]. apply filter_In.
    split; [now apply assoc_In|]. cbn [fst snd]. unfold live. now rewrite M, Hn.
Qed.

Lemma tick_keeps_routed urls s u c : wf s -> In u urls -> holds s u c -> holds (p_tick urls s) u c.
Proof. exact (tick_keeps_holds urls s u c). Qed.

Lemma get_shut s v : p_shut (fst (p_get s v)) = p_shut s.
Proof. rewrite p_get_unfold. destruct (assoc v (p_pool s)) as [c|]; [destruct (live s c)|]; reflexivity. Qed.
Lemma get_other_assoc s u v : v <> u -> assoc u (p_pool (fst (p_get s v))) = assoc u (p_pool s).
Proof.
  intros Nq. rewrite p_get_unfold.
  destruct (assoc v (p_pool s)) as [c|]; [destruct (live s c); [reflexivity|]|];
    (unfold p_dial_set; cbn [fst p_pool assoc]; destruct (beq u v) eqn:E; [apply beq_eq in E; congruence|];
     apply assoc_remove_other; congruence).
Qed.

Definition no_table_change (o : op) : Prop :=
  match o with SetTable _ => False | CleanupTick => False | _ => True end.

Lemma calls_leave_unrouted ng u : forall calls s,
  ~ In u (table_urls (s_tbl s)) -> Forall no_table_change calls ->
  let s' := run ng s calls in
  s_tbl s' = s_tbl s /\ assoc u (p_pool (s_pool s')) = assoc u (p_pool (s_pool s)) /\
  (forall c, memN c (p_shut (s_pool s)) = true -> memN c (p_shut (s_pool s')) = true) /\
  count_dials (s_pool s') u = count_dials (s_pool s) u.
Proof.
  induction calls as [|o calls IH]; intros s Hn F; cbn [run fold_left]; [repeat split; auto|].
  inversion F as [|? ? Fo F']; subst.
  assert (S1 : s_tbl (step ng s o) = s_tbl s /\
               assoc u (p_pool (s_pool (step ng s o))) = assoc u (p_pool (s_pool s)) /\
               (forall c, memN c (p_shut (s_pool s)) = true -> memN c (p_shut (s_pool (step ng s o))) = true) /\
               count_dials (s_pool (step ng s o)) u = count_dials (s_pool s) u).
  { destruct o as [m p k|t| |v]; cbn [step]; cbn [no_table_change] in Fo; try tauto.
    - destruct (lookup (s_tbl s) ng (dsthost m) p) as [ts|] eqn:L; [|repeat split; auto].
      destruct (nth_error ts k) as [v|] eqn:Nth; [|repeat split; auto]. cbn [s_tbl s_pool].
      assert (Nq : v <> u).
      { intros ->. apply Hn. apply (lookup_in_table _ _ _ _ _ L). now apply nth_error_In in Nth. }
      split; [reflexivity|]. split; [now apply get_other_assoc|]. split; [now rewrite get_shut | now apply count_dials_get_other].
    - cbn [s_tbl s_pool]. unfold p_shutdown. destruct (assoc v (p_pool (s_pool s))) as [c0|]; [|repeat split; auto].
      cbn [p_pool p_shut]. repeat split; auto. intros c M. unfold memN. cbn [existsb]. fold (memN c (p_shut (s_pool s))).
      rewrite M. apply orb_true_r. }
  destruct S1 as [T1 [A1 [M1 D1]]].
  destruct (IH (step ng s o)) as [T2 [A2 [M2 D2]]]; [now rewrite T1 | exact F'|].
  unfold run in *. split; [congruence|]. split; [congruence|]. split; [auto | congruence].
Qed.

(* after the first cleanup tick that follows a table without [u], [u] is not pooled, the
   connection it had is closed, and nothing was dialled for it in between *)
Theorem dropped_after_leaving ng calls s t u :
  ~ In u (table_urls t) -> Forall no_table_change calls ->
  let s' := run ng s (SetTable t :: calls ++ [CleanupTick]) in
  assoc u (p_pool (s_pool s')) = None /\
  (forall c, assoc u (p_pool (s_pool s)) = Some c -> memN c (p_shut (s_pool s')) = true) /\
  count_dials (s_pool s') u = count_dials (s_pool s) u.
Proof.
  intros Hn F. cbn [run fold_left step]. unfold run. rewrite fold_left_app. cbn [fold_left step].
  destruct (calls_leave_unrouted ng u calls (mks t (s_pool s)) Hn F) as [T [A [M D]]].
  unfold run in *. cbn [s_tbl s_pool] in *. rewrite T.
  destruct (tick_drops (table_urls t) (s_pool (fold_left (step ng) calls (mks t (s_pool s)))) u Hn) as [P1 P2].
  split; [exact P1|]. split; [|exact D]. intros c Hc. apply P2. now rewrite A.
Qed.

(* ---- no route ---- *)
Theorem no_route_no_dial ng s m p k :
  lookup (s_tbl s) ng (dsthost m) p = None -> step ng s (Call m p k) = s /\ call_conn ng s m p k = None.
Proof. intros H. unfold call_conn. cbn [step]. now rewrite H. Qed.

Theorem no_route_not_found t ng ci p :
  ci_upath ci = Some p -> lookup t ng (dsthost (ci_md ci)) p = None ->
  call_outcome t ng ci = (None, err_view code_not_found "no route found").
Proof. intros U H. unfold call_outcome, icpt_lookup. now rewrite U, H. Qed.

Theorem routed_call_relayed t ng ci p ts :
  ci_upath ci = Some p -> lookup t ng (dsthost (ci_md ci)) p = Some ts ->
  call_outcome t ng ci = (Some (ts, fst (relay ci)), snd (relay ci)).
Proof. intros U H. unfold call_outcome, icpt_lookup. rewrite U, H. now destruct (relay ci). Qed.

(* ---- the relay ---- *)
Lemma ev_msgs_fwd hdr msgs : forall i, ev_msgs (fwd_c2s i hdr msgs) = msgs.
Proof.
  induction msgs as [|m r IH]; intros i; cbn [fwd_c2s]; [reflexivity|].
  destruct (Nat.eqb i 0); cbn [app ev_msgs]; now rewrite IH.
Qed.
Lemma ev_hdr_fwd hdr m r : ev_hdr (fwd_c2s 0 hdr (m :: r)) = hdr.
Proof. reflexivity. Qed.
Lemma ev_hdr_later hdr msgs : forall i, i <> 0%nat -> ev_hdr (fwd_c2s i hdr msgs) = [].
Proof.
  induction msgs as [|m r IH]; intros i Hi; cbn [fwd_c2s]; [reflexivity|].
  destruct (Nat.eqb i 0) eqn:E; [apply PeanoNat.Nat.eqb_eq in E; congruence|]. cbn [app ev_hdr]. now apply IH.
Qed.

(* The property's transparency clause, stated on what the two ends see, without the relay's
   mechanism (no forwarding loops, no header hack, no metadata copy):
   - frames: per direction the sequence that arrives is the sequence that was sent (the backend
     has the requests it chose to read, a prefix; all of them unless it fails without reading);
   - metadata: every custom (non-reserved) key arrives with the same values in the same order,
     and nothing arrives that was not sent; the same for trailers, and for headers whenever
     the backend sends at least one message;
   - the status code arrives as it is, and so does the message of every non-OK status. *)
Definition md_same_on (keep : str -> bool) (got sent : md) : Prop :=
  (forall k, keep k = true -> assoc k got = assoc k sent) /\
  (forall k, assoc k got <> None -> keep k = true /\ assoc k sent <> None).
Record transparent (ci : callin) (b : bview) (c : cview) : Prop := {
  tr_method : bv_method b = ci_method ci;
  tr_req_prefix : exists rest, ci_msgs ci = bv_msgs b ++ rest;
  tr_req_all : sc_mode (ci_script ci) <> 2 -> bv_msgs b = ci_msgs ci;
  tr_md : md_same_on (fun k => negb (reserved k)) (bv_md b) (ci_md ci);
  tr_resp : cv_msgs c = sc_msgs (ci_script ci);
  tr_trailers : md_same_on (fun _ => true) (cv_trl c) (sc_trl (ci_script ci));
  tr_headers : sc_msgs (ci_script ci) <> [] -> md_same_on (fun _ => true) (cv_hdr c) (sc_hdr (ci_script ci));
  tr_code : cv_code c = sc_code (ci_script ci);
  tr_msg : sc_code (ci_script ci) <> 0 -> cv_msg c = sc_msg (ci_script ci)
}.

Lemma bev_msgs_fwd msgs : bev_msgs (fwd_s2c msgs) = msgs.
Proof. induction msgs as [|m r IH]; cbn [fwd_s2c bev_msgs]; [reflexivity | now rewrite IH]. Qed.

Lemma assoc_md_out k (m : md) : assoc k (md_out m) = if reserved k then None else assoc k m.
Proof.
  unfold md_out. induction m as [|[k' v] m IH]; cbn [filter fst]; [now destruct (reserved k)|].
  destruct (reserved k') eqn:R; cbn [negb assoc].
  - rewrite IH. destruct (beq k k') eqn:E; [apply beq_eq in E; subst; now rewrite R | reflexivity].
  - rewrite IH. destruct (beq k k') eqn:E; [apply beq_eq in E; subst; now rewrite R | reflexivity].
Qed.

Lemma md_same_refl m : md_same_on (fun _ => true) m m.
Proof. split; [reflexivity | intros k H; tauto]. Qed.

(* MODELLED-NOT-VERIFIED: the relay is mwitkow/grpc-proxy + grpc-go; the model's relay
   (forwarding loops frame by frame, header sent before the first message, metadata copied and
   filtered by the client transport, status returned as received) meets the property's clause *)
Theorem relay_transparent ci : transparent ci (fst (relay ci)) (snd (relay ci)).
Proof.
  unfold relay. cbn [fst snd]. constructor; cbn [bv_method bv_md bv_msgs cv_hdr cv_msgs cv_trl cv_code cv_msg].
  - reflexivity.
  - unfold backend_reads. rewrite bev_msgs_fwd. destruct (sc_mode (ci_script ci) =? 2);
      [exists (ci_msgs ci); reflexivity | exists []; now rewrite app_nil_r].
  - intros H. unfold backend_reads. rewrite bev_msgs_fwd.
    destruct (sc_mode (ci_script ci) =? 2) eqn:E; [apply N.eqb_eq in E; congruence | reflexivity].
  - split.
    + intros k H. rewrite assoc_md_out. apply negb_true_iff in H. now rewrite H.
    + intros k H. rewrite assoc_md_out in H. destruct (reserved k); [congruence | tauto].
  - apply ev_msgs_fwd.
  - apply md_same_refl.
  - intros H. destruct (sc_msgs (ci_script ci)) as [|m r]; [congruence|]. cbn [fwd_c2s Nat.eqb app ev_hdr]. apply md_same_refl.
  - unfold final_status. destruct (sc_code (ci_script ci) =? 0) eqn:E; [apply N.eqb_eq in E; now rewrite E | reflexivity].
  - intros H. unfold final_status. destruct (sc_code (ci_script ci) =? 0) eqn:E; [apply N.eqb_eq in E; congruence | reflexivity].
Qed.

(* the mechanism the property's wording allows for: without a message from the backend its
   headers are not forwarded (handler.go sends them just before the first message) *)
Lemma relay_no_message_no_header ci : sc_msgs (ci_script ci) = [] -> cv_hdr (snd (relay ci)) = [].
Proof. unfold relay. cbn [snd cv_hdr]. now intros ->. Qed.

Example relay_transparent_nonvacuous :
  let ci := mkcallin [(bs "user-agent", [bs "x"]); (bs "k", [bs "1"; bs "2"])] (bs "/p.S/M") (Some (bs "/p.S/M"))
                     [bs "a"; bs "b"] (mkscript 0 [(bs "h", [bs "v"])] [bs "r"] [(bs "t", [[]])] 5 (bs "gone")) in
  bv_md (fst (relay ci)) = [(bs "k", [bs "1"; bs "2"])] /\ bv_msgs (fst (relay ci)) = [bs "a"; bs "b"] /\
  snd (relay ci) = mkcview [(bs "h", [bs "v"])] [bs "r"] [(bs "t", [[]])] 5 (bs "gone").
Proof. vm_compute. repeat split. Qed.

(* ---- no connection is lost in sequential histories ---- *)
Definition accounted (s : pstate) : Prop :=
  forall c u, In (c, u) (p_dials s) -> memN c (p_shut s) = true \/ In (u, c) (p_pool s).

Lemma accounted_dial s u :
  wf s -> (assoc u (p_pool s) = None \/ exists c, assoc u (p_pool s) = Some c /\ live s c = false) ->
  accounted s -> accounted (fst (p_dial_set s u)).
Proof.
  intros W Hd A c v H. unfold p_dial_set in *. cbn [fst p_dials p_shut p_pool] in *.
  apply in_app_or in H. destruct H as [H|[H|[]]].
  - destruct (A c v H) as [S|P]; [now left|].
    destruct (list_eq_dec N.eq_dec v u) as [->|Nq].
    + left. destruct Hd as [Hd|[c0 [Hd L]]].
      * apply assoc_None_notin in Hd. exfalso. apply Hd. change u with (fst (u, c)). now apply in_map.
      * rewrite (In_assoc_nodup u c _ (wf_keys s W) P) in Hd. inversion Hd; subst.
        unfold live in L. now apply negb_false_iff in L.
    + right. right. apply remove_key_In. tauto.
  - inversion H; subst. right. now left.
Qed.
Lemma accounted_get s u : wf s -> accounted s -> accounted (fst (p_get s u)).
Proof.
  intros W A. rewrite p_get_unfold. destruct (assoc u (p_pool s)) as [c|] eqn:E.
  - destruct (live s c) eqn:L; [exact A|]. apply accounted_dial; auto. right. exists c. tauto.
  - apply accounted_dial; auto.
Qed.
Lemma accounted_tick urls s : accounted s -> accounted (p_tick urls s).
Proof.
  intros A c u H. unfold p_tick in *. cbn [p_dials p_shut p_pool] in *.
  destruct (A c u H) as [S|P]; [left; rewrite memN_app, S; reflexivity|].
  rewrite memN_app. destruct (memN c (p_shut s)) eqn:M; [now left|]. cbn [orb].
  destruct (mem u urls) eqn:Hu.
  - right. apply filter_In. split; [exact P|]. cbn [fst snd]. unfold live. now rewrite M, Hu.
  - left. apply memN_In. apply in_map_iff. exists (u, c). split; [reflexivity|]. apply filter_In.
    split; [exact P|]. cbn [fst snd]. unfold live. now rewrite M, Hu.
Qed.
Lemma accounted_shutdown s u : accounted s -> accounted (p_shutdown s u).
Proof.
  intros A c v H. unfold p_shutdown in *. destruct (assoc u (p_pool s)) as [c0|]; [|now apply A].
  cbn [p_dials p_shut p_pool] in *. destruct (A c v H) as [S|P]; [left|now right].
  unfold memN. cbn [existsb]. fold (memN c (p_shut s)). rewrite S. apply orb_true_r.
Qed.

Theorem sequential_no_orphans ops : forall st, wf (snd st) -> accounted (snd st) ->
  forall c, orphan (snd (p_run st ops)) c = false.
Proof.
  assert (G : forall ops st, wf (snd st) -> accounted (snd st) -> accounted (snd (p_run st ops))).
  { induction ops0 as [|o ops0 IH]; intros st W A; cbn [p_run fold_left]; [exact A|].
    apply IH; [now apply wf_step|]. destruct st as [urls s]. cbn [snd] in *.
    destruct o; cbn [p_step snd]; [now apply accounted_get | exact A | now apply accounted_tick | now apply accounted_shutdown]. }
  intros st W A c. specialize (G ops st W A). set (s := snd (p_run st ops)) in *.
  unfold orphan. destruct (existsb (fun d => fst d =? c) (p_dials s)) eqn:E; [|reflexivity]. cbn [andb].
  apply existsb_exists in E. destruct E as [[c' u] [Hin E]]. cbn [fst] in E. apply N.eqb_eq in E. subst c'.
  destruct (G c u Hin) as [S|P].
  - unfold live. rewrite S. reflexivity.
  - destruct (live s c); [|reflexivity]. cbn [andb]. apply negb_false_iff. apply existsb_exists.
    exists (u, c). split; [exact P | apply N.eqb_refl].
Qed.
Lemma accounted_init : accounted p_init.
Proof. intros c u []. Qed.

(* ---- two callers inside Get: the second store orphans the first connection ---- *)
Definition orphanP (s : pstate) (c : N) : Prop :=
  (exists u, In (c, u) (p_dials s)) /\ ~ In c (p_shut s) /\ forall k, ~ In (k, c) (p_pool s).
Lemma orphan_iff s c : orphan s c = true <-> orphanP s c.
Proof.
  unfold orphan, orphanP, live. rewrite !andb_true_iff, !negb_true_iff. split.
  - intros [[E M] P]. split; [|split].
    + apply existsb_exists in E. destruct E as [[c' u] [Hin E]]. cbn [fst] in E. apply N.eqb_eq in E. subst. now exists u.
    + intros H. apply memN_In in H. congruence.
    + intros k H. assert (X : existsb (fun kc : url * N => snd kc =? c) (p_pool s) = true)
        by (apply existsb_exists; exists (k, c); split; [exact H | apply N.eqb_refl]). congruence.
  - intros [[u Hin] [M P]]. split; [split|].
    + apply existsb_exists. exists (c, u). split; [exact Hin | apply N.eqb_refl].
    + destruct (memN c (p_shut s)) eqn:E; [apply memN_In in E; tauto | reflexivity].
    + destruct (existsb _ (p_pool s)) eqn:E; [|reflexivity]. apply existsb_exists in E.
      destruct E as [[k c'] [Hin' E]]. cbn [snd] in E. apply N.eqb_eq in E. subst. exfalso. now apply (P k).
Qed.

Lemma orphan_step st o c : wf (snd st) -> orphanP (snd st) c -> orphanP (snd (p_step st o)) c.
Proof.
  destruct st as [urls s]. cbn [snd]. intros W [[u0 D] [M P]].
  assert (Hlt : c < p_next s) by (apply (wf_dials s W c u0 D)).
  destruct o as [v|t| |v]; cbn [p_step snd].
  - rewrite p_get_unfold. destruct (assoc v (p_pool s)) as [c0|]; [destruct (live s c0); [repeat split; eauto|]|];
      (unfold p_dial_set; cbn [fst]; split; [exists u0; cbn [p_dials]; apply in_or_app; now left|];
       split; [exact M|]; cbn [p_pool]; intros k [H|H];
       [inversion H; lia | apply remove_key_In in H; now apply (P k)]).
  - repeat split; eauto.
  - unfold p_tick. split; [now exists u0|]. cbn [p_shut p_pool]. split.
    + intros H. apply in_app_or in H. destruct H as [H|H]; [tauto|].
      apply in_map_iff in H. destruct H as [[k c'] [E H]]. cbn in E; subst. apply filter_In in H. now apply (P k).
    + intros k H. apply filter_In in H. now apply (P k).
  - unfold p_shutdown. destruct (assoc v (p_pool s)) as [c0|] eqn:E; [|repeat split; eauto].
    split; [now exists u0|]. cbn [p_shut p_pool]. split; [|exact P].
    intros [H|H]; [subst; apply assoc_In in E; now apply (P v) | tauto].
Qed.
Theorem orphan_forever ops : forall st c, wf (snd st) -> orphan (snd st) c = true -> orphan (snd (p_run st ops)) c = true.
Proof.
  induction ops as [|o ops IH]; intros st c W H; cbn [p_run fold_left]; [exact H|].
  apply IH; [now apply wf_step|]. apply orphan_iff. apply orphan_step; [exact W | now apply orphan_iff].
Qed.

Definition leak_sched : list bool := [false; true; false; true].
Theorem concurrent_dial_leak u :
  let '(s, a, b) := run2 p_init u AtRead AtRead leak_sched in
  a = Done 0 /\ b = Done 1 /\ orphan s 0 = true /\ count_dials s u = 2 /\ wf s /\
  forall urls ops, orphan (snd (p_run (urls, s) ops)) 0 = true.
Proof.
  unfold leak_sched. cbn [run2 thread_step p_init p_pool assoc p_dial_set p_next p_shut p_dials remove_key app].
  change (0 + 1) with 1. cbn [run2 thread_step p_dial_set p_next p_pool p_shut p_dials remove_key app].
  rewrite beq_refl. cbn [remove_key].
  set (s := mkp [(u, 1)] (1 + 1) [] [(0, u); (1, u)]).
  assert (W : wf s).
  { constructor; cbn.
    - intros k c [H|[]]. inversion H; subst. reflexivity.
    - tauto.
    - constructor; [tauto | constructor].
    - constructor; [tauto | constructor].
    - intros c v [H|[H|[]]]; inversion H; subst; reflexivity. }
  assert (O : orphan s 0 = true) by reflexivity.
  split; [reflexivity|]. split; [reflexivity|]. split; [exact O|]. split; [|split; [exact W|]].
  - unfold count_dials. cbn [p_dials s filter snd]. rewrite beq_refl. reflexivity.
  - intros urls ops. now apply (orphan_forever ops (urls, s) 0).
Qed.

(* a schedule in which each caller finishes Get before the other starts loses nothing *)
Theorem sequential_get_no_leak u :
  let '(s, a, b) := run2 p_init u AtRead AtRead [false; false; true; true] in
  a = Done 0 /\ b = Done 0 /\ count_dials s u = 1 /\ forall c, orphan s c = false.
Proof.
  cbn [run2 thread_step p_init p_pool assoc p_dial_set p_next p_shut p_dials remove_key app].
  rewrite beq_refl. unfold live. cbn [p_shut memN existsb negb].
  repeat split.
  - unfold count_dials. cbn [p_dials filter snd]. rewrite beq_refl. reflexivity.
  - intros c. unfold orphan. cbn [p_dials p_pool p_shut existsb fst snd]. unfold live. cbn [p_shut memN existsb negb].
    destruct (0 =? c); reflexivity.
Qed.

(* ---- non-vacuity: concrete histories that meet the hypotheses ---- *)
Definition ex_u : url := bs "grpc://10.0.0.1:9000".
Definition ex_v : url := bs "grpc://10.0.0.2:9000".
Definition ex_tbl : table := [(bs "betatest", [(bs "/pkg.Svc", [ex_v])]); ([], [(bs "/pkg.Svc/Get", [ex_u]); (bs "/", [ex_v])])].
Definition ex_md : md := [(k_dsthost, [bs "BetaTest:80"])].
Definition ex_s0 : state := mks ex_tbl p_init.

Example share_nonvacuous :
  call_conn false ex_s0 [] (bs "/pkg.Svc/Get") 0 = Some (ex_u, 0) /\
  undisturbed false ex_u (step false ex_s0 (Call [] (bs "/pkg.Svc/Get") 0))
     [Call ex_md (bs "/pkg.Svc/Get") 0; CleanupTick; ConnShutdown ex_v; Call [] (bs "/x") 0] /\
  call_conn false (run false (step false ex_s0 (Call [] (bs "/pkg.Svc/Get") 0))
     [Call ex_md (bs "/pkg.Svc/Get") 0; CleanupTick; ConnShutdown ex_v; Call [] (bs "/x") 0])
     [] (bs "/pkg.Svc/Get") 0 = Some (ex_u, 0).
Proof.
  split; [vm_compute; reflexivity|]. split; [|vm_compute; reflexivity].
  cbn [undisturbed]. repeat split; try discriminate.
  apply mem_In. vm_compute. reflexivity.
Qed.

Example dropped_nonvacuous :
  let s := run false ex_s0 [Call [] (bs "/pkg.Svc/Get") 0] in
  let t := [([], [(bs "/", [ex_v])])] in
  assoc ex_u (p_pool (s_pool s)) = Some 0 /\ ~ In ex_u (table_urls t) /\
  Forall no_table_change [Call [] (bs "/pkg.Svc/Get") 0; ConnShutdown ex_v] /\
  memN 0 (p_shut (s_pool (run false s (SetTable t :: [Call [] (bs "/pkg.Svc/Get") 0; ConnShutdown ex_v] ++ [CleanupTick])))) = true.
Proof.
  cbn zeta. split; [vm_compute; reflexivity|]. split; [apply mem_false; vm_compute; reflexivity|].
  split; [repeat constructor | vm_compute; reflexivity].
Qed.

Definition ex_gtbl : table :=
  [(bs "*.beta.example", [(bs "/pkg.Svc", [ex_v])]); ([], [(bs "/", [ex_u])])].
Example lookup_nonvacuous :
  lookup ex_tbl false (dsthost ex_md) (bs "/pkg.Svc/Get") = Some [ex_v] /\
  lookup ex_tbl false (dsthost []) (bs "/pkg.Svc/Get") = Some [ex_u] /\
  lookup ex_tbl true (dsthost ex_md) (bs "/pkg.Svc/Get") = Some [ex_v] /\
  lookup [(bs "betatest", [(bs "/pkg.Svc", [ex_v])])] false [] (bs "/pkg.Svc/Get") = None /\
  (* a dsthost that only a glob key matches: routed by the pattern when glob matching is on,
     by the host-less route when it is off *)
  lookup ex_gtbl false (bs "X.Beta.Example:80") (bs "/pkg.Svc/Get") = Some [ex_v] /\
  lookup ex_gtbl true (bs "X.Beta.Example:80") (bs "/pkg.Svc/Get") = Some [ex_u] /\
  lookup ex_gtbl false [] (bs "/pkg.Svc/Get") = Some [ex_u].
Proof. vm_compute. repeat split. Qed.

Lemma reachable_wf ng t ops : wf (s_pool (run ng (mks t p_init) ops)).
Proof. apply run_wf. exact wf_init. Qed.
Lemma sequential_no_orphans_init ops urls c : orphan (snd (p_run (urls, p_init) ops)) c = false.
Proof. apply (sequential_no_orphans ops (urls, p_init)); [exact wf_init | exact accounted_init]. Qed.

(* ---- message size limits ---- *)
Theorem relay_within_limits rx tx req resp :
  req <= rx -> resp <= tx -> resp <= rx -> relay_sized rx tx req resp = mksized true true 0.
Proof.
  intros H1 H2 H3. unfold relay_sized.
  destruct (rx <? req) eqn:E1; [apply N.ltb_lt in E1; lia|].
  destruct (rx <? resp) eqn:E2; [apply N.ltb_lt in E2; lia|].
  destruct (tx <? resp) eqn:E3; [apply N.ltb_lt in E3; lia|]. reflexivity.
Qed.
Theorem request_limit_is_rx rx tx req resp :
  sz_backend_got (relay_sized rx tx req resp) = true <-> req <= rx.
Proof.
  unfold relay_sized. destruct (rx <? req) eqn:E1.
  - apply N.ltb_lt in E1. cbn [sz_backend_got]. split; [discriminate | lia].
  - apply N.ltb_ge in E1. destruct ((rx <? resp) || (tx <? resp)); cbn [sz_backend_got]; tauto.
Qed.
Theorem response_limit_is_min rx tx req resp :
  sz_caller_got (relay_sized rx tx req resp) = true <-> req <= rx /\ resp <= tx /\ resp <= rx.
Proof.
  unfold relay_sized. destruct (rx <? req) eqn:E1.
  - apply N.ltb_lt in E1. cbn [sz_caller_got]. split; [discriminate | lia].
  - apply N.ltb_ge in E1. destruct (rx <? resp) eqn:E2; cbn [orb].
    + apply N.ltb_lt in E2. cbn [sz_caller_got]. split; [discriminate | lia].
    + apply N.ltb_ge in E2. destruct (tx <? resp) eqn:E3; cbn [sz_caller_got].
      * apply N.ltb_lt in E3. split; [discriminate | lia].
      * apply N.ltb_ge in E3. tauto.
Qed.
Theorem sized_status rx tx req resp :
  sz_code (relay_sized rx tx req resp) = 0 <-> sz_caller_got (relay_sized rx tx req resp) = true.
Proof.
  unfold relay_sized. destruct (rx <? req); [cbn; split; discriminate|].
  destruct ((rx <? resp) || (tx <? resp)); cbn; split; try discriminate; reflexivity.
Qed.
Example relay_within_limits_nonvacuous :
  relay_sized 8388608 1048576 2097152 10 = mksized true true 0 /\
  relay_sized 8388608 1048576 10 2097152 = mksized true false 8 /\
  relay_sized 1048576 8388608 10 2097152 = mksized true false 8 /\
  relay_sized 1048576 8388608 2097152 10 = mksized false false 8.
Proof. vm_compute. repeat split. Qed.

(* ---- any number of callers inside Get for one target, the code as it is (8fc2c4a) ---- *)
Definition pend1 (p : gpc) : list N := match p with GSet c => [c] | _ => [] end.
Definition pending (ths : list gpc) : list N := flat_map pend1 ths.
Lemma pending_mid l1 p l2 : pending (l1 ++ p :: l2) = pending l1 ++ pend1 p ++ pending l2.
Proof. unfold pending. rewrite flat_map_app. reflexivity. Qed.

(* pending = dialled by a caller that has not reached its check-and-set yet *)
Record ginv (s : pstate) (u : url) (ths : list gpc) : Prop := {
  gi_wf : wf s;
  gi_lt : forall c, In c (pending ths) -> c < p_next s;
  gi_nodup : NoDup (pending ths);
  gi_live : forall c, In c (pending ths) -> ~ In c (p_shut s);
  gi_unpooled : forall c k, In c (pending ths) -> ~ In (k, c) (p_pool s);
  gi_for_u : forall c v, In c (pending ths) -> In (c, v) (p_dials s) -> v = u;
  gi_acc : forall c v, In (c, v) (p_dials s) ->
             memN c (p_shut s) = true \/ In (v, c) (p_pool s) \/ In c (pending ths);
  gi_done : forall c, In (GDone c) ths -> holds s u c
}.

Lemma NoDup_middle_insert {A} (a : A) l1 l2 : ~ In a (l1 ++ l2) -> NoDup (l1 ++ l2) -> NoDup (l1 ++ a :: l2).
Proof. intros H N. apply (Permutation_NoDup (Permutation_middle l1 l2 a)). now constructor. Qed.

Lemma in_mid {A} (x : A) l1 p l2 : In x (l1 ++ p :: l2) <-> x = p \/ In x (l1 ++ l2).
Proof. rewrite !in_app_iff. cbn [In]. intuition congruence. Qed.

(* a step that changes neither the state nor the set of pending connections *)
Lemma ginv_same s u l1 p p1 l2 :
  pend1 p = [] -> pend1 p1 = [] -> (forall c, p1 = GDone c -> holds s u c) ->
  ginv s u (l1 ++ p :: l2) -> ginv s u (l1 ++ p1 :: l2).
Proof.
  intros E E1 Hd [W Lt Nd Lv Up Fu Acc Dn]. rewrite pending_mid, E in *.
  constructor; rewrite ?pending_mid, ?E1; auto.
  intros c H. apply in_mid in H. destruct H as [H|H]; [now apply Hd | apply Dn; apply in_mid; now right].
Qed.

Lemma ginv_dial s u l1 l2 :
  ginv s u (l1 ++ GDial :: l2) -> ginv (fst (p_log_dial s u)) u (l1 ++ GSet (p_next s) :: l2).
Proof.
  intros [W Lt Nd Lv Up Fu Acc Dn]. rewrite pending_mid in *. cbn [pend1 app] in *.
  unfold p_log_dial. cbn [fst].
  constructor; cbn [p_pool p_next p_shut p_dials]; rewrite ?pending_mid; cbn [pend1 app].
  - destruct W as [H1 H2 H3 H4 H5]. constructor; cbn [p_pool p_next p_shut p_dials]; auto.
    + intros k c H. apply H1 in H. lia.
    + intros c H. apply H2 in H. lia.
    + intros c v H. apply in_app_or in H. destruct H as [H|[H|[]]]; [apply H5 in H; lia | inversion H; lia].
  - intros c H. apply in_app_or in H. destruct H as [H|[H|H]]; [|subst; lia|];
      (assert (c < p_next s) by (apply Lt; apply in_or_app; tauto); lia).
  - apply NoDup_middle_insert; [|exact Nd]. intros H. apply Lt in H. lia.
  - intros c H. apply in_app_or in H. destruct H as [H|[H|H]].
    + apply Lv. apply in_or_app. tauto.
    + subst. intros X. apply (wf_shut s W) in X. lia.
    + apply Lv. apply in_or_app. tauto.
  - intros c k H. apply in_app_or in H. destruct H as [H|[H|H]].
    + apply Up. apply in_or_app. tauto.
    + subst. intros X. apply (wf_pool s W) in X. lia.
    + apply Up. apply in_or_app. tauto.
  - intros c v H D. apply in_app_or in D. destruct D as [D|[D|[]]]; [|now inversion D].
    apply in_app_or in H. destruct H as [H|[H|H]].
    + apply (Fu c v); [apply in_or_app; tauto | exact D].
    + subst. apply (wf_dials s W) in D. lia.
    + apply (Fu c v); [apply in_or_app; tauto | exact D].
  - intros c v H. apply in_app_or in H. destruct H as [H|[H|[]]].
    + destruct (Acc c v H) as [A|[A|A]]; auto. right. right.
      apply in_app_or in A. apply in_or_app. destruct A; [now left | right; now right].
    + inversion H; subst. right. right. apply in_or_app. right. now left.
  - intros c H. apply in_mid in H. destruct H as [H|H]; [discriminate|].
    destruct (Dn c) as [D1 D2]; [apply in_mid; now right|]. split; assumption.
Qed.

Lemma ginv_set s u l1 c l2 :
  ginv s u (l1 ++ GSet c :: l2) ->
  ginv (fst (p_set_if_absent s u c)) u (l1 ++ GDone (snd (p_set_if_absent s u c)) :: l2).
Proof.
  intros [W Lt Nd Lv Up Fu Acc Dn]. rewrite pending_mid in *. cbn [pend1 app] in *.
  assert (Cin : In c (pending l1 ++ c :: pending l2)) by (apply in_or_app; right; now left).
  pose proof (Lt c Cin) as Clt. pose proof (Lv c Cin) as Clive. pose proof (Up c) as Cup.
  assert (Others : forall c', In c' (pending l1 ++ pending l2) -> c' <> c /\ In c' (pending l1 ++ c :: pending l2)).
  { intros c' H. split.
    - intros ->. apply NoDup_remove_2 in Nd. contradiction.
    - apply in_app_or in H. apply in_or_app. destruct H; [now left | right; now right]. }
  assert (Nd' : NoDup (pending l1 ++ pending l2)) by (now apply NoDup_remove_1 in Nd).
  (* the two outcomes of the critical section *)
  assert (Cases : (exists cur, assoc u (p_pool s) = Some cur /\ cur <> c /\ memN cur (p_shut s) = false /\
                     p_set_if_absent s u c = (mkp (p_pool s) (p_next s) (c :: p_shut s) (p_dials s), cur)) \/
                  ((forall cur, assoc u (p_pool s) = Some cur -> memN cur (p_shut s) = true) /\
                     p_set_if_absent s u c = (mkp ((u, c) :: remove_key u (p_pool s)) (p_next s) (p_shut s) (p_dials s), c))).
  { unfold p_set_if_absent. destruct (assoc u (p_pool s)) as [cur|] eqn:E.
    - destruct (negb (cur =? c) && negb (memN cur (p_shut s))) eqn:B.
      + left. apply andb_true_iff in B. destruct B as [B1 B2]. apply negb_true_iff in B1, B2. apply N.eqb_neq in B1.
        exists cur. tauto.
      + right. split; [|reflexivity]. intros cur' Hc. inversion Hc; subst cur'.
        apply andb_false_iff in B. destruct B as [B|B]; apply negb_false_iff in B; [|exact B].
        apply N.eqb_eq in B. subst cur. exfalso. apply assoc_In in E. now apply (Cup u Cin).
    - right. split; [discriminate | reflexivity]. }
  destruct Cases as [[cur [E [B1 [B2 R]]]]|[Dead R]]; rewrite R; cbn [fst snd].
  - (* a live connection is pooled: the new one is closed, the pooled one returned *)
    constructor; cbn [p_pool p_next p_shut p_dials]; rewrite ?pending_mid; cbn [pend1 app].
    + destruct W as [H1 H2 H3 H4 H5]. constructor; cbn [p_pool p_next p_shut p_dials]; auto.
      intros c' [H|H]; [subst; exact Clt | now apply H2].
    + intros c' H. apply Lt. now apply Others.
    + exact Nd'.
    + intros c' H [X|X]; apply Others in H; destruct H as [H1 H2]; [congruence | now apply (Lv c')].
    + intros c' k H. apply Up. now apply Others.
    + intros c' v H. apply Fu. now apply Others.
    + intros c' v H. destruct (Acc c' v H) as [A|[A|A]].
      * left. unfold memN. cbn [existsb]. fold (memN c' (p_shut s)). rewrite A. apply orb_true_r.
      * right. now left.
      * apply in_app_or in A. destruct A as [A|[A|A]].
        -- right. right. apply in_or_app. now left.
        -- subst. left. unfold memN. cbn [existsb]. now rewrite N.eqb_refl.
        -- right. right. apply in_or_app. now right.
    + intros r H. apply in_mid in H.
      assert (Hc : holds (mkp (p_pool s) (p_next s) (c :: p_shut s) (p_dials s)) u cur).
      { split; cbn [p_pool]; [exact E|]. unfold live, memN. cbn [p_shut existsb]. fold (memN cur (p_shut s)).
        rewrite B2. rewrite orb_false_r. apply negb_true_iff. apply N.eqb_neq. congruence. }
      destruct H as [H|H]; [inversion H; subst; exact Hc|].
      destruct (Dn r) as [D1 D2]; [apply in_mid; now right|]. rewrite E in D1. inversion D1; subst. exact Hc.
  - (* nothing live is pooled: the new connection is stored *)
    assert (NoDone : forall r, In (GDone r) (l1 ++ l2) -> False).
    { intros r H. destruct (Dn r) as [D1 D2]; [apply in_mid; now right|]. apply Dead in D1.
      unfold live in D2. rewrite D1 in D2. discriminate. }
    constructor; cbn [p_pool p_next p_shut p_dials]; rewrite ?pending_mid; cbn [pend1 app].
    + destruct W as [H1 H2 H3 H4 H5]. constructor; cbn [p_pool p_next p_shut p_dials]; auto.
      * intros k c' [H|H]; [inversion H; subst; exact Clt|]. apply remove_key_In in H. destruct H as [H _]. now apply H1 in H.
      * cbn [map fst]. constructor; [|now apply remove_key_nodup_fst].
        intros H. apply in_map_iff in H. destruct H as [[k c'] [Ek H]]. cbn in Ek; subst. apply remove_key_In in H. tauto.
      * cbn [map snd]. constructor; [|now apply remove_key_nodup_snd].
        intros H. apply in_map_iff in H. destruct H as [[k c'] [Ek H]]. cbn in Ek; subst. apply remove_key_In in H.
        destruct H as [H _]. now apply (Cup k Cin).
    + intros c' H. apply Lt. now apply Others.
    + exact Nd'.
    + intros c' H. apply Lv. now apply Others.
    + intros c' k H [X|X]; [inversion X; subst; apply Others in H; destruct H; congruence|].
      apply remove_key_In in X. destruct X as [X _]. apply Others in H. destruct H as [_ H]. now apply (Up c' k H).
    + intros c' v H. apply Fu. now apply Others.
    + intros c' v H. destruct (Acc c' v H) as [A|[A|A]].
      * now left.
      * destruct (list_eq_dec N.eq_dec v u) as [->|Nq].
        -- left. apply Dead. now apply In_assoc_nodup; [apply (wf_keys s W)|].
        -- right. left. right. apply remove_key_In. tauto.
      * apply in_app_or in A. destruct A as [A|[A|A]].
        -- right. right. apply in_or_app. now left.
        -- subst c'. right. left. left. rewrite (Fu c v Cin H). reflexivity.
        -- right. right. apply in_or_app. now right.
    + intros r H. apply in_mid in H. destruct H as [H|H]; [|exfalso; now apply (NoDone r)].
      inversion H; subst. split; cbn [p_pool assoc]; [now rewrite beq_refl|].
      unfold live. cbn [p_shut]. destruct (memN c (p_shut s)) eqn:M; [apply memN_In in M; contradiction | reflexivity].
Qed.

Lemma ginv_step s u l1 p l2 :
  ginv s u (l1 ++ p :: l2) -> ginv (fst (gstep s u p)) u (l1 ++ snd (gstep s u p) :: l2).
Proof.
  intros I. destruct p as [| |c|c]; cbn [gstep].
  - cbn [fst snd]. apply (ginv_same s u l1 GRead _ l2); [reflexivity | | | exact I].
    + destruct (assoc u (p_pool s)) as [c0|]; [destruct (live s c0)|]; reflexivity.
    + intros c H. destruct (assoc u (p_pool s)) as [c0|] eqn:E; [destruct (live s c0) eqn:L|]; inversion H; subst. split; assumption.
  - unfold p_log_dial at 1 2. cbn [fst snd]. apply (ginv_dial s u l1 l2 I).
  - destruct (p_set_if_absent s u c) as [s2 r] eqn:R. cbn [fst snd].
    pose proof (ginv_set s u l1 c l2 I) as H. rewrite R in H. exact H.
  - cbn [fst snd]. exact I.
Qed.

Lemma gstep_at_inv s u ths i : ginv s u ths -> ginv (fst (gstep_at s u ths i)) u (snd (gstep_at s u ths i)).
Proof.
  intros I. unfold gstep_at. destruct (nth_error ths i) as [p|] eqn:E; [|exact I].
  destruct (nth_error_split ths i E) as [l1 [l2 [-> Hl]]].
  destruct (gstep s u p) as [s1 p1] eqn:G. cbn [fst snd].
  assert (F1 : firstn i (l1 ++ p :: l2) = l1).
  { subst i. rewrite firstn_app, PeanoNat.Nat.sub_diag, firstn_all. cbn [firstn]. apply app_nil_r. }
  assert (F2 : skipn (S i) (l1 ++ p :: l2) = l2).
  { subst i. rewrite skipn_app. replace (S (List.length l1) - List.length l1)%nat with 1%nat by lia.
    rewrite skipn_all2 by lia. reflexivity. }
  rewrite F1, F2. pose proof (ginv_step s u l1 p l2 I) as H. rewrite G in H. exact H.
Qed.

Lemma grun_inv sched : forall s u ths, ginv s u ths -> ginv (fst (grun s u ths sched)) u (snd (grun s u ths sched)).
Proof.
  induction sched as [|i r IH]; intros s u ths I; cbn [grun]; [exact I|].
  destruct (gstep_at s u ths i) as [s1 ths1] eqn:G. apply IH.
  pose proof (gstep_at_inv s u ths i I) as H. rewrite G in H. exact H.
Qed.

Lemma pending_repeat_read n : pending (repeat GRead n) = [].
Proof. induction n as [|n IH]; [reflexivity | exact IH]. Qed.
Lemma ginv_start s u n : wf s -> accounted s -> ginv s u (repeat GRead n).
Proof.
  intros W A. constructor; rewrite ?pending_repeat_read.
  - exact W.
  - intros c [].
  - constructor.
  - intros c [].
  - intros c k [].
  - intros c v [].
  - intros c v H. destruct (A c v H) as [X|X]; [now left | right; now left].
  - intros c H. apply repeat_spec in H. discriminate.
Qed.
Lemma pending_all_done ths : forallb g_done ths = true -> pending ths = [].
Proof.
  induction ths as [|p ths IH]; [reflexivity|]. cbn [forallb]. intros H. apply andb_true_iff in H. destruct H as [H1 H2].
  unfold pending. cbn [flat_map]. fold (pending ths). rewrite (IH H2). destruct p; try discriminate. reflexivity.
Qed.

(* For EVERY schedule of any number of concurrent Gets for one target, from any well-formed
   state without orphans: once all callers are finished, one live connection is pooled for the
   target, every caller was handed exactly that connection, and every connection ever dialled
   is pooled or closed. *)
Theorem concurrent_gets_converge sched s u n :
  wf s -> accounted s ->
  let s' := fst (grun s u (repeat GRead n) sched) in
  let ths' := snd (grun s u (repeat GRead n) sched) in
  forallb g_done ths' = true ->
  wf s' /\ accounted s' /\ (forall c, orphan s' c = false) /\
  forall c, In (GDone c) ths' -> holds s' u c.
Proof.
  intros W A s' ths' D.
  pose proof (grun_inv sched s u (repeat GRead n) (ginv_start s u n W A)) as I. fold s' ths' in I.
  destruct I as [W' Lt Nd Lv Up Fu Acc Dn]. rewrite (pending_all_done ths' D) in Acc.
  assert (A' : accounted s').
  { intros c v H. destruct (Acc c v H) as [X|[X|[]]]; auto. }
  split; [exact W'|]. split; [exact A'|]. split; [|exact Dn].
  intros c. unfold orphan. destruct (existsb (fun d => fst d =? c) (p_dials s')) eqn:E; [|reflexivity]. cbn [andb].
  apply existsb_exists in E. destruct E as [[c' v] [Hin E]]. cbn [fst] in E. apply N.eqb_eq in E. subst c'.
  destruct (A' c v Hin) as [S|P].
  - unfold live. rewrite S. reflexivity.
  - destruct (live s' c); [|reflexivity]. cbn [andb]. apply negb_false_iff. apply existsb_exists.
    exists (v, c). split; [exact P | apply N.eqb_refl].
Qed.

(* all callers share one connection *)
Corollary concurrent_gets_one_connection sched s u n c1 c2 :
  wf s -> accounted s ->
  let ths' := snd (grun s u (repeat GRead n) sched) in
  forallb g_done ths' = true -> In (GDone c1) ths' -> In (GDone c2) ths' -> c1 = c2.
Proof.
  intros W A ths' D H1 H2.
  destruct (concurrent_gets_converge sched s u n W A D) as [_ [_ [_ Hd]]].
  destruct (Hd c1 H1) as [E1 _]. destruct (Hd c2 H2) as [E2 _]. congruence.
Qed.

(* the schedule that leaked a connection before 8fc2c4a: both read (miss), both dial, both set *)
Example concurrent_gets_nonvacuous u :
  let r := grun p_init u [GRead; GRead] [0; 1; 0; 1; 0; 1]%nat in
  snd r = [GDone 0; GDone 0] /\ p_pool (fst r) = [(u, 0)] /\ p_shut (fst r) = [1] /\ count_dials (fst r) u = 2.
Proof.
  cbn [grun gstep_at nth_error gstep p_init p_pool assoc firstn skipn app p_log_dial p_next p_shut p_dials fst snd].
  change (0 + 1) with 1. change (1 + 1) with 2.
  unfold p_set_if_absent. cbn [p_pool p_next p_shut p_dials assoc remove_key].
  cbn [grun gstep_at nth_error gstep firstn skipn app fst snd].
  unfold p_set_if_absent. cbn [p_pool p_next p_shut p_dials assoc]. rewrite beq_refl.
  change (negb (0 =? 1) && negb (memN 0 [])) with true. cbn [fst snd p_pool p_shut].
  repeat split. unfold count_dials. cbn [p_dials filter snd]. rewrite beq_refl. reflexivity.
Qed.

(* ---- the history machine of the theorems is the pool machine of the correspondence run ---- *)
Definition op_pops (ng : bool) (s : state) (o : op) : list pop :=
  match o with
  | Call m p k => match lookup (s_tbl s) ng (dsthost m) p with
                  | Some ts => match nth_error ts k with Some u => [PGet u] | None => [] end
                  | None => []
                  end
  | SetTable t => [PSetTable (table_urls t)]
  | CleanupTick => [PTick]
  | ConnShutdown u => [PShutdown u]
  end.
Fixpoint run_pops (ng : bool) (s : state) (ops : list op) : list pop :=
  match ops with
  | [] => []
  | o :: r => op_pops ng s o ++ run_pops ng (step ng s o) r
  end.
Definition abs_state (s : state) : list url * pstate := (table_urls (s_tbl s), s_pool s).

Lemma step_sim ng s o : abs_state (step ng s o) = p_run (abs_state s) (op_pops ng s o).
Proof.
  unfold abs_state. destruct o as [m p k|t| |u]; cbn [step op_pops].
  - destruct (lookup (s_tbl s) ng (dsthost m) p) as [ts|]; [|reflexivity].
    destruct (nth_error ts k) as [u|]; reflexivity.
  - reflexivity.
  - reflexivity.
  - reflexivity.
Qed.

(* every history of calls, table changes, ticks and shutdowns acts on the pool exactly as the
   sequence of Get / SetTable / tick / shutdown operations it resolves to: the pool operations
   the correspondence run executes on the real pool (CPool) and on the real proxy (CHistory) *)
Theorem run_sim ng ops : forall s, abs_state (run ng s ops) = p_run (abs_state s) (run_pops ng s ops).
Proof.
  induction ops as [|o r IH]; intros s; cbn [run fold_left run_pops]; [reflexivity|].
  unfold p_run. rewrite fold_left_app. fold (p_run (abs_state s) (op_pops ng s o)).
  rewrite <- step_sim. apply IH.
Qed.

(* ---- callers for several targets, with cleanup ticks, table changes and shutdowns in between ---- *)
Definition mpend1 (t : url * gpc) : list (N * url) := match snd t with GSet c => [(c, fst t)] | _ => [] end.
Definition mpend (ths : list (url * gpc)) : list (N * url) := flat_map mpend1 ths.
Lemma mpend_mid l1 t l2 : mpend (l1 ++ t :: l2) = mpend l1 ++ mpend1 t ++ mpend l2.
Proof. unfold mpend. rewrite flat_map_app. reflexivity. Qed.

Record minv (s : pstate) (ths : list (url * gpc)) : Prop := {
  mi_wf : wf s;
  mi_lt : forall c u, In (c, u) (mpend ths) -> c < p_next s;
  mi_nodup : NoDup (map fst (mpend ths));
  mi_live : forall c u, In (c, u) (mpend ths) -> ~ In c (p_shut s);
  mi_unpooled : forall c u k, In (c, u) (mpend ths) -> ~ In (k, c) (p_pool s);
  mi_for : forall c u v, In (c, u) (mpend ths) -> In (c, v) (p_dials s) -> v = u;
  mi_acc : forall c v, In (c, v) (p_dials s) ->
             memN c (p_shut s) = true \/ In (v, c) (p_pool s) \/ In c (map fst (mpend ths))
}.

Lemma minv_same s l1 t t1 l2 : mpend1 t = [] -> mpend1 t1 = [] -> minv s (l1 ++ t :: l2) -> minv s (l1 ++ t1 :: l2).
Proof. intros E E1 [W Lt Nd Lv Up Fu Acc]. rewrite mpend_mid, E in *. constructor; rewrite ?mpend_mid, ?E1; auto. Qed.

Lemma minv_dial s u l1 l2 :
  minv s (l1 ++ (u, GDial) :: l2) -> minv (fst (p_log_dial s u)) (l1 ++ (u, GSet (p_next s)) :: l2).
Proof.
  intros [W Lt Nd Lv Up Fu Acc]. rewrite mpend_mid in *. unfold mpend1 in *. cbn [snd fst app] in *.
  unfold p_log_dial. cbn [fst].
  constructor; cbn [p_pool p_next p_shut p_dials]; rewrite ?mpend_mid; unfold mpend1; cbn [snd fst app].
  - destruct W as [H1 H2 H3 H4 H5]. constructor; cbn [p_pool p_next p_shut p_dials]; auto.
    + intros k c H. apply H1 in H. lia.
    + intros c H. apply H2 in H. lia.
    + intros c v H. apply in_app_or in H. destruct H as [H|[H|[]]]; [apply H5 in H; lia | inversion H; lia].
  - intros c v H. apply in_app_or in H. destruct H as [H|[H|H]]; [|inversion H; lia|];
      (assert (c < p_next s) by (apply (Lt c v); apply in_or_app; tauto); lia).
  - rewrite map_app. cbn [map fst]. apply NoDup_middle_insert; [|now rewrite <- map_app].
    rewrite <- map_app. intros H. apply in_map_iff in H. destruct H as [[c v] [E H]]. cbn in E; subst c. apply Lt in H. lia.
  - intros c v H. apply in_app_or in H. destruct H as [H|[H|H]].
    + apply (Lv c v). apply in_or_app. tauto.
    + inversion H; subst. intros X. apply (wf_shut s W) in X. lia.
    + apply (Lv c v). apply in_or_app. tauto.
  - intros c v k H. apply in_app_or in H. destruct H as [H|[H|H]].
    + apply (Up c v). apply in_or_app. tauto.
    + inversion H; subst. intros X. apply (wf_pool s W) in X. lia.
    + apply (Up c v). apply in_or_app. tauto.
  - intros c v v' H D. apply in_app_or in D. destruct D as [D|[D|[]]].
    + apply in_app_or in H. destruct H as [H|[H|H]].
      * apply (Fu c v v'); [apply in_or_app; tauto | exact D].
      * inversion H; subst. apply (wf_dials s W) in D. lia.
      * apply (Fu c v v'); [apply in_or_app; tauto | exact D].
    + inversion D; subst. apply in_app_or in H. destruct H as [H|[H|H]].
      * assert (p_next s < p_next s) by (apply (Lt _ v); apply in_or_app; now left). lia.
      * now inversion H.
      * assert (p_next s < p_next s) by (apply (Lt _ v); apply in_or_app; now right). lia.
  - intros c v H. apply in_app_or in H. destruct H as [H|[H|[]]].
    + destruct (Acc c v H) as [A|[A|A]]; auto. right. right.
      rewrite map_app in *. cbn [map fst]. apply in_app_or in A. apply in_or_app. destruct A; [now left | right; now right].
    + inversion H; subst. right. right. rewrite map_app. cbn [map fst]. apply in_or_app. right. now left.
Qed.

Lemma minv_set s u l1 c l2 :
  minv s (l1 ++ (u, GSet c) :: l2) ->
  minv (fst (p_set_if_absent s u c)) (l1 ++ (u, GDone (snd (p_set_if_absent s u c))) :: l2) /\
  holds (fst (p_set_if_absent s u c)) u (snd (p_set_if_absent s u c)).
Proof.
  intros [W Lt Nd Lv Up Fu Acc]. rewrite mpend_mid in *. unfold mpend1 in *. cbn [snd fst app] in *.
  assert (Cin : In (c, u) (mpend l1 ++ (c, u) :: mpend l2)) by (apply in_or_app; right; now left).
  pose proof (Lt c u Cin) as Clt. pose proof (Lv c u Cin) as Clive. pose proof (Up c u) as Cup.
  rewrite map_app in Nd. cbn [map fst] in Nd.
  assert (Others : forall c' v, In (c', v) (mpend l1 ++ mpend l2) -> c' <> c /\ In (c', v) (mpend l1 ++ (c, u) :: mpend l2)).
  { intros c' v H. split.
    - intros ->. apply NoDup_remove_2 in Nd. apply Nd. rewrite <- map_app. change c with (fst (c, v)). now apply in_map.
    - apply in_app_or in H. apply in_or_app. destruct H; [now left | right; now right]. }
  assert (Nd' : NoDup (map fst (mpend l1 ++ mpend l2))) by (rewrite map_app; now apply NoDup_remove_1 in Nd).
  assert (Cases : (exists cur, assoc u (p_pool s) = Some cur /\ cur <> c /\ memN cur (p_shut s) = false /\
                     p_set_if_absent s u c = (mkp (p_pool s) (p_next s) (c :: p_shut s) (p_dials s), cur)) \/
                  ((forall cur, assoc u (p_pool s) = Some cur -> memN cur (p_shut s) = true) /\
                     p_set_if_absent s u c = (mkp ((u, c) :: remove_key u (p_pool s)) (p_next s) (p_shut s) (p_dials s), c))).
  { unfold p_set_if_absent. destruct (assoc u (p_pool s)) as [cur|] eqn:E.
    - destruct (negb (cur =? c) && negb (memN cur (p_shut s))) eqn:B.
      + left. apply andb_true_iff in B. destruct B as [B1 B2]. apply negb_true_iff in B1, B2. apply N.eqb_neq in B1.
        exists cur. tauto.
      + right. split; [|reflexivity]. intros cur' Hc. inversion Hc; subst cur'.
        apply andb_false_iff in B. destruct B as [B|B]; apply negb_false_iff in B; [|exact B].
        apply N.eqb_eq in B. subst cur. exfalso. apply assoc_In in E. now apply (Cup u Cin).
    - right. split; [discriminate | reflexivity]. }
  destruct Cases as [[cur [E [B1 [B2 R]]]]|[Dead R]]; rewrite R; cbn [fst snd]; split.
  - constructor; cbn [p_pool p_next p_shut p_dials]; rewrite ?mpend_mid; unfold mpend1; cbn [snd fst app].
    + destruct W as [H1 H2 H3 H4 H5]. constructor; cbn [p_pool p_next p_shut p_dials]; auto.
      intros c' [H|H]; [subst; exact Clt | now apply H2].
    + intros c' v H. apply (Lt c' v). now apply Others.
    + exact Nd'.
    + intros c' v H [X|X]; apply Others in H; destruct H as [H1 H2]; [congruence | now apply (Lv c' v)].
    + intros c' v k H. apply (Up c' v). now apply Others.
    + intros c' v v' H. apply (Fu c' v v'). now apply Others.
    + intros c' v H. destruct (Acc c' v H) as [A|[A|A]].
      * left. unfold memN. cbn [existsb]. fold (memN c' (p_shut s)). rewrite A. apply orb_true_r.
      * right. now left.
      * rewrite map_app in A. cbn [map fst] in A. apply in_app_or in A. destruct A as [A|[A|A]].
        -- right. right. rewrite map_app. apply in_or_app. now left.
        -- subst. left. unfold memN. cbn [existsb]. now rewrite N.eqb_refl.
        -- right. right. rewrite map_app. apply in_or_app. now right.
  - split; cbn [p_pool]; [exact E|]. unfold live, memN. cbn [p_shut existsb]. fold (memN cur (p_shut s)).
    rewrite B2. rewrite orb_false_r. apply negb_true_iff. apply N.eqb_neq. congruence.
  - constructor; cbn [p_pool p_next p_shut p_dials]; rewrite ?mpend_mid; unfold mpend1; cbn [snd fst app].
    + destruct W as [H1 H2 H3 H4 H5]. constructor; cbn [p_pool p_next p_shut p_dials]; auto.
      * intros k c' [H|H]; [inversion H; subst; exact Clt|]. apply remove_key_In in H. destruct H as [H _]. now apply H1 in H.
      * cbn [map fst]. constructor; [|now apply remove_key_nodup_fst].
        intros H. apply in_map_iff in H. destruct H as [[k c'] [Ek H]]. cbn in Ek; subst. apply remove_key_In in H. tauto.
      * cbn [map snd]. constructor; [|now apply remove_key_nodup_snd].
        intros H. apply in_map_iff in H. destruct H as [[k c'] [Ek H]]. cbn in Ek; subst. apply remove_key_In in H.
        destruct H as [H _]. now apply (Cup k Cin).
    + intros c' v H. apply (Lt c' v). now apply Others.
    + exact Nd'.
    + intros c' v H. apply (Lv c' v). now apply Others.
    + intros c' v k H [X|X]; [inversion X; subst; apply Others in H; destruct H; congruence|].
      apply remove_key_In in X. destruct X as [X _]. apply Others in H. destruct H as [_ H]. now apply (Up c' v k H).
    + intros c' v v' H. apply (Fu c' v v'). now apply Others.
    + intros c' v H. destruct (Acc c' v H) as [A|[A|A]].
      * now left.
      * destruct (list_eq_dec N.eq_dec v u) as [->|Nq].
        -- left. apply Dead. now apply In_assoc_nodup; [apply (wf_keys s W)|].
        -- right. left. right. apply remove_key_In. tauto.
      * rewrite map_app in A. cbn [map fst] in A. apply in_app_or in A. destruct A as [A|[A|A]].
        -- right. right. rewrite map_app. apply in_or_app. now left.
        -- subst c'. right. left. left. rewrite (Fu c u v Cin H). reflexivity.
        -- right. right. rewrite map_app. apply in_or_app. now right.
  - split; cbn [p_pool assoc]; [now rewrite beq_refl|].
    unfold live. cbn [p_shut]. destruct (memN c (p_shut s)) eqn:M; [apply memN_In in M; contradiction | reflexivity].
Qed.

(* the environment: what a tick closes or a shutdown hits is pooled, never a pending connection *)
Lemma minv_tick urls s ths : minv s ths -> minv (p_tick urls s) ths.
Proof.
  intros [W Lt Nd Lv Up Fu Acc]. constructor; auto.
  - now apply wf_tick.
  - intros c u H X. unfold p_tick in X. cbn [p_shut] in X. apply in_app_or in X. destruct X as [X|X]; [now apply (Lv c u)|].
    apply in_map_iff in X. destruct X as [[k c'] [E X]]. cbn in E; subst. apply filter_In in X. now apply (Up c u k H).
  - intros c u k H X. unfold p_tick in X. cbn [p_pool] in X. apply filter_In in X. now apply (Up c u k H).
  - intros c v H. unfold p_tick. cbn [p_shut p_pool p_dials] in *. rewrite memN_app.
    destruct (Acc c v H) as [A|[A|A]]; [left; now rewrite A | | tauto].
    destruct (memN c (p_shut s)) eqn:M; [now left|]. cbn [orb].
    destruct (mem v urls) eqn:Hu.
    + right. left. apply filter_In. split; [exact A|]. cbn [fst snd]. unfold live. now rewrite M, Hu.
    + left. apply memN_In. apply in_map_iff. exists (v, c). split; [reflexivity|]. apply filter_In.
      split; [exact A|]. cbn [fst snd]. unfold live. now rewrite M, Hu.
Qed.
Lemma minv_shutdown s u ths : minv s ths -> minv (p_shutdown s u) ths.
Proof.
  intros [W Lt Nd Lv Up Fu Acc]. unfold p_shutdown. destruct (assoc u (p_pool s)) as [c0|] eqn:E; [|constructor; auto].
  constructor; cbn [p_pool p_next p_shut p_dials]; auto.
  - pose proof (wf_shutdown s u W) as W'. unfold p_shutdown in W'. now rewrite E in W'.
  - intros c v H [X|X]; [subst; apply assoc_In in E; now apply (Up c v u H) | now apply (Lv c v)].
  - intros c v H. destruct (Acc c v H) as [A|[A|A]]; [left | tauto | tauto].
    unfold memN. cbn [existsb]. fold (memN c (p_shut s)). rewrite A. apply orb_true_r.
Qed.

Lemma mstep_inv st a : minv (snd (fst st)) (snd st) -> minv (snd (fst (mstep st a))) (snd (mstep st a)).
Proof.
  destruct st as [[urls s] ths]. cbn [fst snd]. intros I. destruct a as [i|t|t|u]; cbn [mstep].
  - unfold mstep_at. destruct (nth_error ths i) as [[u p]|] eqn:E; [|exact I].
    destruct (nth_error_split ths i E) as [l1 [l2 [-> Hl]]].
    assert (F1 : firstn i (l1 ++ (u, p) :: l2) = l1).
    { subst i. rewrite firstn_app, PeanoNat.Nat.sub_diag, firstn_all. cbn [firstn]. apply app_nil_r. }
    assert (F2 : skipn (S i) (l1 ++ (u, p) :: l2) = l2).
    { subst i. rewrite skipn_app. replace (S (List.length l1) - List.length l1)%nat with 1%nat by lia.
      rewrite skipn_all2 by lia. reflexivity. }
    destruct p as [| |c|c]; cbn [gstep].
    + cbn [fst snd]. rewrite F1, F2. apply (minv_same s l1 (u, GRead) _ l2); [reflexivity | | exact I].
      unfold mpend1. cbn [snd]. destruct (assoc u (p_pool s)) as [c0|]; [destruct (live s c0)|]; reflexivity.
    + unfold p_log_dial at 1. cbn [fst snd]. rewrite F1, F2. apply (minv_dial s u l1 l2 I).
    + destruct (p_set_if_absent s u c) as [s2 r] eqn:R. cbn [fst snd]. rewrite F1, F2.
      pose proof (minv_set s u l1 c l2 I) as H. rewrite R in H. exact (proj1 H).
    + cbn [fst snd]. rewrite F1, F2. exact I.
  - cbn [fst snd]. now apply minv_tick.
  - exact I.
  - cbn [fst snd]. now apply minv_shutdown.
Qed.
Lemma mrun_inv sched : forall st, minv (snd (fst st)) (snd st) -> minv (snd (fst (mrun st sched))) (snd (mrun st sched)).
Proof.
  induction sched as [|a r IH]; intros st I; cbn [mrun fold_left]; [exact I|]. apply IH. now apply mstep_inv.
Qed.

Lemma mpend_start us : mpend (map (fun u => (u, GRead)) us) = [].
Proof. induction us as [|u us IH]; [reflexivity | exact IH]. Qed.
Lemma mpend_all_done ths : forallb (fun t => g_done (snd t)) ths = true -> mpend ths = [].
Proof.
  induction ths as [|[u p] ths IH]; [reflexivity|]. cbn [forallb snd]. intros H. apply andb_true_iff in H. destruct H as [H1 H2].
  unfold mpend. cbn [flat_map]. fold (mpend ths). rewrite (IH H2). destruct p; try discriminate. reflexivity.
Qed.

(* For EVERY schedule of concurrent Gets for ANY targets interleaved with cleanup ticks, table
   changes and connection shutdowns, from any well-formed state without orphans: the state
   stays well-formed, and whenever all callers have finished every connection ever dialled is
   pooled or closed.  (Which connection a caller was handed: [concurrent_get_result].) *)
Theorem concurrent_gets_no_orphans sched urls s targets :
  wf s -> accounted s ->
  let st' := mrun (urls, s, map (fun u => (u, GRead)) targets) sched in
  wf (snd (fst st')) /\
  (forallb (fun t => g_done (snd t)) (snd st') = true ->
   accounted (snd (fst st')) /\ forall c, orphan (snd (fst st')) c = false).
Proof.
  intros W A st'.
  assert (I0 : minv s (map (fun u => (u, GRead)) targets)).
  { constructor; rewrite ?mpend_start; auto; try (intros; contradiction).
    - constructor.
    - intros c v H. destruct (A c v H) as [X|X]; [now left | right; now left]. }
  pose proof (mrun_inv sched (urls, s, map (fun u => (u, GRead)) targets) I0) as I. fold st' in I.
  destruct I as [W' Lt Nd Lv Up Fu Acc]. split; [exact W'|]. intros D.
  rewrite (mpend_all_done _ D) in Acc.
  assert (A' : accounted (snd (fst st'))).
  { intros c v H. destruct (Acc c v H) as [X|[X|[]]]; auto. }
  split; [exact A'|]. intros c. set (s' := snd (fst st')) in *.
  unfold orphan. destruct (existsb (fun d => fst d =? c) (p_dials s')) eqn:E; [|reflexivity]. cbn [andb].
  apply existsb_exists in E. destruct E as [[c' v] [Hin E]]. cbn [fst] in E. apply N.eqb_eq in E. subst c'.
  destruct (A' c v Hin) as [S|P].
  - unfold live. rewrite S. reflexivity.
  - destruct (live s' c); [|reflexivity]. cbn [andb]. apply negb_false_iff. apply existsb_exists.
    exists (v, c). split; [exact P | apply N.eqb_refl].
Qed.

(* at the step at which a caller finishes, what it is handed is the live connection pooled for
   its target at that moment (a later tick or shutdown may of course close it) *)
Theorem concurrent_get_result s l1 u p l2 c :
  minv s (l1 ++ (u, p) :: l2) -> g_done p = false -> snd (gstep s u p) = GDone c ->
  holds (fst (gstep s u p)) u c.
Proof.
  intros I Hp. destruct p as [| |c0|c0]; cbn [gstep g_done] in *; try discriminate.
  - cbn [fst snd]. destruct (assoc u (p_pool s)) as [c1|] eqn:E; [destruct (live s c1) eqn:L|]; try discriminate.
    intros H; inversion H; subst. split; assumption.
  - destruct (p_set_if_absent s u c0) as [s2 r] eqn:R. cbn [fst snd]. intros H; inversion H; subst.
    pose proof (minv_set s u l1 c0 l2 I) as [_ Hh]. rewrite R in Hh. exact Hh.
Qed.

(* two callers for a (both miss, both dial), one for b, a table change that drops a, a tick
   and a shutdown in between: connection 1 (a's second dial) is closed by setIfAbsent, 0 by the
   tick, 2 by the shutdown; nothing is orphaned *)
Example concurrent_multi_nonvacuous :
  let a := [97] in let b := [98] in
  let st := mrun ([a; b], p_init, [(a, GRead); (a, GRead); (b, GRead)])
                 [MThread 0; MThread 1; MThread 2; MThread 0; MThread 1; MThread 2; MThread 0; MSetTable [b];
                  MThread 1; MTick; MThread 2; MShutdown b]%nat in
  snd st = [(a, GDone 0); (a, GDone 0); (b, GDone 2)] /\
  p_pool (snd (fst st)) = [(b, 2)] /\ p_shut (snd (fst st)) = [2; 1; 0] /\
  forallb (fun t => g_done (snd t)) (snd st) = true.
Proof. vm_compute. repeat split. Qed.

(* ---- a matching route exists -> the call is routed (C03_lookup_complete, carried over) ---- *)
Lemma to_c03_keys t : ML.keys (to_c03 t) = map fst t.
Proof. unfold ML.keys, to_c03. rewrite map_map. reflexivity. Qed.

Lemma all_routes_to_c03 t k p id : In (k, p, id) (ML.all_routes (to_c03 t)) ->
  exists rs ts, In (k, rs) t /\ In (p, ts) rs.
Proof.
  unfold ML.all_routes, to_c03. intros H. apply in_flat_map in H. destruct H as [[k' rs'] [H1 H2]].
  apply in_map_iff in H1. destruct H1 as [[k0 rs] [E1 H1]]. inversion E1; subst. cbn [fst snd] in H2.
  apply in_map_iff in H2. destruct H2 as [[p' id'] [E2 H2]]. inversion E2; subst.
  apply in_map_iff in H2. destruct H2 as [[p0 ts] [E3 H2]]. inversion E3; subst.
  exists rs, ts. tauto.
Qed.

Theorem lookup_complete t noglob host path c :
  PL.wf_keys (to_c03 t) -> NoDup (map fst t) -> table_domain t = true ->
  ML.F_C03_gobwas_overlap noglob false ML.MPrefix (to_c03 t) host path = false ->
  In c (ML.all_routes (to_c03 t)) -> ML.is_candidate noglob false ML.MPrefix host path c = true ->
  lookup t noglob host path <> None.
Proof.
  intros W Nd Dom G Hin Hc. unfold lookup.
  assert (Nd' : NoDup (ML.keys (to_c03 t))) by (now rewrite to_c03_keys).
  pose proof (PL.lookup_complete _ _ _ _ _ _ _ W Nd' Hin Hc) as L.
  destruct (ML.lookup (to_c03 t) host false path ML.MPrefix noglob) as [[[k p] id]|] eqn:E; [|congruence].
  destruct (PL.lookup_sound _ _ _ _ _ _ _ W G E) as [Hr _].
  destruct (all_routes_to_c03 t k p id Hr) as [rs [ts [H1 H2]]].
  unfold route_targets. rewrite (In_assoc_nodup k rs t Nd H1).
  destruct (find (fun r : route => beq (fst r) p) rs) as [[p' ts']|] eqn:F.
  - apply find_some in F. destruct F as [F1 _].
    unfold table_domain in Dom. apply andb_true_iff in Dom. destruct Dom as [_ Dom].
    rewrite forallb_forall in Dom. specialize (Dom _ H1). cbn [snd] in Dom.
    rewrite forallb_forall in Dom. specialize (Dom _ F1). cbn [snd] in Dom.
    destruct ts'; [discriminate | discriminate].
  - exfalso. pose proof (find_none _ _ F _ H2) as X. cbn [fst] in X. rewrite beq_refl in X. discriminate.
Qed.

(* the hypotheses of [lookup_sound] / [lookup_complete] hold for a table with a glob key *)
Example lookup_sound_nonvacuous :
  PL.wf_keys (to_c03 ex_gtbl) /\ NoDup (map fst ex_gtbl) /\ table_domain ex_gtbl = true /\
  ML.F_C03_gobwas_overlap false false ML.MPrefix (to_c03 ex_gtbl) (bs "X.Beta.Example:80") (bs "/pkg.Svc/Get") = false /\
  lookup ex_gtbl false (bs "X.Beta.Example:80") (bs "/pkg.Svc/Get") = Some [ex_v] /\
  In (bs "*.beta.example", bs "/pkg.Svc", 0) (ML.all_routes (to_c03 ex_gtbl)) /\
  ML.is_candidate false false ML.MPrefix (bs "X.Beta.Example:80") (bs "/pkg.Svc/Get") (bs "*.beta.example", bs "/pkg.Svc", 0) = true.
Proof.
  split; [repeat constructor|]. split; [repeat constructor; cbn; intuition discriminate|].
  split; [vm_compute; reflexivity|]. split; [vm_compute; reflexivity|]. split; [vm_compute; reflexivity|].
  split; [cbn; now left | vm_compute; reflexivity].
Qed.

(* ---- F-C16-2: a grpcs:// target behind a listener without TLS is dialled in the clear ---- *)
Definition ex_tls_tbl : table := [([], [(bs "/", [bs "grpcs://10.0.0.3:9443"])])].
Definition ex_ci : callin :=
  mkcallin [] (bs "/pkg.Svc/Get") (Some (bs "/pkg.Svc/Get")) [bs "x"] (mkscript 0 [] [bs "y"] [] 0 []).

Theorem plaintext_listener_tls_backend_refuted :
  lookup ex_tls_tbl false (dsthost (ci_md ex_ci)) (bs "/pkg.Svc/Get") = Some [bs "grpcs://10.0.0.3:9443"] /\
  call_result false [] ex_tls_tbl false ex_ci 0 = (None, code_unavailable) /\
  call_result true [] ex_tls_tbl false ex_ci 0 = (Some (bs "grpcs://10.0.0.3:9443"), 0).
Proof. vm_compute. repeat split. Qed.

(* outside that region (and with the backend up) a routed call reaches the picked target and
   ends with the backend's status *)
Theorem routed_call_reaches_backend tl down t ng ci p ts k u :
  ci_upath ci = Some p -> lookup t ng (dsthost (ci_md ci)) p = Some ts -> nth_error ts k = Some u ->
  mem u down = false -> plaintext_to_tls tl u = false ->
  call_result tl down t ng ci k = (Some u, sc_code (ci_script ci)).
Proof.
  intros U L Nth D P. unfold call_result. rewrite (routed_call_relayed t ng ci p ts U L), Nth.
  unfold unreachable. rewrite D, P. cbn [orb]. f_equal.
  unfold relay. cbn [snd cv_code]. unfold final_status.
  destruct (sc_code (ci_script ci) =? 0) eqn:E; [apply N.eqb_eq in E; now rewrite E | reflexivity].
Qed.
