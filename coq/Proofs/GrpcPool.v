(** Proofs about the model of proxy/grpc_handler.go (Model/GrpcPool.v). *)
From Coq Require Import String List NArith Bool Lia.
From Fabio Require Import Lib.Outcome Lib.Bytes Model.GrpcPool.
Import ListNotations.
Local Open Scope N_scope.

(* ---- small facts about the list helpers ---- *)
Lemma mem_In u l : mem u l = true <-> In u l.
Proof.
  unfold mem. rewrite existsb_exists. split.
  - intros [x [Hx E]]. apply beq_eq in E. now subst.
  - intros H. exists u. split; [exact H | apply beq_refl].
Qed.
Lemma mem_false u l : mem u l = false <-> ~ In u l.
Proof. rewrite <- mem_In. destruct (mem u l); split; intros; congruence. Qed.
Lemma memN_In c l : memN c l = true <-> In c l.
Proof.
  unfold memN. rewrite existsb_exists. split.
  - intros [x [Hx E]]. apply N.eqb_eq in E. now subst.
  - intros H. exists c. split; [exact H | apply N.eqb_refl].
Qed.
Lemma memN_app c a b : memN c (a ++ b) = memN c a || memN c b.
Proof. unfold memN. apply existsb_app. Qed.

Lemma assoc_In {A} k (l : list (str * A)) v : assoc k l = Some v -> In (k, v) l.
Proof.
  induction l as [|[k' v'] l IH]; cbn [assoc]; [discriminate|].
  destruct (beq k k') eqn:E.
  - intros H; inversion H; subst. apply beq_eq in E. subst. now left.
  - intros H. right. now apply IH.
Qed.
Lemma assoc_None_notin {A} k (l : list (str * A)) : assoc k l = None -> ~ In k (map fst l).
Proof.
  induction l as [|[k' v'] l IH]; cbn [assoc map fst In]; [tauto|].
  destruct (beq k k') eqn:E; [discriminate|].
  intros H [H1|H1]; [subst; rewrite beq_refl in E; discriminate | now apply IH].
Qed.
Lemma In_assoc_nodup {A} k (v : A) l : NoDup (map fst l) -> In (k, v) l -> assoc k l = Some v.
Proof.
  induction l as [|[k' v'] l IH]; cbn [map fst assoc In]; [tauto|].
  intros ND [H|H].
  - inversion H; subst. now rewrite beq_refl.
  - inversion ND as [|? ? Hn ND']; subst.
    destruct (beq k k') eqn:E.
    + apply beq_eq in E. subst. exfalso. apply Hn. change k' with (fst (k', v)). now apply in_map.
    + now apply IH.
Qed.

Lemma assoc_filter_keep {A} k (v : A) (f : str * A -> bool) l :
  assoc k l = Some v -> f (k, v) = true -> assoc k (filter f l) = Some v.
Proof.
  induction l as [|[k' v'] l IH]; cbn [assoc filter]; [discriminate|].
  destruct (beq k k') eqn:E.
  - intros H Hf; inversion H; subst. apply beq_eq in E; subst. rewrite Hf. cbn [assoc]. now rewrite beq_refl.
  - intros H Hf. destruct (f (k', v')); [cbn [assoc]; rewrite E|]; now apply IH.
Qed.
Lemma assoc_filter_none {A} k (f : str * A -> bool) (l : list (str * A)) :
  (forall v, In (k, v) l -> f (k, v) = false) -> assoc k (filter f l) = None.
Proof.
  induction l as [|[k' v'] l IH]; cbn [filter]; [reflexivity|]. intros H.
  destruct (f (k', v')) eqn:Ef.
  - cbn [assoc]. destruct (beq k k') eqn:E.
    + apply beq_eq in E; subst. rewrite H in Ef; [discriminate | now left].
    + apply IH. intros v Hv. apply H. now right.
  - apply IH. intros v Hv. apply H. now right.
Qed.

Lemma remove_key_In k l k' c : In (k', c) (remove_key k l) <-> In (k', c) l /\ k' <> k.
Proof.
  induction l as [|[k2 c2] l IH]; cbn [remove_key In]; [tauto|].
  destruct (beq k k2) eqn:E.
  - apply beq_eq in E; subst. rewrite IH. split.
    + intros [H1 H2]; split; [now right | exact H2].
    + intros [[H1|H1] H2]; [inversion H1; subst; congruence | tauto].
  - cbn [In]. rewrite IH. apply beq_neq in E. split.
    + intros [H|[H1 H2]]; [inversion H; subst; split; [now left | congruence] | split; [now right | exact H2]].
    + intros [[H|H] H2]; [now left | right; tauto].
Qed.
Lemma assoc_remove_other k u l : u <> k -> assoc u (remove_key k l) = assoc u l.
Proof.
  intros N. induction l as [|[k2 c2] l IH]; cbn [remove_key assoc]; [reflexivity|].
  destruct (beq k k2) eqn:E.
  - apply beq_eq in E; subst. destruct (beq u k2) eqn:E2; [apply beq_eq in E2; congruence | exact IH].
  - cbn [assoc]. now rewrite IH.
Qed.
Lemma remove_key_nodup_fst k l : NoDup (map fst l) -> NoDup (map fst (remove_key k l)).
Proof.
  induction l as [|[k2 c2] l IH]; cbn [remove_key map fst]; [auto|].
  intros ND; inversion ND as [|? ? Hn ND']; subst.
  destruct (beq k k2); [now apply IH|].
  cbn [map fst]. constructor; [|now apply IH].
  intros H. apply in_map_iff in H. destruct H as [[k3 c3] [E H]]. cbn in E; subst.
  apply remove_key_In in H. apply Hn. change k2 with (fst (k2, c3)). apply in_map. tauto.
Qed.
Lemma remove_key_nodup_snd k l : NoDup (map snd l) -> NoDup (map snd (remove_key k l)).
Proof.
  induction l as [|[k2 c2] l IH]; cbn [remove_key map snd]; [auto|].
  intros ND; inversion ND as [|? ? Hn ND']; subst.
  destruct (beq k k2); [now apply IH|].
  cbn [map snd]. constructor; [|now apply IH].
  intros H. apply in_map_iff in H. destruct H as [[k3 c3] [E H]]. cbn in E; subst.
  apply remove_key_In in H. apply Hn. change c2 with (snd (k3, c2)). apply in_map. tauto.
Qed.
Lemma filter_nodup_map {A B} (g : A -> B) (f : A -> bool) l : NoDup (map g l) -> NoDup (map g (filter f l)).
Proof.
  induction l as [|a l IH]; cbn [filter map]; [auto|].
  intros ND; inversion ND as [|? ? Hn ND']; subst.
  destruct (f a); [|now apply IH].
  cbn [map]. constructor; [|now apply IH].
  intros H. apply in_map_iff in H. destruct H as [x [E H]]. apply filter_In in H.
  apply Hn. rewrite <- E. apply in_map. tauto.
Qed.

(* ---- well-formed pool states ---- *)
Record wf (s : pstate) : Prop := {
  wf_pool : forall k c, In (k, c) (p_pool s) -> c < p_next s;
  wf_shut : forall c, In c (p_shut s) -> c < p_next s;
  wf_keys : NoDup (map fst (p_pool s));
  wf_conns : NoDup (map snd (p_pool s));
  wf_dials : forall c u, In (c, u) (p_dials s) -> c < p_next s
}.

Lemma wf_init : wf p_init.
Proof. constructor; cbn; try tauto; constructor. Qed.

Lemma wf_dial s u : wf s -> wf (fst (p_dial s u)).
Proof.
  intros [H1 H2 H3 H4 H5]. unfold p_dial. cbn [fst]. constructor; cbn [p_pool p_next p_shut p_dials].
  - intros k c [H|H]; [inversion H; subst; lia|]. apply remove_key_In in H. destruct H as [H _]. apply H1 in H. lia.
  - intros c H. apply H2 in H. lia.
  - cbn [map fst]. constructor; [|now apply remove_key_nodup_fst].
    intros H. apply in_map_iff in H. destruct H as [[k c] [E H]]. cbn in E; subst. apply remove_key_In in H. tauto.
  - cbn [map snd]. constructor; [|now apply remove_key_nodup_snd].
    intros H. apply in_map_iff in H. destruct H as [[k c] [E H]]. cbn in E; subst. apply remove_key_In in H.
    destruct H as [H _]. apply H1 in H. lia.
  - intros c u' H. apply in_app_or in H. destruct H as [H|[H|[]]]; [apply H5 in H; lia | inversion H; subst; lia].
Qed.
Lemma wf_get s u : wf s -> wf (fst (p_get s u)).
Proof.
  intros W. unfold p_get. destruct (assoc u (p_pool s)) as [c|]; [destruct (live s c); [exact W|]|]; now apply wf_dial.
Qed.
Lemma wf_tick urls s : wf s -> wf (p_tick urls s).
Proof.
  intros [H1 H2 H3 H4 H5]. unfold p_tick. constructor; cbn [p_pool p_next p_shut p_dials].
  - intros k c H. apply filter_In in H. apply (H1 k c). tauto.
  - intros c H. apply in_app_or in H. destruct H as [H|H]; [now apply H2|].
    apply in_map_iff in H. destruct H as [[k c'] [E H]]. cbn in E; subst. apply filter_In in H. apply (H1 k c). tauto.
  - now apply filter_nodup_map.
  - now apply filter_nodup_map.
  - exact H5.
Qed.
Lemma wf_shutdown s u : wf s -> wf (p_shutdown s u).
Proof.
  intros W. unfold p_shutdown. destruct (assoc u (p_pool s)) as [c|] eqn:E; [|exact W].
  destruct W as [H1 H2 H3 H4 H5]. constructor; cbn [p_pool p_next p_shut p_dials]; auto.
  intros c' [H|H]; [subst; apply assoc_In in E; now apply H1 in E | now apply H2].
Qed.
Lemma wf_step st o : wf (snd st) -> wf (snd (p_step st o)).
Proof.
  destruct st as [urls s]. cbn [snd]. intros W. destruct o; cbn [p_step snd];
    [now apply wf_get | exact W | now apply wf_tick | now apply wf_shutdown].
Qed.
Lemma wf_run ops : forall st, wf (snd st) -> wf (snd (p_run st ops)).
Proof.
  induction ops as [|o ops IH]; intros st W; cbn [p_run fold_left]; [exact W|].
  apply IH. now apply wf_step.
Qed.

(* ---- Get re-uses the pooled live connection ---- *)
Lemma get_reuse s u c : assoc u (p_pool s) = Some c -> live s c = true -> p_get s u = (s, c).
Proof. intros H L. unfold p_get. now rewrite H, L. Qed.

Lemma get_fresh s u : (assoc u (p_pool s) = None \/ exists c, assoc u (p_pool s) = Some c /\ live s c = false) ->
  p_get s u = p_dial s u.
Proof. intros [H|[c [H L]]]; unfold p_get; rewrite H; [reflexivity | now rewrite L]. Qed.

(* [u] has the live connection [c] in the pool *)
Definition holds (s : pstate) (u : url) (c : N) : Prop := assoc u (p_pool s) = Some c /\ live s c = true.

Lemma get_holds s u : wf s -> holds (fst (p_get s u)) u (snd (p_get s u)).
Proof.
  intros W. unfold p_get.
  destruct (assoc u (p_pool s)) as [c|] eqn:E; [destruct (live s c) eqn:L; [split; assumption|]|];
    (unfold p_dial, holds, live; cbn [fst snd p_pool p_shut assoc]; rewrite beq_refl; split; [reflexivity|];
     destruct (memN (p_next s) (p_shut s)) eqn:M; [|reflexivity];
     apply memN_In in M; apply (wf_shut s W) in M; lia).
Qed.

Lemma dial_other_holds s u v c : v <> u -> holds s u c -> holds (fst (p_dial s v)) u c.
Proof.
  intros N [H L]. unfold p_dial, holds, live. cbn [fst p_pool p_shut assoc].
  destruct (beq u v) eqn:E; [apply beq_eq in E; congruence|].
  rewrite assoc_remove_other by congruence. split; assumption.
Qed.
Lemma get_keeps_holds s u v c : holds s u c -> holds (fst (p_get s v)) u c /\ (v = u -> p_get s v = (s, c)).
Proof.
  intros H. destruct (list_eq_dec N.eq_dec v u) as [->|Nq].
  - destruct H as [H L]. rewrite (get_reuse s u c H L). cbn [fst]. split; [split; assumption | reflexivity].
  - split; [|congruence]. unfold p_get.
    destruct (assoc v (p_pool s)) as [c'|]; [destruct (live s c'); [exact H|]|]; now apply dial_other_holds.
Qed.

Lemma tick_keeps_holds urls s u c : wf s -> In u urls -> holds s u c -> holds (p_tick urls s) u c.
Proof.
  intros W Hin [H L]. unfold holds, p_tick. cbn [p_pool]. split.
  - apply assoc_filter_keep; [exact H|]. cbn [fst snd]. rewrite L. apply mem_In in Hin. now rewrite Hin.
  - unfold live at 1. cbn [p_shut]. rewrite memN_app.
    assert (L1 : memN c (p_shut s) = false) by (unfold live in L; now apply negb_true_iff in L).
    rewrite L1. cbn [orb]. apply negb_true_iff.
    destruct (memN c (map snd _)) eqn:M; [|reflexivity]. exfalso.
    apply memN_In in M. apply in_map_iff in M. destruct M as [[k c'] [E M]]. cbn in E; subst c'.
    apply filter_In in M. destruct M as [M F]. cbn [fst snd] in F.
    (* the same connection under two keys: excluded by wf_conns *)
    assert (k = u).
    { apply assoc_In in H. clear - W M H.
      destruct W as [_ _ _ ND _]. revert ND M H. generalize (p_pool s) as l.
      induction l as [|[k2 c2] l IH]; cbn [map snd In]; [tauto|].
      intros ND M H. inversion ND as [|? ? Hn ND']; subst.
      destruct M as [M|M]; destruct H as [H|H].
      - inversion M; inversion H; subst. reflexivity.
      - inversion M; subst. exfalso. apply Hn. change c with (snd (u, c)). now apply in_map.
      - inversion H; subst. exfalso. apply Hn. change c with (snd (k, c)). now apply in_map.
      - now apply IH. }
    subst k. apply mem_In in Hin. rewrite Hin in F. rewrite andb_false_r in F. discriminate.
Qed.

Lemma shutdown_other_holds s u v c : wf s -> v <> u -> holds s u c -> holds (p_shutdown s v) u c.
Proof.
  intros W Nq [H L]. unfold p_shutdown. destruct (assoc v (p_pool s)) as [c'|] eqn:E; [|split; assumption].
  unfold holds, live. cbn [p_pool p_shut]. split; [exact H|].
  unfold memN. cbn [existsb]. fold (memN c (p_shut s)). unfold live in L. apply negb_true_iff in L. rewrite L.
  rewrite orb_false_r. apply negb_true_iff. apply N.eqb_neq. intros ->.
  apply assoc_In in H. apply assoc_In in E. apply Nq.
  destruct W as [_ _ _ ND _]. clear - ND H E. revert ND H E. generalize (p_pool s) as l.
  induction l as [|[k2 c2] l IH]; cbn [map snd In]; [tauto|].
  intros ND H E. inversion ND as [|? ? Hn ND']; subst.
  destruct H as [H|H]; destruct E as [E|E].
  - inversion H; inversion E; subst. congruence.
  - inversion H; subst. exfalso. apply Hn. change c' with (snd (v, c')). now apply in_map.
  - inversion E; subst. exfalso. apply Hn. change c' with (snd (u, c')). now apply in_map.
  - now apply IH.
Qed.

(* dials for a target *)
Lemma count_dials_dial s u v : count_dials (fst (p_dial s v)) u = count_dials s u + (if beq v u then 1 else 0).
Proof.
  unfold count_dials, p_dial. cbn [fst p_dials]. rewrite filter_app, app_length, Nat2N.inj_add. cbn [filter snd].
  destruct (beq v u); reflexivity.
Qed.
Lemma count_dials_get_other s u v : v <> u -> count_dials (fst (p_get s v)) u = count_dials s u.
Proof.
  intros Nq. unfold p_get.
  destruct (assoc v (p_pool s)) as [c|]; [destruct (live s c); [reflexivity|]|];
    (rewrite count_dials_dial; destruct (beq v u) eqn:E; [apply beq_eq in E; congruence | lia]).
Qed.

(* ---- the table ---- *)
Lemma first_some_Some {A B} (f : A -> option B) l b : first_some f l = Some b -> exists a, In a l /\ f a = Some b.
Proof.
  induction l as [|a l IH]; cbn [first_some]; [discriminate|].
  destruct (f a) eqn:E.
  - intros H; inversion H; subst. exists a. split; [now left | exact E].
  - intros H. destruct (IH H) as [a' [H1 H2]]. exists a'. split; [now right | exact H2].
Qed.
Lemma first_some_None {A B} (f : A -> option B) l : first_some f l = None -> forall a, In a l -> f a = None.
Proof.
  induction l as [|a l IH]; cbn [first_some]; [intros _ a []|].
  destruct (f a) eqn:E; [discriminate|]. intros H a' [<-|H']; [exact E | now apply IH].
Qed.
Lemma first_match_Some path rs r : first_match path rs = Some r -> In r rs /\ has_prefix path (fst r) = true.
Proof.
  induction rs as [|r' rs IH]; cbn [first_match]; [discriminate|].
  destruct (has_prefix path (fst r')) eqn:E.
  - intros H; inversion H; subst. split; [now left | exact E].
  - intros H. destruct (IH H). split; [now right | assumption].
Qed.
Lemma first_match_None path rs : first_match path rs = None -> forall r, In r rs -> has_prefix path (fst r) = false.
Proof.
  induction rs as [|r' rs IH]; cbn [first_match]; [intros _ r []|].
  destruct (has_prefix path (fst r')) eqn:E; [discriminate|]. intros H r [<-|H']; [exact E | now apply IH].
Qed.

Lemma lookup_host_Some t h path ts : lookup_host t h path = Some ts ->
  ts <> [] /\ exists rs pth, assoc (lower h) t = Some rs /\ In (pth, ts) rs /\ has_prefix path pth = true.
Proof.
  unfold lookup_host. destruct (assoc (lower h) t) as [rs|] eqn:E; [|discriminate].
  destruct (first_match path rs) as [[pth ts']|] eqn:F; [|discriminate].
  destruct ts' as [|x ts']; [discriminate|]. intros H; inversion H; subst.
  apply first_match_Some in F. cbn [fst] in F. split; [discriminate|]. exists rs, pth. tauto.
Qed.

(* the synthetic request: host = the single dsthost value, path = the method path *)
Theorem lookup_sound t noglob host path ts : lookup t noglob host path = Some ts ->
  ts <> [] /\
  exists key rs pth,
    (key = [] \/ (In key (map fst t) /\ norm_host key = if noglob then strip80 host else norm_host host)) /\
    assoc (lower key) t = Some rs /\ In (pth, ts) rs /\ has_prefix path pth = true.
Proof.
  unfold lookup. intros H. apply first_some_Some in H. destruct H as [key [Hk H]].
  apply lookup_host_Some in H. destruct H as [Hne [rs [pth [H1 [H2 H3]]]]].
  split; [exact Hne|]. exists key, rs, pth. split; [|tauto].
  apply in_app_or in Hk. destruct Hk as [Hk|[<-|[]]]; [right | now left].
  unfold matching_keys in Hk. apply filter_In in Hk. destruct Hk as [Hk E]. apply beq_eq in E. tauto.
Qed.

Theorem lookup_none t noglob host path : lookup t noglob host path = None ->
  forall key, (key = [] \/ (In key (map fst t) /\ norm_host key = if noglob then strip80 host else norm_host host)) ->
  lookup_host t key path = None.
Proof.
  unfold lookup. intros H key Hk. apply (first_some_None _ _ H). apply in_or_app.
  destruct Hk as [->|[Hk E]]; [right; now left | left].
  unfold matching_keys. apply filter_In. split; [exact Hk | rewrite E; apply beq_refl].
Qed.

Lemma lookup_in_table t noglob host path ts : lookup t noglob host path = Some ts ->
  forall u, In u ts -> In u (table_urls t).
Proof.
  intros H u Hu. apply lookup_sound in H. destruct H as [_ [key [rs [pth [_ [H1 [H2 _]]]]]]].
  unfold table_urls. apply in_flat_map. exists (lower key, rs). split; [now apply assoc_In|].
  cbn [snd]. apply in_flat_map. exists (pth, ts). split; [exact H2 | exact Hu].
Qed.

Theorem lookup_by_method_and_dsthost t noglob m m' upath :
  dsthost m = dsthost m' -> icpt_lookup t noglob (Some m) upath = icpt_lookup t noglob (Some m') upath.
Proof. intros E. unfold icpt_lookup. destruct upath; [now rewrite E | reflexivity]. Qed.

Lemma dsthost_single h : dsthost [(k_dsthost, [h])] = h.
Proof. reflexivity. Qed.
Lemma dsthost_absent : dsthost [] = [].
Proof. reflexivity. Qed.
Lemma dsthost_several h1 h2 r : dsthost [(k_dsthost, h1 :: h2 :: r)] = [].
Proof. reflexivity. Qed.
