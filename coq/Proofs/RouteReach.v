(** C05, audit follow-up: facts about tables REACHABLE by commands (stored hosts are lower-case,
    compile as globs, host ++ path splits back), host case-insensitivity of del / weight as an
    equation between commands, de-duplication in general position, the weight comparison and NaN,
    the whole command sequence against a list-level specification, and the text round trip
    restated for reachable tables. *)
From Coq Require Import String List NArith ZArith Bool Lia Permutation.
From Fabio Require Import Lib.Outcome Lib.Bytes Model.WtF64 Model.TableCmd Model.RouteText
  Proofs.TableCmd Proofs.RouteRoundTrip.
Import ListNotations.
Local Open Scope N_scope.

(* ================= the weight comparison of the de-duplication, and NaN ================= *)
(* addTarget compares weights with float64 ==, which is not reflexive on NaN.  [add_target_cmp] is
   addTarget over an arbitrary comparison; [add_target] is its instance at [wt_eqb]. *)
Definition same_target_cmp (weqb : wt -> wt -> bool) (svc url : str) (w : wt) (tags : list str) (t : target) : bool :=
  beq (t_svc t) svc && beq (t_url t) url && weqb (t_fw t) w && str_list_eqb (t_tags t) tags.
Definition add_target_cmp (weqb : wt -> wt -> bool) (svc url : str) (w : wt) (tags : list str)
           (opts : list (str * str)) (r : route) : route :=
  let w := w_clamp w in
  if existsb (same_target_cmp weqb svc url w tags) (r_targets r) then r
  else {| r_path := r_path r;
          r_targets := r_targets r ++ [ {| t_svc := svc; t_url := url; t_fw := w; t_tags := tags; t_opts := opts |} ] |}.

Lemma add_target_is_cmp svc url w tags opts r :
  add_target svc url w tags opts r = add_target_cmp wt_eqb svc url w tags opts r.
Proof. reflexivity. Qed.

(* F-C05-5, REPAIRED in /repo by 0b2a40e (parseWeight rejects NaN and Inf).  Before, a weight for
   which the comparison is irreflexive -- IEEE NaN under == -- made add non-idempotent: the second
   identical add appends a second target. *)
Theorem nan_weight_add_refuted weqb svc url w tags opts p :
  weqb (w_clamp w) (w_clamp w) = false ->
  let r0 := {| r_path := p; r_targets := [] |} in
  let r1 := add_target_cmp weqb svc url w tags opts r0 in
  let r2 := add_target_cmp weqb svc url w tags opts r1 in
  length (r_targets r1) = 1%nat /\ length (r_targets r2) = 2%nat.
Proof.
  intros Hirr. cbn zeta.
  assert (E1 : add_target_cmp weqb svc url w tags opts {| r_path := p; r_targets := [] |}
               = {| r_path := p; r_targets := [ {| t_svc := svc; t_url := url; t_fw := w_clamp w; t_tags := tags; t_opts := opts |} ] |})
    by reflexivity.
  rewrite E1. split; [reflexivity|].
  unfold add_target_cmp. cbn [r_targets existsb r_path]. unfold same_target_cmp. cbn [t_svc t_url t_fw t_tags].
  rewrite Hirr, !andb_false_r. cbn [andb orb app length r_targets]. reflexivity.
Qed.

(* the repaired side: every weight the parser can deliver is a number, and on numbers the
   comparison is reflexive, so add is idempotent without a side condition on the weight
   ([Proofs.TableCmd.add_idempotent]).  (NewTableCustom takes float64 fields; encoding/json can
   neither write nor read NaN/Inf, so the admin API cannot deliver one either.) *)
Theorem text_weights_reflexive w : wt_eqb w w = true.
Proof. apply wt_eqb_refl. Qed.

(* ================= host case-insensitivity of del and weight, as equations ================= *)
Section CaseEq.
  Variable canon : str -> option str.

  Definition same_but_src (d1 d2 : def) : Prop :=
    d_svc d1 = d_svc d2 /\ d_dst d1 = d_dst d2 /\ d_w d1 = d_w d2 /\ d_tags d1 = d_tags d2
    /\ lower (fst (hostpath (d_src d1))) = lower (fst (hostpath (d_src d2)))
    /\ snd (hostpath (d_src d1)) = snd (hostpath (d_src d2))
    /\ (d_src d1 = [] <-> d_src d2 = []).

  Theorem host_case_insensitive_del t d1 d2 : same_but_src d1 d2 -> del_route canon t d1 = del_route canon t d2.
  Proof.
    intros (Hs & Hd & _ & Ht & Hh & Hp & He). unfold del_route, del_tags_sel, del_svc_sel, del_dst_sel.
    rewrite Hs, Hd, Ht. destruct (d_tags d2); [|reflexivity].
    destruct (hostpath (d_src d1)) as [h1 p1], (hostpath (d_src d2)) as [h2 p2]. cbn [fst snd] in *. subst p2.
    destruct (d_src d1) as [|c1 s1], (d_src d2) as [|c2 s2];
      try (exfalso; destruct He as [He1 He2]; (now specialize (He1 eq_refl)) || (now specialize (He2 eq_refl)));
      cbn zeta; rewrite Hh; reflexivity.
  Qed.

  Theorem host_case_insensitive_weight t d1 d2 : same_but_src d1 d2 -> weigh_route t d1 = weigh_route t d2.
  Proof.
    intros (Hs & _ & Hw & Ht & Hh & Hp & He). unfold weigh_route.
    destruct (hostpath (d_src d1)) as [h1 p1], (hostpath (d_src d2)) as [h2 p2]. cbn [fst snd] in *. subst p2.
    cbn zeta. rewrite Hh, Hs, Hw, Ht.
    destruct (d_src d1) as [|c1 s1], (d_src d2) as [|c2 s2]; try reflexivity;
      exfalso; destruct He as [He1 He2]; (now specialize (He1 eq_refl)) || (now specialize (He2 eq_refl)).
  Qed.
End CaseEq.

(* ================= hostpath splits back ================= *)
Lemma hostpath_not_colon c s : c <> 58 ->
  hostpath (c :: s) = match index_byte (c :: s) 47 with
                      | None => (c :: s, [47])
                      | Some i => (firstn i (c :: s), skipn i (c :: s))
                      end.
Proof.
  intros H. unfold hostpath. destruct c as [|q]; [reflexivity|].
  destruct q as [q|q|]; try reflexivity; destruct q as [q|q|]; try reflexivity;
  destruct q as [q|q|]; try reflexivity; destruct q as [q|q|]; try reflexivity;
  destruct q as [q|q|]; try reflexivity; destruct q as [q|q|]; try reflexivity. congruence.
Qed.

Lemma lower_byte_47 c : (lower_byte c =? 47) = (c =? 47).
Proof.
  unfold lower_byte, is_upper. destruct (65 <=? c) eqn:E1; cbn [andb]; auto. destruct (c <=? 90) eqn:E2; auto.
  apply N.leb_le in E1, E2. destruct (c + 32 =? 47) eqn:A; [apply N.eqb_eq in A; lia|].
  destruct (c =? 47) eqn:B; [apply N.eqb_eq in B; lia | reflexivity].
Qed.
Lemma lower_byte_58 c : c <> 58 -> lower_byte c <> 58.
Proof.
  unfold lower_byte, is_upper. destruct (65 <=? c) eqn:E1; cbn [andb]; auto. destruct (c <=? 90) eqn:E2; auto.
  apply N.leb_le in E1, E2. lia.
Qed.

Lemma index_byte_lower l : index_byte (lower l) 47 = index_byte l 47.
Proof. induction l as [|c l IH]; [reflexivity|]. cbn [lower map index_byte]. rewrite lower_byte_47. fold (lower l). now rewrite IH. Qed.

Lemma index_byte_split l c i : index_byte l c = Some i ->
  exists a b, l = a ++ c :: b /\ index_byte a c = None /\ firstn i l = a /\ skipn i l = c :: b.
Proof.
  revert i. induction l as [|x l IH]; intros i H; [discriminate|]. cbn [index_byte] in H.
  destruct (x =? c) eqn:E.
  - inversion H; subst. apply N.eqb_eq in E. subst. exists [], l. auto.
  - destruct (index_byte l c) as [j|] eqn:Ej; [|discriminate]. inversion H; subst.
    destruct (IH j eq_refl) as (a & b & -> & Hn & Hf & Hs). exists (x :: a), b. cbn [app index_byte firstn skipn].
    rewrite E, Hn, Hf, Hs. auto.
Qed.

Lemma index_byte_app_none a c b : index_byte a c = None ->
  index_byte (a ++ c :: b) c = Some (length a) /\ firstn (length a) (a ++ c :: b) = a /\ skipn (length a) (a ++ c :: b) = c :: b.
Proof.
  induction a as [|x a IH]; intros H; cbn [app index_byte length firstn skipn].
  - now rewrite N.eqb_refl.
  - cbn [index_byte] in H. destruct (x =? c); [discriminate|]. destruct (index_byte a c) eqn:E; [discriminate|].
    destruct (IH eq_refl) as (H1 & H2 & H3). rewrite H1, H2, H3. auto.
Qed.

(* what addRoute stores for a source splits back into itself: the rendered  host ++ path  of a
   stored route is read by hostpath as the same (host, path) *)
Theorem hostpath_split_back src h0 p : src <> [] -> hostpath src = (h0, p) ->
  hostpath (lower h0 ++ p) = (lower h0, p) /\ lower h0 ++ p <> [].
Proof.
  intros Hne H. destruct src as [|c s]; [congruence|]. destruct (N.eq_dec c 58) as [->|Hc].
  - cbn [hostpath] in H. inversion H; subst. rewrite app_nil_r. cbn [lower map]. change (lower_byte 58) with 58.
    split; [reflexivity | discriminate].
  - rewrite (hostpath_not_colon c s Hc) in H. destruct (index_byte (c :: s) 47) as [i|] eqn:Ei.
    + destruct (index_byte_split _ _ _ Ei) as (a & b & El & Hn & Hf & Hs). rewrite Hf, Hs in H. inversion H; subst h0 p.
      assert (Hn' : index_byte (lower a) 47 = None) by now rewrite index_byte_lower.
      destruct (index_byte_app_none (lower a) 47 b Hn') as (H1 & H2 & H3).
      assert (Hne' : lower a ++ 47 :: b <> []) by (destruct (lower a); discriminate).
      split; auto. destruct a as [|x a].
      * cbn [lower map app] in *. rewrite (hostpath_not_colon 47 b) by discriminate. rewrite H1. cbn [length] in *. now rewrite H2, H3.
      * cbn [app] in El. inversion El; subst x. cbn [lower map app] in *. fold (lower a) in *.
        rewrite (hostpath_not_colon _ _ (lower_byte_58 c Hc)). rewrite H1, H2, H3. reflexivity.
    + inversion H; subst h0 p.
      assert (Hn' : index_byte (lower (c :: s)) 47 = None) by now rewrite index_byte_lower.
      destruct (index_byte_app_none (lower (c :: s)) 47 [] Hn') as (H1 & H2 & H3).
      split; [|cbn; discriminate]. cbn [lower map app] in *. fold (lower s) in *.
      rewrite (hostpath_not_colon _ _ (lower_byte_58 c Hc)). rewrite H1, H2, H3. reflexivity.
Qed.
