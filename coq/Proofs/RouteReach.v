(** C05, audit follow-up: facts about tables REACHABLE by commands (stored hosts are lower-case,
    compile as globs, host ++ path splits back), host case-insensitivity of del / weight as an
    equation between commands, de-duplication in general position, the weight comparison and NaN,
    the whole command sequence against a list-level specification, and the text round trip
    restated for reachable tables. *)
From Coq Require Import String List NArith ZArith Bool Lia Permutation.
From Fabio Require Import Lib.Outcome Lib.Bytes Model.WtF64 Model.TableCmd Model.RouteText
  Proofs.TableCmd Proofs.RouteRoundTrip.
Import ListNotations.
Local Open Scope N_scope.

(* ================= the weight comparison of the de-duplication, and NaN ================= *)
(* addTarget compares weights with float64 ==, which is not reflexive on NaN.  [add_target_cmp] is
   addTarget over an arbitrary comparison; [add_target] is its instance at [wt_eqb]. *)
Definition same_target_cmp (weqb : wt -> wt -> bool) (svc url : str) (w : wt) (tags : list str) (t : target) : bool :=
  beq (t_svc t) svc && beq (t_url t) url && weqb (t_fw t) w && str_list_eqb (t_tags t) tags.
Definition add_target_cmp (weqb : wt -> wt -> bool) (svc url : str) (w : wt) (tags : list str)
           (opts : list (str * str)) (r : route) : route :=
  let w := w_clamp w in
  if existsb (same_target_cmp weqb svc url w tags) (r_targets r) then r
  else {| r_path := r_path r;
          r_targets := r_targets r ++ [ {| t_svc := svc; t_url := url; t_fw := w; t_tags := tags; t_opts := opts |} ] |}.

Lemma add_target_is_cmp svc url w tags opts r :
  add_target svc url w tags opts r = add_target_cmp wt_eqb svc url w tags opts r.
Proof. reflexivity. Qed.

(* F-C05-5, REPAIRED in /repo by 0b2a40e (parseWeight rejects NaN and Inf).  Before, a weight for
   which the comparison is irreflexive -- IEEE NaN under == -- made add non-idempotent: the second
   identical add appends a second target. *)
Theorem nan_weight_add_refuted weqb svc url w tags opts p :
  weqb (w_clamp w) (w_clamp w) = false ->
  let r0 := {| r_path := p; r_targets := [] |} in
  let r1 := add_target_cmp weqb svc url w tags opts r0 in
  let r2 := add_target_cmp weqb svc url w tags opts r1 in
  length (r_targets r1) = 1%nat /\ length (r_targets r2) = 2%nat.
Proof.
  intros Hirr. cbn zeta.
  assert (E1 : add_target_cmp weqb svc url w tags opts {| r_path := p; r_targets := [] |}
               = {| r_path := p; r_targets := [ {| t_svc := svc; t_url := url; t_fw := w_clamp w; t_tags := tags; t_opts := opts |} ] |})
    by reflexivity.
  rewrite E1. split; [reflexivity|].
  unfold add_target_cmp. cbn [r_targets existsb r_path]. unfold same_target_cmp. cbn [t_svc t_url t_fw t_tags].
  rewrite Hirr, !andb_false_r. cbn [andb orb app length r_targets]. reflexivity.
Qed.

(* the repaired side: every weight the parser can deliver is a number, and on numbers the
   comparison is reflexive, so add is idempotent without a side condition on the weight
   ([Proofs.TableCmd.add_idempotent]).  (NewTableCustom takes float64 fields; encoding/json can
   neither write nor read NaN/Inf, so the admin API cannot deliver one either.) *)
Theorem text_weights_reflexive w : wt_eqb w w = true.
Proof. apply wt_eqb_refl. Qed.

(* ================= host case-insensitivity of del and weight, as equations ================= *)
Section CaseEq.
  Variable canon : str -> option str.

  Definition same_but_src (d1 d2 : def) : Prop :=
    d_svc d1 = d_svc d2 /\ d_dst d1 = d_dst d2 /\ d_w d1 = d_w d2 /\ d_tags d1 = d_tags d2
    /\ lower (fst (hostpath (d_src d1))) = lower (fst (hostpath (d_src d2)))
    /\ snd (hostpath (d_src d1)) = snd (hostpath (d_src d2))
    /\ (d_src d1 = [] <-> d_src d2 = []).

  Theorem host_case_insensitive_del t d1 d2 : same_but_src d1 d2 -> del_route canon t d1 = del_route canon t d2.
  Proof.
    intros (Hs & Hd & _ & Ht & Hh & Hp & He). unfold del_route, del_tags_sel, del_svc_sel, del_dst_sel.
    rewrite Hs, Hd, Ht. destruct (d_tags d2); [|reflexivity].
    destruct (hostpath (d_src d1)) as [h1 p1], (hostpath (d_src d2)) as [h2 p2]. cbn [fst snd] in *. subst p2.
    destruct (d_src d1) as [|c1 s1], (d_src d2) as [|c2 s2];
      try (exfalso; destruct He as [He1 He2]; (now specialize (He1 eq_refl)) || (now specialize (He2 eq_refl)));
      cbn zeta; rewrite Hh; reflexivity.
  Qed.

  Theorem host_case_insensitive_weight t d1 d2 : same_but_src d1 d2 -> weigh_route t d1 = weigh_route t d2.
  Proof.
    intros (Hs & _ & Hw & Ht & Hh & Hp & He). unfold weigh_route.
    destruct (hostpath (d_src d1)) as [h1 p1], (hostpath (d_src d2)) as [h2 p2]. cbn [fst snd] in *. subst p2.
    cbn zeta. rewrite Hh, Hs, Hw, Ht.
    destruct (d_src d1) as [|c1 s1], (d_src d2) as [|c2 s2]; try reflexivity;
      exfalso; destruct He as [He1 He2]; (now specialize (He1 eq_refl)) || (now specialize (He2 eq_refl)).
  Qed.
End CaseEq.

(* ================= hostpath splits back ================= *)
Lemma hostpath_not_colon c s : c <> 58 ->
  hostpath (c :: s) = match index_byte (c :: s) 47 with
                      | None => (c :: s, [47])
                      | Some i => (firstn i (c :: s), skipn i (c :: s))
                      end.
Proof.
  intros H. unfold hostpath. destruct c as [|q]; [reflexivity|].
  destruct q as [q|q|]; try reflexivity; destruct q as [q|q|]; try reflexivity;
  destruct q as [q|q|]; try reflexivity; destruct q as [q|q|]; try reflexivity;
  destruct q as [q|q|]; try reflexivity; destruct q as [q|q|]; try reflexivity. congruence.
Qed.

Lemma lower_byte_47 c : (lower_byte c =? 47) = (c =? 47).
Proof.
  unfold lower_byte, is_upper. destruct (65 <=? c) eqn:E1; cbn [andb]; auto. destruct (c <=? 90) eqn:E2; auto.
  apply N.leb_le in E1, E2. destruct (c + 32 =? 47) eqn:A; [apply N.eqb_eq in A; lia|].
  destruct (c =? 47) eqn:B; [apply N.eqb_eq in B; lia | reflexivity].
Qed.
Lemma lower_byte_58 c : c <> 58 -> lower_byte c <> 58.
Proof.
  unfold lower_byte, is_upper. destruct (65 <=? c) eqn:E1; cbn [andb]; auto. destruct (c <=? 90) eqn:E2; auto.
  apply N.leb_le in E1, E2. lia.
Qed.

Lemma index_byte_lower l : index_byte (lower l) 47 = index_byte l 47.
Proof. induction l as [|c l IH]; [reflexivity|]. cbn [lower map index_byte]. rewrite lower_byte_47. fold (lower l). now rewrite IH. Qed.

Lemma index_byte_split l c i : index_byte l c = Some i ->
  exists a b, l = a ++ c :: b /\ index_byte a c = None /\ firstn i l = a /\ skipn i l = c :: b.
Proof.
  revert i. induction l as [|x l IH]; intros i H; [discriminate|]. cbn [index_byte] in H.
  destruct (x =? c) eqn:E.
  - inversion H; subst. apply N.eqb_eq in E. subst. exists [], l. auto.
  - destruct (index_byte l c) as [j|] eqn:Ej; [|discriminate]. inversion H; subst.
    destruct (IH j eq_refl) as (a & b & -> & Hn & Hf & Hs). exists (x :: a), b. cbn [app index_byte firstn skipn].
    rewrite E, Hn, Hf, Hs. auto.
Qed.

Lemma index_byte_app_none a c b : index_byte a c = None ->
  index_byte (a ++ c :: b) c = Some (length a) /\ firstn (length a) (a ++ c :: b) = a /\ skipn (length a) (a ++ c :: b) = c :: b.
Proof.
  induction a as [|x a IH]; intros H; cbn [app index_byte length firstn skipn].
  - now rewrite N.eqb_refl.
  - cbn [index_byte] in H. destruct (x =? c); [discriminate|]. destruct (index_byte a c) eqn:E; [discriminate|].
    destruct (IH eq_refl) as (H1 & H2 & H3). rewrite H1, H2, H3. auto.
Qed.

(* what addRoute stores for a source splits back into itself: the rendered  host ++ path  of a
   stored route is read by hostpath as the same (host, path) *)
Theorem hostpath_split_back src h0 p : src <> [] -> hostpath src = (h0, p) ->
  hostpath (lower h0 ++ p) = (lower h0, p) /\ lower h0 ++ p <> [].
Proof.
  intros Hne H. destruct src as [|c s]; [congruence|]. destruct (N.eq_dec c 58) as [->|Hc].
  - cbn [hostpath] in H. inversion H; subst. rewrite app_nil_r. cbn [lower map]. change (lower_byte 58) with 58.
    split; [reflexivity | discriminate].
  - rewrite (hostpath_not_colon c s Hc) in H. destruct (index_byte (c :: s) 47) as [i|] eqn:Ei.
    + destruct (index_byte_split _ _ _ Ei) as (a & b & El & Hn & Hf & Hs). rewrite Hf, Hs in H. inversion H; subst h0 p.
      assert (Hn' : index_byte (lower a) 47 = None) by now rewrite index_byte_lower.
      destruct (index_byte_app_none (lower a) 47 b Hn') as (H1 & H2 & H3).
      assert (Hne' : lower a ++ 47 :: b <> []) by (destruct (lower a); discriminate).
      split; auto. destruct a as [|x a].
      * cbn [lower map app] in *. rewrite (hostpath_not_colon 47 b) by discriminate. rewrite H1. cbn [length] in *. now rewrite H2, H3.
      * cbn [app] in El. inversion El; subst x. cbn [lower map app] in *. fold (lower a) in *.
        rewrite (hostpath_not_colon _ _ (lower_byte_58 c Hc)). rewrite H1, H2, H3. reflexivity.
    + inversion H; subst h0 p.
      assert (Hn' : index_byte (lower (c :: s)) 47 = None) by now rewrite index_byte_lower.
      destruct (index_byte_app_none (lower (c :: s)) 47 [] Hn') as (H1 & H2 & H3).
      split; [|cbn; discriminate]. cbn [lower map app] in *. fold (lower s) in *.
      rewrite (hostpath_not_colon _ _ (lower_byte_58 c Hc)). rewrite H1, H2, H3. reflexivity.
Qed.

(* ================= the structural invariant of reachable tables ================= *)
Section Reach.
  Variable canon : str -> option str.
  Variable glob_ok : str -> bool.

  Definition route_sgood (h : str) (r : route) : Prop :=
    glob_ok (r_path r) = true /\ hostpath (h ++ r_path r) = (h, r_path r) /\ h ++ r_path r <> [].
  Definition host_sgood (hr : str * list route) : Prop :=
    lower (fst hr) = fst hr /\ glob_ok (fst hr) = true /\ Forall (route_sgood (fst hr)) (snd hr).
  (* every stored host is lower-case and compiles as a glob; every stored path compiles; the
     rendered source  host ++ path  splits back into (host, path) *)
  Definition sgood (t : table) : Prop := Forall host_sgood t.

  Lemma upd_host_Forall_key (P : str * list route -> Prop) h f t :
    Forall P t -> (forall rs, P (h, rs) -> P (h, f rs)) -> Forall P (upd_host h f t).
  Proof.
    intros H Hf. induction H as [|[k rs] t Hx Ht IH]; cbn [upd_host]; [constructor|].
    destruct (beq k h) eqn:E; constructor; auto. apply beq_true_eq in E. subst k. auto.
  Qed.

  Lemma upd_route_sgood h p f rs : (forall r, r_path (f r) = r_path r) ->
    Forall (route_sgood h) rs -> Forall (route_sgood h) (upd_route p f rs).
  Proof.
    intros Hf H. apply upd_route_Forall; auto. intros r Hr. unfold route_sgood in *. now rewrite Hf.
  Qed.

  Lemma sweep_sgood t : sgood t -> sgood (sweep t).
  Proof.
    unfold sgood, sweep. intros H. apply Forall_forall. intros [h rs] Hin. apply filter_In in Hin as [Hin _].
    apply in_map_iff in Hin as ([h' rs'] & Heq & Hin). cbn [fst snd] in Heq. inversion Heq; subst.
    rewrite Forall_forall in H. destruct (H _ Hin) as (Hl & Hg & Hr). cbn [fst snd] in *. repeat split; auto.
    apply Forall_forall. intros r Hr'. apply filter_In in Hr' as [Hr' _]. rewrite Forall_forall in Hr. auto.
  Qed.

  Lemma filter_all_sgood skip t : sgood t -> sgood (filter_all skip t).
  Proof.
    unfold sgood, filter_all. intros H. apply Forall_forall. intros [h rs] Hin.
    apply in_map_iff in Hin as ([h' rs'] & Heq & Hin). cbn [fst snd] in Heq. inversion Heq; subst.
    rewrite Forall_forall in H. destruct (H _ Hin) as (Hl & Hg & Hr). cbn [fst snd] in *. repeat split; auto.
    apply Forall_forall. intros r Hr'. apply in_map_iff in Hr' as (r0 & <- & Hr0). rewrite Forall_forall in Hr.
    exact (Hr _ Hr0).
  Qed.

  Lemma filter_one_sgood h p skip t : sgood t -> sgood (filter_one h p skip t).
  Proof.
    intros H. unfold filter_one. apply upd_host_Forall_key; auto. intros rs (Hl & Hg & Hr). cbn [fst snd] in *.
    repeat split; auto. now apply upd_route_sgood.
  Qed.

  Lemma add_route_sgood t d t' : sgood t -> add_route canon glob_ok t d = Ok t' -> sgood t'.
  Proof.
    intros Hs. unfold add_route. destruct (hostpath (d_src d)) as [host0 path] eqn:Eh.
    destruct (d_src d) as [|c s] eqn:Es; [discriminate|]. destruct (d_dst d); [discriminate|].
    destruct (canon _) as [url|]; [|discriminate].
    assert (Hsb : hostpath (lower host0 ++ path) = (lower host0, path) /\ lower host0 ++ path <> []).
    { apply (hostpath_split_back (c :: s)); [discriminate | exact Eh]. }
    set (g := add_target (d_svc d) url (d_w d) (d_tags d) (d_opts d)).
    assert (Hg : forall r, r_path (g r) = r_path r) by (intros; apply add_target_path).
    destruct (lookup (lower host0) t) as [rs|] eqn:EL.
    - destruct (find path rs) as [r|] eqn:EF.
      + intros H; inversion H; subst t'. apply upd_host_Forall_key; auto. intros rs' (Hl & Hgl & Hr). cbn [fst snd] in *.
        repeat split; auto. now apply upd_route_sgood.
      + destruct (glob_ok path) eqn:Egp; [|discriminate]. intros H; inversion H; subst t'.
        apply upd_host_Forall_key; auto. intros rs' (Hl & Hgl & Hr). cbn [fst snd] in *. repeat split; auto.
        apply Forall_app. split; auto. constructor; [|constructor]. unfold route_sgood. rewrite Hg. cbn [r_path]. tauto.
    - destruct (glob_ok (lower host0)) eqn:Egh; [|discriminate]. destruct (glob_ok path) eqn:Egp; [|discriminate].
      intros H; inversion H; subst t'. apply Forall_app. split; auto. constructor; [|constructor]. unfold host_sgood. cbn [fst snd].
      split; [apply lower_idem|]. split; auto. constructor; [|constructor]. unfold route_sgood. rewrite Hg. cbn [r_path]. tauto.
  Qed.

  Lemma apply_def_sgood t d t' : sgood t -> apply_def canon glob_ok t d = Ok t' -> sgood t'.
  Proof.
    intros Hs. unfold apply_def. destruct (d_cmd d).
    - now apply add_route_sgood.
    - unfold del_route. destruct (d_tags d).
      2:{ intros H; inversion H. now apply sweep_sgood, filter_all_sgood. }
      destruct (d_src d), (d_dst d); try (destruct (canon _); [|discriminate]);
        try (intros H; inversion H; now apply sweep_sgood, filter_all_sgood);
        destruct (hostpath _); cbn zeta; destruct (get_route _ _ _); intros H; inversion H; subst; auto;
        now apply sweep_sgood, filter_one_sgood.
    - unfold weigh_route. destruct (hostpath _). cbn zeta. destruct (d_src d); [discriminate|].
      destruct (get_route _ _ _); [|discriminate]. destruct (_ =? 0); [discriminate|]. intros H; inversion H; subst.
      apply upd_host_Forall_key; auto. intros rs' (Hl & Hgl & Hr). cbn [fst snd] in *. repeat split; auto.
      now apply upd_route_sgood.
  Qed.

  Lemma run_from_sgood ds : forall t t', sgood t -> run_from canon glob_ok t ds = Ok t' -> sgood t'.
  Proof.
    induction ds as [|d ds IH]; cbn [run_from]; intros t t' Hs H; [now inversion H; subst|].
    destruct (apply_def canon glob_ok t d) as [t1| |] eqn:E; cbn [bind] in H; try discriminate.
    eapply IH; [|exact H]. eapply apply_def_sgood; eauto.
  Qed.

  Theorem run_sgood ds t : run canon glob_ok ds = Ok t -> sgood t.
  Proof. apply run_from_sgood. constructor. Qed.

  (* the clause "host names are treated case-insensitively" needs this: stored hosts ARE lower-case,
     so comparing a stored host with the lower-cased host of a command is comparing modulo case *)
  Theorem run_hosts_lower ds t : run canon glob_ok ds = Ok t -> Forall (fun hr => lower (fst hr) = fst hr) t.
  Proof.
    intros H. apply run_sgood in H. eapply Forall_impl; [|exact H]. intros hr (Hl & _). exact Hl.
  Qed.
End Reach.

(* ================= the text round trip for reachable tables ================= *)
Section ReachRoundTrip.
  Variable canon : str -> option str.
  Variable glob_ok : str -> bool.

  (* what remains a hypothesis per target: it is about the target's own content, not derivable
     from reachability (a command may carry any URL, tag, weight) *)
  Definition targets_good (t : table) : Prop :=
    forall h rs r, In (h, rs) t -> In r rs -> Forall (tg_good canon) (r_targets r) /\ twin_free (r_targets r).

  Lemma table_good_of t : inv t -> sgood glob_ok t -> targets_good t -> table_good canon glob_ok t.
  Proof.
    intros [Hd Hi] Hs Ht. split; auto. apply Forall_forall. intros [h rs] Hin. unfold sgood in Hs.
    rewrite Forall_forall in Hi, Hs. destruct (Hi _ Hin) as (Hne & Hnd & Hall). destruct (Hs _ Hin) as (Hl & Hg & Hr).
    cbn [fst snd] in *. unfold host_good. cbn [fst snd]. repeat split; auto.
    apply Forall_forall. intros r Hr'. rewrite Forall_forall in Hall, Hr. destruct (Hr _ Hr') as (Hgp & Hhp & Hsrc).
    destruct (Ht h rs r Hin Hr') as [Htg Htw]. unfold route_good. repeat split; auto.
  Qed.

  Lemma insert_desc_paths r rs x : In x (map r_path (insert_desc r rs)) <-> x = r_path r \/ In x (map r_path rs).
  Proof.
    rewrite !in_map_iff. split.
    - intros (y & <- & Hy). apply insert_desc_in in Hy as [->|Hy]; [now left | right; now exists y].
    - intros [->|(y & <- & Hy)]; [exists r | exists y]; split; auto; apply insert_desc_in; auto.
  Qed.

  Lemma insert_desc_nodup r rs : NoDup (map r_path rs) -> ~ In (r_path r) (map r_path rs) ->
    NoDup (map r_path (insert_desc r rs)).
  Proof.
    induction rs as [|y rs IH]; cbn [insert_desc map]; intros Hd Hn.
    - constructor; auto.
    - destruct (str_ltb _ _); cbn [map]; [constructor; auto|]. inversion Hd; subst. constructor.
      + rewrite insert_desc_paths. intros [E|Hin]; [apply Hn; left; now rewrite E | auto].
      + apply IH; auto. intros ?. apply Hn. now right.
  Qed.

  Lemma sort_routes_nodup rs : NoDup (map r_path rs) -> NoDup (map r_path (sort_routes rs)).
  Proof.
    induction rs as [|r rs IH]; intros Hd; [constructor|].
    change (sort_routes (r :: rs)) with (insert_desc r (sort_routes rs)). cbn [map] in Hd.
    inversion Hd; subst. apply insert_desc_nodup; [apply IH; assumption|]. intros Hin. apply in_map_iff in Hin as (y & Hy & Hin).
    apply (proj1 (sort_routes_in _ _)) in Hin. match goal with H : ~ In _ _ |- _ => apply H end.
    apply in_map_iff. exists y. auto.
  Qed.

  Lemma table_good_sort t : table_good canon glob_ok t -> table_good canon glob_ok (sort_table t).
  Proof.
    intros [Hd Hg]. unfold sort_table. split.
    - rewrite map_map. cbn [fst]. exact Hd.
    - apply Forall_forall. intros [h rs] Hin. apply in_map_iff in Hin as ([h' rs'] & Heq & Hin). cbn [fst snd] in Heq.
      inversion Heq; subst. rewrite Forall_forall in Hg. destruct (Hg _ Hin) as (Hl & Hgh & Hne & Hnd & Hr). cbn [fst snd] in *.
      unfold host_good. cbn [fst snd]. repeat split; auto.
      + destruct rs' as [|r rs']; [congruence|]. intros E. assert (Hin' : In r (sort_routes (r :: rs'))) by (apply sort_routes_in; now left).
        rewrite E in Hin'. destruct Hin'.
      + now apply sort_routes_nodup.
      + apply Forall_forall. intros r Hr'. apply (proj1 (sort_routes_in _ _)) in Hr'. rewrite Forall_forall in Hr. auto.
  Qed.

  Lemma in_sort_table h rs t : In (h, rs) (sort_table t) -> exists rs0, In (h, rs0) t /\ rs = sort_routes rs0.
  Proof.
    unfold sort_table. intros Hin. apply in_map_iff in Hin as ([h' rs'] & Heq & Hin). cbn [fst snd] in Heq.
    inversion Heq; subst. now exists rs'.
  Qed.

  (* C05, text round trip for the tables NewTable actually returns: the structural part of the
     domain (unique lower-case hosts that compile, unique paths that compile, sources that split
     back, no empty route or host) is DERIVED from reachability; what is assumed is about the
     targets' own content: [tg_good] (URL text non-empty and stable), [twin_free], [text_good]. *)
  Theorem roundtrip_reachable pweight text t :
    new_table pweight canon glob_ok text = Ok t ->
    targets_good t -> text_good t ->
    new_table pweight_dec canon glob_ok (render t) = Ok (sort_table (reorder t))
    /\ forall h, lookup h (sort_table (reorder t)) = option_map sort_routes (lookup h t).
  Proof.
    intros Hnt Htg Htext. apply render_parse_roundtrip; auto.
    unfold new_table in Hnt. destruct (parse pweight text) as [ds| |]; cbn [bind] in Hnt; try discriminate.
    destruct (run canon glob_ok ds) as [t0| |] eqn:Er; cbn [bind] in Hnt; try discriminate. inversion Hnt; subst t.
    apply table_good_of.
    - (* inv of the sorted table, via table-level facts of t0 *)
      pose proof (run_inv _ _ _ _ Er) as [Hd Hi]. split; [unfold sort_table; rewrite map_map; exact Hd|].
      apply Forall_forall. intros [h rs] Hin. apply in_sort_table in Hin as (rs0 & Hin & ->). cbn [snd].
      rewrite Forall_forall in Hi. destruct (Hi _ Hin) as (Hne & Hnd & Hall). cbn [snd] in *. repeat split.
      + destruct rs0 as [|r rs0]; [congruence|]. intros E. assert (Hin' : In r (sort_routes (r :: rs0))) by (apply sort_routes_in; now left).
        rewrite E in Hin'. destruct Hin'.
      + now apply sort_routes_nodup.
      + apply Forall_forall. intros r Hr. apply (proj1 (sort_routes_in _ _)) in Hr. rewrite Forall_forall in Hall. auto.
    - pose proof (run_sgood _ _ _ _ Er) as Hs. apply Forall_forall. intros [h rs] Hin.
      apply in_sort_table in Hin as (rs0 & Hin & ->). unfold sgood in Hs. rewrite Forall_forall in Hs.
      destruct (Hs _ Hin) as (Hl & Hg & Hr). unfold host_sgood. cbn [fst snd] in *. repeat split; auto.
      apply Forall_forall. intros r Hr'. apply (proj1 (sort_routes_in _ _)) in Hr'. rewrite Forall_forall in Hr. auto.
    - exact Htg.
  Qed.
End ReachRoundTrip.

(* ================= de-duplication in general position; the whole sequence ================= *)
Lemma lookup_of_in h rs t : NoDup (map fst t) -> In (h, rs) t -> lookup h t = Some rs.
Proof.
  induction t as [|[k rs'] t IH]; intros Hd Hin; [destruct Hin|]. cbn [map fst] in Hd. inversion Hd; subst.
  cbn [lookup]. destruct (beq k h) eqn:E.
  - apply beq_true_eq in E. subst k. destruct Hin as [Heq|Hin]; [now inversion Heq|].
    exfalso. apply H1. apply in_map_iff. now exists (h, rs).
  - destruct Hin as [Heq|Hin]; [inversion Heq; subst; now rewrite beq_refl in E | auto].
Qed.

Lemma find_of_in r rs : NoDup (map r_path rs) -> In r rs -> find (r_path r) rs = Some r.
Proof.
  induction rs as [|x rs IH]; intros Hd Hin; [destruct Hin|]. cbn [map] in Hd. inversion Hd; subst.
  cbn [find]. destruct (beq (r_path x) (r_path r)) eqn:E.
  - apply beq_true_eq in E. destruct Hin as [->|Hin]; [reflexivity|]. exfalso. apply H1. rewrite E. now apply in_map.
  - destruct Hin as [->|Hin]; [now rewrite beq_refl in E | auto].
Qed.

(* the triples at (h, p) are exactly the targets of the route stored there *)
Lemma filter_at_route h p (f : target -> bool) t r : uniq t -> get_route h p t = Some r ->
  filter (sel_at h p f) (flat t) = map (fun tg => (h, p, tg)) (filter f (r_targets r)).
Proof.
  intros [Hd Hp] Eg. unfold get_route in Eg. destruct (lookup h t) as [rs|] eqn:EL; [|discriminate].
  destruct (lookup_split _ _ _ EL) as (a & b & E & Hn & _). subst t.
  destruct (find_split _ _ _ Eg) as (a' & b' & -> & Hpr & Hn' & _).
  rewrite map_app in Hd. cbn [map fst] in Hd. apply NoDup_remove_2 in Hd.
  apply Forall_app in Hp as [_ Hp]. inversion Hp as [|? ? Hrs _]; subst. cbn [snd] in Hrs.
  rewrite map_app in Hrs. cbn [map] in Hrs. apply NoDup_remove_2 in Hrs.
  assert (Hnil : forall l, (forall x, In x l -> ~ at_hp h (r_path r) x) -> filter (sel_at h (r_path r) f) l = []).
  { intros l Hl. induction l as [|x l IH]; auto. cbn [filter].
    assert (Hx : sel_at h (r_path r) f x = false).
    { unfold sel_at. specialize (Hl x (or_introl eq_refl)). unfold at_hp in Hl.
      destruct (beq (fst (fst x)) h) eqn:E1; auto. destruct (beq (snd (fst x)) (r_path r)) eqn:E2; auto.
      apply beq_true_eq in E1, E2. tauto. }
    rewrite Hx. apply IH. intros y Hy. apply Hl. now right. }
  rewrite !flat_app, !flat_cons, !flat_routes_app, !flat_routes_cons, !filter_app'.
  rewrite (Hnil (flat a)). 2:{ intros x Hx [Hh _]. apply flat_hosts in Hx. congruence. }
  rewrite (Hnil (flat b)). 2:{ intros x Hx [Hh _]. apply flat_hosts in Hx. apply Hd, in_or_app. right. congruence. }
  rewrite (Hnil (flat_routes h a')). 2:{ intros x Hx [_ Hq]. apply flat_routes_paths in Hx as [_ Hx]. congruence. }
  rewrite (Hnil (flat_routes h b')). 2:{ intros x Hx [_ Hq]. apply flat_routes_paths in Hx as [_ Hx]. apply Hrs, in_or_app. right. congruence. }
  cbn [app]. rewrite !app_nil_r, filter_map'. f_equal. apply filter_ext. intros tg. unfold sel_at. cbn [fst snd]. now rewrite !beq_refl.
Qed.

Lemma existsb_filter {A} (f : A -> bool) l : existsb f l = negb (match filter f l with [] => true | _ => false end).
Proof. induction l as [|x l IH]; [reflexivity|]. cbn [existsb filter]. destruct (f x); auto. Qed.

Section Sequence.
  Variable canon : str -> option str.
  Variable glob_ok : str -> bool.

  (* is a target with the command's service, URL, weight and tags already stored at (h, p)? *)
  Definition add_key_present (d : def) (url : str) (l : list (str * str * target)) : bool :=
    existsb (sel_at (lower (fst (hostpath (d_src d)))) (snd (hostpath (d_src d)))
                    (same_target (d_svc d) url (w_clamp (d_w d)) (d_tags d))) l.

  (* add, in general position (not only "the same command twice"): the command is absorbed iff a
     target with the same key is stored under its (host, path), wherever in the table and however
     it got there; otherwise exactly one triple is inserted *)
  Theorem add_route_spec t d t1 : inv t -> add_route canon glob_ok t d = Ok t1 ->
    exists url, canon (d_dst d) = Some url /\
    if add_key_present d url (flat t) then t1 = t
    else exists X Y, flat t = X ++ Y /\
           flat t1 = X ++ (lower (fst (hostpath (d_src d))), snd (hostpath (d_src d)),
                           new_target (d_svc d) url (d_w d) (d_tags d) (d_opts d)) :: Y.
  Proof.
    intros Hinv H. pose proof (inv_uniq _ Hinv) as Hu.
    destruct (add_accumulates canon glob_ok t d t1 H) as (url & Hc & Hcases). exists url. split; auto.
    cbn zeta in Hcases. unfold add_key_present.
    set (h := lower (fst (hostpath (d_src d)))) in *. set (p := snd (hostpath (d_src d))) in *.
    set (f := same_target (d_svc d) url (w_clamp (d_w d)) (d_tags d)) in *.
    (* decide the key by looking at the route, as the code does *)
    unfold add_route in H. destruct (hostpath (d_src d)) as [host0 path] eqn:Eh. cbn [fst snd] in h, p. subst h p.
    destruct (d_src d); [discriminate|]. destruct (d_dst d); [discriminate|]. rewrite Hc in H.
    destruct (get_route (lower host0) path t) as [r|] eqn:Eg.
    - rewrite existsb_filter, (filter_at_route _ _ f t r Hu Eg).
      unfold get_route in Eg. destruct (lookup (lower host0) t) as [rs|] eqn:EL; [|discriminate]. rewrite Eg in H.
      inversion H; subst t1. clear H.
      destruct (lookup_split _ _ _ EL) as (a & b & Et & Hn & Hup). destruct (find_split _ _ _ Eg) as (a' & b' & Ers & Hpr & Hn' & Hup').
      destruct (add_target_cases (d_svc d) url (d_w d) (d_tags d) (d_opts d) r) as [[E Er]|[E Er]]; fold f in E.
      + rewrite existsb_filter in E. destruct (filter f (r_targets r)); [discriminate|]. cbn [map negb].
        rewrite Hup, Hup', Er. now rewrite <- Ers, <- Et.
      + rewrite existsb_filter in E. destruct (filter f (r_targets r)); [|discriminate]. cbn [map negb].
        destruct Hcases as [Hl|[Hr _]]; [exact Hl|].
        (* t1 = t would mean the route did not grow *)
        exfalso. rewrite Hup, Hup', Er in Hr. rewrite Et, Ers in Hr.
        apply app_inv_head in Hr. inversion Hr as [Hr']. apply app_inv_head in Hr'. inversion Hr' as [Hr''].
        destruct r as [rp rt]. cbn [r_path r_targets] in Hr''. inversion Hr'' as [Hlen].
        apply (f_equal (@length target)) in Hlen. rewrite app_length in Hlen. cbn [length] in Hlen. lia.
    - assert (Ex : existsb (sel_at (lower host0) path f) (flat t) = false).
      { destruct (existsb (sel_at (lower host0) path f) (flat t)) eqn:E; [|reflexivity]. exfalso.
        apply existsb_exists in E as (x & Hx & Hs). pose proof (flat_no_route _ _ _ Hu Eg x Hx) as Hn.
        unfold at_hp, sel_at in *. apply andb_true_iff in Hs as [Hs _]. apply andb_true_iff in Hs as [E1 E2].
        apply beq_true_eq in E1, E2. tauto. }
      rewrite Ex. destruct Hcases as [Hl|[_ (tg & Hin & Hs)]]; [exact Hl|].
      exfalso. assert (Hex : existsb (sel_at (lower host0) path f) (flat t) = true).
      { apply existsb_exists. exists (lower host0, path, tg). split; auto. unfold sel_at. cbn [fst snd]. now rewrite !beq_refl. }
      congruence.
  Qed.
End Sequence.

(* ================= the whole command sequence against a list-level specification ================= *)
Lemma perm_filter {A} (f : A -> bool) l l' : Permutation l l' -> Permutation (filter f l) (filter f l').
Proof.
  induction 1; cbn [filter]; auto.
  - destruct (f x); auto.
  - destruct (f x), (f y); auto. constructor.
  - eapply Permutation_trans; eauto.
Qed.

Lemma perm_existsb {A} (f : A -> bool) l l' : Permutation l l' -> existsb f l = existsb f l'.
Proof.
  intros H. destruct (existsb f l') eqn:E.
  - apply existsb_exists in E as (x & Hx & Hf). apply existsb_exists. exists x. split; auto.
    eapply Permutation_in; [apply Permutation_sym; exact H | exact Hx].
  - destruct (existsb f l) eqn:E'; auto. apply existsb_exists in E' as (x & Hx & Hf).
    assert (existsb f l' = true) by (apply existsb_exists; exists x; split; auto; eapply Permutation_in; eauto). congruence.
Qed.

Section SequenceSpec.
  Variable canon : str -> option str.
  Variable glob_ok : str -> bool.

  (* The documented meaning of the three commands on the CONTENT of a table, a list of
     (host, path, target) triples read as a multiset: add puts one triple unless its key is there,
     del keeps the unselected triples, weight re-weighs the selected ones (and must select one).
     No table structure, no lookup, no update-in-place: independent of the model's algorithm. *)
  Definition spec_step (l : list (str * str * target)) (d : def) : option (list (str * str * target)) :=
    match d_cmd d with
    | CmdAdd =>
        match canon (d_dst d) with
        | None => None
        | Some url =>
            if add_key_present d url l then Some l
            else Some (l ++ [(lower (fst (hostpath (d_src d))), snd (hostpath (d_src d)),
                              new_target (d_svc d) url (d_w d) (d_tags d) (d_opts d))])
        end
    | CmdDel => Some (filter (fun x => negb (del_selects_ci canon d x)) l)
    | CmdWeight =>
        let n := N.of_nat (length (filter (weight_selects_ci d) l)) in
        if n =? 0 then None
        else Some (map (fun x => if weight_selects_ci d x then reweigh (w_divn (d_w d) n) x else x) l)
    end.

  Fixpoint spec_run (l : list (str * str * target)) (ds : list def) : option (list (str * str * target)) :=
    match ds with
    | [] => Some l
    | d :: ds' => match spec_step l d with Some l' => spec_run l' ds' | None => None end
    end.

  Lemma step_meets_spec t0 l0 d t1 : inv t0 -> Permutation (flat t0) l0 ->
    apply_def canon glob_ok t0 d = Ok t1 ->
    exists l1, spec_step l0 d = Some l1 /\ Permutation (flat t1) l1.
  Proof.
    intros Hinv Hp H. unfold apply_def in H. unfold spec_step. destruct (d_cmd d).
    - destruct (add_route_spec canon glob_ok t0 d t1 Hinv H) as (url & Hc & Hs). rewrite Hc.
      unfold add_key_present in *. rewrite <- (perm_existsb _ _ _ Hp).
      destruct (existsb _ (flat t0)).
      + subst t1. eauto.
      + destruct Hs as (X & Y & E0 & E1). eexists. split; [reflexivity|]. rewrite E1.
        eapply Permutation_trans; [apply Permutation_sym, Permutation_middle|].
        eapply Permutation_trans; [|apply Permutation_cons_append]. constructor. now rewrite <- E0.
    - eexists. split; [reflexivity|]. rewrite (del_precise canon t0 d t1 Hinv H). now apply perm_filter.
    - destruct (weight_only_matching t0 d t1 Hinv H) as (Hn & Hf & _). cbn zeta in *.
      assert (El : length (filter (weight_selects_ci d) l0) = length (filter (weight_selects_ci d) (flat t0))).
      { apply Permutation_length, Permutation_sym, perm_filter, Hp. }
      rewrite El. destruct (_ =? 0) eqn:E0; [apply N.eqb_eq in E0; congruence|].
      eexists. split; [reflexivity|]. rewrite Hf. now apply Permutation_map.
  Qed.

  Lemma run_from_meets_spec ds : forall t0 l0 t, inv t0 -> Permutation (flat t0) l0 ->
    run_from canon glob_ok t0 ds = Ok t -> exists l, spec_run l0 ds = Some l /\ Permutation (flat t) l.
  Proof.
    induction ds as [|d ds IH]; intros t0 l0 t Hinv Hp H; cbn [run_from spec_run] in *.
    - inversion H; subst. eauto.
    - destruct (apply_def canon glob_ok t0 d) as [t1| |] eqn:E; cbn [bind] in H; try discriminate.
      destruct (step_meets_spec t0 l0 d t1 Hinv Hp E) as (l1 & Hs & Hp1). rewrite Hs.
      apply (IH t1 l1 t); auto. eapply apply_def_inv; eauto.
  Qed.

  (* "Applying a sequence of route add, del and weight commands yields exactly the table the
     documented command semantics prescribe": the content of the table any command sequence
     builds is, as a multiset of (host, path, target) triples, what the list-level semantics
     computes -- for every sequence, of any length. *)
  Theorem run_meets_spec ds t : run canon glob_ok ds = Ok t ->
    exists l, spec_run [] ds = Some l /\ Permutation (flat t) l.
  Proof. apply run_from_meets_spec; [apply inv_nil | constructor]. Qed.
End SequenceSpec.
