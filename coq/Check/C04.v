(** Correspondence check for C04, evaluated by [vm_compute] on the cases the Go
    harness wrote: a command sequence on one route (adds with weights, `route
    weight` commands, deletions) next to what the real fabio code computed for it
    (FixedWeight / Weight bits, the weighted ring, the sort order of the slot
    vector, round-robin and random picks through Table.LookupHost). *)
From Coq Require Import List ZArith NArith QArith Qround Bool.
From Fabio Require Import Lib.Outcome Lib.Verdict Model.Weigh Model.WeighF Model.Ring Model.Pick Model.ListenerPick.
Import ListNotations.
Local Open Scope outcome_scope.

(** one command on the route; weights are float64 bit patterns *)
Inductive cmd :=
| CAdd (w : Z)                         (* route add: addTarget with this weight (a new, distinct target) *)
| CSetW (m : list bool) (w : Z)        (* route weight: [m] = which current targets match service/tags *)
| CDel (keep : list bool).             (* route del: filter, [keep] = which current targets survive *)

(** what the implementation showed *)
Record obs := {
  o_fixed : list Z;                    (* FixedWeight bits of r.Targets after all commands *)
  o_weights : list Z;                  (* Weight bits *)
  o_ring : list N;                     (* r.wTargets: target index per slot, 255 = nil *)
  o_order : list nat;                  (* order sort.Sort(byN) gives the slot-count vector *)
  o_cursor : N;                        (* r.total before the picks *)
  o_first : outcome (list N);          (* the first picks through LookupHost(rr), 255 = nil *)
  o_cycle : option (list N);           (* per target: hits in len(ring) consecutive rr picks from o_cursor *)
  o_rnd : list (nat * outcome N)       (* (k returned by the random source, picked target) *)
}.

(** one route of the real listener class (CListen), as the route package shows it in the running fabio *)
Record lroute_obs := {
  lo_fixed : list Z;                   (* FixedWeight bits of r.Targets *)
  lo_weights : list Z;                 (* Weight bits *)
  lo_ring : list N;                    (* r.wTargets: target index per slot, 255 = nil *)
  lo_before : N;                       (* r.total before the first connection *)
  lo_after : N                         (* ... after the last one *)
}.
Record lobs := {
  l_routes : list lroute_obs;          (* the tcp route, the http route *)
  l_ups : list N                       (* per connection: index (in r.Targets) of the upstream that received it,
                                          255 = none (404 / closed), 254 = the exchange failed *)
}.

Inductive case :=
| CRoute (cmds : list cmd) (full : bool) (impl : outcome obs)
(* the real main() with ONE `https+tcp+sni` listener, `-proxy.strategy` rr (0) / rnd (1), a route per server
   name with the weights [routes] (bits of the `route add ... weight` clauses, 0 = none), and the connections
   of [sched] one after the other (the index of the route whose server name the client sends; an index
   outside [routes] = a name without route) *)
| CListen (strategy : N) (routes : list (list Z)) (sched : list N) (impl : outcome lobs)
(* the config language on a command text whose weights have these bit patterns: did NewTable accept it?
   (since /repo 0b2a40e parseWeight rejects NaN and +-Inf) *)
| CParse (ws : list Z) (impl : outcome bool).

(* ---------- running the model ---------- *)
Notation F := arithF.

Fixpoint mask {X} (keep : list bool) (l : list X) : list X :=
  match keep, l with
  | b :: k', x :: l' => if b then x :: mask k' l' else mask k' l'
  | _, _ => []
  end.

(** = the crash status of [route_ring] for every order of the sort
    (Properties/C04.v: [C04_route_status_is_model]) *)
Definition build_status (fixed : list f64) : outcome unit := route_status F fixed.

(** every command ends in weighTargets (setWeight: iff something matched); a crash
    there ends the table load.  [strict] = evaluate the crash status of every
    intermediate weighTargets run (n runs over up to n targets: quadratic in float
    operations); it is switched on whenever the implementation crashed or a weight of the
    sequence is outside [1e-300, 1e300].  Otherwise only the final state is computed and
    compared: what is then not looked for is "the model predicts a crash in an
    intermediate state that the implementation survived", and every such intermediate
    state is the final state of other generated cases (sequences are prefix-closed). *)
Fixpoint run_cmds (strict : bool) (cmds : list cmd) (fixed : list f64) : outcome (list f64) :=
  match cmds with
  | [] => Ok fixed
  | CAdd w :: rest =>
      let fixed' := fixed ++ [clamp_fixed F (f64_of_bits w)] in
      do _ <- (if strict then build_status fixed' else Ok tt); run_cmds strict rest fixed'
  | CSetW m w :: rest =>
      let '(fixed', n) := set_weight F m (f64_of_bits w) fixed in
      if Nat.eqb n 0 then run_cmds strict rest fixed
      else do _ <- (if strict then build_status fixed' else Ok tt); run_cmds strict rest fixed'
  | CDel keep :: rest =>
      let fixed' := mask keep fixed in
      do _ <- (if strict then build_status fixed' else Ok tt); run_cmds strict rest fixed'
  end.

Definition cmd_weights (c : cmd) : list Z :=
  match c with CAdd w => [w] | CSetW _ w => [w] | CDel _ => [] end.

(* ---------- helpers on the observables ---------- *)
Definition slot_of_byte (b : N) : option nat := if (b =? 255)%N then None else Some (N.to_nat b).
Definition byte_of_slot (s : option nat) : N := match s with None => 255%N | Some i => N.of_nat i end.
Definition ring_of_bytes (l : list N) : ring := map slot_of_byte l.

Fixpoint list_eqb {X} (eqb : X -> X -> bool) (a b : list X) : bool :=
  match a, b with
  | [], [] => true
  | x :: a', y :: b' => eqb x y && list_eqb eqb a' b'
  | _, _ => false
  end.

Definition out_eqb {X} (eqb : X -> X -> bool) (a b : outcome X) : bool :=
  match a, b with
  | Ok x, Ok y => eqb x y
  | Err j, Err k => (j =? k)%N
  | Panic, Panic => true
  | _, _ => false
  end.

Definition bits_eqb (a b : Z) : bool := (canon_bits a =? canon_bits b)%Z.

(** occupancy of every target 0..n-1 and of nil, in one pass per target *)
Definition occ_bytes (n : nat) (r : list N) : list N :=
  map (fun i => N.of_nat (length (filter (N.eqb (N.of_nat i)) r))) (seq 0 n).

(** [order] is a permutation of 0..n-1 along which [counts] ascend *)
Fixpoint ascending (l : list Z) : bool :=
  match l with
  | x :: ((y :: _) as t) => (x <=? y)%Z && ascending t
  | _ => true
  end.
Definition valid_order (order : list nat) (counts : list Z) : bool :=
  let n := length counts in
  Nat.eqb (length order) n
  && forallb (fun i => Nat.eqb (length (filter (Nat.eqb i) order)) 1) (seq 0 n)
  && ascending (map (fun i => nth i counts 0%Z) order).

Definition Qabs_le (x bound : Q) : bool := Qle_bool x bound && Qle_bool (- bound) x.
Definition eps9 : Q := 1 # 1000000000.
Definition eps6 : Q := 1 # 1000000.
Definition S_slots : Q := inject_Z 10000.

(** the exact-rational instance agrees with the implementation's float64 weights
    within 1e-9 (tested bridge between the two instances of the one algorithm),
    and its slot counts agree except at a rounding boundary where they may be one apart *)
Definition p30 : positive := Eval vm_compute in (10^30)%positive.
Definition p300 : positive := Eval vm_compute in (10^300)%positive.
Definition sane_bits (b : Z) : bool :=
  let x := f64_of_bits b in
  f64_finite x &&
  (let q := f64_to_Q x in Qle_bool q 0 || (Qle_bool (1 # p30) q && Qle_bool q (inject_Z (Zpos p30)))).

Definition q_max_targets : nat := 12.   (* unreduced kilobit rationals: cost grows cubically *)
Definition q_weights (fixed : list Z) : option (list Q) :=
  if negb (forallb sane_bits fixed) || Nat.ltb q_max_targets (length fixed) then None
  else Some (weighQ (map (fun b => f64_to_Q (f64_of_bits b)) fixed)).

Definition q_bridge (wq : list Q) (weights : list Z) : bool :=
  let wi := map (fun b => f64_to_Q (f64_of_bits b)) weights in
  Nat.eqb (length wq) (length wi)
  && forallb (fun p => Qabs_le (fst p - snd p) eps9) (combine wq wi).

Definition q_counts (wq : list Q) (counts : list Z) : bool :=
  forallb (fun p =>
             let '(w, n) := p in
             let nq := slot_countQ w in
             (n =? nq)%Z ||
             (let x := (S_slots * w)%Q in
              let k := Qfloor (x + (1 # 2)) in          (* nearest integer *)
              Qabs_le (x - inject_Z k) eps6 && (Z.abs (n - nq) <=? 1)%Z))
          (combine wq counts).

(* ---------- the shape of the distribution, clause by clause from the property text ----------
   Computed exactly on dyadic numbers m * 2^e from the FixedWeight fields, independently of the
   model: no fixed weight -> 1/len each; a fixed weight f is honoured as given, or is f / sum when the
   fixed weights sum to more than one, or when every target is fixed and they sum to less; the dynamic
   targets share (1 - sum)/k, nothing when sum >= 1.  Tolerance 2^-30 absolute on every weight. *)
Definition dy := (Z * Z)%type.
Definition dy_of_f64 (x : f64) : option dy :=
  match x with
  | Binary.B754_zero _ _ _ => Some (0, 0)%Z
  | Binary.B754_finite _ _ s m e _ => Some ((if s then Zneg m else Zpos m), e)
  | _ => None
  end.
Definition dy_align (a b : dy) : Z * Z * Z :=
  let e := Z.min (snd a) (snd b) in ((fst a * 2 ^ (snd a - e))%Z, (fst b * 2 ^ (snd b - e))%Z, e).
Definition dy_add (a b : dy) : dy := let '(x, y, e) := dy_align a b in ((x + y)%Z, e).
Definition dy_sub (a b : dy) : dy := let '(x, y, e) := dy_align a b in ((x - y)%Z, e).
Definition dy_mul (a b : dy) : dy := ((fst a * fst b)%Z, (snd a + snd b)%Z).
Definition dy_leb (a b : dy) : bool := let '(x, y, _) := dy_align a b in (x <=? y)%Z.
Definition dy_ltb (a b : dy) : bool := let '(x, y, _) := dy_align a b in (x <? y)%Z.
Definition dy_abs (a : dy) : dy := (Z.abs (fst a), snd a).
Definition dy_int (z : Z) : dy := (z, 0%Z).
Definition dy_tol : dy := (1, -30)%Z.
(* |a - b| <= tol * c *)
Definition dy_close (a b c : dy) : bool := dy_leb (dy_abs (dy_sub a b)) (dy_mul dy_tol c).

Definition is_pinf (x : f64) : bool :=
  match x with Binary.B754_infinity _ _ false => true | _ => false end.

Definition shape_ok (fixed weights : list Z) : bool :=
  let fx := map f64_of_bits fixed in
  if existsb is_pinf fx then true else       (* +Inf is not a weight (the parser rejects it) *)
  (* a target is fixed iff its FixedWeight is positive (NaN, -Inf, <= 0: dynamic) *)
  let fdy := map (fun x => match dy_of_f64 x with
                           | Some d => if (0 <? fst d)%Z then Some d else None
                           | None => None end) fx in
  let sum := fold_left (fun s o => match o with Some d => dy_add s d | None => s end) fdy (dy_int 0) in
  let nf := length (filter (fun o => match o with Some _ => true | None => false end) fdy) in
  let len := length fixed in
  let k := (len - nf)%nat in
  let one := dy_int 1 in
  Nat.eqb (length weights) len &&
  forallb (fun p =>
    match dy_of_f64 (f64_of_bits (snd p)) with
    | None => false
    | Some w =>
        if Nat.eqb nf 0 then dy_close (dy_mul w (dy_int (Z.of_nat len))) one (dy_int (Z.of_nat len))
        else match fst p with
             | Some f =>
                 if dy_ltb one sum || (Nat.eqb k 0 && dy_ltb sum one)
                 then dy_close (dy_mul w sum) f sum           (* scaled down / scaled up: w = f / sum *)
                 else dy_close w f one                        (* honoured as given *)
             | None =>
                 if dy_leb one sum then dy_close w (dy_int 0) one
                 else dy_close (dy_mul w (dy_int (Z.of_nat k))) (dy_sub one sum) (dy_int (Z.of_nat k))
             end
    end) (combine fdy weights).

(* ---------- the boolean specification on the implementation's own observables ---------- *)
Definition spec_obs (ntargets : nat) (o : obs) : bool :=
  let ws := map f64_of_bits (o_weights o) in
  let wq := map f64_to_Q ws in
  let U := length (o_ring o) in
  let occ := occ_bytes ntargets (o_ring o) in
  let len := Z.of_nat ntargets in
  (* effective weights: finite, non-negative, sum to one *)
  forallb f64_finite ws
  && shape_ok (o_fixed o) (o_weights o)
  && forallb (fun q => Qle_bool 0 q) wq
  && Qabs_le (sumQ wq - 1) eps9
  (* the ring: non-empty, no nil slot, every slot one of the targets *)
  && negb (Nat.eqb U 0)
  && N.eqb (fold_right N.add 0%N occ) (N.of_nat U)
  (* share of slots = weight within the ring's resolution; never starved; never picked *)
  && forallb (fun p =>
                let '(w, n) := p in
                (if Qle_bool w 0 then (n =? 0)%N else (1 <=? n)%N)
                && Qabs_le (inject_Z (Z.of_N n) / inject_Z (Z.of_nat U) - w)
                           (inject_Z (len + 1) / inject_Z (10000 - len)))
             (combine wq occ)
  (* one full round-robin cycle hits target i exactly occ_i times (single-target routes bypass the picker) *)
  && match o_cycle o with
     | Some hits => if Nat.eqb ntargets 1 then list_eqb N.eqb hits [N.of_nat U] else list_eqb N.eqb hits occ
     | None => true
     end
  (* no pick crashed or returned nil / a zero-weight target *)
  && match o_first o with
     | Ok ps => forallb (fun b => (b <? N.of_nat ntargets)%N
                                  && negb (Qle_bool (nth (N.to_nat b) wq 0%Q) 0)) ps
     | _ => false
     end
  && forallb (fun p => match snd p with
                       | Ok b => (b <? N.of_nat ntargets)%N && negb (Qle_bool (nth (N.to_nat b) wq 0%Q) 0)
                       | _ => false end) (o_rnd o).

(** "fixed weights are honoured as given", on the input and the implementation's observables: when the
    sequence consists of adds only and every weight of it is finite and not negative, the fixed weights
    of the route's targets are the given ones, bit for bit and in the order of the adds (what a `route
    weight` or `route del` command makes of them is left to the correspondence with the model) *)
Fixpoint adds_only (cmds : list cmd) : option (list Z) :=
  match cmds with
  | [] => Some []
  | CAdd w :: rest => match adds_only rest with Some ws => Some (w :: ws) | None => None end
  | _ => None
  end.
Definition given_weight_ok (b : Z) : bool :=
  let x := f64_of_bits b in f64_finite x && Qle_bool 0 (f64_to_Q x).
Definition spec_given (cmds : list cmd) (o : obs) : bool :=
  match adds_only cmds with
  | Some ws => if forallb given_weight_ok ws then list_eqb bits_eqb (o_fixed o) ws else true
  | None => true
  end.

(** inputs outside the range in which binary64 behaves like arithmetic: a weight in a
    command that is NaN, infinite, or positive and outside [1e-300, 1e300] *)
Definition edge_weight (b : Z) : bool :=
  let x := f64_of_bits b in
  negb (f64_finite x) ||
  (let q := f64_to_Q x in
   negb (Qle_bool q 0) && negb (Qle_bool (1 # p300) q && Qle_bool q (inject_Z (Zpos p300)))).
Definition edge_input (cmds : list cmd) : bool := existsb edge_weight (flat_map cmd_weights cmds).

Definition first_n : nat := 48.

(** the targets the fill places first (ascending slot count), as long as they need at
    most [budget] placements in total: their slots are final once placed (the fill never
    overwrites), so the model's ring after this prefix must agree with the
    implementation's ring wherever the prefix ring is occupied *)
Fixpoint order_prefix (budget : Z) (sorted : list (nat * Z)) : list (nat * Z) :=
  match sorted with
  | [] => []
  | (i, n) :: rest =>
      if (n <=? 0)%Z then (i, n) :: order_prefix budget rest
      else if (n <=? budget)%Z then (i, n) :: order_prefix (budget - n) rest
      else []
  end.
Fixpoint agrees_where_set (partial : ring) (impl : list N) : bool :=
  match partial, impl with
  | [], [] => true
  | None :: p', _ :: i' => agrees_where_set p' i'
  | Some t :: p', b :: i' => (N.of_nat t =? b)%N && agrees_where_set p' i'
  | _, _ => false
  end.
Definition prefix_budget : Z := 50.

(* ---------- the real listener class ---------- *)
(** weights and ring of one route against the weigh / slot model (the layout of a filled ring is the
    business of CRoute; here the ring enters the pick model as observed, tied to the model by its
    occupancies and its length); the cursor of a fresh table is 0 *)
Definition listen_static_same (ws_in : list Z) (o : lroute_obs) : bool :=
  match run_cmds false (map CAdd ws_in) [] with
  | Ok fixedF =>
      let n := length fixedF in
      let ws := weigh F fixedF in
      let counts := map (slot_count F) ws in
      list_eqb bits_eqb (lo_fixed o) (map f64_bits fixedF)
      && list_eqb bits_eqb (lo_weights o) (map f64_bits ws)
      && (if uses_fill F fixedF
          then list_eqb Z.eqb (map Z.of_N (occ_bytes n (lo_ring o))) (map (Z.max 0) counts)
               && (Z.of_nat (length (lo_ring o)) =? used_slots counts)%Z
          else list_eqb N.eqb (lo_ring o) (map N.of_nat (seq 0 n)))
      && (lo_before o =? 0)%N
  | _ => false
  end.

Definition lroute_of_obs (o : lroute_obs) : lroute :=
  {| lr_n := length (lo_fixed o); lr_ring := ring_of_bytes (lo_ring o); lr_total := lo_before o |}.

(** the upstreams of the connections of route [j], in order *)
Definition ups_of (j : N) (sched ups : list N) : list N :=
  map snd (filter (fun p => (fst p =? j)%N) (combine sched ups)).

(** the property's clauses on what the listener showed, route by route; nothing of the pick model:
    the effective weights and the ring (spec_obs: non-negative, sum to one, shape, share of slots = weight
    within the resolution, zero weight no slot, positive weight a slot), every connection reached a target
    of positive weight, and with round robin target i received, of N connections = q whole cycles of
    U = len(ring) plus a rest of r, between q*slots_i and q*slots_i + min(slots_i, r) (exactly its share
    when r = 0; a target with a slot is not starved once q >= 1; one without a slot receives nothing) *)
Definition spec_listen_route (rr : bool) (o : lroute_obs) (ups : list N) : bool :=
  let n := length (lo_fixed o) in
  let U := length (lo_ring o) in
  let occ := occ_bytes n (lo_ring o) in
  spec_obs n {| o_fixed := lo_fixed o; o_weights := lo_weights o; o_ring := lo_ring o; o_order := [];
                o_cursor := 0%N; o_first := Ok ups; o_cycle := None; o_rnd := [] |}
  && (negb rr ||
      let cnt := length ups in
      if Nat.eqb n 1 then true        (* a single target receives everything: the o_first clause *)
      else
        let q := N.of_nat (cnt / U) in
        let r := N.of_nat (cnt mod U) in
        forallb (fun p => let '(i, s) := p in
                          let h := N.of_nat (length (filter (N.eqb (N.of_nat i)) ups)) in
                          (q * s <=? h)%N && (h <=? q * s + N.min s r)%N)
                (combine (seq 0 n) occ)).

Definition spec_listen (rr : bool) (sched : list N) (o : lobs) : bool :=
  Nat.eqb (length (l_ups o)) (length sched)
  && forallb (fun p => spec_listen_route rr (snd p) (ups_of (N.of_nat (fst p)) sched (l_ups o)))
             (combine (seq 0 (length (l_routes o))) (l_routes o))
  (* a server name without route reaches no upstream *)
  && forallb (fun p => (fst p <? N.of_nat (length (l_routes o)))%N || (snd p =? 255)%N) (combine sched (l_ups o)).

Definition check_listen (strategy : N) (routes : list (list Z)) (sched : list N) (impl : outcome lobs) : N :=
  match impl with
  | Ok o =>
      let rr := (strategy =? 0)%N in
      let static_same :=
          Nat.eqb (length routes) (length (l_routes o))
          && forallb (fun p => listen_static_same (fst p) (snd p)) (combine routes (l_routes o)) in
      let tb := map lroute_of_obs (l_routes o) in
      let dyn_same :=
          Nat.eqb (length (l_ups o)) (length sched) &&
          if rr then
            match listener_run MPFirst (map N.to_nat sched) tb with
            | Ok (us, tb') =>
                list_eqb N.eqb (l_ups o) (map byte_of_slot us)
                && list_eqb N.eqb (map lo_after (l_routes o)) (map lr_total tb')
            | _ => false
            end
          else
            (* rnd: the cursor is not touched and every connection reaches a target some value of the
               random source selects *)
            forallb (fun p => match nth_error tb (N.to_nat (fst p)) with
                              | Some rt => rnd_conn_can rt (slot_of_byte (snd p))
                              | None => (snd p =? 255)%N
                              end) (combine sched (l_ups o))
            && list_eqb N.eqb (map lo_after (l_routes o)) (map lo_before (l_routes o)) in
      let nontrivial :=
          rr && existsb (fun p => Nat.ltb 1 (length (lo_fixed (snd p)))
                                  && negb (Nat.eqb (length (ups_of (N.of_nat (fst p)) sched (l_ups o))) 0))
                        (combine (seq 0 (length (l_routes o))) (l_routes o)) in
      verdict (static_same && dyn_same) (spec_listen rr sched o) None nontrivial
  | _ =>
      (* fabio did not come up with a valid configuration *)
      verdict false false None true
  end.

Definition check_case (c : case) : N :=
  match c with
  | CRoute cmds full impl =>
      let edge := edge_input cmds in
      let strict := edge || match impl with Ok _ => false | _ => true end in
      match run_cmds strict cmds [] with
      | Panic | Err _ =>
          (* the model predicts a crash while the table is built *)
          let same := match impl with Panic => true | _ => false end in
          let spec := match impl with Ok o => spec_obs (length (o_fixed o)) o | _ => false end in
          verdict same spec None true
      | Ok fixedF =>
          let n := length fixedF in
          let fixed_bits := map f64_bits fixedF in
          let ws := weigh F fixedF in
          (* the ring is the target list itself: no fixed weight, or the even fallback of 290c777 *)
          let dyn_only := negb (uses_fill F fixedF) in
          let counts := map (slot_count F) ws in
          match impl with
          | Ok o =>
              let iring := ring_of_bytes (o_ring o) in
              let same_weights :=
                  list_eqb bits_eqb (o_fixed o) fixed_bits
                  && list_eqb bits_eqb (o_weights o) (map f64_bits ws) in
              let same_counts :=
                  if dyn_only then list_eqb N.eqb (o_ring o) (map N.of_nat (seq 0 n))
                  else
                    (* a target with a count <= 0 is skipped by the fill: it occupies nothing, and
                       its position among the other skipped ones in the sort order is immaterial *)
                    let placed := map (Z.max 0) counts in
                    list_eqb Z.eqb (map Z.of_N (occ_bytes n (o_ring o))) placed
                    && (Z.of_nat (length (o_ring o)) =? used_slots counts)%Z
                    && valid_order (o_order o) placed in
              let sorted := map (fun i => (i, nth i counts 0%Z)) (o_order o) in
              let same_ring :=
                  if dyn_only then true
                  else if full then
                    match ring_of_counts_scan sorted counts with
                    | Ok r => list_eqb N.eqb (map byte_of_slot r) (o_ring o)
                    | _ => false
                    end
                  else
                    let used := used_slots counts in
                    match (do r0 <- make_ring used; fill_scan (order_prefix prefix_budget sorted) (Z.to_nat used) r0) with
                    | Ok r => agrees_where_set r (o_ring o)
                    | _ => false
                    end in
              let k := match o_first o with Ok ps => length ps | _ => first_n end in
              let same_first :=
                  let fix go (k : nat) (total : N) : outcome (list N) :=
                      match k with
                      | O => Ok []
                      | S k' => do '(t, total') <- lookup_rr n iring total;
                                do ts <- go k' total'; Ok (byte_of_slot t :: ts)
                      end in
                  out_eqb (list_eqb N.eqb) (o_first o) (go k (o_cursor o)) in
              let same_rnd :=
                  forallb (fun p => out_eqb N.eqb (snd p)
                                      (match lookup_rnd n iring (fst p) with
                                       | Ok t => Ok (byte_of_slot t) | Err e => Err e | Panic => Panic end))
                          (o_rnd o) in
              let same_q := match q_weights (o_fixed o) with
                            | Some wq => q_bridge wq (o_weights o) && (dyn_only || q_counts wq counts)
                            | None => true
                            end in
              let same := same_weights && same_counts && same_ring && same_first && same_rnd && same_q in
              let spec := spec_obs n o && spec_given cmds o in
              (* region 3 (finding F-C04-3), syntactic on the input: some weight of the command sequence is
                 positive and outside [1e-300, 1e300] (or not finite) *)
              verdict same spec (if edge then Some 3%N else None) (negb dyn_only && Nat.ltb 1 n)
          | _ =>
              (* the implementation crashed (or failed) where the model builds the table *)
              verdict false false None true
          end
      end
  | CParse ws impl =>
      (* parseWeight accepts exactly the finite values; not a clause of the property: correspondence only *)
      let accepted := forallb (fun b => f64_finite (f64_of_bits b)) ws in
      let same := match impl with Ok b => Bool.eqb b accepted | _ => false end in
      verdict same (match impl with Panic => false | _ => true end) None false
  | CListen strategy routes sched impl => check_listen strategy routes sched impl
  end.
