(** Correspondence check for C10, evaluated by [vm_compute] on the cases the Go
    harness wrote (real fabio outputs next to the inputs that produced them). *)
From Coq Require Import List NArith Bool.
From Fabio Require Import Lib.Outcome Lib.Bytes Lib.Verdict Model.ClientHello.
Import ListNotations.
Local Open Scope N_scope.

Definition out_eqb {A} (eqb : A -> A -> bool) (a b : outcome A) : bool :=
  match a, b with
  | Ok x, Ok y => eqb x y
  | Err j, Err k => j =? k
  | Panic, Panic => true
  | _, _ => false
  end.

(* boolean well-formedness of a generated hello (mirrors Proofs.ClientHello.wf_hello) *)
Definition wf_sni_entry_b (e : sni_entry) : bool :=
  (sn_type e <? 256) && (nlen (sn_name e) <? 65536).
Definition host_entries (l : list sni_entry) : list sni_entry :=
  filter (fun e => sn_type e =? 0) l.
Definition sni_of_list (l : list sni_entry) : str :=
  match host_entries l with e :: _ => sn_name e | [] => [] end.

Inductive case :=
(* clientHelloBufferSize(data): impl result (Err kinds 1-5 by message) *)
| CBuf (data : str) (impl : outcome N)
(* readServerName(msg): impl result; [tls] = Some name when a crypto/tls server fed
   the same message (wrapped in one record) accepted it and saw ServerName = name *)
| CRead (msg : str) (impl : outcome str) (tls : option str)
(* the whole path on a connection's byte stream through the real SNIProxy.ServeTCP
   (peek 9 / size / read exactly that many / parse): impl = Ok host when Lookup was
   called with that host, Err 0 when the connection was dropped before routing *)
| CStream (stream : str) (impl : outcome str) (tls : option str)
(* a hello generated as an AST and encoded by the harness's own Go encoder:
   the Coq encoder must produce the same bytes (ties the spec-side encoder to an
   independent one and, through [tls], to crypto/tls) *)
| CHello (h : hello) (sni : option (list sni_entry)) (data : str)
         (impl : outcome str) (tls : option str).

Definition pair_eqb (a b : N * str) : bool := (fst a =? fst b) && beq (snd a) (snd b).

Definition check_case (c : case) : N :=
  match c with
  | CBuf data impl =>
      let m := client_hello_buffer_size data in
      let same := out_eqb N.eqb impl m in
      (* spec on the implementation's own output: no panic; a size never exceeds
         the first record (5 + record length) nor is it below the 9 peeked + 1 *)
      let spec := match impl with
                  | Panic => false
                  | Ok n => match u16 data 3 with
                            | Ok rl => (10 <=? n) && (n <=? rl + 5) && (n <=? 16389)
                            | _ => false
                            end
                  | Err _ => true
                  end in
      verdict same spec None (is_ok m)
  | CRead msg impl tls =>
      let m := read_server_name msg in
      let same := out_eqb beq impl m in
      let spec := match impl with
                  | Panic => false
                  | Ok n => match tls with Some t => beq n t | None => true end
                  | Err _ => match tls with Some _ => false | None => true end
                  end in
      verdict same spec None (match m with Ok (_ :: _) => true | _ => false end)
  | CStream stream impl tls =>
      let m := match sni_route_name stream with
               | Ok (_, []) => Err 0          (* "server_name missing": no Lookup *)
               | Ok (_, name) => Ok name
               | Err _ => Err 0
               | Panic => Panic
               end in
      let same := out_eqb beq impl m in
      (* a standard TLS server fed the same stream saw name [t]: a non-empty [t] must be
         what the proxy routes on; a crash is never acceptable *)
      let spec := match impl with
                  | Panic => false
                  | Ok n => match tls with Some t => beq n t | None => true end
                  | Err _ => match tls with Some (_ :: _) => false | _ => true end
                  end in
      verdict same spec None (is_ok m)
  | CHello h sni data impl tls =>
      let m := read_server_name (enc_handshake h) in
      let expected := match sni with Some l => sni_of_list l | None => [] end in
      let same := beq (enc_handshake h) data && out_eqb beq impl m in
      let spec := match impl with
                  | Ok n => beq n expected
                            && match tls with Some t => beq n t | None => true end
                  | _ => false
                  end in
      verdict same spec None true
  end.
