(** Correspondence check for C10, evaluated by [vm_compute] on the cases the Go
    harness wrote (real fabio outputs next to the inputs that produced them). *)
From Coq Require Import List NArith Bool.
From Fabio Require Import Lib.Outcome Lib.Bytes Lib.Verdict Model.ClientHello Model.SniServe.
Import ListNotations.
Local Open Scope N_scope.

Definition out_eqb {A} (eqb : A -> A -> bool) (a b : outcome A) : bool :=
  match a, b with
  | Ok x, Ok y => eqb x y
  | Err j, Err k => j =? k
  | Panic, Panic => true
  | _, _ => false
  end.

Definition is_nil {A} (l : list A) : bool := match l with [] => true | _ => false end.

(* ---- the reference for the server_name part of a generated hello ----
   Written on the generator's AST, independent of the parser: RFC 8446 4.2 (one extension
   per type) and RFC 6066 3 (the list is not empty; a HostName is not empty and has no
   trailing dot; at most one name per type), which is what a standard TLS server (crypto/tls)
   enforces on this extension.  [sni_gen] = (entries, stray bytes that follow them inside the
   list); mirrors Proofs.ClientHello.rfc_sni_list / rfc_exts. *)
Definition sni_gen := (list sni_entry * str)%type.
Definition enc_sni_gen (g : sni_gen) : str :=
  let body := flat_map enc_sni_entry (fst g) ++ snd g in enc16 (nlen body) ++ body.
Definition host_entries (l : list sni_entry) : list sni_entry :=
  filter (fun e => sn_type e =? 0) l.
Definition ends_with_dot (s : str) : bool :=
  match rev s with 46 :: _ => true | _ => false end.
Definition rfc_list_b (g : sni_gen) : bool :=
  is_nil (snd g) && negb (is_nil (fst g))
  && forallb (fun e => negb (sn_type e =? 0)
                       || (negb (is_nil (sn_name e)) && negb (ends_with_dot (sn_name e)))) (fst g)
  && Nat.leb (length (host_entries (fst g))) 1.
Definition rfc_ok (snis : list sni_gen) : bool :=
  match snis with [] => true | [g] => rfc_list_b g | _ => false end.
(* the name such a hello carries: the host_name of its only list, nothing otherwise *)
Definition expected_name (snis : list sni_gen) : str :=
  match snis with
  | [g] => match host_entries (fst g) with e :: _ => sn_name e | [] => [] end
  | _ => []
  end.

(* ---- known-finding regions, syntactic on the generated AST ----
   1: more than one server_name extension (F-C10-1)
   2: something follows the first host_name entry inside a list (F-C10-2)
   3: a host_name ends with a dot (F-C10-3) *)
Fixpoint after_first_host (l : list sni_entry) : option (list sni_entry) :=
  match l with
  | [] => None
  | e :: r => if sn_type e =? 0 then Some r else after_first_host r
  end.
Definition follows_host (g : sni_gen) : bool :=
  match after_first_host (fst g) with
  | Some r => negb (is_nil r) || negb (is_nil (snd g))
  | None => false
  end.
Definition region_of (snis : list sni_gen) : option N :=
  if Nat.leb 2 (length snis) then Some 1
  else if existsb follows_host snis then Some 2
  else if existsb (fun g => existsb (fun e => (sn_type e =? 0) && ends_with_dot (sn_name e)) (fst g)) snis
       then Some 3
  else None.

Inductive case :=
(* clientHelloBufferSize(data): impl result (Err kinds 1-5 by message) *)
| CBuf (data : str) (impl : outcome N)
(* readServerName(msg): impl result; [tls] = Some name when a crypto/tls server fed
   the same message (wrapped in one record) accepted it and saw ServerName = name *)
| CRead (msg : str) (impl : outcome str) (tls : option str)
(* the whole path on a connection's byte stream through the real SNIProxy.ServeTCP
   (peek 9 / size / read exactly that many / parse): impl = Ok host when Lookup was
   called with that host, Err 0 when the connection was dropped before routing;
   [consumed] = Some n when the proxy had buffered n bytes before routing (the size of the
   first write to the upstream, as counted by the target's RxCounter) *)
| CStream (stream : str) (impl : outcome str) (consumed : option N) (tls : option str)
(* a hello given as an AST (generated, or a real crypto/tls hello parsed by the harness) and
   encoded by the harness's own Go encoder: the Coq encoder must produce the same bytes and
   the AST must be well-formed (ties the spec-side encoder and the theorems' domain to an
   independent encoder and, through [tls], to crypto/tls); [snis] = the content of its
   server_name extensions in order *)
| CHello (h : hello) (snis : list sni_gen) (data : str)
         (impl : outcome str) (tls : option str)
(* truncation: [full]/[fulln] = what ServeTCP did on [stream] (host routed on, bytes
   buffered), [cut] = what it did on the first [k] bytes of [stream] *)
| CTrunc (stream : str) (k : N) (full : outcome str) (fulln : option N) (cut : outcome str)
(* a hello spread over two TLS records: never routed (the buffering clause of the property
   forbids reading beyond the first record) *)
| CFrag (stream : str) (impl : outcome str) (tls : option str)
(* ServeTCP's decision (Model.SniServe.sni_serve) on a stream, observed as CStream observes it
   (Panic = ServeTCP itself panicked, anywhere between Peek and Lookup); used for the streams
   that are too small to be a ClientHello and the smallest ones that are *)
| CServe (stream : str) (impl : outcome str) (consumed : option N) (tls : option str).

Definition route_model (stream : str) : outcome str * option N :=
  match sni_route_name stream with
  | Ok (_, []) => (Err 0, None)          (* "server_name missing": no Lookup *)
  | Ok (n, name) => (Ok name, Some n)
  | Err _ => (Err 0, None)
  | Panic => (Panic, None)
  end.

(* RFC 5246 7.4.1.2 / RFC 8446 4.1.2: legacy_session_id<0..32>.  crypto/tls's unmarshal does not
   enforce the bound (it reads any uint8-prefixed vector), fabio's parser does: a hello whose
   session id is longer than 32 bytes is MALFORMED in the property's sense although a
   crypto/tls server hands out a ClientHelloInfo for it, and rejecting it is what the property
   asks for.  [off]: where the handshake message starts (0, or 5 behind a record header). *)
Definition sid_too_long (off : nat) (msg : list N) : bool :=
  match nth_error msg (off + 38) with Some l => 32 <? l | None => false end.

Definition serve_model (stream : str) : outcome str * option N :=
  match sni_serve stream with
  | Ok Dropped => (Err 0, None)
  | Ok (Routed n h) => (Ok h, Some n)
  | Err k => (Err (100 + k), None)         (* never: C10_sni_serve_decides *)
  | Panic => (Panic, None)
  end.

(* too small to be a ClientHello (C10_short_stream_dropped / C10_short_hello_dropped) *)
Definition too_small (stream : str) : bool :=
  (nlen stream <? 9 + min_hello_body)
  || match u24 stream 6 with Ok hl => hl <? min_hello_body | _ => false end.

Definition check_case (c : case) : N :=
  match c with
  | CBuf data impl =>
      let m := client_hello_buffer_size data in
      let same := out_eqb N.eqb impl m in
      (* spec on the implementation's own output: no panic; a size never exceeds
         the first record (5 + record length) nor is it below the 9 peeked + 1 *)
      let spec := match impl with
                  | Panic => false
                  | Ok n => match u16 data 3 with
                            | Ok rl => (10 <=? n) && (n <=? rl + 5) && (n <=? 16389)
                            | _ => false
                            end
                  | Err _ => true
                  end in
      verdict same spec None (is_ok m)
  | CRead msg impl tls =>
      let m := read_server_name msg in
      let same := out_eqb beq impl m in
      let spec := match impl with
                  | Panic => false
                  | Ok n => match tls with Some t => beq n t | None => true end
                  | Err _ => match tls with Some _ => sid_too_long 0 msg | None => true end
                  end in
      verdict same spec None (match m with Ok (_ :: _) => true | _ => false end)
  | CStream stream impl consumed tls =>
      let '(m, mc) := route_model stream in
      let same := out_eqb beq impl m && opt_eqb N.eqb consumed mc in
      (* a standard TLS server fed the same stream saw name [t]: a non-empty [t] must be
         what the proxy routes on; what was buffered before routing lies within the first
         record and within what the client sent; a crash is never acceptable *)
      let spec := match impl with
                  | Panic => false
                  | Ok n => match tls with Some t => beq n t | None => true end
                            && match consumed, u16 stream 3 with
                               | Some c, Ok rl => (c <=? rl + 5) && (c <=? nlen stream)
                               | _, _ => false
                               end
                  | Err _ => match tls with Some (_ :: _) => sid_too_long 5 stream | _ => true end
                  end in
      verdict same spec None (is_ok m)
  | CHello h snis data impl tls =>
      let m := read_server_name (enc_handshake h) in
      let sni_data := map ext_data (filter (fun e => ext_type e =? 0)
                                           (match h_exts h with Some es => es | None => [] end)) in
      (* the case is what it says: same bytes, a hello of the theorems' domain, [snis] is the
         content of its server_name extensions *)
      let tied := beq (enc_handshake h) data && wf_hello_b h
                  && list_eqb beq sni_data (map enc_sni_gen snis) in
      let ok := rfc_ok snis in
      (* the reference itself against crypto/tls: what RFC 6066/8446 forbid, crypto/tls rejects *)
      let ref_consistent := ok || match tls with None => true | Some _ => false end in
      let same := tied && out_eqb beq impl m && ref_consistent in
      (* well-formed: the name is the list's host_name (and what crypto/tls saw);
         malformed server_name data: rejected, or at least not routed (empty name) *)
      let spec := match impl with
                  | Panic => false
                  | Ok n => if ok
                            then beq n (expected_name snis)
                                 && match tls with Some t => beq n t | None => true end
                            else is_nil n
                  | Err _ => negb ok
                  end in
      verdict same spec (region_of snis) true
  | CTrunc stream k full fulln cut =>
      let '(m, mc) := route_model stream in
      let '(mcut, _) := route_model (firstn (N.to_nat k) stream) in
      let same := out_eqb beq full m && opt_eqb N.eqb fulln mc && out_eqb beq cut mcut in
      (* a strict prefix of what an accepted stream had consumed is rejected *)
      let strict := match full, fulln with Ok _, Some n => k <? n | _, _ => false end in
      let spec := match cut with
                  | Panic => false
                  | Ok _ => negb strict
                  | Err _ => true
                  end
                  && negb (is_panic full) in
      verdict same spec None strict
  | CFrag stream impl tls =>
      let '(m, _) := route_model stream in
      let same := out_eqb beq impl m in
      let spec := match impl with Err _ => true | _ => false end in
      verdict same spec None (match tls with Some (_ :: _) => true | _ => false end)
  | CServe stream impl consumed tls =>
      let '(m, mc) := serve_model stream in
      let same := out_eqb beq impl m && opt_eqb N.eqb consumed mc in
      (* never a crash; what is too small to be a ClientHello is dropped; otherwise as CStream *)
      let spec := match impl with
                  | Panic => false
                  | Ok n => negb (too_small stream)
                            && match tls with Some t => beq n t | None => true end
                            && match consumed, u16 stream 3 with
                               | Some c, Ok rl => (c <=? rl + 5) && (c <=? nlen stream)
                               | _, _ => false
                               end
                  | Err _ => match tls with Some (_ :: _) => sid_too_long 5 stream | _ => true end
                  end in
      (* non-trivial: the whole path ran (a size was computed and that many bytes were there) *)
      verdict same spec None
        (match client_hello_buffer_size (firstn 9 stream) with
         | Ok n => n <=? nlen stream | _ => false end)
  end.
