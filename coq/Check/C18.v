(** Correspondence check for C18: one case = one shutdown scenario run on the real
    proxy.ListenAndServe* / proxy.Shutdown with wall-clock observables (milliseconds). *)
From Coq Require Import List NArith Bool.
From Fabio Require Import Lib.Verdict Model.Shutdown Proofs.Shutdown Model.ExitSignals Model.ExitDeregister.
Import ListNotations.
Local Open Scope N_scope.

Definition L (k : kind) (ds : list dur) : leaf := mkleaf k ds.
(* a TCP listener with connections whose handler is stuck (observations: items first, then these) *)
Definition LS (ds stuck : list dur) : leaf := {| lkind := KTcp; litems := ds; lstuck := stuck; lhijacked := [] |}.
(* an HTTP listener with hijacked (websocket) sessions (observations: items first, then these) *)
Definition LH (ds hij : list dur) : leaf := {| lkind := KHttp; litems := ds; lstuck := []; lhijacked := hij |}.

(* what the client of one in-flight item saw *)
Inductive obs :=
| ODone (t : N)    (* the complete, expected answer arrived at t ms after shutdown began *)
| OCut (t : N)     (* the connection / stream was ended by the proxy at t without the answer *)
| OOpen.           (* still open when the scenario was torn down *)

(* what the client of one request of the real-main scripts saw *)
Inductive pobs :=
| PServed (t : N)     (* the complete answer at t *)
| PCutAt (t : N)      (* connected, but the connection ended at t without the answer *)
| PRefused            (* the connect was refused *)
| POpen.              (* still waiting when the script was torn down *)
(* how the fabio process ended *)
Inductive pexit :=
| XRunning            (* still alive when the script was torn down *)
| XClean (t : N)      (* main() returned, status 0, at t *)
| XKilled (t : N).    (* ended by a signal at t *)

Inductive case :=
| CScen (wait : N) (hist : list hop)   (* starts (with the configured listen addresses) and CloseProxy calls, in order *)
        (impl_T : option N)                  (* duration of proxy.Shutdown; None = not back within the hang cap *)
        (probe_at : N)
        (accepted_begin accepted_return : list bool)  (* per server: a connect after begin / after return succeeded *)
        (impl : list (list (list obs)))      (* per server, per leaf, per item *)
        (lo hi : N)                          (* tolerances: measured >= model - lo, measured <= model + hi *)
(* fabio's real main() as a process of its own, driven by real signals: the script of signals sent
   (arrival time, kind), the requests (connect time, time of the upstream's answer; each on a
   connection of its own), the times of plain connects to the proxy and ui listeners; observed: how
   and when the process ended, what each client saw, which connects succeeded.  Times in ms from
   the origin of the script. *)
| CSig (wait : N) (sigs : list event) (reqs : list req) (probes : list N)
       (impl_exit : pexit) (impl_reqs : list pobs) (impl_probes : list bool) (lo hi : N)
(* the same with the consul backend and self-registration on, against an agent of the harness:
   [boot] = the origin of the script on the clock of the registration goroutine (ms since its
   first registration call); the agent refuses registrations from the start / fails every call
   from [down] on (goroutine clock) / holds the deregister call for [hold] ms; [grace] =
   -proxy.deregistergraceperiod *)
| CDereg (wait grace boot : N) (reg_refused : bool) (down : option N) (hold : N)
         (sigs : list event) (reqs : list req) (probes : list N)
         (impl_exit : pexit) (impl_reqs : list pobs) (impl_probes : list bool) (lo hi : N).

Definition near (lo hi m t : N) : bool := (m <=? t + lo) && (t <=? m + hi).

Definition fate_matches (lo hi : N) (f : fate) (o : obs) : bool :=
  match f, o with
  | Done d, ODone t => near lo hi d t
  | Cut (Fin c), OCut t => near lo hi c t
  | Never, OOpen => true
  | Cut Inf, OOpen => true
  | _, _ => false
  end.

Fixpoint all2 {A B} (f : A -> B -> bool) (a : list A) (b : list B) : bool :=
  match a, b with
  | [], [] => true
  | x :: a', y :: b' => f x y && all2 f a' b'
  | _, _ => false
  end.

(* net/http's Shutdown notices idleness by polling (1 ms doubling up to 500 ms, +10% jitter): when a
   reached HTTP listener has tracked work, the return may lag the model by up to one poll interval,
   but never beyond the deadline (the context timer ends the poll) *)
Definition http_poll : N := 600.

Definition ret_matches (lo hi : N) (wait : N) (busy_http : bool) (m : dur) (t : option N) : bool :=
  match m, t with
  | Fin m, Some t =>
      let upper := if busy_http then N.max m (N.min (m + http_poll) wait) else m in
      (m <=? t + lo) && (t <=? upper + hi)
  | Inf, None => true
  | _, _ => false
  end.

(* everything a leaf has open, in the order the observations come: items, stuck handlers, hijacked *)
Definition leaf_model_fates (lr : lresult) : list fate := r_fates lr ++ r_stuck lr ++ r_hijacked lr.

(* ---- the property on the implementation's own observables (independent of the model's
        step programs): nobody is accepted, every item that needs at most wait - margin got its
        complete answer before Shutdown returned (+margin for the client to see it), and
        Shutdown returned within wait + slack, slack = a quarter of the wait, at least 300 ms.
        Servers closed by CloseProxy BEFORE shutdown began are outside clause 2 (their work
        was not in flight when shutdown began) ---- *)
Definition spec_margin : N := 150.
Definition spec_slack (wait : N) : N := N.max 300 (wait / 4).

Definition item_ok (wait : N) (impl_T : option N) (d : dur) (o : obs) : bool :=
  match d with
  | Fin n =>
      if n + spec_margin <=? wait then
        match o with
        | ODone t => match impl_T with Some T => t <=? T + spec_margin | None => true end
        | _ => false
        end
      else true
  | Inf => true
  end.

(* per start, in order: was CloseProxy called for its address later in the history? *)
Fixpoint closed_earlier (h : list hop) : list bool :=
  match h with
  | [] => []
  | HStart a _ :: r =>
      existsb (fun o => match o with HClose a' => addr_eqb a' a | _ => false end) r :: closed_earlier r
  | HStartDuring _ _ :: r => false :: closed_earlier r
  | _ :: r => closed_earlier r
  end.

Definition leaf_open_work (l : leaf) : list dur :=
  litems l ++ map (fun _ => Inf) (lstuck l) ++ lhijacked l.

Definition spec_impl (wait : N) (hist : list hop) (impl_T : option N)
           (acc1 acc2 : list bool) (impl : list (list (list obs))) : bool :=
  forallb negb acc1 && forallb negb acc2
  && all2 (fun (p : server * bool) os => if snd p then true else
             all2 (fun l o => all2 (item_ok wait impl_T) (leaf_open_work l) o) (leaves (fst p)) os)
          (combine (history_servers hist) (closed_earlier hist)) impl
  && match impl_T with Some T => T <=? wait + spec_slack wait | None => false end.

(* finding regions, syntactic on the input:
   2 (F-C18-2): an HTTP listener carries a hijacked session that needs at most wait - margin;
   3 (F-C18-3): a listener is started while Shutdown runs *)
Definition in_region_hijacked (wait : N) (hist : list hop) : bool :=
  existsb (fun s => existsb (fun l => kind_eqb (lkind l) KHttp &&
                                      existsb (fun d => match d with Fin n => n + spec_margin <=? wait | Inf => false end)
                                              (lhijacked l)) (leaves s)) (history_servers hist).

(* ---- real-main scripts ---- *)
Definition qout_matches (lo hi : N) (m : qout) (o : pobs) : bool :=
  match m, o with
  | QRefused, PRefused => true
  | QFate (Done d), PServed t => near lo hi d t
  | QFate (Cut (Fin c)), PCutAt t => near lo hi c t
  | QFate Never, POpen => true
  | QFate (Cut Inf), POpen => true
  | _, _ => false
  end.

(* the clean end may lag the model by net/http's idle poll when the proxy listener had requests
   open, but not beyond the deadline (see [ret_matches]) *)
Definition exit_matches (lo hi : N) (deadline : N) (busy : bool) (m : pend) (x : pexit) : bool :=
  match m, x with
  | ERunning, XRunning => true
  | EClean (Fin T), XClean t =>
      let upper := if busy then N.max T (N.min (T + http_poll) deadline) else T in
      (T <=? t + lo) && (t <=? upper + hi)
  | EKilled k, XKilled t => near lo hi k t
  | _, _ => false
  end.

(* the property on the process's own observables, from the script alone: shutdown begins at the
   first SIGINT/SIGTERM sent.  None sent: the process is still running, every finite request was
   answered, every connect accepted (SIGHUP is ignored).  Otherwise: the process ended cleanly no
   later than wait + slack after it; every request that was in flight then (connected at least the
   margin before) and whose answer was due at least the margin before the end of the wait got its
   complete answer, no later than the margin after the end of the process; every request / connect
   attempted at least the margin after it was refused. *)
Definition sig_spec (wait : N) (sigs : list event) (reqs : list req) (probes : list N)
           (x : pexit) (os : list pobs) (acc : list bool) : bool :=
  match find (fun e => is_term (snd e)) sigs with
  | None =>
      match x with XRunning => true | _ => false end
      && all2 (fun q o => match q_end q, o with
                          | Fin _, PServed _ => true
                          | Inf, POpen => true
                          | _, _ => false end) reqs os
      && all2 (fun _ a => a) probes acc
  | Some (t0, _) =>
      match x with XClean T => T <=? t0 + wait + spec_slack wait | _ => false end
      && all2 (fun q o =>
                 if q_start q + spec_margin <=? t0 then
                   match q_end q with
                   | Fin n =>
                       if n + spec_margin <=? t0 + wait then
                         match o with
                         | PServed t => match x with XClean T => t <=? T + spec_margin | _ => true end
                         | _ => false
                         end
                       else true
                   | Inf => true
                   end
                 else if t0 + spec_margin <=? q_start q then
                   match o with PRefused => true | _ => false end
                 else true) reqs os
      && all2 (fun p a => if t0 + spec_margin <=? p then negb a else true) probes acc
  end.

Definition check_sig (wait : N) (sigs : list event) (reqs : list req) (probes : list N)
           (x : pexit) (os : list pobs) (acc : list bool) (lo hi : N) : N :=
  let work := main_work reqs in
  let ph := listen_phase true wait work sigs in
  let t0 := match drain_start ph with Some t0 => t0 | None => 0 end in
  let busy := negb (match litems (proxy_leaf reqs t0) with [] => true | _ => false end) in
  let same :=
    exit_matches lo hi (t0 + wait) busy (phase_end wait work ph) x
    && all2 (fun q o => qout_matches lo hi (req_outcome_in wait reqs ph q) o) reqs os
    && all2 (fun p a => Bool.eqb (proc_accepts wait work ph p) a) probes acc in
  verdict same (sig_spec wait sigs reqs probes x os acc) None
          (negb (match sigs with [] => true | _ => false end)).

(* the exit handler with the deregistration in front.  Spec from the script alone: shutdown
   begins at the first SIGINT/SIGTERM plus the configured grace period, whatever the agent does.
   Region 4 (F-C18-4): the agent holds the deregister call for at least the margin. *)
Definition dereg_spec (wait grace : N) (sigs : list event) (reqs : list req) (probes : list N)
           (x : pexit) (os : list pobs) (acc : list bool) : bool :=
  sig_spec wait (match first_term sigs with Some t0 => [(t0 + grace, STerm)] | None => [] end)
           reqs probes x os acc.

Definition check_dereg (wait grace boot : N) (refused : bool) (down : option N) (hold : N)
           (sigs : list event) (reqs : list req) (probes : list N)
           (x : pexit) (os : list pobs) (acc : list bool) (lo hi : N) : N :=
  let work := main_work reqs in
  match proc_phase false true (script_agent refused down hold) boot grace sigs with
  | None => v_disagree     (* out of fuel: excluded by C18_deregister_always_answered *)
  | Some ph =>
      let t0 := match drain_start ph with Some t0 => t0 | None => 0 end in
      let busy := negb (match litems (proxy_leaf reqs t0) with [] => true | _ => false end) in
      let same :=
        exit_matches lo hi (t0 + wait) busy (phase_end wait work ph) x
        && all2 (fun q o => qout_matches lo hi (req_outcome_in wait reqs ph q) o) reqs os
        && all2 (fun p a => Bool.eqb (proc_accepts wait work ph p) a) probes acc in
      verdict same (dereg_spec wait grace sigs reqs probes x os acc)
              (if spec_margin <=? hold then Some 4 else None)
              (match first_term sigs with Some _ => true | None => false end)
  end.

Definition check_case (c : case) : N :=
  match c with
  | CDereg wait grace boot refused down hold sigs reqs probes x os acc lo hi =>
      check_dereg wait grace boot refused down hold sigs reqs probes x os acc lo hi
  | CSig wait sigs reqs probes x os acc lo hi => check_sig wait sigs reqs probes x os acc lo hi
  | CScen wait hist impl_T probe_at acc1 acc2 impl lo hi =>
      let srvs := history_servers hist in
      let rs := run_history grpc_prog key_configured wait hist in
      let busy_http :=
        existsb (fun p => match fst p with
                          | SReached _ => existsb (fun l => kind_eqb (lkind l) KHttp &&
                                                            negb (match litems l with [] => true | _ => false end))
                                                  (leaves (snd p))
                          | _ => false end) (combine rs srvs) in
      let same :=
        ret_matches lo hi wait busy_http (history_ret rs) impl_T
        && all2 (fun r a => Bool.eqb (sfate_accepts r probe_at) a) rs acc1
        && all2 (fun r a => Bool.eqb (sfate_accepts r probe_at) a) rs acc2
        && all2 (fun p os =>
                   match fst p with
                   | SReached r => all2 (fun lr o => all2 (fate_matches lo hi) (leaf_model_fates lr) o) (s_leaves r) os
                   | SLost | SLate => (* not reached by Shutdown: nothing closed, nothing cut *)
                       all2 (fun l o => all2 (fate_matches lo hi)
                                             (map untouched (litems l) ++ map Cut (lstuck l) ++ map untouched (lhijacked l)) o)
                            (leaves (snd p)) os
                   | SClosed => (* every tracked connection closed by CloseProxy before shutdown began (time 0 here) *)
                       all2 (fun l o => all2 (fate_matches lo hi)
                                             (map (fun _ => Cut (Fin 0)) (litems l ++ lstuck l) ++ map untouched (lhijacked l)) o)
                            (leaves (snd p)) os
                   end) (combine rs srvs) impl in
      let spec := spec_impl wait hist impl_T acc1 acc2 impl in
      let region : option N :=
        if has_late_start hist then Some 3 else if in_region_hijacked wait hist then Some 2 else None in
      let nontriv := existsb (fun s => existsb (fun l => negb (match leaf_open_work l with [] => true | _ => false end)) (leaves s)) srvs in
      verdict same spec region nontriv
  end.
