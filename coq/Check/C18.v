(** Correspondence check for C18: one case = one shutdown scenario run on the real
    proxy.ListenAndServe* / proxy.Shutdown with wall-clock observables (milliseconds). *)
From Coq Require Import List NArith Bool.
From Fabio Require Import Lib.Verdict Model.Shutdown Proofs.Shutdown.
Import ListNotations.
Local Open Scope N_scope.

Definition L (k : kind) (ds : list dur) : leaf := mkleaf k ds.
(* a TCP listener with connections whose handler is stuck (observations: items first, then these) *)
Definition LS (ds stuck : list dur) : leaf := {| lkind := KTcp; litems := ds; lstuck := stuck |}.

(* what the client of one in-flight item saw *)
Inductive obs :=
| ODone (t : N)    (* the complete, expected answer arrived at t ms after shutdown began *)
| OCut (t : N)     (* the connection / stream was ended by the proxy at t without the answer *)
| OOpen.           (* still open when the scenario was torn down *)

Inductive case :=
| CScen (wait : N) (hist : list hop)   (* starts (with the configured listen addresses) and CloseProxy calls, in order *)
        (impl_T : option N)                  (* duration of proxy.Shutdown; None = not back within the hang cap *)
        (probe_at : N)
        (accepted_begin accepted_return : list bool)  (* per server: a connect after begin / after return succeeded *)
        (impl : list (list (list obs)))      (* per server, per leaf, per item *)
        (lo hi : N).                         (* tolerances: measured >= model - lo, measured <= model + hi *)

Definition near (lo hi m t : N) : bool := (m <=? t + lo) && (t <=? m + hi).

Definition fate_matches (lo hi : N) (f : fate) (o : obs) : bool :=
  match f, o with
  | Done d, ODone t => near lo hi d t
  | Cut (Fin c), OCut t => near lo hi c t
  | Never, OOpen => true
  | Cut Inf, OOpen => true
  | _, _ => false
  end.

Fixpoint all2 {A B} (f : A -> B -> bool) (a : list A) (b : list B) : bool :=
  match a, b with
  | [], [] => true
  | x :: a', y :: b' => f x y && all2 f a' b'
  | _, _ => false
  end.

Definition ret_matches (lo hi : N) (m : dur) (t : option N) : bool :=
  match m, t with
  | Fin m, Some t => near lo hi m t
  | Inf, None => true
  | _, _ => false
  end.

(* ---- the property on the implementation's own observables (independent of the model's
        step programs): nobody is accepted, every item that needs at most wait - 50 ms got its
        complete answer before Shutdown returned (+margin for the client to see it), and
        Shutdown returned within wait + 2 s.  Servers closed by CloseProxy BEFORE shutdown began
        are outside clause 2 (their work was not in flight when shutdown began) ---- *)
Definition spec_margin : N := 150.
Definition spec_slack : N := 2000.

Definition item_ok (wait : N) (impl_T : option N) (d : dur) (o : obs) : bool :=
  match d with
  | Fin n =>
      if n + spec_margin <=? wait then
        match o with
        | ODone t => match impl_T with Some T => t <=? T + spec_margin | None => true end
        | _ => false
        end
      else true
  | Inf => true
  end.

(* per start, in order: was CloseProxy called for its address later in the history? *)
Fixpoint closed_earlier (h : list hop) : list bool :=
  match h with
  | [] => []
  | HStart a _ :: r =>
      existsb (fun o => match o with HClose a' => addr_eqb a' a | _ => false end) r :: closed_earlier r
  | _ :: r => closed_earlier r
  end.

Definition spec_impl (wait : N) (hist : list hop) (impl_T : option N)
           (acc1 acc2 : list bool) (impl : list (list (list obs))) : bool :=
  forallb negb acc1 && forallb negb acc2
  && all2 (fun (p : server * bool) os => if snd p then true else
             all2 (fun l o => all2 (item_ok wait impl_T) (litems l ++ map (fun _ => Inf) (lstuck l)) o) (leaves (fst p)) os)
          (combine (history_servers hist) (closed_earlier hist)) impl
  && match impl_T with Some T => T <=? wait + spec_slack | None => false end.

(* no finding region: F-C18-1 (gRPC Shutdown ignored its deadline) was repaired by fix 72215e8;
   by C18_bounded the model satisfies the bound for every input *)
Definition check_case (c : case) : N :=
  match c with
  | CScen wait hist impl_T probe_at acc1 acc2 impl lo hi =>
      let srvs := history_servers hist in
      let rs := run_history grpc_prog key_configured wait hist in
      let same :=
        ret_matches lo hi (history_ret rs) impl_T
        && all2 (fun r a => Bool.eqb (sfate_accepts r probe_at) a) rs acc1
        && all2 (fun r a => Bool.eqb (sfate_accepts r probe_at) a) rs acc2
        && all2 (fun p os =>
                   match fst p with
                   | SReached r => all2 (fun lr o => all2 (fate_matches lo hi) (r_fates lr ++ r_stuck lr) o) (s_leaves r) os
                   | SLost => (* not reached by Shutdown: nothing closed, nothing cut *)
                       all2 (fun l o => all2 (fate_matches lo hi) (map untouched (litems l) ++ map Cut (lstuck l)) o)
                            (leaves (snd p)) os
                   | SClosed => (* every connection closed by CloseProxy before shutdown began (time 0 here) *)
                       all2 (fun l o => all2 (fate_matches lo hi) (map (fun _ => Cut (Fin 0)) (litems l ++ lstuck l)) o)
                            (leaves (snd p)) os
                   end) (combine rs srvs) impl in
      let spec := spec_impl wait hist impl_T acc1 acc2 impl in
      let region : option N := None in
      let nontriv := existsb (fun s => existsb (fun l => negb (match litems l ++ lstuck l with [] => true | _ => false end)) (leaves s)) srvs in
      verdict same spec region nontriv
  end.
