(** Correspondence check for C18: one case = one shutdown scenario run on the real
    proxy.ListenAndServe* / proxy.Shutdown with wall-clock observables (milliseconds). *)
From Coq Require Import List NArith Bool.
From Fabio Require Import Lib.Verdict Model.Shutdown Proofs.Shutdown.
Import ListNotations.
Local Open Scope N_scope.

Definition L (k : kind) (ds : list dur) : leaf := mkleaf k ds.
(* a TCP listener with connections whose handler is stuck (observations: items first, then these) *)
Definition LS (ds stuck : list dur) : leaf := {| lkind := KTcp; litems := ds; lstuck := stuck; lhijacked := [] |}.
(* an HTTP listener with hijacked (websocket) sessions (observations: items first, then these) *)
Definition LH (ds hij : list dur) : leaf := {| lkind := KHttp; litems := ds; lstuck := []; lhijacked := hij |}.

(* what the client of one in-flight item saw *)
Inductive obs :=
| ODone (t : N)    (* the complete, expected answer arrived at t ms after shutdown began *)
| OCut (t : N)     (* the connection / stream was ended by the proxy at t without the answer *)
| OOpen.           (* still open when the scenario was torn down *)

Inductive case :=
| CScen (wait : N) (hist : list hop)   (* starts (with the configured listen addresses) and CloseProxy calls, in order *)
        (impl_T : option N)                  (* duration of proxy.Shutdown; None = not back within the hang cap *)
        (probe_at : N)
        (accepted_begin accepted_return : list bool)  (* per server: a connect after begin / after return succeeded *)
        (impl : list (list (list obs)))      (* per server, per leaf, per item *)
        (lo hi : N).                         (* tolerances: measured >= model - lo, measured <= model + hi *)

Definition near (lo hi m t : N) : bool := (m <=? t + lo) && (t <=? m + hi).

Definition fate_matches (lo hi : N) (f : fate) (o : obs) : bool :=
  match f, o with
  | Done d, ODone t => near lo hi d t
  | Cut (Fin c), OCut t => near lo hi c t
  | Never, OOpen => true
  | Cut Inf, OOpen => true
  | _, _ => false
  end.

Fixpoint all2 {A B} (f : A -> B -> bool) (a : list A) (b : list B) : bool :=
  match a, b with
  | [], [] => true
  | x :: a', y :: b' => f x y && all2 f a' b'
  | _, _ => false
  end.

(* net/http's Shutdown notices idleness by polling (1 ms doubling up to 500 ms, +10% jitter): when a
   reached HTTP listener has tracked work, the return may lag the model by up to one poll interval,
   but never beyond the deadline (the context timer ends the poll) *)
Definition http_poll : N := 600.

Definition ret_matches (lo hi : N) (wait : N) (busy_http : bool) (m : dur) (t : option N) : bool :=
  match m, t with
  | Fin m, Some t =>
      let upper := if busy_http then N.max m (N.min (m + http_poll) wait) else m in
      (m <=? t + lo) && (t <=? upper + hi)
  | Inf, None => true
  | _, _ => false
  end.

(* everything a leaf has open, in the order the observations come: items, stuck handlers, hijacked *)
Definition leaf_model_fates (lr : lresult) : list fate := r_fates lr ++ r_stuck lr ++ r_hijacked lr.

(* ---- the property on the implementation's own observables (independent of the model's
        step programs): nobody is accepted, every item that needs at most wait - margin got its
        complete answer before Shutdown returned (+margin for the client to see it), and
        Shutdown returned within wait + slack, slack = a quarter of the wait, at least 300 ms.
        Servers closed by CloseProxy BEFORE shutdown began are outside clause 2 (their work
        was not in flight when shutdown began) ---- *)
Definition spec_margin : N := 150.
Definition spec_slack (wait : N) : N := N.max 300 (wait / 4).

Definition item_ok (wait : N) (impl_T : option N) (d : dur) (o : obs) : bool :=
  match d with
  | Fin n =>
      if n + spec_margin <=? wait then
        match o with
        | ODone t => match impl_T with Some T => t <=? T + spec_margin | None => true end
        | _ => false
        end
      else true
  | Inf => true
  end.

(* per start, in order: was CloseProxy called for its address later in the history? *)
Fixpoint closed_earlier (h : list hop) : list bool :=
  match h with
  | [] => []
  | HStart a _ :: r =>
      existsb (fun o => match o with HClose a' => addr_eqb a' a | _ => false end) r :: closed_earlier r
  | HStartDuring _ _ :: r => false :: closed_earlier r
  | _ :: r => closed_earlier r
  end.

Definition leaf_open_work (l : leaf) : list dur :=
  litems l ++ map (fun _ => Inf) (lstuck l) ++ lhijacked l.

Definition spec_impl (wait : N) (hist : list hop) (impl_T : option N)
           (acc1 acc2 : list bool) (impl : list (list (list obs))) : bool :=
  forallb negb acc1 && forallb negb acc2
  && all2 (fun (p : server * bool) os => if snd p then true else
             all2 (fun l o => all2 (item_ok wait impl_T) (leaf_open_work l) o) (leaves (fst p)) os)
          (combine (history_servers hist) (closed_earlier hist)) impl
  && match impl_T with Some T => T <=? wait + spec_slack wait | None => false end.

(* finding regions, syntactic on the input:
   2 (F-C18-2): an HTTP listener carries a hijacked session that needs at most wait - margin;
   3 (F-C18-3): a listener is started while Shutdown runs *)
Definition in_region_hijacked (wait : N) (hist : list hop) : bool :=
  existsb (fun s => existsb (fun l => kind_eqb (lkind l) KHttp &&
                                      existsb (fun d => match d with Fin n => n + spec_margin <=? wait | Inf => false end)
                                              (lhijacked l)) (leaves s)) (history_servers hist).

Definition check_case (c : case) : N :=
  match c with
  | CScen wait hist impl_T probe_at acc1 acc2 impl lo hi =>
      let srvs := history_servers hist in
      let rs := run_history grpc_prog key_configured wait hist in
      let busy_http :=
        existsb (fun p => match fst p with
                          | SReached _ => existsb (fun l => kind_eqb (lkind l) KHttp &&
                                                            negb (match litems l with [] => true | _ => false end))
                                                  (leaves (snd p))
                          | _ => false end) (combine rs srvs) in
      let same :=
        ret_matches lo hi wait busy_http (history_ret rs) impl_T
        && all2 (fun r a => Bool.eqb (sfate_accepts r probe_at) a) rs acc1
        && all2 (fun r a => Bool.eqb (sfate_accepts r probe_at) a) rs acc2
        && all2 (fun p os =>
                   match fst p with
                   | SReached r => all2 (fun lr o => all2 (fate_matches lo hi) (leaf_model_fates lr) o) (s_leaves r) os
                   | SLost | SLate => (* not reached by Shutdown: nothing closed, nothing cut *)
                       all2 (fun l o => all2 (fate_matches lo hi)
                                             (map untouched (litems l) ++ map Cut (lstuck l) ++ map untouched (lhijacked l)) o)
                            (leaves (snd p)) os
                   | SClosed => (* every tracked connection closed by CloseProxy before shutdown began (time 0 here) *)
                       all2 (fun l o => all2 (fate_matches lo hi)
                                             (map (fun _ => Cut (Fin 0)) (litems l ++ lstuck l) ++ map untouched (lhijacked l)) o)
                            (leaves (snd p)) os
                   end) (combine rs srvs) impl in
      let spec := spec_impl wait hist impl_T acc1 acc2 impl in
      let region : option N :=
        if has_late_start hist then Some 3 else if in_region_hijacked wait hist then Some 2 else None in
      let nontriv := existsb (fun s => existsb (fun l => negb (match leaf_open_work l with [] => true | _ => false end)) (leaves s)) srvs in
      verdict same spec region nontriv
  end.
