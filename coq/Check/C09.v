(** Correspondence check for C09, evaluated by [vm_compute] on the cases the Go
    harness wrote (what the real proxies delivered next to the scripts that produced it). *)
From Coq Require Import List NArith Bool.
From Fabio Require Import Lib.Outcome Lib.Bytes Lib.Verdict Model.ClientHello Model.BufioR Model.Tunnel Model.WsHijack Model.ConnDeadline.
Import ListNotations.
Local Open Scope N_scope.
Local Open Scope outcome_scope.

Inductive bop := BPeek (n : N) | BRead (n : N) | BReadFull (n : N).

Inductive case :=
(* one scripted connection through the real ServeTCP / websocket relay.
   [stream]/[segs]: the client's bytes and their segmentation; [fin]: 0 = the client's EOF
   comes in a Read of its own, k = the Read returning its last bytes also returns error k
   (1 = io.EOF, 9 = another error); [cw_in]: the client connection handed to the proxy has a
   CloseWrite method; [o_ended]: the tunnel returned by itself before the harness stopped it; [o_eof]: the proxy
   closed the write side of the client connection (the client saw EOF); [cwait]: the client waits
   for the whole reply before it ends; [ce]: how it ends; [ut]/[reply]/[ue]: when the
   upstream sends its output and whether it closes afterwards; [rseg1]: the upstream
   pauses after that many bytes of its output; [whead]: length of the websocket
   handshake head inside [reply]; observed: [conn] an upstream connection was made,
   [o_up]/[o_cl] the bytes that arrived at the upstream / at the client. *)
| CTunnel (k : kind) (pp is4 : bool) (caddr saddr cport sport : str)
          (stream : str) (segs : list N) (fin : N) (cw_in cwait : bool) (ce : cend) (ut : utrig)
          (reply : str) (rseg1 whead : N) (ue : uend)
          (conn : bool) (o_up o_cl : str) (o_ended o_eof : bool)
(* "the client finishes first while the proxy still holds bytes for a slow upstream": the
   client sends [head] (segmented by [hsegs]; the ClientHello on tcp+sni, empty otherwise) and
   then [n] more bytes (several MiB, in segments of their own), closes; the upstream reads
   slowly and never replies.  Only the structure comes here: [o_head] = the first bytes the
   upstream received (up to PROXY line + head), [o_n] = how many it received in all,
   [o_prefix] = they are a prefix of PROXY line ++ head ++ payload (compared in Go),
   [o_clean] = its stream ended with a clean EOF rather than a reset.  The model runs on the
   head and a short stand-in for the payload; by C09_copy_preserves_stream the copy loop
   treats the payload uniformly, so the expected length is the stand-in's result + n - stand-in. *)
| CBulk (k : kind) (pp is4 : bool) (caddr saddr cport sport : str)
        (head : str) (hsegs : list N) (n : N)
        (conn : bool) (o_head : str) (o_n : N) (o_prefix o_clean : bool)
(* the bufio.Reader model against the real bufio.Reader: operations and (data, error kind,
   Buffered() afterwards) of each *)
| CBufio (cap : N) (stream : str) (segs : list N) (ops : list bop) (res : list (str * N * N))
(* websocket, the client does not wait for the 101: [req] is the upgrade request as the client
   sends it (cut after [rsplit] bytes into two segments if 0 < rsplit < |req|); the first
   [nearly] segments of [stream] leave before the client has seen the 101, the first of them in
   the same segment as (the rest of) the request; the other fields as in CTunnel.  Whether the
   http server's one-byte background read got to run before the Hijack cannot be observed: the
   model is evaluated for both. *)
| CWsEarly (req : str) (rsplit : N) (stream : str) (segs : list N) (nearly : N) (fin : N) (cw_in cwait : bool)
           (ce : cend) (ut : utrig) (reply : str) (rseg1 whead : N) (ue : uend)
           (conn : bool) (o_up o_cl : str) (o_ended o_eof : bool)
(* the listener's timeouts on a tunnelled connection (tcp paths, through the real tcp.Server):
   [rt]/[wt] = ReadTimeout / WriteTimeout of the listener in ns, [log] = every Read and Write the
   server's wrapper issued on the scripted (inner) connection during a conversation that outlives
   the timeouts, with the deadline of its direction in force when it was called (Model/ConnDeadline.v,
   [dl_obs]; times in ns since the connection was made).  The streams of the same connection
   come as a CTunnel case of their own. *)
| CDeadlines (rt wt : N) (log : list dl_obs).

Definition DL := Build_dl_obs.

Definition agrees_obs (conn : bool) (o_up o_cl : str) (o_ended o_eof : bool) (e : expectation) : bool :=
  Bool.eqb conn (e_conn e)
  && within o_up (e_up e) (e_up_lo e) (nlen' (e_up e))
  && within o_cl (e_cl e) (e_cl_lo e) (e_cl_hi e)
  && match e_ends e with Some b => Bool.eqb o_ended b | None => true end
  && match e_cl_eof e with Some b => Bool.eqb o_eof b | None => true end.

Fixpoint run_ops (b : breader) (ops : list bop) : outcome (list (str * N * N)) :=
  match ops with
  | [] => Ok []
  | op :: rest =>
      do '(d, e, b1) <- match op with
                        | BPeek n => peek b (N.to_nat n)
                        | BRead n => Ok (bread b (N.to_nat n))
                        | BReadFull n => read_full b (N.to_nat n)
                        end;
      do tl <- run_ops b1 rest;
      Ok ((d, e, N.of_nat (buffered b1)) :: tl)
  end.

Definition res_eqb (a b : str * N * N) : bool :=
  let '(d1, e1, n1) := a in let '(d2, e2, n2) := b in beq d1 d2 && (e1 =? e2) && (n1 =? n2).

Definition check_case (c : case) : N :=
  match c with
  | CTunnel k pp is4 caddr saddr cport sport stream segs fin cw_in cwait ce ut reply rseg1 whead ue conn o_up o_cl o_ended o_eof =>
      let line := proxy_line is4 caddr saddr cport sport in
      let ss := split_segs stream segs in
      let spec := spec_b k pp line stream cwait ce ut reply ue o_up o_cl in
      (* F-C09-7 (open): syntactic on the scenario - upstream half-closes with client bytes still to
         come, accepted connection without CloseWrite *)
      let region :=
        if region_upstream_half_close (spec_upstream k pp line stream)
             (match k with KWs => cw_in | _ => wrapper_cw cw_in end) ut ue then Some 1 else None in
      let agrees e := Bool.eqb conn (e_conn e)
                      && within o_up (e_up e) (e_up_lo e) (nlen' (e_up e))
                      && within o_cl (e_cl e) (e_cl_lo e) (e_cl_hi e)
                      && match e_ends e with Some b => Bool.eqb o_ended b | None => true end
                      && match e_cl_eof e with Some b => Bool.eqb o_eof b | None => true end in
      (* tcp paths: the handler sees the tcp.Server wrapper around the scripted connection *)
      let cw_in := match k with KWs => cw_in | _ => wrapper_cw cw_in end in
      match scenario_expect k pp line ss fin cw_in cwait ce ut reply rseg1 whead ue with
      | Ok e =>
          verdict (agrees e) spec region (e_conn e && (0 <? nlen' (e_up e)))
      | _ => verdict false spec region true      (* the code neither panics nor runs out of fuel here *)
      end
  | CBulk k pp is4 caddr saddr cport sport head hsegs n conn o_head o_n o_prefix o_clean =>
      let line := proxy_line is4 caddr saddr cport sport in
      let stand := symseq 0 (N.min n 16) in
      let hs := match head with [] => [] | _ => split_segs head hsegs end in
      let ss := hs ++ match stand with [] => [] | _ => [stand] end in
      (* specification: the finisher's whole stream, then EOF (C09_finisher_fully_delivered) *)
      let sup := spec_upstream k pp line head in
      let spec := o_prefix && o_clean && (o_n =? nlen' sup + n) && beq o_head sup in
      let region : option N := None in
      match scenario_expect k pp line ss 0 true false CClose UOnEOF [] 0 0 UStay with
      | Ok e =>
          let pre := firstn (length (e_up e) - length stand) (e_up e) in
          let same := Bool.eqb conn (e_conn e)
                      && (if e_conn e
                          then beq o_head pre && (o_n =? nlen' pre + n) && o_prefix && o_clean
                               && (e_up_lo e =? nlen' (e_up e))
                          else (o_n =? 0)) in
          verdict same spec region true
      | _ => verdict false spec region true
      end
  | CBufio cap stream segs ops res =>
      let b := new_reader (N.to_nat cap) (split_segs stream segs) in
      match run_ops b ops with
      | Ok m => verdict (list_eqb res_eqb m res) true None true
      | _ => verdict false true None true
      end
  | CWsEarly req rsplit stream segs nearly fin cw_in cwait ce ut reply rseg1 whead ue conn o_up o_cl o_ended o_eof =>
      let ss := split_segs stream segs in
      (* specification: the transparent tunnel on the client's WHOLE stream, early bytes included *)
      let spec := spec_b KWs false [] stream cwait ce ut reply ue o_up o_cl in
      let region := if region_upstream_half_close stream cw_in ut ue then Some 1 else None in
      let model bg := scenario_expect_ws_early req rsplit ss nearly bg fin cw_in cwait ce ut reply rseg1 whead ue in
      match model false, model true with
      | Ok e0, Ok e1 =>
          verdict (agrees_obs conn o_up o_cl o_ended o_eof e0 || agrees_obs conn o_up o_cl o_ended o_eof e1)
                  spec region (e_conn e0 && (0 <? nlen' (e_up e0)))
      | _, _ => verdict false spec region true
      end
  | CDeadlines rt wt log =>
      (* specification: an operation is cut only if it had been waiting for the whole timeout
         itself (dl_agrees_meets_spec: the model never breaks it) *)
      verdict (dl_agrees rt wt fresh_conn log) (dl_spec rt wt log) None
              ((0 <? rt) || (0 <? wt))
  end.
