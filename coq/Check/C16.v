(** Correspondence check for C16.  Depends on the model only (no proofs). *)
From Coq Require Import String List NArith Bool.
From Fabio Require Import Lib.Outcome Lib.Bytes Lib.Verdict Model.GrpcPool.
From Fabio Require Model.Glob Model.Lookup.
Import ListNotations.
Local Open Scope N_scope.

Definition md_eqb (a b : md) : bool :=
  list_eqb (fun x y => beq (fst x) (fst y) && list_eqb beq (snd x) (snd y)) a b.
Definition msgs_eqb : list str -> list str -> bool := list_eqb beq.
Definition bview_eqb (a b : bview) : bool :=
  beq (bv_method a) (bv_method b) && md_eqb (bv_md a) (bv_md b) && msgs_eqb (bv_msgs a) (bv_msgs b).
Definition cview_eqb (a b : cview) : bool :=
  md_eqb (cv_hdr a) (cv_hdr b) && msgs_eqb (cv_msgs a) (cv_msgs b) && md_eqb (cv_trl a) (cv_trl b)
  && (cv_code a =? cv_code b) && beq (cv_msg a) (cv_msg b).
Definition setN_eqb (a b : list N) : bool :=
  forallb (fun x => memN x b) a && forallb (fun x => memN x a) b.
Definition pool_has (p : list (url * N)) (kc : url * N) : bool :=
  match assoc (fst kc) p with Some c => c =? snd kc | None => false end.
Definition pool_eqb (a b : list (url * N)) : bool :=
  Nat.eqb (List.length a) (List.length b) && forallb (pool_has b) a && forallb (pool_has a) b.

(* ---- the property's reading of "a route that matches", without the lookup algorithm (no
   host order, no route order): every route filed under a host key that matches the host named
   by dsthost -- as the glob library matches it, or literally when glob matching is disabled;
   case-insensitively, :80 removed -- or under no host, whose path is a prefix of the method
   path, is a candidate; a host-less candidate is taken only when no host candidate exists ---- *)
Definition key_allowed (noglob : bool) (host k : str) : bool :=
  let nk := Lookup.normalize_host k false in
  let nh := Lookup.normalize_host host false in
  if noglob then beq nk nh else Glob.gobwas_match nk nh.
Definition cands_of (t : table) (path : str) (keyok : str -> bool) : list (list url) :=
  flat_map (fun hr => if keyok (fst hr)
                      then map snd (filter (fun r : route => has_prefix path (fst r)) (snd hr))
                      else []) t.
Definition host_cands (t : table) (noglob : bool) (host path : str) : list (list url) :=
  cands_of t path (fun k => negb (beq k []) && key_allowed noglob host k).
Definition hostless_cands (t : table) (path : str) : list (list url) :=
  cands_of t path (fun k => beq k []).
Definition no_candidate (cs : list (list url)) : bool :=
  forallb (fun ts => match ts with [] => true | _ => false end) cs.
(* [u] is a legitimate backend / nobody is *)
Definition routed_ok (t : table) (noglob : bool) (host path : str) (u : url) : bool :=
  let hc := host_cands t noglob host path in
  if no_candidate hc then existsb (mem u) (hostless_cands t path) else existsb (mem u) hc.
Definition unrouted_ok (t : table) (noglob : bool) (host path : str) : bool :=
  no_candidate (host_cands t noglob host path) && no_candidate (hostless_cands t path).

Inductive lres := LTarget (u : url) | LNone | LErr.

Record pobs := mkpobs { po_got : option N; po_pool : list (url * N); po_shut : list N }.
Record cnt := mkcnt { cn_url : url; cn_begun : N; cn_ended : N }.
Inductive sstep := SCall (u : option url) | SSetTable (urls : list url) | STick.

Inductive case :=
(* GrpcProxyInterceptor.lookup on the live table [t] *)
| CLookup (t : table) (noglob : bool) (m : option md) (upath : option str) (impl : lres)
(* a history on the real pool from the empty pool and a table with targets [urls0];
   after every operation: connection returned, pool contents, connections in Shutdown *)
| CPool (urls0 : list url) (ops : list pop) (obs : list pobs) (final_shut : list N)
(* one call through the proxy: backend reached and what it saw, what the caller saw *)
| CCall (t : table) (noglob : bool) (ci : callin) (chosen : option url) (bv : option bview) (cv : cview)
(* the calls of one proxy as a history, with table changes and real cleanup ticks:
   connections begun / ended at each backend after every step *)
| CSession (steps : list sstep) (obs : list (list cnt))
(* one unary call through a server built by the real newGrpcProxy with limits [rx]/[tx]:
   request of [req] bytes, scripted response of [resp] bytes; did the backend receive the
   request byte for byte, did the caller receive the response byte for byte, status code *)
| CLimit (rx tx req resp : N) (backend_got caller_got : bool) (code : N).

(* ---- CPool ---- *)
Fixpoint pool_same (st : list url * pstate) (ops : list pop) (obs : list pobs) : bool :=
  match ops, obs with
  | [], [] => true
  | o :: ro, b :: rb =>
      let st' := p_step st o in
      let got := match o with PGet u => Some (snd (p_get (snd st) u)) | _ => None end in
      opt_eqb N.eqb got (po_got b)
      && pool_eqb (p_pool (snd st')) (po_pool b)
      && setN_eqb (p_shut (snd st')) (po_shut b)
      && pool_same st' ro rb
  | _, _ => false
  end.

(* the property on the observations alone: a live pooled connection is the one handed out;
   after a tick nothing unrouted or shut down is pooled, what left the pool is closed, and
   routed live connections are still there; nothing else touches the pool *)
Fixpoint pool_spec (urls : list url) (prev : pobs) (ops : list pop) (obs : list pobs) : bool :=
  match ops, obs with
  | [], [] => true
  | o :: ro, b :: rb =>
      (match o with
       | PGet u =>
           match po_got b with
           | None => false
           | Some g =>
               match assoc u (po_pool prev) with
               | Some c => if memN c (po_shut prev) then negb (g =? c) else g =? c
               | None => negb (existsb (fun kc => snd kc =? g) (po_pool prev))
               end
               && pool_has (po_pool b) (u, g)
           end
       | PTick =>
           forallb (fun kc => mem (fst kc) urls && negb (memN (snd kc) (po_shut b))) (po_pool b)
           && forallb (fun kc => pool_has (po_pool b) kc || memN (snd kc) (po_shut b)) (po_pool prev)
           && forallb (fun kc => implb (mem (fst kc) urls && negb (memN (snd kc) (po_shut prev)))
                                       (pool_has (po_pool b) kc)) (po_pool prev)
       | _ => pool_eqb (po_pool prev) (po_pool b)
       end)
      && pool_spec (match o with PSetTable t => t | _ => urls end) b ro rb
  | _, _ => false
  end.

Definition is_get (o : pop) : bool := match o with PGet _ => true | _ => false end.
Definition is_tick (o : pop) : bool := match o with PTick => true | _ => false end.

(* ---- CSession ---- *)
Definition sstep_pop (s : sstep) : list pop :=
  match s with
  | SCall (Some u) => [PGet u]
  | SCall None => []
  | SSetTable t => [PSetTable t]
  | STick => [PTick]
  end.
Fixpoint sess_same (st : list url * pstate) (steps : list sstep) (obs : list (list cnt)) : bool :=
  match steps, obs with
  | [], [] => true
  | s :: rs, b :: rb =>
      let st' := p_run st (sstep_pop s) in
      forallb (fun c => (cn_begun c =? count_dials (snd st') (cn_url c))
                        && (cn_ended c =? count_closed (snd st') (cn_url c))) b
      && sess_same st' rs rb
  | _, _ => false
  end.

Definition cnt_of (b : list cnt) (u : url) : N * N :=
  match find (fun c => beq (cn_url c) u) b with
  | Some c => (cn_begun c, cn_ended c)
  | None => (0, 0)
  end.
(* on the observations alone: a call to a backend that has a connection open opens none, a
   call to one that has none opens exactly one, nobody else is contacted; a call without a
   route contacts nobody; a tick ends every connection of a backend outside the table and
   none of a backend inside *)
Fixpoint sess_spec (urls : list url) (prev : list cnt) (steps : list sstep) (obs : list (list cnt)) : bool :=
  match steps, obs with
  | [], [] => true
  | s :: rs, b :: rb =>
      forallb (fun c =>
        let '(pb, pe) := cnt_of prev (cn_url c) in
        match s with
        | SCall (Some u) =>
            if beq u (cn_url c)
            then (cn_begun c =? (if pe <? pb then pb else pb + 1)) && (cn_ended c =? pe)
            else (cn_begun c =? pb) && (cn_ended c =? pe)
        | STick =>
            (cn_begun c =? pb) && (cn_ended c =? (if mem (cn_url c) urls then pe else pb))
        | _ => (cn_begun c =? pb) && (cn_ended c =? pe)
        end) b
      && Nat.eqb (List.length b) (List.length prev)
      && sess_spec (match s with SSetTable t => t | _ => urls end) b rs rb
  | _, _ => false
  end.

(* ---- CCall ---- *)
Definition expected_cview (sc : script) : cview :=
  mkcview (match sc_msgs sc with [] => [] | _ => sc_hdr sc end) (sc_msgs sc) (sc_trl sc) (sc_code sc)
          (if sc_code sc =? 0 then [] else sc_msg sc).

Definition check_case (c : case) : N :=
  match c with
  | CLookup t noglob m upath impl =>
      if negb (table_domain t) then v_disagree else
      let r := icpt_lookup t noglob m upath in
      let same := match r, impl with
                  | None, LErr => true
                  | Some None, LNone => true
                  | Some (Some ts), LTarget u => mem u ts
                  | _, _ => false
                  end in
      let spec := match m, upath with
                  | Some m, Some p =>
                      host_domain (dsthost m) &&
                      match impl with
                      | LTarget u => routed_ok t noglob (dsthost m) p u
                      | LNone => unrouted_ok t noglob (dsthost m) p
                      | LErr => false
                      end
                  | _, _ => match impl with LErr => true | _ => false end
                  end in
      let nontriv := match r with Some (Some _) => true | _ => match m with Some m => negb (beq (dsthost m) []) | None => false end end in
      verdict same spec None nontriv
  | CPool urls0 ops obs final_shut =>
      let same := pool_same (urls0, p_init) ops obs
                  && setN_eqb (p_shut (snd (p_run (urls0, p_init) ops))) final_shut in
      let spec := pool_spec urls0 (mkpobs None [] []) ops obs in
      verdict same spec None (existsb is_get ops && existsb is_tick ops)
  | CCall t noglob ci chosen bv cv =>
      if negb (table_domain t) then v_disagree else
      let (mb, mc) := call_outcome t noglob ci in
      let same := match mb, chosen, bv with
                  | Some (ts, b), Some u, Some b' => mem u ts && bview_eqb b b'
                  | None, None, None => true
                  | _, _, _ => false
                  end && cview_eqb mc cv in
      let sc := ci_script ci in
      let spec := match chosen, bv, ci_upath ci with
                  | Some u, Some b', Some p =>
                      host_domain (dsthost (ci_md ci)) && routed_ok t noglob (dsthost (ci_md ci)) p u
                      && bview_eqb b' (mkbview (ci_method ci) (ci_md ci) (if sc_mode sc =? 2 then [] else ci_msgs ci))
                      && cview_eqb cv (expected_cview sc)
                  | None, None, Some p =>
                      host_domain (dsthost (ci_md ci)) && unrouted_ok t noglob (dsthost (ci_md ci)) p
                      && (cv_code cv =? code_not_found) && beq (cv_msg cv) (bs "no route found")
                      && match cv_msgs cv with [] => true | _ => false end
                  | None, None, None => cv_code cv =? code_internal
                  | _, _, _ => false
                  end in
      verdict same spec None (match chosen with Some _ => true | None => negb (match t with [] => true | _ => false end) end)
  | CLimit rx tx req resp bg cg code =>
      let m := relay_sized rx tx req resp in
      let same := Bool.eqb bg (sz_backend_got m) && Bool.eqb cg (sz_caller_got m) && (code =? sz_code m) in
      let spec := Bool.eqb bg (req <=? rx)
                  && Bool.eqb cg ((req <=? rx) && (resp <=? tx) && (resp <=? rx))
                  && Bool.eqb (code =? 0) cg in
      let between := fun x => ((N.min rx tx <? x) && (x <=? N.max rx tx)) in
      verdict same spec None (negb (rx =? tx) && (between req || between resp))
  | CSession steps obs =>
      let same := sess_same ([], p_init) steps obs in
      let spec := match obs with
                  | [] => true
                  | b0 :: _ => sess_spec [] (map (fun c => mkcnt (cn_url c) 0 0) b0) steps obs
                  end in
      verdict same spec None true
  end.
