(** Correspondence check for C16.  Depends on the model only (no proofs). *)
From Coq Require Import String List NArith Bool.
From Fabio Require Import Lib.Outcome Lib.Bytes Lib.Verdict Model.GrpcPool Model.GrpcTransport Model.GrpcKeepalive Model.GrpcListeners Model.GrpcInFlight.
From Fabio Require Model.Glob Model.Lookup.
Import ListNotations.
Local Open Scope N_scope.

Definition md_eqb (a b : md) : bool :=
  list_eqb (fun x y => beq (fst x) (fst y) && list_eqb beq (snd x) (snd y)) a b.
Definition msgs_eqb : list str -> list str -> bool := list_eqb beq.
Definition bview_eqb (a b : bview) : bool :=
  beq (bv_method a) (bv_method b) && md_eqb (bv_md a) (bv_md b) && msgs_eqb (bv_msgs a) (bv_msgs b).
Definition cview_eqb (a b : cview) : bool :=
  md_eqb (cv_hdr a) (cv_hdr b) && msgs_eqb (cv_msgs a) (cv_msgs b) && md_eqb (cv_trl a) (cv_trl b)
  && (cv_code a =? cv_code b) && beq (cv_msg a) (cv_msg b).
Definition setN_eqb (a b : list N) : bool :=
  forallb (fun x => memN x b) a && forallb (fun x => memN x a) b.
Definition pool_has (p : list (url * N)) (kc : url * N) : bool :=
  match assoc (fst kc) p with Some c => c =? snd kc | None => false end.
Definition pool_eqb (a b : list (url * N)) : bool :=
  Nat.eqb (List.length a) (List.length b) && forallb (pool_has b) a && forallb (pool_has a) b.

(* ---- the property's reading of "a route that matches", without the lookup algorithm (no
   host order, no route order): every route filed under a host key that matches the host named
   by dsthost -- as the glob library matches it, or literally when glob matching is disabled;
   case-insensitively, :80 removed -- or under no host, whose path is a prefix of the method
   path, is a candidate; a host-less candidate is taken only when no host candidate exists ---- *)
Definition key_allowed (noglob : bool) (host k : str) : bool :=
  let nk := Lookup.normalize_host k false in
  let nh := Lookup.normalize_host host false in
  if noglob then beq nk nh else Glob.gobwas_match nk nh.
Definition cands_of (t : table) (path : str) (keyok : str -> bool) : list (list url) :=
  flat_map (fun hr => if keyok (fst hr)
                      then map snd (filter (fun r : route => has_prefix path (fst r)) (snd hr))
                      else []) t.
Definition host_cands (t : table) (noglob : bool) (host path : str) : list (list url) :=
  cands_of t path (fun k => negb (beq k []) && key_allowed noglob host k).
Definition hostless_cands (t : table) (path : str) : list (list url) :=
  cands_of t path (fun k => beq k []).
Definition no_candidate (cs : list (list url)) : bool :=
  forallb (fun ts => match ts with [] => true | _ => false end) cs.
(* [u] is a legitimate backend / nobody is *)
Definition routed_ok (t : table) (noglob : bool) (host path : str) (u : url) : bool :=
  let hc := host_cands t noglob host path in
  if no_candidate hc then existsb (mem u) (hostless_cands t path) else existsb (mem u) hc.
Definition unrouted_ok (t : table) (noglob : bool) (host path : str) : bool :=
  no_candidate (host_cands t noglob host path) && no_candidate (hostless_cands t path).

Inductive lres := LTarget (u : url) | LNone | LErr.

Record pobs := mkpobs { po_got : option N; po_pool : list (url * N); po_shut : list N }.
Record cnt := mkcnt { cn_url : url; cn_begun : N; cn_ended : N }.
Inductive sstep := SCall (u : option url) | SSetTable (urls : list url) | STick.

(* who served a call, as far as the harness can see: a backend's handler ran; nobody was
   contacted; nobody was contacted and the proxy answered Unavailable (the matched route's
   target cannot be reached: which one it was is decided by the model, at most one per route) *)
Inductive hchosen := HBackend (u : url) | HNobody | HUnreachable.
Inductive hstep := HCall (m : md) (upath : option str) (c : hchosen) | HSetTable (t : table) | HTick.
(* a history in which backends also lose the connections they have (restart on the same address,
   reset of the accepted connections) while they stay in the table *)
Inductive xhstep := XH (st : hstep) | XHLose (u : url).
Inductive xsstep := XS (s : sstep) | XSLose (u : url).

(* a history of a process with several gRPC listeners: a call through listener [i], a table
   change, a moment at which every cleanup loop of the process has woken up once, a backend
   that loses its connections *)
Inductive lhstep := LHCall (i : nat) (m : md) (upath : option str) (c : hchosen) | LHSetTable (t : table) | LHTickAll | LHLose (u : url).

(* a history in which calls stay in flight while other things happen: an ordinary step; a call
   that begins, reaches backend [c] (which saw [bv]) and is held there; the backend ends the call
   [id] and the caller has [cv] of it (or had it already, when the call was cut earlier) *)
Inductive fhstep :=
| FH (st : hstep)
| FHBegin (id : N) (ci : callin) (c : hchosen) (bv : bview)
| FHEnd (id : N) (cv : cview).

Record qobs := mkqobs { qb_bv : option bview; qb_cv : cview; qb_pings : N; qb_begun : N; qb_ended : N }.

Inductive case :=
(* GrpcProxyInterceptor.lookup on the live table [t] *)
| CLookup (t : table) (noglob : bool) (m : option md) (upath : option str) (impl : lres)
(* a history on the real pool from the empty pool and a table with targets [urls0];
   after every operation: connection returned, pool contents, connections in Shutdown *)
| CPool (urls0 : list url) (ops : list pop2) (obs : list pobs) (final_shut : list N)
(* one call through the real newGrpcProxy + ListenAndServeGRPC ([tls_listener]: the listener
   has a tls.Config; [down]: targets nobody listens at): backend reached and what it saw,
   what the caller saw *)
| CCall (t : table) (noglob tls_listener : bool) (down : list url) (ci : callin) (chosen : hchosen)
        (bv : option bview) (cv : cview)
(* the calls of that proxy as ONE history, with table changes and the real cleanup ticks,
   evaluated through the history machine of the theorems ([run]): connections begun / ended at
   each live backend after every step *)
| CHistory (noglob tls_listener : bool) (down : list url) (steps : list hstep) (obs : list (list cnt))
(* one unary call through a server built by the real newGrpcProxy with limits [rx]/[tx]:
   request of [req] bytes, scripted response of [resp] bytes; did the backend receive the
   request byte for byte, did the caller receive the response byte for byte, status code *)
| CLimit (rx tx req resp : N) (backend_got caller_got : bool) (code : N)
(* a history of calls, table changes and real cleanup ticks in which backends lose their
   connections in between, evaluated through the machine with transports
   (Model/GrpcTransport.v [xrun]): connections begun / ended at each backend after every step *)
| CHistoryX (noglob tls_listener : bool) (down : list url) (steps : list xhstep) (obs : list (list cnt))
(* a history of calls and pauses on ONE backend with enforcement policy [pol], in which nobody
   sends anything for seconds on end (Model/GrpcKeepalive.v): through the real newGrpcProxy
   listener ([QProxy]), or -- to test the model of grpc-go's keepalive machine itself -- by a
   client of the harness with keepalive parameters of its own; after every item: what the
   backend and the caller saw of the call, keepalive pings the backend has read so far,
   connections begun / ended at the backend so far *)
| CQuiet (via : qvia) (pol : policy) (items : list qitem) (obs : list qobs)
(* a history of calls, table changes and real cleanup ticks on processes started by the real
   config.Load + main.go:startServers with SEVERAL gRPC listeners each ([groups]: per
   startServers call the listeners in proxy.addr order, true = proto=grpcs with a cert source),
   every call through one of the listeners, evaluated through the machine with one proxy per
   listener (Model/GrpcListeners.v [lrun]): connections begun / ended at each backend -- from
   all listeners together -- after every step *)
| CListeners (noglob : bool) (down : list url) (groups : list (list bool)) (steps : list lhstep) (obs : list (list cnt))
(* a history through the real newGrpcProxy listener in which calls are held at their backend
   across table changes and REAL cleanup ticks, the targets written with whatever scheme
   (http://host:port/, https://, tcp://, grpc://), evaluated through the machine with calls in
   flight (Model/GrpcInFlight.v [frun]): connections begun / ended at each backend after every
   step, both views of every held call *)
| CInFlight (noglob : bool) (steps : list fhstep) (obs : list (list cnt)).

(* ---- CPool ---- *)
Fixpoint pool_same (st : list url * pstate) (ops : list pop2) (obs : list pobs) : bool :=
  match ops, obs with
  | [], [] => true
  | o :: ro, b :: rb =>
      let st' := p_step2 st o in
      let got := match o with
                 | P1 (PGet u) => Some (snd (p_get (snd st) u))
                 | PDial u => Some (snd (p_log_dial (snd st) u))
                 | PSetIfAbsent u c => Some (snd (p_set_if_absent (snd st) u c))
                 | _ => None
                 end in
      opt_eqb N.eqb got (po_got b)
      && pool_eqb (p_pool (snd st')) (po_pool b)
      && setN_eqb (p_shut (snd st')) (po_shut b)
      && pool_same st' ro rb
  | _, _ => false
  end.

(* the property on the observations alone: a live pooled connection is the one handed out;
   after a tick nothing unrouted or shut down is pooled, what left the pool is closed, and
   routed live connections are still there; nothing else touches the pool *)
Fixpoint pool_spec (urls : list url) (prev : pobs) (ops : list pop2) (obs : list pobs) : bool :=
  match ops, obs with
  | [], [] => true
  | o :: ro, b :: rb =>
      (match o with
       | PSetIfAbsent u c =>
           (* a caller arriving at the store with its own connection: if another live one is
              pooled it gets that one and its own is closed; otherwise its own is pooled *)
           match po_got b with
           | None => false
           | Some g =>
               match assoc u (po_pool prev) with
               | Some cur => if negb (cur =? c) && negb (memN cur (po_shut prev))
                             then (g =? cur) && pool_eqb (po_pool prev) (po_pool b) && memN c (po_shut b)
                             else (g =? c) && pool_has (po_pool b) (u, c)
               | None => (g =? c) && pool_has (po_pool b) (u, c)
               end
           end
       | P1 (PGet u) =>
           match po_got b with
           | None => false
           | Some g =>
               match assoc u (po_pool prev) with
               | Some c => if memN c (po_shut prev) then negb (g =? c) else g =? c
               | None => negb (existsb (fun kc => snd kc =? g) (po_pool prev))
               end
               && pool_has (po_pool b) (u, g)
           end
       | P1 PTick =>
           forallb (fun kc => mem (fst kc) urls && negb (memN (snd kc) (po_shut b))) (po_pool b)
           && forallb (fun kc => pool_has (po_pool b) kc || memN (snd kc) (po_shut b)) (po_pool prev)
           && forallb (fun kc => implb (mem (fst kc) urls && negb (memN (snd kc) (po_shut prev)))
                                       (pool_has (po_pool b) kc)) (po_pool prev)
       | _ => pool_eqb (po_pool prev) (po_pool b)
       end)
      && pool_spec (match o with P1 (PSetTable t) => t | _ => urls end) b ro rb
  | _, _ => false
  end.

Definition is_get (o : pop2) : bool := match o with P1 (PGet _) => true | PSetIfAbsent _ _ => true | _ => false end.
Definition is_tick (o : pop2) : bool := match o with P1 PTick => true | PSetIfAbsent _ _ => true | _ => false end.

(* ---- CHistory: through [run], the machine the pool theorems are about ---- *)
Fixpoint index_of (u : url) (l : list url) : option nat :=
  match l with
  | [] => None
  | x :: r => if beq u x then Some 0%nat else option_map S (index_of u r)
  end.
(* the operations a step resolves to in state [s]; None: the observation is impossible for the model *)
Definition hist_ops (ng tl : bool) (down : list url) (s : state) (st : hstep) : option (list op) :=
  match st with
  | HSetTable t => Some [SetTable t]
  | HTick => Some [CleanupTick]
  | HCall m None c => match c with HNobody => Some [] | _ => None end
  | HCall m (Some p) c =>
      match lookup (s_tbl s) ng (dsthost m) p, c with
      | None, HNobody => Some []
      | Some ts, HBackend u =>
          if unreachable tl down u then None
          else match index_of u ts with Some k => Some [Call m p k] | None => None end
      | Some ts, HUnreachable =>
          match filter (unreachable tl down) ts with
          | [u] => match index_of u ts with Some k => Some [Call m p k] | None => None end
          | _ => None
          end
      | _, _ => None
      end
  end.
Fixpoint hist_same (ng tl : bool) (down : list url) (s : state) (steps : list hstep) (obs : list (list cnt)) : bool :=
  match steps, obs with
  | [], [] => true
  | st :: rs, b :: rb =>
      match hist_ops ng tl down s st with
      | None => false
      | Some ops =>
          let s' := run ng s ops in
          forallb (fun c => (cn_begun c =? count_dials (s_pool s') (cn_url c))
                            && (cn_ended c =? count_closed (s_pool s') (cn_url c))) b
          && hist_same ng tl down s' rs rb
      end
  | _, _ => false
  end.
Definition hstep_sstep (st : hstep) : sstep :=
  match st with
  | HCall _ _ (HBackend u) => SCall (Some u)
  | HCall _ _ _ => SCall None
  | HSetTable t => SSetTable (table_urls t)
  | HTick => STick
  end.

Definition cnt_of (b : list cnt) (u : url) : N * N :=
  match find (fun c => beq (cn_url c) u) b with
  | Some c => (cn_begun c, cn_ended c)
  | None => (0, 0)
  end.
(* on the observations alone: a call to a backend that has a connection open opens none, a
   call to one that has none opens exactly one, nobody else is contacted; a call without a
   route contacts nobody; a tick ends every connection of a backend outside the table and
   none of a backend inside *)
Fixpoint sess_spec (urls : list url) (prev : list cnt) (steps : list sstep) (obs : list (list cnt)) : bool :=
  match steps, obs with
  | [], [] => true
  | s :: rs, b :: rb =>
      forallb (fun c =>
        let '(pb, pe) := cnt_of prev (cn_url c) in
        match s with
        | SCall (Some u) =>
            if beq u (cn_url c)
            then (cn_begun c =? (if pe <? pb then pb else pb + 1)) && (cn_ended c =? pe)
            else (cn_begun c =? pb) && (cn_ended c =? pe)
        | STick =>
            (cn_begun c =? pb) && (cn_ended c =? (if mem (cn_url c) urls then pe else pb))
        | _ => (cn_begun c =? pb) && (cn_ended c =? pe)
        end) b
      && Nat.eqb (List.length b) (List.length prev)
      && sess_spec (match s with SSetTable t => t | _ => urls end) b rs rb
  | _, _ => false
  end.

(* ---- CHistoryX: through [xrun] ---- *)
Fixpoint xhist_same (ng tl : bool) (down : list url) (xs : xstate) (steps : list xhstep) (obs : list (list cnt)) : bool :=
  match steps, obs with
  | [], [] => true
  | st :: rs, b :: rb =>
      match (match st with
             | XHLose u => Some [XLose u]
             | XH h => option_map (map XOp) (hist_ops ng tl down (x_st xs) h)
             end) with
      | None => false
      | Some ops =>
          let xs' := xrun ng (unreachable tl down) xs ops in
          forallb (fun c => (cn_begun c =? x_begun_at xs' (cn_url c))
                            && (cn_ended c =? x_ended_at xs' (cn_url c))) b
          && xhist_same ng tl down xs' rs rb
      end
  | _, _ => false
  end.
Definition xhstep_xsstep (st : xhstep) : xsstep :=
  match st with XH h => XS (hstep_sstep h) | XHLose u => XSLose u end.
(* on the observations alone: [sess_spec], and a backend that loses its connections has seen
   every connection it had end, and opens none by itself; the next call that reaches it opens
   exactly one (the clause of [sess_spec] for calls) *)
Fixpoint xsess_spec (urls : list url) (prev : list cnt) (steps : list xsstep) (obs : list (list cnt)) : bool :=
  match steps, obs with
  | [], [] => true
  | s :: rs, b :: rb =>
      forallb (fun c =>
        let '(pb, pe) := cnt_of prev (cn_url c) in
        match s with
        | XS (SCall (Some u)) =>
            if beq u (cn_url c)
            then (cn_begun c =? (if pe <? pb then pb else pb + 1)) && (cn_ended c =? pe)
            else (cn_begun c =? pb) && (cn_ended c =? pe)
        | XS STick =>
            (cn_begun c =? pb) && (cn_ended c =? (if mem (cn_url c) urls then pe else pb))
        | XSLose u =>
            (cn_begun c =? pb) && (cn_ended c =? (if beq u (cn_url c) then pb else pe))
        | _ => (cn_begun c =? pb) && (cn_ended c =? pe)
        end) b
      && Nat.eqb (List.length b) (List.length prev)
      && xsess_spec (match s with XS (SSetTable t) => t | _ => urls end) b rs rb
  | _, _ => false
  end.
(* ... and, whatever was lost before, a call is served by a backend of a route that matches, or
   by nobody when no route matches (the clause CCall checks call by call) *)
Fixpoint xroute_spec (ng : bool) (down : list url) (t : table) (steps : list xhstep) : bool :=
  match steps with
  | [] => true
  | st :: r =>
      (match st with
       | XH (HCall m (Some p) ch) =>
           let host := dsthost m in
           host_domain host &&
           match ch with
           | HBackend u => routed_ok t ng host p u
           | HNobody => unrouted_ok t ng host p
           | HUnreachable => existsb (fun u => mem u down && routed_ok t ng host p u) (table_urls t)
           end
       | _ => true
       end)
      && xroute_spec ng down (match st with XH (HSetTable t') => t' | _ => t end) r
  end.
(* a backend lost its connections and was reached by a call later on *)
Fixpoint reached_after_loss (lost : list url) (steps : list xhstep) : bool :=
  match steps with
  | [] => false
  | XHLose u :: r => reached_after_loss (u :: lost) r
  | XH (HCall _ _ (HBackend u)) :: r => mem u lost || reached_after_loss lost r
  | _ :: r => reached_after_loss lost r
  end.

(* ---- CListeners: through [lrun] ---- *)
Definition lop_at (i : nat) (o : op) : lop :=
  match o with
  | Call m p k => LCall i m p k
  | SetTable t => LSetTable t
  | CleanupTick => LTick i
  | ConnShutdown u => LConnShutdown i u
  end.
Definition lhist_ops (ng : bool) (down : list url) (ps : lproc) (st : lhstep) : option (list lop) :=
  match st with
  | LHSetTable t => Some [LSetTable t]
  | LHTickAll => Some (l_tick_all (List.length ps))
  | LHLose u => Some [LLose u]
  | LHCall i m up c =>
      match nth_error ps i with
      | None => None
      | Some l => option_map (map (lop_at i)) (hist_ops ng (ls_tls l) down (x_st (ls_px l)) (HCall m up c))
      end
  end.
Fixpoint lhist_same (ng : bool) (down : list url) (ps : lproc) (steps : list lhstep) (obs : list (list cnt)) : bool :=
  match steps, obs with
  | [], [] => true
  | st :: rs, b :: rb =>
      match lhist_ops ng down ps st with
      | None => false
      | Some ops =>
          let ps' := lrun ng down ps ops in
          forallb (fun c => (cn_begun c =? l_begun_at ps' (cn_url c))
                            && (cn_ended c =? l_ended_at ps' (cn_url c))) b
          && lhist_same ng down ps' rs rb
      end
  | _, _ => false
  end.
(* the property on the observations alone.  [open]: the (listener, backend) pairs for which the
   history so far says that the listener was served by the backend and nothing has ended that
   backend's connections since (no tick that found it outside the table, no loss).  Reuse: a
   call through a listener that has been served by the backend opens nothing.  Otherwise the
   call opens at most one connection, and exactly one when the backend has none at all (whether
   listeners share connections among themselves is not the property's business).  Nobody else
   is contacted; a call that reaches nobody changes nothing; ticks and losses as in [xsess_spec]. *)
Definition lopen_mem (i : nat) (u : url) (open : list (nat * url)) : bool :=
  existsb (fun x => Nat.eqb (fst x) i && beq (snd x) u) open.
Fixpoint lsess_spec (urls : list url) (open : list (nat * url)) (prev : list cnt) (steps : list lhstep) (obs : list (list cnt)) : bool :=
  match steps, obs with
  | [], [] => true
  | s :: rs, b :: rb =>
      forallb (fun c =>
        let '(pb, pe) := cnt_of prev (cn_url c) in
        match s with
        | LHCall i _ _ (HBackend u) =>
            if beq u (cn_url c)
            then (cn_ended c =? pe)
                 && (if lopen_mem i u open then cn_begun c =? pb
                     else if pe <? pb then (cn_begun c =? pb) || (cn_begun c =? pb + 1)
                     else cn_begun c =? pb + 1)
            else (cn_begun c =? pb) && (cn_ended c =? pe)
        | LHTickAll =>
            (cn_begun c =? pb) && (cn_ended c =? (if mem (cn_url c) urls then pe else pb))
        | LHLose u =>
            (cn_begun c =? pb) && (cn_ended c =? (if beq u (cn_url c) then pb else pe))
        | _ => (cn_begun c =? pb) && (cn_ended c =? pe)
        end) b
      && Nat.eqb (List.length b) (List.length prev)
      && lsess_spec (match s with LHSetTable t => table_urls t | _ => urls end)
                    (match s with
                     | LHCall i _ _ (HBackend u) => if lopen_mem i u open then open else (i, u) :: open
                     | LHTickAll => filter (fun x => mem (snd x) urls) open
                     | LHLose u => filter (fun x => negb (beq (snd x) u)) open
                     | _ => open
                     end) b rs rb
  | _, _ => false
  end.
(* ... and every call, through whichever listener, is served by a backend of a route that
   matches, or by nobody when no route matches or the route's backend is down; that the listener
   has no cert source excuses nothing (a plaintext dial to a TLS backend is F-C16-2).  [known]:
   the same with the calls of that finding excused -- a call through a listener WITHOUT a cert
   source that reached nobody where a grpcs:// target is routed -- to tell what else fails. *)
Fixpoint lroute_spec (known : bool) (tls : list bool) (ng : bool) (down : list url) (t : table) (steps : list lhstep) : bool :=
  match steps with
  | [] => true
  | st :: r =>
      (match st with
       | LHCall i m (Some p) ch =>
           let host := dsthost m in
           host_domain host &&
           match ch with
           | HBackend u => routed_ok t ng host p u
           | HNobody => unrouted_ok t ng host p
           | HUnreachable =>
               existsb (fun u => (mem u down || (known && plaintext_to_tls (nth i tls true) u)) && routed_ok t ng host p u)
                       (table_urls t)
           end
       | LHCall _ _ None ch => match ch with HNobody => true | _ => false end
       | _ => true
       end)
      && lroute_spec known tls ng down (match st with LHSetTable t' => t' | _ => t end) r
  end.
(* a TLS backend was reached through a listener with a cert source that is not the only listener *)
Definition tls_served (tls : list bool) (steps : list lhstep) : bool :=
  existsb (fun st => match st with
                     | LHCall i _ _ (HBackend u) => has_prefix u s_grpcs && nth i tls false
                     | _ => false
                     end) steps.

(* ---- CCall ---- *)
(* the property's clause on the two views: everything the backend scripted arrives; its
   headers are owed only when it sends at least one message *)
Definition cview_transparent (sc : script) (cv : cview) : bool :=
  (match sc_msgs sc with [] => true | _ => md_eqb (cv_hdr cv) (sc_hdr sc) end)
  && msgs_eqb (cv_msgs cv) (sc_msgs sc) && md_eqb (cv_trl cv) (sc_trl sc)
  && (cv_code cv =? sc_code sc) && ((sc_code sc =? 0) || beq (cv_msg cv) (sc_msg sc)).
Definition no_msgs (cv : cview) : bool := match cv_msgs cv with [] => true | _ => false end.
Definition table_has_grpcs (t : table) : bool := existsb (fun u => has_prefix u s_grpcs) (table_urls t).

(* ---- CInFlight: through [frun] ---- *)
Fixpoint fhist_same (ng : bool) (fs : fstate) (pend : list (N * callin)) (steps : list fhstep) (obs : list (list cnt)) : bool :=
  match steps, obs with
  | [], [] => true
  | st :: rs, b :: rb =>
      match (match st with
             | FH h => match hist_ops ng false [] (f_st fs) h with
                       | Some ops => Some (map FOp ops, pend, true)
                       | None => None
                       end
             | FHBegin id ci ch bv =>
                 match ch with
                 | HBackend _ =>
                     match hist_ops ng false [] (f_st fs) (HCall (ci_md ci) (ci_upath ci) ch) with
                     | Some [Call m p k] => Some ([FBegin id m p k], (id, ci) :: pend, bview_eqb (fst (relay ci)) bv)
                     | _ => None
                     end
                 | _ => None
                 end
             | FHEnd id cv =>
                 match find (fun x => fst x =? id) pend with
                 | Some (_, ci) =>
                     Some ([FEnd id], pend,
                           if f_delivered fs id then cview_eqb (snd (relay ci)) cv
                           else (* the connection was closed under the call *)
                             cv_code cv =? code_canceled)
                 | None => None
                 end
             end) with
      | None => false
      | Some (ops, pend', ok) =>
          let fs' := frun ng fs ops in
          ok
          && forallb (fun c => (cn_begun c =? count_dials (s_pool (f_st fs')) (cn_url c))
                               && (cn_ended c =? count_closed (s_pool (f_st fs')) (cn_url c))) b
          && fhist_same ng fs' pend' rs rb
      end
  | _, _ => false
  end.
Definition fhstep_sstep (st : fhstep) : sstep :=
  match st with
  | FH h => hstep_sstep h
  | FHBegin _ _ (HBackend u) _ => SCall (Some u)
  | FHBegin _ _ _ _ => SCall None
  | FHEnd _ _ => SCall None
  end.
(* the property on the observations alone, for the calls in flight.  [fl]: per call in flight
   its backend, what the caller sent and what the backend scripted, and whether the backend has
   been a target of every table in force since the call began.  A call begins at a backend of a
   route that matches, and the backend has the caller's messages and metadata; when the backend
   ends a call and has been in the table all the time, the caller has everything -- however many
   cleanup passes there were in between, whatever scheme the target is written with.  (A call
   whose backend left the table may be cut: "dropped once the backend leaves the table".) *)
Fixpoint fcalls_spec (ng : bool) (t : table) (fl : list (N * (url * callin * bool))) (steps : list fhstep) : bool :=
  match steps with
  | [] => true
  | st :: r =>
      match st with
      | FH (HSetTable t') =>
          fcalls_spec ng t' (map (fun x => let '(id, (u, ci, okk)) := x in (id, (u, ci, okk && mem u (table_urls t')))) fl) r
      | FH _ => fcalls_spec ng t fl r
      | FHBegin id ci ch bv =>
          match ch, ci_upath ci with
          | HBackend u, Some p =>
              let host := dsthost (ci_md ci) in
              host_domain host && routed_ok t ng host p u
              && beq (bv_method bv) (ci_method ci) && md_eqb (bv_md bv) (md_out (ci_md ci))
              && msgs_eqb (bv_msgs bv) (ci_msgs ci)
              && fcalls_spec ng t ((id, (u, ci, true)) :: fl) r
          | _, _ => false
          end
      | FHEnd id cv =>
          match find (fun x => fst x =? id) fl with
          | Some (_, (_, ci, okk)) => implb okk (cview_transparent (ci_script ci) cv)
          | None => false
          end
          && fcalls_spec ng t fl r
      end
  end.
(* a call was in flight during a cleanup tick *)
Fixpoint spans_tick (open : list N) (ticked : list N) (steps : list fhstep) : bool :=
  match steps with
  | [] => false
  | FHBegin id _ _ _ :: r => spans_tick (id :: open) ticked r
  | FH HTick :: r => spans_tick open (open ++ ticked) r
  | FHEnd id _ :: r => memN id ticked || spans_tick (filter (fun i => negb (i =? id)) open) ticked r
  | _ :: r => spans_tick open ticked r
  end.

(* ---- CQuiet ---- *)
Fixpoint quiet_same (items : list qitem) (outs : list qout) (obs : list qobs) : bool :=
  match items, outs, obs with
  | [], [], [] => true
  | it :: ri, o :: ro, b :: rb =>
      (qo_pings o =? qb_pings b) && (qo_begun o =? qb_begun b) && (qo_ended o =? qb_ended b)
      && opt_eqb bview_eqb (qo_bv o) (qb_bv b)
      && (match it with
          | QGap _ => true
          | QCall _ =>
              if qo_alive o then cview_eqb (qo_cv o) (qb_cv b)
              else (* the connection was closed under the call: what had arrived, and Unavailable *)
                (cv_code (qb_cv b) =? code_unavailable) && msgs_eqb (cv_msgs (qo_cv o)) (cv_msgs (qb_cv b))
          end)
      && quiet_same ri ro rb
  | _, _, _ => false
  end.
(* the property on the observations alone, for calls through the proxy: however long a call is
   silent, the backend has the caller's messages and metadata, the caller has everything the
   backend sent, and all of it happens on ONE connection that the backend never sees end (it is
   in the table all the time) *)
Fixpoint quiet_spec (called : bool) (items : list qitem) (obs : list qobs) : bool :=
  match items, obs with
  | [], [] => true
  | QGap _ :: ri, b :: rb =>
      (qb_begun b =? (if called then 1 else 0)) && (qb_ended b =? 0) && quiet_spec called ri rb
  | QCall q :: ri, b :: rb =>
      (qb_begun b =? 1) && (qb_ended b =? 0)
      && match qb_bv b with
         | Some b' => beq (bv_method b') (qc_method q) && md_eqb (bv_md b') (md_out (qc_md q)) && msgs_eqb (bv_msgs b') (qc_reqs q)
         | None => false
         end
      && cview_transparent (qc_script q) (qb_cv b)
      && quiet_spec true ri rb
  | _, _ => false
  end.
Definition has_msg (q : qcall) : bool := match ph_msgs (qc_phases q) with [] => false | _ => true end.
Definition long_quiet (q : qcall) : bool :=
  existsb (fun p => match p with PQuiet d => ka_floor <=? d | _ => false end) (qc_phases q).

Definition check_case (c : case) : N :=
  match c with
  | CLookup t noglob m upath impl =>
      if negb (table_domain t) then v_disagree else
      let r := icpt_lookup t noglob m upath in
      let same := match r, impl with
                  | None, LErr => true
                  | Some None, LNone => true
                  | Some (Some ts), LTarget u => mem u ts
                  | _, _ => false
                  end in
      let spec := match m, upath with
                  | Some m, Some p =>
                      host_domain (dsthost m) &&
                      match impl with
                      | LTarget u => routed_ok t noglob (dsthost m) p u
                      | LNone => unrouted_ok t noglob (dsthost m) p
                      | LErr => false
                      end
                  | _, _ => match impl with LErr => true | _ => false end
                  end in
      let nontriv := match r with Some (Some _) => true | _ => match m with Some m => negb (beq (dsthost m) []) | None => false end end in
      verdict same spec None nontriv
  | CPool urls0 ops obs final_shut =>
      let same := pool_same (urls0, p_init) ops obs
                  && setN_eqb (p_shut (snd (p_run2 (urls0, p_init) ops))) final_shut in
      let spec := pool_spec urls0 (mkpobs None [] []) ops obs in
      verdict same spec None (existsb is_get ops && existsb is_tick ops)
  | CCall t noglob tl down ci chosen bv cv =>
      if negb (table_domain t) then v_disagree else
      let (mb, mc) := call_outcome t noglob ci in
      let sc := ci_script ci in
      let host := dsthost (ci_md ci) in
      let same :=
        match mb, chosen, bv with
        | None, HNobody, None => cview_eqb mc cv
        | Some (ts, b), HBackend u, Some b' =>
            mem u ts && negb (unreachable tl down u) && bview_eqb b b' && cview_eqb mc cv
        | Some (ts, _), HUnreachable, None =>
            match filter (unreachable tl down) ts with
            | [_] => (cv_code cv =? code_unavailable) && no_msgs cv
            | _ => false
            end
        | _, _, _ => false
        end in
      let spec :=
        match chosen, bv, ci_upath ci with
        | HBackend u, Some b', Some p =>
            host_domain host && routed_ok t noglob host p u
            && beq (bv_method b') (ci_method ci) && md_eqb (bv_md b') (md_out (ci_md ci))
            && msgs_eqb (bv_msgs b') (if sc_mode sc =? 2 then [] else ci_msgs ci)
            && cview_transparent sc cv
        | HUnreachable, None, Some p =>
            (* a failed call is all one can ask for when the route's backend is down; a
               reachable TLS backend dialled without TLS is a call the property wants relayed *)
            host_domain host && negb (cv_code cv =? 0)
            && existsb (fun u => mem u down && routed_ok t noglob host p u) (table_urls t)
        | HNobody, None, Some p =>
            host_domain host && unrouted_ok t noglob host p
            && (cv_code cv =? code_not_found) && no_msgs cv
        | HNobody, None, None => true      (* not a gRPC method path: outside the property (see checks/C16.json) *)
        | _, _, _ => false
        end in
      let region := if negb tl && table_has_grpcs t then Some 2 else None in
      verdict same spec region (match chosen with HNobody => negb (match t with [] => true | _ => false end) | _ => true end)
  | CLimit rx tx req resp bg cg code =>
      let m := relay_sized rx tx req resp in
      let same := Bool.eqb bg (sz_backend_got m) && Bool.eqb cg (sz_caller_got m) && (code =? sz_code m) in
      (* the property does not speak about limits: what is within every configured limit must
         be relayed; which limit applies to which direction is the model's business ([same]) *)
      let lim := N.min rx tx in
      let spec := implb ((req <=? lim) && (resp <=? lim)) (bg && cg && (code =? 0)) in
      let between := fun x => ((N.min rx tx <? x) && (x <=? N.max rx tx)) in
      verdict same spec None (negb (rx =? tx) && (between req || between resp))
  | CHistory ng tl down steps obs =>
      if negb (forallb (fun st => match st with HSetTable t => table_domain t | _ => true end) steps) then v_disagree else
      let same := hist_same ng tl down (mks [] p_init) steps obs in
      let ss := map hstep_sstep steps in
      let spec := match obs with
                  | [] => true
                  | b0 :: _ => sess_spec [] (map (fun c => mkcnt (cn_url c) 0 0) b0) ss obs
                  end in
      verdict same spec None true
  | CHistoryX ng tl down steps obs =>
      if negb (forallb (fun st => match st with XH (HSetTable t) => table_domain t | _ => true end) steps) then v_disagree else
      let same := xhist_same ng tl down (x_init []) steps obs in
      let spec := match obs with
                  | [] => true
                  | b0 :: _ => xsess_spec [] (map (fun c => mkcnt (cn_url c) 0 0) b0) (map xhstep_xsstep steps) obs
                  end
                  && xroute_spec ng down [] steps in
      verdict same spec None (reached_after_loss [] steps)
  | CQuiet via pol items obs =>
      (* domain: every call is answered with at least one message (then both a caller behind the
         proxy and a direct client see the backend's headers) *)
      if negb (forallb (fun it => match it with QCall q => has_msg q | QGap _ => true end) items) then v_disagree else
      let same := quiet_same items (qrun via pol q_init items) obs in
      let spec := match via with QProxy => quiet_spec false items obs | QDirect _ => true end in
      verdict same spec None
              (match via with
               | QProxy => existsb (fun it => match it with QCall q => long_quiet q | QGap d => ka_floor <=? d end) items
               | QDirect _ => existsb (fun o => 0 <? qo_pings o) (qrun via pol q_init items)   (* the machine did something *)
               end)
  | CListeners ng down groups steps obs =>
      if negb (forallb (fun st => match st with LHSetTable t => table_domain t | _ => true end) steps) then v_disagree else
      let tls := concat groups in
      let same := lhist_same ng down (l_init tls []) steps obs in
      let counters := match obs with
                      | [] => true
                      | b0 :: _ => lsess_spec [] [] (map (fun c => mkcnt (cn_url c) 0 0) b0) steps obs
                      end in
      let strict := counters && lroute_spec false tls ng down [] steps in
      (* the property with the calls of F-C16-2 excused *)
      let lenient := counters && lroute_spec true tls ng down [] steps in
      (* F-C16-2 repaired: a TLS backend reached through a listener without a cert source *)
      let repaired := existsb (fun st => match st with
                                         | LHCall i _ _ (HBackend u) => negb (nth i tls true) && has_prefix u s_grpcs
                                         | _ => false
                                         end) steps in
      let nontriv := (1 <? N.of_nat (List.length tls)) && tls_served tls steps in
      if same then verdict true strict (if lenient then Some 2 else None) nontriv
      else if lenient then (if strict && repaired then v_agree else v_disagree)
      else v_disagree_spec_fails
  | CInFlight ng steps obs =>
      if negb (forallb (fun st => match st with FH (HSetTable t) => table_domain t | _ => true end) steps) then v_disagree else
      let same := fhist_same ng (f_init []) [] steps obs in
      let spec := match obs with
                  | [] => true
                  | b0 :: _ => sess_spec [] (map (fun c => mkcnt (cn_url c) 0 0) b0) (map fhstep_sstep steps) obs
                  end
                  && fcalls_spec ng [] [] steps in
      verdict same spec None (spans_tick [] [] steps)
  end.
