(** Correspondence check for C20, evaluated by [vm_compute] on the cases the Go
    harness wrote (outputs of the real logger / formatters next to their inputs). *)
From Coq Require Import String List NArith ZArith Bool.
From Fabio Require Import Lib.Outcome Lib.Bytes Lib.Verdict Model.Logger Model.LoggerServe Model.LoggerSink.
Import ListNotations.
Local Open Scope N_scope.

Definition out_eqb {A} (eqb : A -> A -> bool) (a b : outcome A) : bool :=
  match a, b with
  | Ok x, Ok y => eqb x y
  | Err j, Err k => j =? k
  | Panic, Panic => true
  | _, _ => false
  end.
Definition pair_beq (a b : str * str) : bool := beq (fst a) (fst b) && beq (snd a) (snd b).

Fixpoint chunks (fuel : nat) (k : nat) (s : str) : list str :=
  match fuel with
  | O => []
  | S f => match s with [] => [] | _ => firstn k s :: chunks f k (skipn k s) end
  end.

Inductive case :=
(* atoi(b, i, pad): the bytes appended *)
| CAtoi (i pad : Z) (impl : outcome str)
(* i32toa on a batch of values *)
| CI32 (l : list (Z * str))
(* uint16base16 on lo, lo+1, ..., lo+cnt-1: outputs concatenated (6 bytes each) *)
| CHex (lo : N) (cnt : nat) (implcat : str)
(* uuid.ToString *)
| CUuid (u : str) (impl : str)
(* hostport(s); [ref] = what net.SplitHostPort returned when it accepted s *)
| CHostport (s : str) (impl : outcome (str * str)) (ref : option (str * str))
(* lex([]rune(s)), any bytes *)
| CLex (s : str) (typ : N) (n : N)
(* logger.New(w, format) then Log(e): impl = Err k when New failed (1 invalid field,
   2 empty format), Panic when Log panicked, otherwise all bytes written to w;
   nwrites = number of w.Write calls; ref = the line rendered with fmt / strconv /
   time.Format in UTC / net.SplitHostPort (None: outside the domain the reference covers).
   A panic of Log and a time field that is not the UTC rendering are plain violations
   (they were known findings F-C20-1 / F-C20-2 until bb1b4e7 / 1da7601), and so is a host
   field that keeps the brackets of an IPv6 literal (F-C20-3 until 0f981ad). *)
(* the ResponseWriter calls httputil.ReverseProxy made on fabio's wrapper during one real
   request (informational responses, the final status, the body writes), what the logged
   event says (status, size) and what the client received (final status, body bytes) *)
| CRw (calls : list rwcall) (ev_code ev_size : Z) (client_code client_size : Z)
(* one request through the real HTTPProxy.ServeHTTP: the request as received, the route
   options, and what the Event handed to the logger says (RequestURL, Request.Host,
   UpstreamAddr, UpstreamService, UpstreamURL), RequestURL.String() (net/url, data) and the line the
   real logger renders from that Event for [request_format] (every $request_* field) *)
| CServe (r : inreq) (o : ropt) (obs : served) (urlstr : str) (line : outcome str)
| CLog (format : str) (e : event) (impl : outcome str) (nwrites : N) (ref : option str)
(* several Log calls through ONE real logger whose writer takes every Write in pieces
   (sizes [cuts], the rest of the line last) and lets the harness decide who moves next:
   [lines] = the events' lines (each event is also a CLog case of class sink-event),
   [trace] = every step in the order it happened on the real code, with whether it did
   something: a call that was started and found parked in mu.Lock() / a call that was
   asked to move while parked = (t, false); a call that entered Write, had its next piece
   appended, returned from Log = (t, true); [sink] = every byte the writer received *)
| CSink (lines : list str) (cuts : list (list nat)) (trace : list (nat * bool)) (sink : str).

Definition atoi_domain (i pad : Z) : bool := int64_ok i && (pad <=? 127)%Z.

Definition typ_code (t : ityp) : N := match t with TText => 0 | TField => 1 | THeader => 2 end.

Definition one_line (s : str) : bool :=
  match s with [] => true | _ => has_suffix s [10] && negb (Nat.eqb (length s) 1) end.

Definition check_case (c : case) : N :=
  match c with
  | CAtoi i pad impl =>
      let m := atoi i pad in
      let same := out_eqb beq impl m in
      let dom := atoi_domain i pad in
      let spec := if dom then match impl with
                              | Ok s => is_dec (Z.to_nat pad) i s
                              | _ => false
                              end
                  else true in
      verdict same spec None dom
  | CI32 l =>
      let same := forallb (fun x => out_eqb beq (Ok (snd x)) (i32toa (fst x))) l in
      let spec := forallb (fun x => is_dec 0 (fst x) (snd x)) l in
      verdict same spec None true
  | CHex lo cnt implcat =>
      let ns := map (fun k => lo + N.of_nat k) (seq 0 cnt) in
      let m := cat (map uint16base16 ns) in
      let same := out_eqb beq (Ok implcat) m in
      let cs := chunks (S cnt) 6 implcat in
      let spec := Nat.eqb (length cs) cnt
                  && forallb (fun x => is_hex16 (fst x) (snd x)) (combine ns cs) in
      verdict same spec None true
  | CUuid u impl =>
      let same := out_eqb beq (Ok impl) (uuid_to_string u) in
      verdict same (beq impl (uuid_text u)) None true
  | CHostport s impl ref =>
      let m := hostport s in
      let same := out_eqb pair_beq impl m in
      let spec := match impl with
                  | Ok (h, p) =>
                      (* what net.SplitHostPort says where it accepts s; the only split at the
                         last ':' where it does not; nothing but "no panic" without a ':' *)
                      (match ref, s with
                       | Some r, _ => pair_beq (h, p) r
                       | None, [] => beq h [] && beq p []
                       | None, _ => if has_colon s then is_hostport_split s h p else true
                       end)
                  | _ => false
                  end in
      verdict same spec None (is_ok m)
  | CLex s typ n =>
      let rs := utf8_decode s in
      let '(t, k) := lex rs in
      let same := (typ_code t =? typ) && (N.of_nat k =? n) in
      (* progress: a non-empty input yields a non-empty item that fits *)
      let spec := match rs with [] => true | _ => (1 <=? n) && (n <=? N.of_nat (length rs)) end in
      verdict same spec None true
  | CRw calls ev_code ev_size client_code client_size =>
      let m := rw_run calls in
      let same := (fst m =? ev_code)%Z && (snd m =? ev_size)%Z in
      let spec := (ev_code =? client_code)%Z && (ev_size =? client_size)%Z in
      verdict same spec None (existsb (fun c => match c with RwHeader k => (k <? 200)%Z | _ => false end) calls)
  | CServe r o obs urlstr line =>
      let m := serve_event r o in
      let same := urlparts_eqb (sv_request_url obs) (sv_request_url m)
                  && beq (sv_request_host obs) (sv_request_host m)
                  && beq (sv_upstream_addr obs) (sv_upstream_addr m)
                  && beq (sv_upstream_service obs) (sv_upstream_service m)
                  && urlparts_eqb (sv_upstream_url obs) (sv_upstream_url m)
                  && out_eqb beq line (log_line request_format (event_of r m urlstr)) in
      (* the RENDERED request-side fields describe the request as received, whatever the route
         says and whatever was written into the live request meanwhile *)
      let spec := urlparts_eqb (sv_request_url obs) (request_url_at r (st_received r))
                  && out_eqb beq line (log_line request_format (received_event r urlstr)) in
      verdict same spec None (nonempty (ro_hostopt o) || nonempty (ir_xfp r) || nonempty (ir_fwd r))
  | CLog format e impl nwrites ref =>
      let m := log_line format e in
      let same := out_eqb beq impl m && (nwrites =? (if is_ok m then 1 else 0)) in
      (* an event without a Response under a $response_* field is not an HTTP log
         event (logger.go:71-73): outside the property's domain, model only *)
      let undefined := match new_logger format, e_resp e with
                       | Ok p, None => uses p [FRespBodySize; FRespStatus]
                       | _, _ => false
                       end in
      let spec := if undefined then true else
                  match impl with
                  | Panic => false
                  | Err _ => match ref with Some _ => false | None => true end
                  | Ok s => one_line s && (nwrites =? 1)
                            && match ref with Some r => beq s r | None => true end
                  end in
      verdict same spec None (match m with Ok (_ :: _) => true | _ => false end)
  | CSink lines cuts trace sink =>
      let '(st, flags) := sink_run Exclusive (sink_init (carve_all cuts lines)) (map fst trace) in
      let same := list_eqb Bool.eqb flags (map snd trace) && beq (sk_sink st) sink && all_done st in
      (* every event's line is in the log, whole, exactly once (Proofs/LoggerSink.v:
         whole_lines_iff) *)
      let spec := whole_lines sink lines in
      (* non-trivial: some call found the logger busy *)
      verdict same spec None (existsb (fun x => negb (snd x)) trace)
  end.
