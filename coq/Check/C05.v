(** Correspondence check for C05, evaluated by [vm_compute] on the cases the Go harness wrote:
    the script text, what the real libraries said about its URLs / globs / weight literals,
    and the table the real route.NewTable built (or its error). *)
From Coq Require Import List NArith ZArith Bool.
From Fabio Require Import Lib.Outcome Lib.Bytes Lib.Verdict Model.WtF64 Model.TableCmd Model.RouteText.
Import ListNotations.
Local Open Scope N_scope.

(* ---- observables: exported fields of Table / Route / Target ---- *)
Inductive tobs := T (svc url : str) (fw : wt) (tags : list str) (opts : list (str * str)) (live : bool).
Definition robs := (str * list tobs)%type.       (* Route.Path, Route.Targets *)
Definition hobs := (str * list robs)%type.       (* map key (= Route.Host), routes in slice order *)
Definition tblobs := list hobs.                  (* hosts ascending *)

Definition kv_eqb (a b : str * str) : bool := beq (fst a) (fst b) && beq (snd a) (snd b).
Definition tobs_eqb (a b : tobs) : bool :=
  match a, b with
  | T s u w tg op lv, T s' u' w' tg' op' lv' =>
      beq s s' && beq u u' && wt_eqb w w' && list_eqb beq tg tg' && list_eqb kv_eqb op op' && Bool.eqb lv lv'
  end.
Definition robs_eqb (a b : robs) : bool := beq (fst a) (fst b) && list_eqb tobs_eqb (snd a) (snd b).
Definition hobs_eqb (a b : hobs) : bool := beq (fst a) (fst b) && list_eqb robs_eqb (snd a) (snd b).
Definition tbl_eqb : tblobs -> tblobs -> bool := list_eqb hobs_eqb.

(* what the PROPERTY talks about: routes, targets, tags, options, weights -- not the sign of the
   effective weight ([live], C04/C06's subject) and not which error a rejected script gets.  The spec
   side compares with these; the correspondence side ([same]) compares everything. *)
Definition tobs_spec_eqb (a b : tobs) : bool :=
  match a, b with
  | T s u w tg op _, T s' u' w' tg' op' _ =>
      beq s s' && beq u u' && wt_eqb w w' && list_eqb beq tg tg' && list_eqb kv_eqb op op'
  end.
Definition tbl_spec_eqb : tblobs -> tblobs -> bool :=
  list_eqb (fun a b : hobs => beq (fst a) (fst b)
     && list_eqb (fun x y : robs => beq (fst x) (fst y) && list_eqb tobs_spec_eqb (snd x) (snd y)) (snd a) (snd b)).
Definition out_spec_eqb (a b : outcome tblobs) : bool :=
  match a, b with
  | Ok x, Ok y => tbl_spec_eqb x y
  | Err _, Err _ => true
  | _, _ => false
  end.

Definition out_eqb {A} (eqb : A -> A -> bool) (a b : outcome A) : bool :=
  match a, b with
  | Ok x, Ok y => eqb x y
  | Err j, Err k => j =? k
  | Panic, Panic => true
  | _, _ => false
  end.

Fixpoint insert_asc (h : str * list route) (l : table) : table :=
  match l with
  | [] => [h]
  | x :: l' => if str_ltb (fst h) (fst x) then h :: l else x :: insert_asc h l'
  end.

Definition obs_of_route (r : route) : robs :=
  (r_path r, map (fun t => T (t_svc t) (t_url t) (t_fw t) (t_tags t) (t_opts t) (live (r_targets r) t)) (r_targets r)).
Definition obs_of_table (t : table) : tblobs :=
  map (fun hr => (fst hr, map obs_of_route (snd hr))) (fold_right insert_asc [] t).

Definition target_of_obs (o : tobs) : target :=
  match o with T s u w tg op _ => {| t_svc := s; t_url := u; t_fw := w; t_tags := tg; t_opts := op |} end.
Definition table_of_obs (o : tblobs) : table :=
  map (fun h => (fst h, map (fun r => {| r_path := fst r; r_targets := map target_of_obs (snd r) |}) (snd h))) o.

(* ---- library facts carried by the case ---- *)
Fixpoint assoc {A} (k : str) (l : list (str * A)) : option A :=
  match l with
  | [] => None
  | (k', v) :: l' => if beq k k' then Some v else assoc k l'
  end.
Definition canon_of (urls : list (str * option str)) (d : str) : option str :=
  match assoc d urls with Some r => r | None => None end.
Definition glob_of (bad : list str) (p : str) : bool := negb (existsb (beq p) bad).
Definition pweight_of (wl : list (str * outcome wt)) (s : str) : outcome wt :=
  match assoc s wl with Some r => r | None => pweight_dec s end.
(* the in-model decimal parser agrees with strconv.ParseFloat on every literal it covers *)
Definition wlits_ok (wl : list (str * outcome wt)) : bool :=
  forallb (fun sr => match w_parse_dec (fst sr) with
                     | Some w => out_eqb wt_eqb (snd sr) (Ok w)
                     | None => true
                     end) wl.

(* ---- the documented semantics: hosts are case-insensitive in ALL three commands.
        Expressed independently of how the model folds the host: lower-case the host part of the
        source of every del / weight command in the parsed script, then run the table operations.
        (Until /repo commit b80fb7f the code did not fold in del / weight: finding F-C05-1, region 1,
        now fixed; the region is gone, a regression is a plain violation.) ---- *)
Definition fold_src (src : str) : str :=
  match src with
  | [] => []
  | _ => let '(h, p) := hostpath src in
         match index_byte src 47, src with
         | _, 58 :: _ => lower h
         | None, _ => lower h
         | Some _, _ => lower h ++ p
         end
  end.
Definition norm_def (d : def) : def :=
  match d_cmd d with
  | CmdAdd => d
  | _ => {| d_cmd := d_cmd d; d_svc := d_svc d; d_src := fold_src (d_src d); d_dst := d_dst d;
            d_w := d_w d; d_tags := d_tags d; d_opts := d_opts d |}
  end.
(* ---- structural invariants decided on the implementation's own table ---- *)
Definition tobs_w (o : tobs) : wt := match o with T _ _ w _ _ _ => w end.
Definition tobs_live (o : tobs) : bool := match o with T _ _ _ _ _ l => l end.
Definition tobs_tags (o : tobs) : list str := match o with T _ _ _ tg _ _ => tg end.
Definition tobs_url (o : tobs) : str := match o with T _ u _ _ _ _ => u end.
Definition tobs_key_eqb (a b : tobs) : bool :=
  match a, b with T s u _ tg _ _, T s' u' _ tg' _ _ => beq s s' && beq u u' && list_eqb beq tg tg' end.

(* The command language prescribes WHICH routes and targets a host has, not the order in which a
   lookup tries the routes (that is C03's property; NewTable's sort changed in /repo c1f03c0).  The
   spec therefore demands distinct paths per host and compares the routes of a host as a set:
   both sides are put in one canonical order (ascending path bytes) before they are compared.
   The correspondence ([same]) still compares the exact order with the model's sort. *)
Fixpoint distinct_paths (ps : list str) : bool :=
  match ps with
  | [] => true
  | a :: r => negb (existsb (beq a) r) && distinct_paths r
  end.
Fixpoint insert_robs (x : robs) (l : list robs) : list robs :=
  match l with
  | [] => [x]
  | y :: l' => if str_ltb (fst x) (fst y) then x :: l else y :: insert_robs x l'
  end.
Definition canon_routes (t : tblobs) : tblobs :=
  map (fun h : hobs => (fst h, fold_right insert_robs [] (snd h))) t.
Definition canon_out (o : outcome tblobs) : outcome tblobs :=
  match o with Ok t => Ok (canon_routes t) | x => x end.
Definition shape_ok (t : tblobs) : bool :=
  forallb (fun h : hobs =>
    beq (lower (fst h)) (fst h)
    && negb (match snd h with [] => true | _ => false end)
    && distinct_paths (map fst (snd h))
    && forallb (fun r : robs => negb (match snd r with [] => true | _ => false end)
                                && forallb (fun o => w_in_range (tobs_w o)) (snd r))
               (snd h)) t.

(* ---- non-triviality: some del removed something, some weight command matched, or an add
        was absorbed by the de-duplication ---- *)
Fixpoint interesting (canon : str -> option str) (glob_ok : str -> bool) (t : table) (ds : list def) : bool :=
  match ds with
  | [] => false
  | d :: ds' =>
      match apply_def canon glob_ok t d with
      | Ok t' =>
          (match d_cmd d with
           | CmdAdd => Nat.eqb (length (flat t')) (length (flat t))
           | CmdDel => negb (Nat.eqb (length (flat t')) (length (flat t)))
           | CmdWeight => true
           end) || interesting canon glob_ok t' ds'
      | _ => false
      end
  end.

(* ---- round trip: rt is t with every weight rounded to four decimals (non-positive -> 0) ---- *)
Definition k4 (w : wt) : N := if w_is_pos w then w_fmt4 w else 0.
Definition tobs_rt_eqb (a b : tobs) : bool :=
  match a, b with
  | T s u w tg op _, T s' u' w' tg' op' _ =>
      beq s s' && beq u u' && (k4 w =? k4 w') && list_eqb beq tg tg' && list_eqb kv_eqb op op'
  end.
Definition tbl_rt_eqb : tblobs -> tblobs -> bool :=
  list_eqb (fun a b : hobs => beq (fst a) (fst b)
     && list_eqb (fun x y : robs => beq (fst x) (fst y) && list_eqb tobs_rt_eqb (snd x) (snd y)) (snd a) (snd b)).

Fixpoint distinct_keys (l : list tobs) : bool :=
  match l with
  | [] => true
  | a :: l' => negb (existsb (tobs_key_eqb a) l') && distinct_keys l'
  end.
Definition all_targets (t : tblobs) : list tobs := flat_map (fun h : hobs => flat_map snd (snd h)) t.
Definition rt_domain (t : tblobs) : bool :=
  forallb (fun h : hobs => forallb (fun r : robs => distinct_keys (snd r)) (snd h)) t.
(* finding regions of the round trip *)
(* (region 2, targets with effective weight 0 left out of String(), F-C05-2, was repaired by /repo
   cb21db5: String() prints every target; a regression is a violation) *)
(* region 3 (F-C05-3, open): a single empty tag -- rendered as tags "" and read back as no tags.
   (Tags that %q used to escape -- backslash, control, non-printable bytes -- round-trip since /repo
   dfc4ae0 and are in no region any more: a regression there is a violation.) *)
Definition bad_tags (tg : list str) : bool :=
  match tg with
  | [[]] => true
  | _ => false
  end.
Definition has_bad_tags (t : tblobs) : bool := existsb (fun o => bad_tags (tobs_tags o)) (all_targets t).
Definition has_unstable_url (canon : str -> option str) (t : tblobs) : bool :=
  existsb (fun o => match tobs_url o with
                    | [] => true
                    | u => negb (opt_eqb beq (canon u) (Some u)) || existsb re_space u
                    end) (all_targets t).

Inductive case :=
(* NewTable(text).  urls: every dst token -> url.Parse(d).String() or None; badglobs: paths that
   glob.Compile rejects; wlits: every weight token -> strconv.ParseFloat *)
| CScript (urls : list (str * option str)) (badglobs : list str) (wlits : list (str * outcome wt))
          (text : str) (impl : outcome tblobs)
(* NewTableCustom(defs): the RouteDef-level entry (admin API, custom backends) *)
| CDefs (urls : list (str * option str)) (badglobs : list str) (defs : list def) (impl : outcome tblobs)
(* t.String() and NewTable(t.String()) for a table t the real code built *)
| CRound (urls : list (str * option str)) (badglobs : list str)
         (tbl : tblobs) (impl_text : str) (impl_rt : outcome tblobs).

Definition obs_out (o : outcome table) : outcome tblobs :=
  match o with Ok t => Ok (obs_of_table t) | Err k => Err k | Panic => Panic end.

Definition check_case (c : case) : N :=
  match c with
  | CScript urls bad wl text impl =>
      let canon := canon_of urls in
      let gl := glob_of bad in
      let pw := pweight_of wl in
      let m := obs_out (new_table pw canon gl text) in
      let same := out_eqb tbl_eqb impl m && wlits_ok wl in
      let defs := parse pw text in
      let spec_tbl := match defs with
                      | Ok ds => match run canon gl (map norm_def ds) with
                                 | Ok t => Ok (obs_of_table (sort_table t))
                                 | Err k => Err k
                                 | Panic => Panic
                                 end
                      | Err k => Err k
                      | Panic => Panic
                      end in
      let spec := out_spec_eqb (canon_out impl) (canon_out spec_tbl)
                  && match impl with Ok t => shape_ok t | Err _ => true | Panic => false end in
      let region : option N := None in
      let nontriv := match defs with Ok ds => interesting canon gl [] ds | _ => false end in
      verdict same spec region nontriv
  | CDefs urls bad ds impl =>
      let canon := canon_of urls in
      let gl := glob_of bad in
      let fin (o : outcome table) := match o with Ok t => Ok (obs_of_table (sort_table t)) | Err k => Err k | Panic => Panic end in
      let m := fin (run canon gl ds) in
      let same := out_eqb tbl_eqb impl m in
      let spec_tbl := fin (run canon gl (map norm_def ds)) in
      let spec := out_spec_eqb (canon_out impl) (canon_out spec_tbl)
                  && match impl with Ok t => shape_ok t | Err _ => true | Panic => false end in
      verdict same spec None (interesting canon gl [] ds)
  | CRound urls bad tbl itext irt =>
      let canon := canon_of urls in
      let gl := glob_of bad in
      let t := table_of_obs tbl in
      let same := tbl_eqb (obs_of_table t) tbl             (* the model's live flags = Weight > 0 *)
                  && beq (render t) itext
                  && out_eqb tbl_eqb irt (obs_out (new_table pweight_dec canon gl itext)) in
      let dom := rt_domain tbl in
      let spec := negb dom || match irt with Ok rt => tbl_rt_eqb (canon_routes tbl) (canon_routes rt) | _ => false end in
      let region := if has_bad_tags tbl then Some 3
                    else if has_unstable_url canon tbl then Some 4
                    else None in
      verdict same spec region (dom && negb (match tbl with [] => true | _ => false end))
  end.
