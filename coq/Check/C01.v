(** Correspondence check for C01. *)
From Coq Require Import String List NArith ZArith Bool.
From Fabio Require Import Lib.Outcome Lib.Bytes Lib.Verdict Model.WtF64 Model.TableCmd Model.RouteText Model.RouteCmd
     Model.Consul Model.Watch Model.ConsulSpec Model.RegistryTable Model.OperatorText.
Import ListNotations.
Local Open Scope N_scope.

(* ---- passingServices / checksWithTagPrefix: which elements of the input are returned ---- *)
Fixpoint kept_indices {A} (f : A -> bool) (l : list A) (i : nat) : list nat :=
  match l with
  | [] => []
  | x :: r => if f x then i :: kept_indices f r (S i) else kept_indices f r (S i)
  end.
Fixpoint increasing (l : list nat) : bool :=
  match l with
  | a :: ((b :: _) as r) => Nat.ltb a b && increasing r
  | _ => true
  end.
Definition mem_nat (i : nat) (l : list nat) : bool := existsb (Nat.eqb i) l.
(* [impl] selects exactly the elements satisfying [p] *)
Fixpoint selects_exactly {A} (p : A -> bool) (l : list A) (i : nat) (impl : list nat) : bool :=
  match l with
  | [] => true
  | x :: r => Bool.eqb (mem_nat i impl) (p x) && selects_exactly p r (S i) impl
  end.

(* ---- the active table as the harness canonicalises it: sorted (host, path, service, dst) ---- *)
Definition tgt := (str * str * str * str)%type.
Definition tbl := list tgt.
Definition tgt_eqb (a b : tgt) : bool :=
  match a, b with (a1, a2, a3, a4), (b1, b2, b3, b4) => beq a1 b1 && beq a2 b2 && beq a3 b3 && beq a4 b4 end.
Definition tbl_eqb : tbl -> tbl -> bool := list_eqb tgt_eqb.

(* one scripted delivery: channel (true = manual), index into the case's text pool, and
   whether the active table was read once the loop had accepted this delivery (the
   harness marks only re-deliveries of a current value, which leave the table alone) *)
Definition sev := (bool * nat * bool)%type.
Definition ev_of (texts : list str) (e : sev) : event :=
  match e with (man, i, _) => if man then Man (nth i texts []) else Svc (nth i texts []) end.

(* route.NewTable's verdict on a combined text, as computed by the real NewTable *)
Definition build_of (texts : list str) (builds : list (nat * nat * option tbl)) (t : str) : option (option tbl) :=
  match List.find (fun b => match b with (i, j, _) => beq (next_text (nth i texts []) (nth j texts [])) t end) builds with
  | Some (_, _, r) => Some r
  | None => None
  end.
Definition build_tot texts builds (t : str) : option tbl :=
  match build_of texts builds t with Some r => r | None => None end.

(* every combined text the history produces has a verdict in the case *)
Fixpoint covered texts builds (h : list event) (s m : str) : bool :=
  match h with
  | [] => true
  | e :: r => let s' := match e with Svc t => t | _ => s end in
              let m' := match e with Man t => t | _ => m end in
              match build_of texts builds (next_text s' m') with Some _ => covered texts builds r s' m' | None => false end
  end.

(* model observations at the marked deliveries: the state BEFORE the marked delivery is
   processed; [None] if the marked delivery would change the table (ill-formed script) *)
Fixpoint observe texts builds (w : wstate tbl) (evs : list sev) : option (list (tbl * bool)) :=
  match evs with
  | [] => Some []
  | e :: r =>
      let w' := step tbl (build_tot texts builds) w (ev_of texts e) in
      match e with
      | (_, _, true) =>
          if tbl_eqb (w_active w) (w_active w') && Bool.eqb (w_first w) (w_first w') then
            match observe texts builds w' r with
            | Some l => Some ((w_active w, w_first w) :: l)
            | None => None
            end
          else None
      | _ => observe texts builds w' r
      end
  end.
(* the declarative expectation at the same points *)
Fixpoint expect texts builds (done_rev : list event) (evs : list sev) : list (tbl * bool) :=
  match evs with
  | [] => []
  | e :: r =>
      let rest := expect texts builds (ev_of texts e :: done_rev) r in
      match e with
      | (_, _, true) => (expected_active_rev tbl (build_tot texts builds) [] done_rev,
                         expected_first_rev tbl (build_tot texts builds) done_rev) :: rest
      | _ => rest
      end
  end.
Definition obs_eqb (a b : tbl * bool) : bool := tbl_eqb (fst a) (fst b) && Bool.eqb (snd a) (snd b).

(* ---- end to end: registry state -> (C14 commands) -> text -> (C05 NewTable) -> table ---- *)
(* url.Parse(...).String() and glob.Compile on the strings of the case, from the real libraries *)
Fixpoint assoc_str {A} (k : str) (l : list (str * A)) : option A :=
  match l with
  | [] => None
  | (k', v) :: l' => if beq k k' then Some v else assoc_str k l'
  end.
Definition canon_of (urls : list (str * option str)) (d : str) : option str :=
  match assoc_str d urls with Some r => r | None => None end.
Definition glob_of (bad : list str) (p : str) : bool := negb (existsb (beq p) bad).

Definition tgt_cmp (a b : tgt) : comparison :=
  match a, b with
  | (a1, a2, a3, a4), (b1, b2, b3, b4) =>
      match str_cmp a1 b1 with Eq =>
      match str_cmp a2 b2 with Eq =>
      match str_cmp a3 b3 with Eq => str_cmp a4 b4 | c => c end | c => c end | c => c end
  end.
Fixpoint tgt_insert (x : tgt) (l : list tgt) : list tgt :=
  match l with
  | [] => [x]
  | y :: r => match tgt_cmp x y with Gt => y :: tgt_insert x r | _ => x :: l end
  end.
Definition tgt_sort (l : list tgt) : list tgt := fold_right tgt_insert [] l.
(* [wt]: the destination component also carries the target's tags (URL, NUL, tags joined by
   commas) - used where the harness reads the table itself; the watchBackend driver reports
   (host, path, service, URL) only *)
Definition url_tags (wt : bool) (url : str) (tags : list str) : str :=
  if wt then url ++ 0 :: join tags [44] else url.
Definition obs_table_g (wt : bool) (t : table) : tbl :=
  tgt_sort (map (fun x => match x with (h, p, tg) => (h, p, t_svc tg, url_tags wt (t_url tg) (t_tags tg)) end) (flat t)).
Definition obs_table : table -> tbl := obs_table_g false.
Definition tbl_subset (a b : tbl) : bool := forallb (fun x => existsb (tgt_eqb x) b) a.

(* the property's reading, per catalog entry: a service check under the entry's name on its
   node / id, and [healthy_b] in the unfiltered health state *)
Definition inst_healthy_b (status : list str) (strict : bool) (checks : list hcheck) (r : rentry) : bool :=
  negb (beq (g_name (r_reg r)) [])
  && existsb (fun c => is_service_check c && beq (c_sname c) (g_name (r_reg r))
                       && own_b (r_node r) (g_id (r_reg r)) c) checks
  && healthy_b checks status strict (r_node r) (g_id (r_reg r)).
(* C01_svc_table_iff's right-hand side, for ALL catalogs: the targets of the routed intents
   (healthy named instance, advertised prefix, command accepted by NewTable on its own), as the
   parsed command says them *)
Definition expected_targets_g (wt : bool) (pw : str -> outcome WtF64.wt) (canon : str -> option str) (gl : str -> bool)
           (env : env_t) (prefix : str)
           (status : list str) (strict : bool) (checks : list hcheck) (rcat : list rentry) : tbl :=
  flat_map (fun r =>
    if inst_healthy_b status strict checks r then
      flat_map (fun i =>
        if validate_intent pw canon gl i then
          match parse_line pw (render_intent i) with
          | Ok (Some d) => match canon (d_dst d) with
                           | Some u => [(lower (fst (hostpath (d_src d))), snd (hostpath (d_src d)), d_svc d, url_tags wt u (d_tags d))]
                           | None => []
                           end
          | _ => []
          end
        else []) (intents env prefix (r_reg r))
    else []) rcat.
Definition expected_targets := expected_targets_g false.

Inductive case :=
(* passingServices(checks, status, strict): positions of the returned checks *)
| CPass (checks : list hcheck) (status : list str) (strict : bool) (impl : list nat)
(* checksWithTagPrefix(prefix, checks): positions of the returned checks *)
| CFilter (prefix : str) (checks : list hcheck) (impl : list nat)
(* one config text pushed by the real ServiceMonitor.Watch against a fake Consul holding
   [checks] and [catalog]; [consistent] = every check carries its catalog entry's tags *)
| CSvc (consistent : bool) (prefix : str) (status : list str) (strict : bool)
       (checks : list hcheck) (catalog : list centry) (impl : str)
(* the real watchBackend on scripted channels *)
| CWatch (texts : list str) (builds : list (nat * nat * option tbl)) (evs : list sev)
         (impl : list (tbl * bool))
(* one manual config pushed by the real watchKV against the fake Consul's KV store *)
| CKv (pairs : list (str * str)) (impl : str)
(* a round of the real Watch loop during which the fake Consul answered 500 (health query, or
   the catalog lookup of the service names [failing]): was a config pushed while that lasted? *)
| CFail (health_err : bool) (failing : list str) (prefix : str) (status : list str) (strict : bool)
        (checks : list hcheck) (catalog : list centry) (pushed : bool)
(* end to end: the text pushed by the real backend for the state (checks, rcat) and the table the
   real route.NewTable builds from it, against the composed model of Model/RegistryTable.v;
   [wt]: the table observation carries the targets' tags (the harness read the table itself)
   or not (it came from the watchBackend driver) *)
| CE2E (env : env_t) (prefix : str) (urls : list (str * option str)) (badglobs : list str)
       (status : list str) (strict : bool) (checks : list hcheck) (rcat : list rentry)
       (impl_text : str) (impl_tbl : option tbl) (wt : bool)
(* the same through the real watchBackend with the operator's manual text [mtext] (from the real
   watchKV) on top: the table installed before ([prev]) and after ([impl]) the delivery *)
| CE2EM (env : env_t) (prefix : str) (urls : list (str * option str)) (badglobs : list str)
        (status : list str) (strict : bool) (checks : list hcheck) (rcat : list rentry)
        (mtext : str) (prev impl : tbl)
(* the same with the operator's text given as the COMMANDS it was written from ([ops], Model/
   OperatorText.v; the harness renders them on its own, stores the text in the fake KV store and
   the real watchKV pushes [mtext]): the spec side reads the expected table off the commands --
   no parser involved *)
| CE2EO (env : env_t) (prefix : str) (urls : list (str * option str)) (badglobs : list str)
        (status : list str) (strict : bool) (checks : list hcheck) (rcat : list rentry)
        (ops : list opcmd) (mtext : str) (prev impl : tbl).

(* the model of one delivery through watchBackend: the combined text through NewTable; a rejected
   text keeps the previous table *)
Definition installed_model (canon : str -> option str) (gl : str -> bool) (env : env_t) (prefix : str)
           (status : list str) (strict : bool) (checks : list hcheck) (rcat : list rentry) (mtext : str) (prev : tbl) : tbl :=
  match registry_config pweight_dec canon gl env prefix status strict checks rcat with
  | Ok t => match new_table pweight_dec canon gl (next_text t mtext) with
            | Ok tb => obs_table tb
            | _ => prev
            end
  | _ => prev
  end.

(* the spec for an arbitrary manual text (C01_svc_table_any_manual / C01_svc_table_with_manual_adds):
   unless the table was left as it was, every target is a routed intent's or a manual 'route add''s
   - del and weight bring nothing in - and for a manual text of adds only nothing is missing *)
Definition manual_text_spec (canon : str -> option str) (gl : str -> bool) (env : env_t) (prefix : str)
           (status : list str) (strict : bool) (checks : list hcheck) (rcat : list rentry) (mtext : str) (prev impl : tbl) : bool :=
  let exp := expected_targets pweight_dec canon gl env prefix status strict checks rcat in
  let dm := match parse pweight_dec mtext with Ok ds => ds | _ => [] end in
  let adds := flat_map (fun d => match d_cmd d, canon (d_dst d) with
                                 | CmdAdd, Some u => [(lower (fst (hostpath (d_src d))), snd (hostpath (d_src d)), d_svc d, u)]
                                 | _, _ => []
                                 end) dm in
  let adds_only := forallb (fun d => match d_cmd d with CmdAdd => true | _ => false end) dm in
  tbl_eqb impl prev
  || (tbl_subset impl (exp ++ adds) && (negb adds_only || tbl_subset (exp ++ adds) impl)).

(* C01_active_table_operator, read off the registry state and the operator's commands: the
   healthy instances' advertised targets with the commands applied on top, as (host, path,
   service, URL) *)
Definition core_tgt (c : ocore) : tgt := (oc_host c, oc_path c, oc_svc c, oc_url c).
Definition expected_with_ops (canon : str -> option str) (env : env_t) (prefix : str)
           (status : list str) (strict : bool) (checks : list hcheck) (rcat : list rentry) (ops : list opcmd) : tbl :=
  let exp0 := flat_map (fun r => if inst_healthy_b status strict checks r
                                 then flat_map (intent_core canon) (intents env prefix (r_reg r)) else []) rcat in
  map core_tgt (apply_ops canon exp0 ops).

Definition check_case (c : case) : N :=
  match c with
  | CPass checks status strict impl =>
      let m := kept_indices (keeps checks status strict) checks 0 in
      let same := list_eqb Nat.eqb impl m in
      let spec := increasing impl
                  && forallb (fun i => Nat.ltb i (length checks)) impl
                  && selects_exactly (fun c => is_service_check c
                                               && healthy_b checks status strict (c_node c) (c_sid c))
                                     checks 0 impl in
      let nsvc := length (filter is_service_check checks) in
      verdict same spec None (negb (Nat.eqb nsvc 0))
  | CFilter prefix checks impl =>
      let m := kept_indices (tag_kept prefix) checks 0 in
      let same := list_eqb Nat.eqb impl m in
      (* spec: nothing is invented or reordered; every agent / node-maintenance /
         service-maintenance check and every check carrying the prefix survives; nothing
         else does (a check id merely starting with "_service_maintenance" may) *)
      let must c := beq (c_id c) s_serfHealth || beq (c_id c) s_node_maintenance
                    || has_prefix (c_id c) s_service_maintenance_colon || tagged prefix c in
      let may c := must c || has_prefix (c_id c) s_service_maintenance in
      let spec := increasing impl
                  && forallb (fun i => Nat.ltb i (length checks)) impl
                  && forallb (fun i => may (nth i checks (mkCheck [] [] [] [] [] []))) impl
                  && Nat.eqb (length (filter must (map (fun i => nth i checks (mkCheck [] [] [] [] [] [])) impl)))
                             (length (filter must checks)) in
      verdict same spec None (negb (Nat.eqb (length m) (length checks)))
  | CSvc consistent prefix status strict checks catalog impl =>
      let m := svc_config prefix status strict checks catalog in
      let same := match m with Ok t => beq t impl | _ => false end in
      let exp := expected_lines prefix status strict checks catalog in
      (* the property is silent on the order of the lines: the spec compares them as a multiset
         (the exact text, order included, is part of [same]); tag-inconsistent states are
         outside what Consul produces: correspondence with the model only *)
      let lines := match impl with [] => [] | _ => split_byte impl 10 end in
      let spec := if consistent then list_eqb beq (sort_desc lines) (sort_desc exp) else same in
      let all := flat_map e_cmds catalog in
      verdict same spec None (negb (Nat.eqb (length exp) 0) && negb (Nat.eqb (length exp) (length all)))
  | CWatch texts builds evs impl =>
      let h := map (ev_of texts) evs in
      let ok := covered texts builds h [] [] in
      let m := observe texts builds (w_init tbl []) evs in
      let same := ok && match m with Some l => list_eqb obs_eqb impl l | None => false end in
      let spec := ok && list_eqb obs_eqb impl (expect texts builds [] evs) in
      let has_bad := existsb (fun b => match b with (_, _, None) => true | _ => false end) builds in
      let has_good := existsb (fun b => match b with (_, _, Some _) => true | _ => false end) builds in
      verdict same spec None (has_bad && has_good)
  | CKv pairs impl =>
      let same := beq impl (kv_text pairs) in
      (* spec: the operator's values, trimmed, in key order, each introduced by a comment
         line naming its key, separated by an empty line *)
      let spec := list_eqb beq (split_byte impl 10)
                    (match flat_map (fun p => [[]; s_kv_sep ++ fst p] ++ split_byte (trim_space (snd p)) 10) pairs with
                     | [] => [[]] | _ :: r => r end) in
      verdict same spec None (negb (Nat.eqb (length pairs) 0))
  | CFail health_err failing prefix status strict checks catalog pushed =>
      let o := if health_err then ObsHealthErr else ObsState checks catalog failing in
      let same := Bool.eqb pushed (is_ok (observe_config prefix status strict o)) in
      (* spec: a config built without the services whose lookup failed would take the routes of
         their healthy instances out of the table, so none may be pushed *)
      let needed := existsb (fun c => is_service_check c && tagged prefix c && negb (beq (c_sname c) [])
                                      && healthy_b checks status strict (c_node c) (c_sid c)
                                      && existsb (beq (c_sname c)) failing) checks in
      let spec := if health_err || needed then negb pushed else pushed in
      verdict same spec None (health_err || needed)
  | CE2E env prefix urls bad status strict checks rcat itext itbl wt =>
      let canon := canon_of urls in
      let gl := glob_of bad in
      let mtext := registry_config pweight_dec canon gl env prefix status strict checks rcat in
      let mtbl := match mtext with
                  | Ok t => match new_table pweight_dec canon gl t with Ok tb => Some (obs_table_g wt tb) | _ => None end
                  | _ => None
                  end in
      let same := match mtext with Ok t => beq t itext | _ => false end && opt_eqb tbl_eqb itbl mtbl in
      let exp := expected_targets_g wt pweight_dec canon gl env prefix status strict checks rcat in
      (* C01_svc_table_iff, evaluated on the implementation's table: accepted, and exactly the
         routed intents' targets - whatever the catalog *)
      let spec := match itbl with Some t => tbl_subset t exp && tbl_subset exp t | None => false end in
      let some_dropped := existsb (fun r => existsb (fun i => negb (validate_intent pweight_dec canon gl i))
                                                    (intents env prefix (r_reg r))) rcat in
      verdict same spec None (negb (Nat.eqb (length exp) 0)
                              && (existsb (fun r => negb (inst_healthy_b status strict checks r)) rcat || some_dropped))
  | CE2EM env prefix urls bad status strict checks rcat mtext prev impl =>
      let canon := canon_of urls in
      let gl := glob_of bad in
      (* model: the combined text through NewTable; a rejected text keeps the previous table *)
      let m := match registry_config pweight_dec canon gl env prefix status strict checks rcat with
               | Ok t => match new_table pweight_dec canon gl (next_text t mtext) with
                         | Ok tb => obs_table tb
                         | _ => prev
                         end
               | _ => prev
               end in
      let same := tbl_eqb impl m in
      (* spec (C01_svc_table_any_manual / C01_svc_table_with_manual_adds): unless the table was
         left as it was, every target is a routed intent's or a manual 'route add''s - del and
         weight bring nothing in - and for a manual text of adds only nothing is missing *)
      let exp := expected_targets pweight_dec canon gl env prefix status strict checks rcat in
      let dm := match parse pweight_dec mtext with Ok ds => ds | _ => [] end in
      let adds := flat_map (fun d => match d_cmd d, canon (d_dst d) with
                                     | CmdAdd, Some u => [(lower (fst (hostpath (d_src d))), snd (hostpath (d_src d)), d_svc d, u)]
                                     | _, _ => []
                                     end) dm in
      let adds_only := forallb (fun d => match d_cmd d with CmdAdd => true | _ => false end) dm in
      let spec := tbl_eqb impl prev
                  || (tbl_subset impl (exp ++ adds) && (negb adds_only || tbl_subset (exp ++ adds) impl)) in
      verdict same spec None (negb (tbl_eqb impl prev) && negb (Nat.eqb (length dm) 0))
  | CE2EO env prefix urls bad status strict checks rcat ops mtext prev impl =>
      let canon := canon_of urls in
      let gl := glob_of bad in
      (* the text the real watchKV pushed is the text of the commands (a mismatch is a broken
         correspondence, never a silently weaker check) *)
      let text_ok := beq mtext (operator_text ops) in
      let m := installed_model canon gl env prefix status strict checks rcat mtext prev in
      let same := text_ok && tbl_eqb impl m in
      (* every registration expressible, every command expressible, no 'route weight' (which is
         rejected when nothing matches): the combined text is accepted -- the table is NOT left as
         it was -- and holds exactly the healthy instances' targets with the commands applied on
         top; otherwise the spec for arbitrary manual texts *)
      let all_expr := forallb (fun r => forallb (intent_expressible pweight_dec canon gl) (intents env prefix (r_reg r))) rcat in
      let ops_ok := forallb (op_expressible pweight_dec canon gl) ops && forallb (fun o => negb (is_weight_op o)) ops in
      let exp := expected_with_ops canon env prefix status strict checks rcat ops in
      let spec := if all_expr && ops_ok then tbl_subset impl exp && tbl_subset exp impl
                  else manual_text_spec canon gl env prefix status strict checks rcat mtext prev impl in
      verdict same spec None (negb (Nat.eqb (length ops) 0))
  end.
