(** Correspondence check for C03, evaluated by [vm_compute] on the cases the Go
    harness wrote (outputs of the real route.Table.Lookup, gobwas/glob and
    route.ReverseHostPort next to the inputs that produced them). *)
From Coq Require Import List NArith Bool.
From Fabio Require Import Lib.Bytes Lib.Verdict Model.Glob Model.Lookup.
Import ListNotations.
Local Open Scope N_scope.

Inductive case :=
(* a table built by route.NewTable from [route add] lines (host as written, path, id of
   the route = index of its service name), one request, matcher 0 prefix / 1 iprefix /
   2 glob, glob matching disabled?, and the id of the route whose target the real
   Table.Lookup returned (None = nil) *)
| CLookup (defs : list def) (host : str) (tls : bool) (uri : str) (m : N) (globoff : bool)
          (impl : option N)
(* Table.LookupHost(host, pick) (TCP/SNI routing): the key is the lower-cased host itself,
   the path is "/" under the prefix matcher *)
| CLookupHost (defs : list def) (host : str) (impl : option N)
(* glob.MustCompile(pattern).Match(s) *)
| CGlob (pattern s : str) (impl : bool)
(* route.ReverseHostPort(s) *)
| CRhp (s : str) (impl : str).

Definition matcher_of (m : N) : matcher :=
  if m =? 0 then MPrefix else if m =? 1 then MIPrefix else MGlob.

Definition def_domain (d : def) : bool :=
  let '(h, p, _) := d in key_domain h && glob_domain p.

Definition lookup_domain (defs : list def) (host uri : str) : bool :=
  forallb def_domain defs && subject_domain host && no_bracket host && subject_domain uri.

Definition id_of (o : option cand) : option N :=
  match o with Some (_, _, id) => Some id | None => None end.

Definition is_some {A} (o : option A) : bool := match o with Some _ => true | None => false end.

Definition check_case (c : case) : N :=
  match c with
  | CLookup defs host tls uri mn globoff impl =>
      if negb (lookup_domain defs host uri) then v_disagree else
      let m := matcher_of mn in
      let t := new_table defs in
      let model := lookup t host tls uri m globoff in
      let same := opt_eqb N.eqb impl (id_of model) in
      (* the property's specification on the implementation's own choice *)
      let spec :=
        match impl with
        | None => spec_b t globoff tls m host uri None
        | Some id =>
            match find (fun c : cand => snd c =? id) (all_routes t) with
            | Some c => spec_b t globoff tls m host uri (Some c)
            | None => false
            end
        end in
      let ncand := length (candidates t globoff tls m host uri) in
      verdict same spec (region t globoff tls m host uri) (Nat.leb 2 ncand)
  | CLookupHost defs host impl =>
      if negb (lookup_domain defs host [47]) then v_disagree else
      let t := new_table defs in
      let model := lookup1 t host [47] MPrefix in
      let same := opt_eqb N.eqb impl (id_of model) in
      (* spec: exactly the routes of key lower(host) with path "/" qualify *)
      let ok (c : cand) := beq (fst (fst c)) (lower host) && beq (snd (fst c)) [47] in
      let spec :=
        match impl with
        | None => negb (existsb ok (all_routes t))
        | Some id => existsb (fun c : cand => (snd c =? id) && ok c) (all_routes t)
        end in
      verdict same spec None (is_some model)
  | CGlob pattern s impl =>
      if negb (glob_domain pattern && subject_domain s) then v_disagree else
      verdict (Bool.eqb impl (gobwas_match pattern s)) (Bool.eqb impl (glob_match pattern s))
              (if gobwas_deviates pattern s then Some 6 else None) (has_meta pattern)
  | CRhp s impl =>
      if negb (subject_domain s && no_bracket s) then v_disagree else
      verdict (beq impl (reverse_host_port s)) true None (has_colon s)
  end.
