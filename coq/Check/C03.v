(** Correspondence check for C03, evaluated by [vm_compute] on the cases the Go
    harness wrote (outputs of the real route.Table.Lookup, gobwas/glob and
    route.ReverseHostPort next to the inputs that produced them). *)
From Coq Require Import List NArith Bool.
From Fabio Require Import Lib.Outcome Lib.Bytes Lib.Verdict Model.Glob Model.Lookup Model.LookupCmd.
From Fabio Require Model.TableCmd.
Import ListNotations.
Local Open Scope N_scope.

Inductive case :=
(* a table built by route.NewTable from [route add] lines (host as written, path, id of
   the route = index of its service name), one request, matcher 0 prefix / 1 iprefix /
   2 glob, glob matching disabled?, and the id of the route whose target the real
   Table.Lookup returned (None = nil) *)
| CLookup (defs : list def) (host : str) (tls : bool) (uri : str) (m : N) (globoff : bool)
          (impl : option N)
(* Table.LookupHost(host, pick) (TCP/SNI routing): the key is the lower-cased host itself,
   the path is "/" under the prefix matcher *)
| CLookupHost (defs : list def) (host : str) (impl : option N)
(* a table built by route.NewTable from a SEQUENCE of route add / del / weight commands
   (mixed-case hosts, tag selectors), one request; impl: Err = NewTable rejected the text,
   Ok None = Lookup returned nil, Ok (Some (host key, path)) = the route that holds the
   returned target *)
| CCmdLookup (cmds : list cdef) (host : str) (tls : bool) (uri : str) (m : N) (globoff : bool)
             (impl : outcome (option (str * str)))
(* as CCmdLookup, the table built by route.NewTableCustom from the same commands handed over
   as a RouteDef list (the custom registry backend's constructor) *)
| CCustomLookup (cmds : list cdef) (host : str) (tls : bool) (uri : str) (m : N) (globoff : bool)
                (impl : outcome (option (str * str)))
(* as CLookup, after the harness emptied the Targets of the routes whose ids are in [zeros]
   (a state no command sequence reaches): exercises the [n == 0 -> return nil] branch of
   Table.lookup against [lookup_cmd]; correspondence only *)
| CLookupT (defs : list def) (zeros : list N) (host : str) (tls : bool) (uri : str) (m : N)
           (globoff : bool) (impl : option N)
(* sortHostsReverseHostPort(hosts) (through the hook VerifSortHosts) *)
| CSortHosts (hosts : list str) (impl : list str)
(* glob.MustCompile(pattern).Match(s) *)
| CGlob (pattern s : str) (impl : bool)
(* route.ReverseHostPort(s) *)
| CRhp (s : str) (impl : str).

Definition matcher_of (m : N) : matcher :=
  if m =? 0 then MPrefix else if m =? 1 then MIPrefix else MGlob.

Definition def_domain (d : def) : bool :=
  let '(h, p, _) := d in key_domain h && glob_domain p.

(* with glob matching disabled host keys are literal names: brackets (IPv6 literals) are
   inside the model there (the path is a glob pattern whatever the mode); the request host may
   carry brackets in both modes (it is only ever the subject of a match) *)
Definition def_domain_g (globoff : bool) (d : def) : bool :=
  let '(h, p, _) := d in
  (if globoff then subject_domain h && match h with c :: _ => negb (c =? 58) | [] => true end else key_domain h)
  && glob_domain p.

Definition lookup_domain_g (globoff : bool) (defs : list def) (host uri : str) : bool :=
  forallb (def_domain_g globoff) defs && subject_domain host && subject_domain uri.

Definition lookup_domain (defs : list def) (host uri : str) : bool :=
  forallb def_domain defs && subject_domain host && no_bracket host && subject_domain uri.

Definition id_of (o : option cand) : option N :=
  match o with Some (_, _, id) => Some id | None => None end.

Definition is_some {A} (o : option A) : bool := match o with Some _ => true | None => false end.

(* a table built by a command list ([tbl] = the model's table: cmd_table for NewTable,
   custom_table for NewTableCustom) and one request *)
Definition check_cmd_lookup (tbl : outcome table) (cmds : list cdef) (host : str) (tls : bool)
           (uri : str) (mn : N) (globoff : bool) (impl : outcome (option (str * str))) : N :=
      let src_ok (c : cdef) :=
        let '(_, _, src, _, _, _) := c in
        match src with
        | [] => true
        | _ => let '(h, p) := TableCmd.hostpath src in key_domain h && glob_domain p
        end in
      if negb (forallb src_ok cmds && subject_domain host && no_bracket host && subject_domain uri)
      then v_disagree else
      let m := matcher_of mn in
      match tbl, impl with
      | Ok t, Ok sel =>
          let model := match lookup_cmd t host tls uri m globoff with
                       | Some (k, p, _) => Some (k, p) | None => None end in
          let pair_eqb (a b : str * str) := beq (fst a) (fst b) && beq (snd a) (snd b) in
          let same := opt_eqb pair_eqb sel model in
          let spec :=
            match sel with
            | None => spec_b t globoff tls m host uri None
            | Some (k, p) =>
                match find (fun c : cand => beq (fst (fst c)) k && beq (snd (fst c)) p) (all_routes t) with
                | Some c => spec_b t globoff tls m host uri (Some c)
                | None => false
                end
            end in
          verdict same spec (region t globoff tls m host uri)
                  (Nat.leb 2 (length (candidates t globoff tls m host uri)))
      | Err _, Err _ => v_agree_trivial
      | Panic, Panic => v_disagree_spec_fails
      | _, _ => v_disagree
      end.

Definition check_case (c : case) : N :=
  match c with
  | CLookup defs host tls uri mn globoff impl =>
      if negb (lookup_domain_g globoff defs host uri) then v_disagree else
      let m := matcher_of mn in
      let t := new_table defs in
      let model := lookup t host tls uri m globoff in
      let same := opt_eqb N.eqb impl (id_of model) in
      (* the property's specification on the implementation's own choice *)
      let spec :=
        match impl with
        | None => spec_b t globoff tls m host uri None
        | Some id =>
            match find (fun c : cand => snd c =? id) (all_routes t) with
            | Some c => spec_b t globoff tls m host uri (Some c)
            | None => false
            end
        end in
      let ncand := length (candidates t globoff tls m host uri) in
      verdict same spec (region t globoff tls m host uri) (Nat.leb 2 ncand)
  | CLookupHost defs host impl =>
      if negb (lookup_domain defs host [47]) then v_disagree else
      let t := new_table defs in
      let model := lookup1 t host [47] MPrefix in
      let same := opt_eqb N.eqb impl (id_of model) in
      (* spec: exactly the routes of key lower(host) with path "/" qualify *)
      let ok (c : cand) := beq (fst (fst c)) (lower host) && beq (snd (fst c)) [47] in
      let spec :=
        match impl with
        | None => negb (existsb ok (all_routes t))
        | Some id => existsb (fun c : cand => (snd c =? id) && ok c) (all_routes t)
        end in
      verdict same spec None (is_some model)
  | CCmdLookup cmds host tls uri mn globoff impl =>
      check_cmd_lookup (cmd_table cmds) cmds host tls uri mn globoff impl
  | CCustomLookup cmds host tls uri mn globoff impl =>
      check_cmd_lookup (custom_table (Some cmds)) cmds host tls uri mn globoff impl
  | CLookupT defs zeros host tls uri mn globoff impl =>
      if negb (lookup_domain defs host uri) then v_disagree else
      let count (id : N) : N := if existsb (N.eqb id) zeros then 0 else id + 1 in
      let t := map (fun e : str * list route =>
                      (fst e, map (fun r : route => (fst r, count (snd r))) (snd e))) (new_table defs) in
      let model := match lookup_cmd t host tls uri (matcher_of mn) globoff with
                   | Some (_, _, n) => Some (n - 1) | None => None end in
      verdict (opt_eqb N.eqb impl model) true None (negb (is_nil zeros))
  | CSortHosts hosts impl =>
      if negb (forallb subject_domain hosts) then v_disagree else
      let same := list_eqb beq impl (sort_hosts_rhp hosts) in
      (* spec: the hosts handed on are exactly the hosts handed in (a permutation) *)
      let spec := list_eqb beq (sort_desc str_ltb impl) (sort_desc str_ltb hosts) in
      verdict same spec None (Nat.leb 2 (length hosts))
  | CGlob pattern s impl =>
      if negb (glob_domain pattern && subject_domain s) then v_disagree else
      verdict (Bool.eqb impl (gobwas_match pattern s)) (Bool.eqb impl (glob_match pattern s))
              (if gobwas_deviates pattern s then Some 6 else None) (has_meta pattern)
  | CRhp s impl =>
      if negb (subject_domain s) then v_disagree else
      verdict (beq impl (reverse_host_port s)) true None (has_colon s)
  end.
