(** Correspondence check for C14, evaluated by [vm_compute] on the cases the Go harness wrote:
    catalog entries, what the real routecmd.build made of them, what the real route.Parse said
    about every generated command, and the table the real route.NewTable built from the whole
    (reverse-sorted, newline-joined) text. *)
From Coq Require Import String List NArith ZArith Bool.
From Fabio Require Import Lib.Outcome Lib.Bytes Lib.Verdict Model.WtF64 Model.TableCmd Model.RouteText Model.RouteCmd Model.ServiceWatch.
From Fabio Require Check.C05.
Import ListNotations.
Local Open Scope N_scope.

Definition kv_eqb (a b : str * str) : bool := beq (fst a) (fst b) && beq (snd a) (snd b).
Definition cmd_eqb (a b : cmd) : bool :=
  match a, b with CmdAdd, CmdAdd => true | CmdDel, CmdDel => true | CmdWeight, CmdWeight => true | _, _ => false end.
Definition def_eqb (a b : def) : bool :=
  cmd_eqb (d_cmd a) (d_cmd b) && beq (d_svc a) (d_svc b) && beq (d_src a) (d_src b) && beq (d_dst a) (d_dst b)
  && wt_eqb (d_w a) (d_w b) && list_eqb beq (d_tags a) (d_tags b) && list_eqb kv_eqb (d_opts a) (d_opts b).

(* constructors the harness writes *)
Definition D (c : cmd) (svc src dst : str) (w : wt) (tags : list str) (opts : list (str * str)) : def :=
  {| d_cmd := c; d_svc := svc; d_src := src; d_dst := dst; d_w := w; d_tags := tags; d_opts := opts |}.
Definition G (name id addr node_addr : str) (port : Z) (tags : list str) : reg :=
  {| g_name := name; g_id := id; g_addr := addr; g_node_addr := node_addr; g_port := port; g_tags := tags |}.

Definition out_eqb {A} := @C05.out_eqb A.

(* ---- the specification, on the implementation's observables ---- *)
Section Spec.
  Variable pweight : str -> outcome wt.
  Variable canon : str -> option str.
  Variable glob_ok : str -> bool.

  Definition expr := intent_expressible pweight canon glob_ok.

  (* (1) an accepted command denotes the registration it was made from; a command made from an
         expressible registration is accepted *)
  Definition denotes_one (i : intent) (o : outcome (list def)) : bool :=
    match o with
    | Ok [d] => out_eqb def_eqb (Ok d) (intent_def pweight i)
    | Ok _ => false
    | Err _ => negb (expr i)
    | Panic => false
    end.
  (* the outcomes are aligned with the intents in order; an intent that is not expressible may
     have been dropped on its own (no command at all), as the property allows *)
  Fixpoint denotes_all (is : list intent) (os : list (outcome (list def))) : bool :=
    match is with
    | [] => match os with [] => true | _ => false end
    | i :: is' =>
        (match os with o :: os' => denotes_one i o && denotes_all is' os' | [] => false end)
        || (negb (expr i) && denotes_all is' os)
    end.

  (* (2) the table exists, holds the target of every expressible registration under
         (lower-cased host, path), and holds nothing that no registration asked for *)
  Definition hp (i : intent) : str * str := let '(h, p) := hostpath (i_route i) in (lower h, p).
  Definition tobs_is (i : intent) (full : bool) (o : C05.tobs) : bool :=
    match o, intent_def pweight i, canon (i_dst i) with
    | C05.T s u w tg op _, Ok d, Some url =>
        beq s (i_svc i) && beq u url && wt_eqb w (w_clamp (d_w d)) && list_eqb beq tg (d_tags d)
        && (negb full || list_eqb kv_eqb op (d_opts d))
    | _, _, _ => false
    end.
  Definition holds (t : C05.tblobs) (i : intent) : bool :=
    existsb (fun h : C05.hobs => beq (fst h) (fst (hp i))
      && existsb (fun r : C05.robs => beq (fst r) (snd (hp i)) && existsb (tobs_is i false) (snd r)) (snd h)) t.
  Definition asked_for (is : list intent) (h p : str) (o : C05.tobs) : bool :=
    existsb (fun i => beq (fst (hp i)) h && beq (snd (hp i)) p && tobs_is i true o) is.
  Definition table_spec (is : list intent) (t : outcome C05.tblobs) : bool :=
    match t with
    | Ok t => forallb (fun i => negb (expr i) || holds t i) is
              && forallb (fun h : C05.hobs => forallb (fun r : C05.robs =>
                            forallb (asked_for is (fst h) (fst r)) (snd r)) (snd h)) t
    | _ => false
    end.

  (* (3) the loop around makeConfig (ServiceMonitor.Watch), on what the implementation SENT phase by
         phase: whatever is sent denotes the registrations consul holds at that time (nothing stale,
         nothing partial), and at the end of every phase in which consul could be read the text last
         sent is the text of the registrations consul holds THEN -- a failure that is over does not
         delay the routes of any service, whether or not consul's index has moved since *)
  Variable env : env_t.
  Variable prefix : str.
  Fixpoint watch_spec (phases : list (moment * nat)) (impl : list (list str)) (cur : option str) : bool :=
    match phases, impl with
    | [], [] => true
    | (m, _) :: ps, sent :: rest =>
        let ints := concat (map (intents env prefix) (m_regs m)) in
        let good := fun text => table_spec ints (C05.obs_out (new_table pweight canon glob_ok text)) in
        let cur' := last (map Some sent) cur in
        forallb good sent
        && (if readable m then match cur' with Some text => good text | None => false end else true)
        && watch_spec ps rest cur'
    | _, _ => false
    end.
End Spec.

(* a catalog lookup failed, then consul could be read again at the SAME index *)
Fixpoint has_lift (phases : list (moment * nat)) : bool :=
  match phases with
  | (a, _) :: (((b, _) :: _) as r) =>
      (negb (readable a) && readable b && (m_index a =? m_index b)) || has_lift r
  | _ => false
  end.
Definition PH (idx : N) (health_err : bool) (failing : list str) (regs : list reg) (turns : nat) : moment * nat :=
  ({| m_index := idx; m_health_err := health_err; m_failing := failing; m_regs := regs |}, turns).

Inductive case :=
(* urls / badglobs / wlits: url.Parse, glob.Compile, strconv.ParseFloat on the strings of the case
   (as in Check/C05.v) *)
| CRegs (env : env_t) (prefix : str)
        (urls : list (str * option str)) (badglobs : list str) (wlits : list (str * outcome wt))
        (regs : list reg)
        (impl_cmds : list (list str))                     (* routecmd.build per entry *)
        (impl_defs : list (list (outcome (list def))))    (* route.Parse per command *)
        (impl_tbl : outcome C05.tblobs)                   (* route.NewTable of the whole text *)
(* one round of the real ServiceMonitor.makeConfig against a fake catalog: [regs] are the catalog
   entries of the passing instances; [lookup_failed]: the catalog lookup of some passing service
   failed (since /repo c8f84e8 makeConfig then returns an error and nothing is published: the watch
   loop tries again); [impl_err], [impl]: the error flag and the text it returned *)
| CConfig (env : env_t) (prefix : str)
          (urls : list (str * option str)) (badglobs : list str) (wlits : list (str * outcome wt))
          (regs : list reg) (lookup_failed : bool) (impl_err : bool) (impl : str)
(* a history of the real ServiceMonitor.Watch against a fake consul with real blocking queries:
   [phases]: what consul held and answered, phase by phase (index, health query fails, services whose
   catalog lookup fails, catalog entries of the passing instances, turns of the loop the phase
   lasts); [impl]: the texts the loop sent on the updates channel during each phase (a phase in
   which a text is due ends when it arrives or after the deadline: retry sleep plus slack) *)
| CWatch (env : env_t) (prefix : str)
         (urls : list (str * option str)) (badglobs : list str) (wlits : list (str * outcome wt))
         (poll : bool) (phases : list (moment * nat)) (impl : list (list str))
(* the library models on their own (strconv.Quote: the model of the code before d16ce3d; np: the
   non-printable runes >= 128 of s, by strconv.IsPrint) *)
| CExpand (env : env_t) (s impl : str)
| CQuote (np : list N) (s impl : str)
| CUrlTag (env : env_t) (prefix s : str) (impl : option (str * str)).

Definition isprint_of (np : list N) (r : N) : bool := negb (existsb (N.eqb r) np).

Definition check_case (c : case) : N :=
  match c with
  | CRegs env prefix urls bad wl regs icmds idefs itbl =>
      let canon := C05.canon_of urls in
      let gl := C05.glob_of bad in
      let pw := C05.pweight_of wl in
      let ints := map (intents env prefix) regs in
      let mcmds := map (build pw canon gl env prefix) regs in
      let mdefs := map (map (parse pw)) mcmds in
      let text := config_text (sort_lines_desc (concat mcmds)) in
      let mtbl := C05.obs_out (new_table pw canon gl text) in
      let same := list_eqb (list_eqb beq) icmds mcmds
                  && list_eqb (list_eqb (out_eqb (list_eqb def_eqb))) idefs mdefs
                  && out_eqb C05.tbl_eqb itbl mtbl
                  && C05.wlits_ok wl in
      let all := concat ints in
      (* (1) the emitted commands, in order, denote the entry's routing tags; a tag whose command is
             missing must be inexpressible; (2) the table *)
      let spec := (fix go (iss : list (list intent)) (oss : list (list (outcome (list def)))) : bool :=
                     match iss, oss with
                     | [], [] => true
                     | is :: iss', os :: oss' => denotes_all pw canon gl is os && go iss' oss'
                     | _, _ => false
                     end) ints idefs
                  && table_spec pw canon gl all itbl in
      let region := if existsb F_C14_altering all then Some 2 else None in
      verdict same spec region (Nat.leb 2 (length all))
  | CConfig env prefix urls bad wl regs failed ierr impl =>
      if failed then (let ok := ierr in verdict ok ok None true) else
      let canon := C05.canon_of urls in
      let gl := C05.glob_of bad in
      let pw := C05.pweight_of wl in
      let cmds := map (build pw canon gl env prefix) regs in
      let text := config_text (sort_lines_desc (concat cmds)) in
      let same := negb ierr && beq impl text && C05.wlits_ok wl in
      (* the pushed text is accepted by NewTable and holds every expressible registration *)
      let all := concat (map (intents env prefix) regs) in
      let spec := negb ierr && table_spec pw canon gl all (C05.obs_out (new_table pw canon gl impl)) in
      let region := if existsb F_C14_altering all then Some 2 else None in
      verdict same spec region (existsb (fun c => match c with [] => true | _ => false end) cmds)
  | CWatch env prefix urls bad wl poll phases impl =>
      let canon := C05.canon_of urls in
      let gl := C05.glob_of bad in
      let pw := C05.pweight_of wl in
      let msent := monitor_phases pw canon gl env prefix poll 0 phases in
      let same := list_eqb (list_eqb beq) impl msent && C05.wlits_ok wl in
      let spec := watch_spec pw canon gl env prefix phases impl None in
      let all := concat (map (fun p : moment * nat => concat (map (intents env prefix) (m_regs (fst p)))) phases) in
      let region := if existsb F_C14_altering all then Some 2 else None in
      verdict same spec region (has_lift phases)
  | CExpand env s impl =>
      let ok := beq impl (expand env s) in
      verdict ok ok None (existsb (N.eqb 36) s)
  | CQuote np s impl =>
      let ok := beq impl (quote (isprint_of np) s) in
      verdict ok ok None (negb (beq impl ([34] ++ s ++ [34])))
  | CUrlTag env prefix s impl =>
      let ok := opt_eqb kv_eqb impl (parse_url_prefix_tag env prefix s) in
      verdict ok ok None true
  end.
