(** Correspondence check for C15, evaluated by [vm_compute] on the cases the Go
    harness wrote (real fabio outputs next to the inputs that produced them). *)
From Coq Require Import String List NArith ZArith Bool.
From Fabio Require Import Lib.Outcome Lib.Bytes Lib.Verdict
     Model.FlagSet Model.KVSlice Model.GlobCacheSize Model.StartUp Model.LoadArgs Model.EnumOptions.
Import ListNotations.
Local Open Scope N_scope.

Definition out_eqb {A} (eqb : A -> A -> bool) (a b : outcome A) : bool :=
  match a, b with
  | Ok x, Ok y => eqb x y
  | Err j, Err k => j =? k
  | Panic, Panic => true
  | _, _ => false
  end.

Definition strs_eqb : list str -> list str -> bool := list_eqb beq.

(* maps compared as maps (the model's key order is insertion order, Go's is none) *)
Definition smap_eqb (a b : smap) : bool :=
  Nat.eqb (length a) (length b)
  && forallb (fun kv => opt_eqb beq (map_get b (fst kv)) (Some (snd kv))) a
  && forallb (fun kv => opt_eqb beq (map_get a (fst kv)) (Some (snd kv))) b.

Definition kv_eqb (a b : kvresult) : bool :=
  match a, b with
  | KOk x, KOk y => list_eqb smap_eqb x y
  | KErr x, KErr y => beq x y
  | KPanic, KPanic => true
  | _, _ => false
  end.

(* one single- or two-source arrangement for config.Load *)
Record arrangement := { a_args : list str; a_env : list str; a_props : option smap }.

Inductive case :=
(* FlagSet.ParseFlags on a FlagSet the harness registered with recording values:
   per flag (name, FlagSet.set bit, raw strings its Value.Set received);
   [badl] = (flag, raw) pairs the flag's real typed value rejects *)
| CParse (flags : list flagdecl) (badl : list (str * str)) (args environ prefixes : list str)
         (props : option smap) (impl : outcome (list (str * bool * list str)))
(* config.Load, one option, the same value [v] from each source alone:
   [eqs] = reflect.DeepEqual of the k-th result with the first (configuration and
   error/no error), [differs] = the first differs from the all-defaults result *)
| CEquiv (name : str) (isbool : bool) (v : str) (arrs : list arrangement)
         (eqs : list bool) (accepted differs : bool)
(* config.Load, one option, source [hi] gives v1 and source [lo] gives v2:
   winner 1 = result DeepEqual to "hi alone", 2 = "lo alone", 3 = neither;
   [distinct] = "hi alone" and "lo alone" differ *)
| CLoad (name : str) (isbool : bool) (arr : arrangement) (v1 v2 : str) (hi lo : N)
        (distinct : bool) (winner : N)
(* config.Load with no arguments on an arbitrary environment block (entries without '='
   included: they are skipped since fix 3899f15) *)
| CLoadEnv (environ : list str) (panicked : bool)
(* glob.cache.size = size: did config.Load accept it; if so a fresh
   route.NewGlobCache(cfg.GlobCacheSize) and a sequence of Get calls (pattern,
   glob.Compile succeeds); impl = Err 1 when Load returned an error;
   [matching_disabled] = glob.matching.disabled was set to true (main builds the cache anyway);
   per Get: Ok hit = the pattern was in the cache's map before the call; [final] = (h, n, keys
   of the map) after the sequence, when the cache was built *)
| CGlob (size : Z) (matching_disabled : bool) (accepted : bool) (calls : list (str * bool))
        (impl : outcome (list (outcome bool))) (final : option (N * N * list str))
(* config.parse(args): impl = Ok (cmdline, path, version) | Err 1 | Panic *)
| CArgs (args : list str) (impl : outcome (list str * str * bool))
(* metrics.interval = interval (ns), metrics.target with / without a ticker-driven provider:
   did config.Load accept it, and what did starting the providers do in a child process:
   out 0 started, 1 metrics.Initialize returned an error, 3 PANIC, 4 rejected by Load *)
| CMetricsStart (interval : Z) (ticker_target accepted : bool) (out : N)
(* 2-5 config.Load calls in ONE process; per step the option it sets (if any: raw value),
   [eq_ref] = the result (rendered right after the Load) equals the result of the same Load
   in a fresh process, [stable] = the returned object is still the same after all later Loads *)
| CHistory (steps : list (str * bool * arrangement * option str)) (eq_ref stable : list bool)
(* config.Load, one option, one DEGENERATE raw value [v] (empty, blanks, separators or quotes
   only, very long, NUL/high bytes, out-of-range or malformed numbers...) from each source
   in [srcs] alone.  [wellformed] = a fresh typed value of the option's type accepts v.
   outs: 0 configuration returned, 1 error returned, 2 usage error (flag.ExitOnError, exit
   status 2, observed in a child process), 3 PANIC.  [eqs] = the k-th returned configuration
   is DeepEqual to the first returned one. *)
| CDegenerate (name : str) (isbool wellformed : bool) (v : str) (srcs : list N)
              (arrs : list arrangement) (outs : list N) (eqs : list bool)
(* the ui.addr block of load() on a degenerate value: out as above *)
| CUiAddr (v : list N) (out : N)
(* proxy.strategy / proxy.matcher / ui.access from any combination of sources, config.Load and
   then what main() builds from the configuration (driver /repo/verif_c15_test.go):
   [out] 0 configuration, 1 error, 3 PANIC, 5 neither; [stored] = the three fields of the
   returned configuration; per probe: the consumer (0 HTTPProxy.Lookup of newHTTPProxy,
   1 lookupHostFn, 2 lookupHostMatcher, 3 gRPC interceptor), the host keys the lookup tries with
   their routes (what route.Matcher's three functions say about the probe's path, number of
   targets), the outcome (0 a target, 1 none, 3 PANIC) and, where the consumer hands the target
   out, the key and route it belongs to; [mode] = the admin server's manual-override endpoints:
   0 forbidden, 1 served, 2 not registered, 3 PANIC; [alternates] = 40 lookups on a two-target
   route alternate strictly *)
| CEnum (arr : arrangement) (out : N) (stored : str * str * str)
        (probes : list (N * list (list en_route) * N * option (N * N)))
        (mode : N) (alternates : option bool)
(* parseKVSlice([]rune): [want] = the maps the input was generated from, when it was *)
| CKV (input : list N) (want : option (list smap)) (impl : kvresult)
(* lex([]rune): item type (0 text 1 equal 2 semicolon 3 comma 4 error), value, n *)
| CLex (input : list N) (typ : N) (val : str) (n : N)
(* library models: strconv.Unquote, strings.TrimSpace, strings.ToUpper *)
| CUnquote (input : list N) (impl : option str)
| CTrim (input : str) (impl : str)
| CUpper (input : str) (impl : str).

Definition bad_of (badl : list (str * str)) (name raw : str) : bool :=
  existsb (fun p => beq (fst p) name && beq (snd p) raw) badl.

Definition res_eqb (m : flag_result) (i : str * bool * list str) : bool :=
  let '(n, s, cs) := i in beq (r_name m) n && Bool.eqb (r_set m) s && strs_eqb (r_calls m) cs.

Fixpoint all2 {A B} (f : A -> B -> bool) (a : list A) (b : list B) : bool :=
  match a, b with
  | [], [] => true
  | x :: a', y :: b' => f x y && all2 f a' b'
  | _, _ => false
  end.

Definition last_opt (l : list str) : option str :=
  match rev l with v :: _ => Some v | [] => None end.

Definition item_code (t : item) : N :=
  match t with IText => 0 | IEqual => 1 | ISemicolon => 2 | IComma => 3 | IError => 4 end.

Definition has_panic (l : list (outcome bool)) : bool := existsb is_panic l.

Definition no_bad (_ _ : str) : bool := false.

(* the raw value the model's ParseFlags leaves in the single registered flag *)
Definition model_final (name : str) (isbool : bool) (a : arrangement) : outcome (option str) :=
  match parse_flags [{| fname := name; fbool := isbool |}] no_bad
                    (a_args a) (a_env a) fabio_prefixes (a_props a) with
  | Ok [r] => Ok (final_raw r)
  | Ok _ => Err 99
  | Err k => Err k
  | Panic => Panic
  end.

(* short constructor for the generated cases *)
Definition rt (p g i : bool) (n : N) : en_route :=
  {| rt_prefix := p; rt_glob := g; rt_iprefix := i; rt_targets := n |}.

Definition en_found_route (f : en_found) : nat :=
  match f with FoundOnly i => i | FoundPicked i _ => i end.

Definition enum_probe_same (c : enum_cfg) (pr : N * list (list en_route) * N * option (N * N)) : bool :=
  let '(site, keys, o, loc) := pr in
  match en_site_lookup c site keys with
  | Panic => o =? 3
  | Err _ => false
  | Ok None => o =? 1
  | Ok (Some (h, f)) =>
      (o =? 0)
      && match loc with
         | Some (hi, ri) => (N.of_nat h =? hi) && (N.of_nat (en_found_route f) =? ri)
         | None => (site =? 2) || (site =? 3)      (* these consumers do not hand the target out *)
         end
  end.

Definition check_case (c : case) : N :=
  match c with
  | CParse flags badl args environ prefixes props impl =>
      let bad := bad_of badl in
      let m := parse_flags flags bad args environ prefixes props in
      let same := match m, impl with
                  | Ok rs, Ok is => all2 res_eqb rs is
                  | Err j, Err k => j =? k
                  | Panic, Panic => true
                  | _, _ => false
                  end in
      (* the property on the implementation's own observables: no panic; every flag
         ends with the value of the first present source, and is "set" iff one is *)
      let spec := match impl with
                  | Panic => false
                  | Err _ => true
                  | Ok is =>
                      match parse_args flags bad args [] with
                      | Ok calls =>
                          forallb (fun i : str * bool * list str =>
                                     let '(n, s, cs) := i in
                                     let want := spec_choice_gen calls environ prefixes props n in
                                     opt_eqb beq (last_opt cs) want
                                     && Bool.eqb s (match want with Some _ => true | None => false end)) is
                      | _ => false
                      end
                  end in
      verdict same spec None
              (match m with Ok rs => existsb (fun r => r_set r) rs | _ => false end)
  | CEquiv name isbool v arrs eqs accepted differs =>
      (* model: from every source alone the flag's Value.Set receives exactly v *)
      let ms := map (model_final name isbool) arrs in
      let model_same := forallb (fun m => out_eqb (opt_eqb beq) m (Ok (Some v))) ms in
      let impl_same := forallb (fun b => b) eqs && Nat.eqb (length eqs) (length arrs) in
      verdict (Bool.eqb model_same impl_same) impl_same None (accepted && differs)
  | CLoad name isbool arr v1 v2 hi lo distinct winner =>
      let calls := match parse_args [{| fname := name; fbool := isbool |}] no_bad (a_args arr) [] with
                   | Ok cs => cs | _ => [] end in
      (* the harness placed v1 at source hi, v2 at source lo, nothing elsewhere *)
      let placed :=
        forallb (fun k => opt_eqb beq (present calls (a_env arr) (a_props arr) name k)
                                  (if k =? hi then Some v1 else if k =? lo then Some v2 else None))
                [1; 2; 3; 4]
        && (hi <? lo) && ((lo =? 5) || negb (beq v1 v2)) in
      let mw := match model_final name isbool arr with
                | Ok (Some v) => if beq v v1 then 1 else if beq v v2 then 2 else 3
                | _ => 3
                end in
      let same := placed && (negb distinct || (winner =? mw)) in
      let spec := negb distinct || (winner =? 1) in
      verdict same spec None distinct
  | CLoadEnv environ panicked =>
      (* the model's ParseFlags never panics, whatever the block (C15_never_panics) *)
      let m := parse_flags [] no_bad [] environ fabio_prefixes None in
      let same := Bool.eqb panicked (is_panic m) in
      verdict same (negb panicked) None (negb (env_well_formed environ))
  | CDegenerate name isbool wellformed v srcs arrs outs eqs =>
      let bad := fun (_ raw : str) => negb wellformed && beq raw v in
      let ms := map (fun a => match parse_flags [{| fname := name; fbool := isbool |}] bad
                                                (a_args a) (a_env a) fabio_prefixes (a_props a) with
                              | Ok [r] => Ok (final_raw r)
                              | Ok _ => Err 99
                              | Err k => Err k
                              | Panic => Panic
                              end) arrs in
      let reject := fun o => (o =? 1) || (o =? 2) in
      (* model: every source rejects a value the option's type rejects (the command line as a
         usage error, the others as a returned error: same class) and otherwise hands v to
         Value.Set; all sources that hand over v behave alike; nothing panics; the usage exit is
         the command line's only *)
      let usage_ok := all2 (fun m o =>
                              negb (o =? 3)
                              && (if out_eqb (opt_eqb beq) m (Err 1) then reject o
                                  else out_eqb (opt_eqb beq) m (Ok (Some v)) && negb (o =? 2))) ms outs
                      && all2 (fun k o => (k =? 1) || negb (o =? 2)) srcs outs in
      let handed := map snd (filter (fun mo => out_eqb (opt_eqb beq) (fst mo) (Ok (Some v)))
                                    (combine ms outs)) in
      let alike := match handed with
                   | [] => true
                   | o :: r => forallb (fun x => x =? o) r
                   end in
      let shape := Nat.eqb (length arrs) (length outs) && Nat.eqb (length eqs) (length outs)
                   && Nat.eqb (length srcs) (length outs) in
      let all_eqs := forallb (fun b => b) eqs in
      let same := usage_ok && alike && all_eqs && shape in
      (* the property on the observables: never a panic; the same verdict from every source *)
      let spec := forallb (fun o => negb (o =? 3)) outs
                  && match outs with
                     | [] => true
                     | o :: r => forallb (fun x => Bool.eqb (reject x) (reject o)) r
                     end
                  && all_eqs in
      verdict same spec None true
  | CUiAddr v out =>
      let m := ui_addr_step v in
      let same := match m with
                  | Panic => out =? 3
                  | Err _ => out =? 1
                  | Ok None => out =? 0
                  | Ok (Some _) => (out =? 0) || (out =? 1)      (* parseListen decides *)
                  end in
      verdict same (negb (out =? 3)) None (match m with Err 2 => true | _ => false end)
  | CEnum arr out stored probes mode alternates =>
      let m := load_enums_from (a_args arr) (a_env arr) (a_props arr) in
      let '(st_s, st_m, st_a) := stored in
      let same :=
        match m with
        | Ok c =>
            (out =? 0)
            && beq st_s (e_strategy c) && beq st_m (e_matcher c) && beq st_a (e_access c)
            && forallb (enum_probe_same c) probes
            && (mode =? match admin_mode_of (e_access c) with
                        | Some AdminForbidden => 0 | Some AdminManual => 1 | None => 2 end)
            && opt_eqb Bool.eqb alternates
                       (Some (match picker_of (e_strategy c) with Some PickRR => true | _ => false end))
        | Err k => (k =? 1) && (out =? 1)
        | Panic => out =? 3
        end in
      (* the property on the observables: an error or a configuration, never a panic; with an
         accepted configuration no consumer panics and the admin server implements the mode *)
      let spec :=
        negb (out =? 3)
        && (negb (out =? 0)
            || (forallb (fun pr : N * list (list en_route) * N * option (N * N) =>
                           negb (snd (fst pr) =? 3)) probes
                && (mode <? 2))) in
      let given := match parse_flags enum_flags en_no_bad (a_args arr) (a_env arr) fabio_prefixes (a_props arr) with
                   | Ok rs => existsb (fun r => r_set r) rs
                   | _ => false
                   end in
      verdict same spec None given
  | CArgs args impl =>
      let m := config_parse args in
      let same := out_eqb (fun a b : list str * str * bool =>
                             strs_eqb (fst (fst a)) (fst (fst b)) && beq (snd (fst a)) (snd (fst b))
                             && Bool.eqb (snd a) (snd b)) impl m in
      (* an empty argument list is outside the quantifier (os.Args is never empty) *)
      let spec := match args with [] => true | _ => negb (is_panic impl) end in
      verdict same spec None (match m with Ok (_ :: _ :: _, _, _) => true | Ok (_, _ :: _, _) => true | _ => false end)
  | CMetricsStart interval ticker accepted out =>
      let m := load_then_start_metrics interval ticker in
      let same := Bool.eqb accepted (load_accepts_metrics_interval interval)
                  && match m with
                     | Ok _ => out =? 0
                     | Err _ => out =? 4
                     | Panic => out =? 3
                     end in
      let spec := negb accepted || negb (out =? 3) in
      verdict same spec None (ticker && accepted)
  | CHistory steps eq_ref stable =>
      (* model: a history is the list of single Loads; per step the option's Value.Set
         receives what that step alone supplies, whatever was loaded before *)
      let one := fun st : str * bool * arrangement * option str =>
                   let '(name, isbool, arr, _) := st in model_final name isbool arr in
      let ms := load_history one steps in
      let model_ok := all2 (fun m (st : str * bool * arrangement * option str) =>
                              out_eqb (opt_eqb beq) m (Ok (snd st))) ms steps in
      let n := length steps in
      let impl_ok := forallb (fun b => b) eq_ref && forallb (fun b => b) stable
                     && Nat.eqb (length eq_ref) n && Nat.eqb (length stable) n in
      verdict (Bool.eqb model_ok impl_ok) impl_ok None (Nat.leb 2 n)
  | CGlob size disabled accepted calls impl final =>
      (* impl = Err 1 when config.Load returned an error (nothing to run) *)
      let m := load_then_use_settings size disabled calls in
      let final_same :=
        match final, new_glob_cache size with
        | Some (h, n, keys), Ok c0 =>
            let c := glob_final c0 calls in
            (N.of_nat (g_h c) =? h) && (N.of_nat (g_n c) =? n)
            && Nat.eqb (length keys) (length (g_m c))
            && forallb (fun k => mem k (g_m c)) keys
        | Some _, _ => false
        | None, _ => true
        end in
      let same := out_eqb (list_eqb (out_eqb Bool.eqb)) impl m
                  && Bool.eqb accepted (load_accepts_glob_settings size disabled) && final_same in
      let panics := match impl with Panic => true | Ok l => has_panic l | Err _ => false end in
      let spec := negb accepted || negb panics in
      verdict same spec None (match calls with [] => false | _ => true end)
  | CKV input want impl =>
      let m := parse_kvslice input in
      let same := kv_eqb impl m in
      let spec := match impl with
                  | KPanic | KFuel => false
                  | _ => match want with Some w => kv_eqb impl (KOk w) | None => true end
                  end in
      verdict same spec None (match m with KOk (_ :: _) => true | _ => false end)
  | CLex input typ val n =>
      let '(t, v, k) := lex input in
      let same := (item_code t =? typ) && beq v val && (N.of_nat k =? n) in
      let spec := (1 <=? n) && (n <=? N.of_nat (length input)) in
      verdict same spec None (negb (typ =? 4))
  | CUnquote input impl =>
      verdict (opt_eqb beq impl (unquote input)) true None
              (match impl with Some _ => true | None => false end)
  | CTrim input impl =>
      verdict (beq impl (trim_space input)) true None (negb (beq impl input))
  | CUpper input impl =>
      verdict (beq impl (upper input)) true None (negb (beq impl input))
  end.
