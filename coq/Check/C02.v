(** Correspondence check for C02, evaluated by [vm_compute] on the cases the Go harness wrote.
    Every case carries what the real libraries said about the strings of its texts (url.Parse,
    glob.Compile of paths and of host keys, strconv.ParseFloat as exact values), the input, and
    what the real fabio code did: route.NewTable / NewTableCustom (table, error kind or recovered
    panic), Table.Lookup on the result, the real watchBackend loop after every delivery, and a
    forced schedule of SetTable / GetTable / Lookup.  The build is evaluated with [ring_fast]
    (same ring lengths as the model's rings: Proofs/TableSwap.v [ring_fast_length]; a pick depends
    on the ring's emptiness only: [pick_route_panic_iff]). *)
From Coq Require Import List NArith ZArith Bool.
From Fabio Require Import Lib.Outcome Lib.Bytes Lib.Verdict Model.WtF64 Model.TableCmd Model.RouteText
     Model.Weigh Model.WeighF Model.Ring Model.Pick Model.TableSwap.
From Fabio Require Model.Lookup Model.Watch Model.TcpDynamic.
Import ListNotations.
Local Open Scope N_scope.

(* ---- what the libraries said ---- *)
Record env := Env {
  e_urls : list (str * option str);       (* dst token -> url.Parse(d).String(), None = error *)
  e_badglobs : list str;                  (* paths glob.Compile rejects *)
  e_wlits : list (str * outcome wt);      (* weight token -> strconv.ParseFloat (exact value) *)
  e_badhosts : list str                   (* normalised host keys glob.Compile rejects (none for a table
                                             NewTable returns since c9fb527; kept as a tripwire) *)
}.
Fixpoint assoc {A} (k : str) (l : list (str * A)) : option A :=
  match l with
  | [] => None
  | (k', v) :: l' => if beq k k' then Some v else assoc k l'
  end.
Definition canon_of (e : env) (d : str) : option str :=
  match assoc d (e_urls e) with Some r => r | None => None end.
Definition glob_of (e : env) (p : str) : bool := negb (existsb (beq p) (e_badglobs e)).
Definition pweight_of (e : env) (s : str) : outcome wt :=
  match assoc s (e_wlits e) with Some r => r | None => pweight_dec s end.
Definition hostglob_of (e : env) (k : str) : bool := negb (existsb (beq k) (e_badhosts e)).

Definition rbf := ring_fast stable_order.
Definition fb (e : env) : str -> outcome btable := full_build (pweight_of e) (canon_of e) (glob_of e) rbf.
Definition cb (e : env) : option (list (option def)) -> outcome btable := custom_build_ptr (canon_of e) (glob_of e) rbf.

(* ---- observables ---- *)
Definition tobs := list (str * list (str * list str)).   (* hosts ascending; routes in slice order; services *)
Definition lobs := option (str * str * str).             (* host key, path, service ("" if the route's targets disagree) *)

Definition out_eqb {A} (eqb : A -> A -> bool) (a b : outcome A) : bool :=
  match a, b with
  | Ok x, Ok y => eqb x y
  | Err j, Err k => j =? k
  | Panic, Panic => true
  | _, _ => false
  end.
Definition omap {A B} (f : A -> B) (o : outcome A) : outcome B :=
  match o with Ok a => Ok (f a) | Err k => Err k | Panic => Panic end.

Definition robs_eqb (a b : str * list str) : bool := beq (fst a) (fst b) && list_eqb beq (snd a) (snd b).
Definition hobs_eqb (a b : str * list (str * list str)) : bool :=
  beq (fst a) (fst b) && list_eqb robs_eqb (snd a) (snd b).
Definition tobs_eqb : tobs -> tobs -> bool := list_eqb hobs_eqb.
Definition lobs_eqb : lobs -> lobs -> bool :=
  opt_eqb (fun a b => match a, b with (h, p, s), (h', p', s') => beq h h' && beq p p' && beq s s' end).

Fixpoint insert_asc (h : str * list broute) (l : btable) : btable :=
  match l with
  | [] => [h]
  | x :: l' => if str_ltb (fst h) (fst x) then h :: l else x :: insert_asc h l'
  end.
(* a target is observed as its service, NUL, its options "k=v k=v" (keys ascending): the options a
   target carries (strip, allow / deny, host, redirect, auth ...) are part of what "the complete new
   table" means *)
Definition tgt_obs (t : target) : str :=
  t_svc t ++ 0 :: join (map (fun kv : str * str => fst kv ++ [61] ++ snd kv) (t_opts t)) [32].
Definition obs_of (bt : btable) : tobs :=
  map (fun hr => (fst hr, map (fun br : broute => (r_path (fst br), map tgt_obs (r_targets (fst br)))) (snd hr)))
      (fold_right insert_asc [] bt).

Definition svc_of_route (r : route) : str :=
  match r_targets r with
  | [] => []
  | t :: rest => if forallb (fun t' => beq (t_svc t') (t_svc t)) rest then t_svc t else []
  end.
Definition matcher_of (k : N) : Lookup.matcher :=
  if k =? 0 then Lookup.MPrefix else if k =? 1 then Lookup.MIPrefix else Lookup.MGlob.

(* one request: host, TLS, path, matcher (0 prefix, 1 iprefix, 2 glob), glob host matching disabled,
   the round-robin cursor every route starts from, and whether it goes through Table.LookupHost
   (host = a table key, path "/", prefix matcher) instead of Table.Lookup *)
Record req := Req { q_host : str; q_tls : bool; q_uri : str; q_matcher : N; q_globoff : bool;
                    q_total : N; q_direct : bool }.

Definition look (e : env) (bt : btable) (q : req) (_ : N) : outcome lobs :=
  match (if q_direct q then lookup_host bt (q_host q) (q_total q)
         else lookup_full (hostglob_of e) bt (q_host q) (q_tls q) (q_uri q) (matcher_of (q_matcher q))
                          (q_globoff q) (q_total q)) with
  | Ok None => Ok None
  | Ok (Some (h, p, _)) =>
      Ok (Some (h, p, match List.find (fun br : broute => beq (r_path (fst br)) p) (bassoc bt h) with
                      | Some br => svc_of_route (fst br)
                      | None => []
                      end))
  | Err k => Err k
  | Panic => Panic
  end.

Definition not_panic {A} (o : outcome A) : bool := negb (is_panic o).

(* ---- no finding regions: since /repo 290c777 / c9fb527 no generated input may make NewTable, a
        lookup or an update loop panic; any such panic is a plain violation ---- *)
(* [verdict], with the region computed only where it is consulted *)
Definition verdict_lazy (same spec nontrivial : bool) (region : unit -> option N) : N :=
  if same && spec then (if nontrivial then v_agree else v_agree_trivial)
  else verdict same spec (region tt) nontrivial.

Definition known_of (ds : list (option def)) : list def :=
  flat_map (fun o => match o with Some d => [d] | None => [] end) ds.

(* ---- cases ---- *)
Inductive sact :=
| SSet (i : nat)                (* t, _ := NewTable(texts[i]); SetTable(t)   (t = nil on error) *)
| SNil                          (* SetTable(nil) *)
| SLoad (r : nat)               (* reader r: GetTable() *)
| SLook (r : nat) (q : req)     (* reader r: Lookup on its table *)
| SRead (r : nat) (k : N).      (* a read-only user of GetTable(): 0 GET /api/routes, 1 with ?raw, 2 Table.String,
                                   3 Table.Dump, 4 the gRPC pool's hasTarget; on reader r's table as well *)

Inductive case :=
(* route.NewTable(text) and lookups on the result *)
| CBuild (e : env) (text : str) (impl : outcome tobs) (lookups : list (req * outcome lobs))
(* route.NewTableCustom(defs) and lookups on the result; None = a nil pointer (poll body null) *)
| CCustom (e : env) (defs : option (list (option def))) (impl : outcome tobs) (lookups : list (req * outcome lobs))
(* the real watchBackend: texts, deliveries (manual?, text index, observed?), what the real NewTable
   says about every candidate (svc index, man index), route.GetTable() after each observed delivery
   (None = the process died) *)
| CWatch (e : env) (texts : list str) (events : list (bool * nat * bool))
         (cands : list (nat * nat * outcome tobs)) (impl : list (option tobs))
(* a forced schedule on the real cell *)
| CSched (e : env) (texts : list str) (sched : list sact) (impl : list (outcome lobs))
(* a sequence of polls of the real custom backend: per poll None = a body json cannot decode into a
   definition list, Some p = the decoded pointer (None = null); what the real NewTableCustom says about
   each (Err 0 for an undecodable body); route.GetTable() after each poll (None = the process died) *)
| CCustomPolls (e : env) (bodies : list (option (option (list (option def)))))
               (verdicts : list (outcome tobs)) (impl : list (option tobs))
(* route.ParseAliases(text): the register= values, an error kind, or a recovered panic *)
| CAliases (e : env) (text : str) (impl : outcome (list str))
(* the real tcp-dynamic listener loop of startServers: the addresses served when the history began,
   then per step the ports nobody can bind during the step (held by another socket; no port number
   according to net.ResolveTCPAddr), the table route.GetTable() returned (host key, target schemes)
   and the addresses served once the loop has seen it (None = the process died) *)
| CTcpDyn (init : list str) (steps : list (list str * list (str * list str) * option (list str))).

Definition check_build (e : env) (bo : outcome btable) (ds : outcome (list def))
           (impl : outcome tobs) (lookups : list (req * outcome lobs)) (in_dom nontrivial : bool) : N :=
  (* the property's own demand first: a panic of the real code is a failing input whether or not the
     input is inside the modelled domain *)
  let spec := not_panic impl && forallb (fun ql => not_panic (snd ql)) lookups in
  if negb in_dom then (if spec then v_agree_trivial else v_disagree_spec_fails) else
  let same_b := out_eqb tobs_eqb impl (omap obs_of bo) in
  let same_l := match bo with
                | Ok bt => forallb (fun ql => out_eqb lobs_eqb (snd ql) (look e bt (fst ql) 0)) lookups
                | _ => match lookups with [] => true | _ => false end
                end in
  verdict_lazy (same_b && same_l) spec nontrivial
    (fun _ => None).

Definition text_of (texts : list str) (i : nat) : str := nth i texts [].

Definition check_case (c : case) : N :=
  match c with
  | CBuild e text impl lookups =>
      let ds := scan_parse (pweight_of e) text in
      let in_dom := match ds with Ok l => weight_cmds_exact (canon_of e) (glob_of e) [] l | _ => true end in
      check_build e (fb e text) ds impl lookups in_dom
        (match ds with Ok [] => false | _ => true end)
  | CCustom e defs impl lookups =>
      let l := known_of (match defs with Some ds => ds | None => [] end) in
      check_build e (cb e defs) (Ok l) impl lookups (weight_cmds_exact (canon_of e) (glob_of e) [] l)
        (match defs with Some [] => false | _ => true end)
  | CWatch e texts events cands impl =>
      let evs := map (fun ev => match ev with (man, i, _) =>
                        if man : bool then Watch.Man (text_of texts i) else Watch.Svc (text_of texts i) end) events in
      let obsflags := map (fun ev => match ev with (_, _, o) => o end) events in
      let pick {X} (l : list X) := map snd (filter (fun p => fst p) (combine obsflags l)) in
      (* the model: the loop over the composed builder *)
      let tr := wtrace (fb e) (Running (Watch.w_init btable [])) evs in
      let m := pick (map (fun p => match p with
                                   | Running w => Some (obs_of (Watch.w_active w))
                                   | Crashed => None end) tr) in
      let same := list_eqb (opt_eqb tobs_eqb) impl m in
      (* the specification on the implementation's own observables: C01's loop over the verdicts
         of the real NewTable, and the process never dies *)
      let real_build (t : str) : option tobs :=
          match List.find (fun c => match c with (si, mi, _) =>
                              beq t (Watch.next_text (text_of texts si) (text_of texts mi)) end) cands with
          | Some (_, _, Ok o) => Some o
          | _ => None
          end in
      let exp := pick (map (fun w => Some (Watch.w_active w))
                           (Watch.trace tobs real_build (Watch.w_init tobs []) evs)) in
      let spec := list_eqb (opt_eqb tobs_eqb) impl exp
                  && forallb (fun c => match c with (_, _, o) => not_panic o end) cands in
      verdict_lazy same spec (existsb (fun c => match c with (_, _, Err _) => true | _ => false end) cands
                              || Nat.leb 2 (length (filter (fun c => match c with (_, _, Ok _) => true | _ => false end) cands)))
        (fun _ => None)
  | CSched e texts sched impl =>
      let tables := map (fun t => match fb e t with Ok bt => Some bt | _ => None end) texts in
      let acts := map (fun a => match a with
                                | SSet i => ASet (nth i tables None)
                                | SNil => ASet None
                                | SLoad r => ALoad r
                                | SLook r q => ALookup r q 0
                                | SRead r k => ARead r k
                                end) sched in
      let res := run_cell btable req N (outcome lobs) (look e) [] (no_locals btable) acts in
      let m := map (fun x => match x with
                             | (_, _, _, Some o) => o
                             | (_, _, _, None) => Err 99        (* a lookup before any GetTable: not generated *)
                             end) res in
      let same := list_eqb (out_eqb lobs_eqb) impl m in
      (* the specification, without the machine: the k-th action, if a lookup of reader r, is answered
         from the table [current] gives for the schedule up to r's last GetTable before k *)
      let expected :=
          flat_map (fun k => match nth_error acts k with
                             | Some (ALookup r q c) =>
                                 [match List.find (fun j => match nth_error acts j with
                                                            | Some (ALoad r') => Nat.eqb r' r
                                                            | _ => false end) (rev (seq 0 k)) with
                                  | Some j => look e (current btable req N [] (firstn j acts)) q c
                                  | None => Err 99
                                  end]
                             | _ => []
                             end) (seq 0 (length acts)) in
      let spec := list_eqb (out_eqb lobs_eqb) impl expected in
      verdict same spec None
        (existsb (fun a => match a with SSet _ => true | _ => false end) sched)
  | CCustomPolls e bodies verdicts impl =>
      (* the model: custom_step per poll (an undecodable body stores nothing) *)
      let fix go (cell : option btable) (bs : list (option (option (list (option def))))) : list (option tobs) :=
          match bs with
          | [] => []
          | b :: bs' =>
              let cell' := match cell with
                           | None => None
                           | Some c => match b with
                                       | None => Some c
                                       | Some o => custom_step (fun _ => cb e o) c []
                                       end
                           end in
              option_map obs_of cell' :: go cell' bs'
          end in
      let same := list_eqb (opt_eqb tobs_eqb) impl (go (Some []) bodies) in
      (* the specification on the implementation's own observables: after every poll the active table
         is the one of the last poll the real NewTableCustom accepted; the process never dies *)
      let fix exp (cur : tobs) (vs : list (outcome tobs)) : list (option tobs) :=
          match vs with
          | [] => []
          | v :: vs' => let cur' := match v with Ok o => o | _ => cur end in Some cur' :: exp cur' vs'
          end in
      let spec := list_eqb (opt_eqb tobs_eqb) impl (exp [] verdicts)
                  && forallb (fun v => not_panic v) verdicts in
      verdict same spec None (existsb (fun v => match v with Err _ => true | _ => false end) verdicts)
  | CTcpDyn init steps =>
      let h := map (fun s => match s with (u, t, _) => (TcpDynamic.world_of u, t) end) steps in
      let impl := map (fun s => match s with (_, _, o) => o end) steps in
      let m := map (fun s => match s with
                             | TcpDynamic.DRun d => Some (TcpDynamic.d_served d)
                             | TcpDynamic.DCrashed => None end)
                   (TcpDynamic.trace_dyn h (TcpDynamic.DRun (TcpDynamic.Dyn [] init))) in
      let set_eqb (a b : list str) := forallb (fun x => TcpDynamic.smem x b) a
                                      && forallb (fun x => TcpDynamic.smem x a) b in
      let same := list_eqb (opt_eqb set_eqb) impl m in
      (* the property's demand: whatever the tables name, the process is alive after every step *)
      let spec := forallb (fun o => match o with Some _ => true | None => false end) impl in
      verdict same spec None
        (existsb (fun s => match s with (u, t, _) =>
                    existsb (fun p => TcpDynamic.smem p u) (TcpDynamic.ports_of t) end) steps)
  | CAliases e text impl =>
      let m := parse_aliases (pweight_of e) text in
      verdict (out_eqb (list_eqb beq) impl m) (not_panic impl) None
              (match m with Ok (_ :: _) => true | Err _ => true | _ => false end)
  end.
