(** Correspondence check for C19. *)
From Coq Require Import List ZArith NArith Bool.
From Fabio Require Import Lib.Outcome Lib.Bytes Lib.Verdict Model.Transport Proofs.Transport.
Import ListNotations.
Local Open Scope Z_scope.

Definition tls_eqb (a b : tlscfg) : bool :=
  beq (tls_server_name a) (tls_server_name b) && Bool.eqb (tls_skip_verify a) (tls_skip_verify b).
Definition transport_eqb (a b : transport) : bool :=
  (t_rht a =? t_rht b) && (t_idle a =? t_idle b) && (t_maxidle a =? t_maxidle b)
  && (t_dial a =? t_dial b) && (t_keepalive a =? t_keepalive b)
  && opt_eqb tls_eqb (t_tls a) (t_tls b) && (t_other a =? t_other b).

(* spec side, computed without [run]: for the NewTransport at position k the limits are those
   of the last SetConfig among the first k operations *)
Fixpoint positions (ops : list op) (k : nat) : list (nat * option tlscfg) :=
  match ops with
  | [] => []
  | SetConfig _ :: r => positions r (S k)
  | NewTransport tls :: r => (k, tls) :: positions r (S k)
  end.
Definition expected_hist (s : limits) (ops : list op) : list transport :=
  map (fun p => new_transport (last_config s (firstn (fst p) ops)) (snd p)) (positions ops 0).

Inductive case :=
(* a history run on the real package from state [s0]; impl = the fields of every transport built *)
| CHist (s0 : limits) (ops : list op) (impl : list transport)
(* a route with a host override looked up through route.NewTable: impl = its private transport, if any *)
| CRoute (s : limits) (host : str) (dst_https proto_https skip : bool) (impl : option transport)
(* httpProxyErrorHandler on an error of the given kind *)
| CErr (e : errkind) (impl : Z)
(* a real upstream answering after [delay] behind HTTPProxy with the transport built from
   ResponseHeaderTimeout = [limit] (all in ms): status seen by the client, elapsed ms
   and the number of requests the upstream received for it *)
| CServe (limit delay ust : Z) (impl_status elapsed slack hits : Z)
(* the dial timeout in action, for each kind of transport (plain, skip-verify TLS, per-route host
   override): [limit] in ns; [connect] = a lower bound of what connecting costs on loopback (1000 ns is
   never met); status seen by the client *)
| CDial (kind : N) (limit connect ust : Z) (impl_status : Z).

Definition check_case (c : case) : N :=
  match c with
  | CHist s0 ops impl =>
      let m := run set_config s0 ops in
      let same := list_eqb transport_eqb impl m in
      let spec := list_eqb transport_eqb impl (expected_hist s0 ops) in
      let nontriv := existsb (fun o => match o with SetConfig _ => true | _ => false end) ops
                     && negb (match m with [] => true | _ => false end) in
      verdict same spec None nontriv
  | CRoute s host dh ph skip impl =>
      let m := route_transport s host dh ph skip in
      let same := opt_eqb transport_eqb impl m in
      let spec := match impl with
                  | Some t => transport_eqb t (new_transport s (t_tls t))
                  | None => true
                  end in
      verdict same spec None (match m with Some _ => true | None => false end)
  | CErr e impl =>
      let same := impl =? error_status e in
      let spec := match e with ENetTimeout => impl =? 504 | _ => negb (impl =? 504) end in
      verdict same spec None true
  | CServe limit delay ust st elapsed slack hits =>
      let '(mst, mt, mhits) := serve_n attempts_of_proxy limit delay ust in
      let same := (st =? mst) && (mt - 20 <=? elapsed) && (elapsed <=? mt + slack) && (hits =? mhits) in
      (* "within that time": the scheduling allowance of the spec grows with the limit but stays
         below a second attempt for the long limits the harness includes *)
      let spec := if (0 <? limit) && (limit + 20 <=? delay)
                  then (st =? 504) && (elapsed <=? limit + Z.min slack (limit / 2 + 400))
                  else if (limit =? 0) || (delay + 20 <=? limit) then st =? ust else true in
      verdict same spec None true
  | CDial _ limit connect ust st =>
      let m := dial limit connect ust in
      verdict (st =? m) (st =? m) None true
  end.
