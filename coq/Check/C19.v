(** Correspondence check for C19. *)
From Coq Require Import String List ZArith NArith Bool.
From Fabio Require Import Lib.Outcome Lib.Bytes Lib.Verdict Model.Transport Proofs.Transport.
Import ListNotations.
Local Open Scope Z_scope.

Definition tls_eqb (a b : tlscfg) : bool :=
  beq (tls_server_name a) (tls_server_name b) && Bool.eqb (tls_skip_verify a) (tls_skip_verify b).
(* what the property is about: the five limits, the TLS settings asked for, and the named other
   fields that limit connections or take the connect away from the configured dialer *)
Definition limits_eqb (a b : transport) : bool :=
  (t_rht a =? t_rht b) && (t_idle a =? t_idle b) && (t_maxidle a =? t_maxidle b)
  && (t_dial a =? t_dial b) && (t_keepalive a =? t_keepalive b)
  && opt_eqb tls_eqb (t_tls a) (t_tls b) && (t_other a =? t_other b).
(* correspondence: additionally every field the model does not know is at its zero value; a new one
   is then a correspondence break (verdict 3: look at it), not a claimed failure of the property *)
Definition transport_eqb (a b : transport) : bool := limits_eqb a b && (t_unknown a =? t_unknown b).

(* spec side, computed without [run]: for the NewTransport at position k the limits are those
   of the last SetConfig among the first k operations *)
Fixpoint positions (ops : list op) (k : nat) : list (nat * option tlscfg) :=
  match ops with
  | [] => []
  | SetConfig _ :: r => positions r (S k)
  | NewTransport tls :: r => (k, tls) :: positions r (S k)
  end.
Definition expected_hist (s : limits) (ops : list op) : list transport :=
  map (fun p => new_transport (last_config s (firstn (fst p) ops)) (snd p)) (positions ops 0).

(* wall-clock allowances (ms), fixed here and not supplied by the case: the client may be answered
   up to [early] before the model's time (timer granularity) and up to [late] after it (scheduling);
   "within that time" of the property allows min(late, limit/2 + 400) beyond the limit, which for
   the long limits of the scenario list stays below a second attempt *)
Definition early : Z := 20.
Definition late : Z := 3000.
Definition within_allowance (limit : Z) : Z := Z.min late (limit / 2 + 400).

Inductive case :=
(* a history run on the real package from state [s0]; impl = the fields of every transport built *)
| CHist (s0 : limits) (ops : list op) (impl : list transport)
(* a route looked up through route.NewTable: host / proto / tlsskipverify options as written, whether
   the destination's scheme is https; impl = its private transport, if any *)
| CRoute (s : limits) (host : str) (dst_https : bool) (proto : str) (skip : bool) (impl : option transport)
(* the table fabio's real main() installed before its listeners started, main() started with the
   flags of [cfg] in a fresh process and the static routes [tgs]; impl = the private transport of
   each target, in table order *)
| CMain (cfg : limits) (tgs : list target) (impl : list (option transport))
(* SetConfig(&c1); the caller then overwrites its struct with c2; NewTransport(nil) *)
| CAlias (c1 c2 : limits) (impl : transport)
(* httpProxyErrorHandler on an error of the given kind *)
| CErr (e : errkind) (impl : Z)
(* a real upstream answering after [delay] behind HTTPProxy for each kind of target (0 plain, 1 skip-verify
   TLS, 2 per-route host override) with the transports built from ResponseHeaderTimeout = [limit]
   (all in ms): status seen by the client, elapsed ms and the number of requests the upstream
   received for it *)
| CServe (kind : N) (limit delay ust : Z) (impl_status elapsed hits : Z)
(* the dial timeout in action, for each kind of target: [limit] in ns; [connect] = a lower bound of what
   connecting costs on loopback (1000 ns is never met); status seen by the client *)
| CDial (kind : N) (limit connect ust : Z) (impl_status : Z)
(* a whole exchange through the real HTTPProxy behind a real listener, for each kind of target, with the
   transports built from ResponseHeaderTimeout = [limit] and the proxy given the same configuration, as
   in main() (all times in ms): the client uploads its request body over [x_upload], the upstream
   answers its header [x_delay] after it has the request and sends its body in chunks ([cl]: with a
   Content-Length, so that the proxy's listener may hold the header back until the body is there).
   impl = status seen by the client (-1: none), ms until the header and until the end of the body,
   requests the upstream received, the body bytes the client received, whether the body ended properly
   (no read error), whether the upstream received every byte the client sent *)
| CBody (kind : N) (limit : Z) (cl : bool) (x : exchange)
        (impl_status head elapsed hits : Z) (body : str) (complete req_whole : bool)
(* the dial timeout IN TIME, for each kind of target, with the transports built from DialTimeout = [limit]
   (ms) and the upstream [c]: reachable (Connects 0: a loopback listener) or Unreachable (a loopback
   socket whose accept queue is full, so that the kernel drops further SYNs: the connect is neither
   accepted nor refused).  impl = status seen by the client and elapsed ms *)
| CDialT (kind : N) (limit : Z) (c : reach) (ust : Z) (impl_status elapsed : Z).

Definition built_from (s : limits) (impl : option transport) : bool :=
  match impl with
  | Some t => limits_eqb t (new_transport s (t_tls t))
  | None => true
  end.

Definition check_case (c : case) : N :=
  match c with
  | CHist s0 ops impl =>
      let m := run set_config s0 ops in
      let same := list_eqb transport_eqb impl m in
      let spec := list_eqb limits_eqb impl (expected_hist s0 ops) in
      let nontriv := existsb (fun o => match o with SetConfig _ => true | _ => false end) ops
                     && negb (match m with [] => true | _ => false end) in
      verdict same spec None nontriv
  | CRoute s host dh proto skip impl =>
      let m := route_transport s host dh (proto_is_https proto) skip in
      let same := opt_eqb transport_eqb impl m in
      verdict same (built_from s impl) None (match m with Some _ => true | None => false end)
  | CMain cfg tgs impl =>
      let m := map snd (px_targets (main_start set_config init_state cfg tgs)) in
      let same := list_eqb (opt_eqb transport_eqb) impl m in
      let spec := forallb (built_from cfg) impl in
      verdict same spec None (existsb (fun o => match o with Some _ => true | None => false end) m)
  | CAlias c1 c2 impl =>
      let m := new_transport (caller_writes (set_config init_state c1) c2) None in
      (* the property does not say which of the two a transport built afterwards should carry *)
      let spec := limits_eqb impl (new_transport c1 None) || limits_eqb impl (new_transport c2 None) in
      verdict (transport_eqb impl m) spec None true
  | CErr e impl =>
      let same := impl =? error_status e in
      let spec := match e with
                  | ENetTimeout => impl =? 504
                  (* http.Transport never hands a timeout out wrapped: the property asks for neither answer *)
                  | EWrapsTimeout => (impl =? 500) || (impl =? 504)
                  | _ => negb (impl =? 504)
                  end in
      verdict same spec None true
  | CServe _ limit delay ust st elapsed hits =>
      let '(mst, mt, mhits) := serve_n attempts_of_proxy limit delay ust in
      let same := (st =? mst) && (mt - early <=? elapsed) && (elapsed <=? mt + late) && (hits =? mhits) in
      let spec := if (0 <? limit) && (limit + early <=? delay)
                  then (st =? 504) && (elapsed <=? limit + within_allowance limit)
                  else if (limit <=? 0) || (delay + early <=? limit) then st =? ust else true in
      verdict same spec None true
  | CDial _ limit connect ust st =>
      let m := dial limit connect ust in
      (* spec side from the declarative [dial_hits], not from [dial] *)
      let hits := (limit <? 0) || ((0 <? limit) && (limit <=? connect)) in
      verdict (st =? m) (if hits then st =? 504 else st =? ust) None true
  | CBody _ limit cl x st head elapsed hits body complete req_whole =>
      let m := exchange_of_proxy limit x in
      let same := (st =? a_status m)
                  && (a_head_at m - early <=? head) && (head <=? (if cl then a_done_at m else a_head_at m) + late)
                  && (a_done_at m - early <=? elapsed) && (elapsed <=? a_done_at m + late)
                  && beq body (a_body m) && Bool.eqb complete (a_complete m)
                  && Bool.eqb req_whole (a_request_whole m) && (hits =? a_hits m) in
      (* spec side from the chunks themselves, not from [deliver]: an upstream whose header is late gets
         504 within the limit (counted from the end of the upload); one whose header is in time is served
         normally = its status, every byte of its body, properly ended, from a request it received whole *)
      let spec := if (0 <? limit) && (limit + early <=? x_delay x)
                  then (st =? 504) && (head <=? x_upload x + limit + within_allowance limit)
                  else if (limit <=? 0) || (x_delay x + early <=? limit)
                       then (st =? x_status x) && beq body (concat (map snd (x_chunks x))) && complete && req_whole
                       else true in
      verdict same spec None true
  | CDialT _ limit c ust st elapsed =>
      match dial_at dial_attempts_of_proxy limit c ust with
      | Some (mst, mt) =>
          (* a connect that times out is not answered later than "within that time" allows: for the limits
             of this class that is less than a second attempt would take *)
          let lateness := match c with Unreachable => within_allowance (Z.max 0 limit) | Connects _ => late end in
          let same := (st =? mst) && (mt - early <=? elapsed) && (elapsed <=? mt + lateness) in
          (* spec side from the upstream itself, not from [dial_at] *)
          let is_late := (limit <? 0) || ((0 <? limit) && match c with Connects t => limit + early <=? t | Unreachable => true end) in
          let in_time := match c with Connects t => (limit =? 0) || ((0 <? limit) && (t + early <=? limit)) | Unreachable => false end in
          let spec := if is_late then (st =? 504) && (elapsed <=? Z.max 0 limit + within_allowance (Z.max 0 limit))
                      else if in_time then st =? ust else true in
          verdict same spec None true
      | None => 3%N (* no dial timeout and an unreachable upstream: the model gives no answer; not generated *)
      end
  end.
