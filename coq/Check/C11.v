(** Correspondence check for C11. *)
From Coq Require Import String List NArith Bool.
From Fabio Require Import Lib.Outcome Lib.Bytes Lib.Verdict Model.CertStore Proofs.CertStore.
Import ListNotations.
Local Open Scope N_scope.

Definition pick_eqb (a b : pick) : bool :=
  match a, b with
  | PCert i, PCert j => Nat.eqb i j
  | PNone, PNone => true
  | PErrNoCerts, PErrNoCerts => true
  | _, _ => false
  end.

(* the property's reading of "name": DNS names compare case-insensitively; brute-force
   reference that scans the set directly (no index), folding the certificate names too *)
Definition ref_pick (certs : list cert) (sn : str) (strict : bool) : pick :=
  match certs with
  | [] => PErrNoCerts
  | _ =>
    let lc := map (map lower) certs in
    let name := normalize sn in
    match last_idx lc name with
    | Some i => PCert i
    | None =>
        let labels := split_byte name 46 in
        let fix scan (ks : list nat) : option nat :=
          match ks with
          | [] => None
          | k :: r => match last_idx lc (candidate labels k) with Some i => Some i | None => scan r end
          end in
        match scan (seq 0 (length labels)) with
        | Some i => PCert i
        | None => if strict then PNone else PCert 0
        end
    end
  end.

Definition has_upper (s : str) : bool := existsb is_upper s.

Definition event_eqb (a b : event) : bool :=
  match a, b with
  | ELoad, ELoad => true | ESleep, ESleep => true
  | EPublish x, EPublish y => x =? y
  | _, _ => false
  end.

Inductive case :=
(* getCertificate on a store built from [certs] (nil_index: NameToCertificate left nil) *)
| CPick (certs : list cert) (nil_index : bool) (sn : str) (strict : bool) (impl : pick)
(* the real watch loop on a scripted loader: the observed trace *)
| CWatch (once : bool) (script : list load) (impl : list event)
(* handshakes against the real TLSConfig while sets are replaced: for one handshake, the
   two sets that were being alternated and the certificate index it was given *)
| CHandshake (setA setB : list cert) (sn : str) (strict : bool) (from_b : bool) (impl : pick).

Definition check_case (c : case) : N :=
  match c with
  | CPick certs nil_index sn strict impl =>
      let m := get_certificate certs (if nil_index then None else Some (build_index certs)) sn strict in
      let same := pick_eqb impl m in
      let shortcut := negb strict && (Nat.eqb (length certs) 1 || nil_index) in
      let spec := if shortcut then pick_eqb impl (match certs with [] => PErrNoCerts | _ => PCert 0 end)
                  else pick_eqb impl (ref_pick certs sn strict) in
      let region := None in
      let nontriv := negb shortcut && match m with PCert (S _) => true | PNone => true | _ => Nat.ltb 2 (length certs) end in
      verdict same spec region nontriv
  | CWatch once script impl =>
      let m := watch_run watch_step once None script in
      let same := list_eqb event_eqb impl m in
      let spec := no_adjacent_loads impl
                  && list_eqb N.eqb (pubs impl) (if once then firstn 1 (published None script) else published None script) in
      verdict same spec None (existsb (fun l => match l with Blocks _ None => true | _ => false end) script)
  | CHandshake a b sn strict from_b impl =>
      let ra := store_pick a sn strict in
      let rb := store_pick b sn strict in
      let ok := match impl with
                | PCert _ => if from_b then pick_eqb impl rb else pick_eqb impl ra
                | _ => pick_eqb impl ra || pick_eqb impl rb
                end in
      verdict ok ok None (negb (pick_eqb ra rb))
  end.
