(** Correspondence check for C11.
    [same] = the implementation's observables equal the model's (exact: last loaded among
    equal names, fewest stars, partial results of a failed load, the loop's trace);
    [spec] = what the property demands of the implementation's observables and no more
    ([presents_b], proved sound for [presents] in Properties/C11.v: C11_check_spec_sound;
    the set a handshake must be answered from is computed by [last_good] / the abstract
    machine, never by the model of the loop or of the index). *)
From Coq Require Import String List NArith Bool.
From Fabio Require Import Lib.Outcome Lib.Bytes Lib.Verdict Model.CertStore Proofs.CertStore Model.CertDeploy Proofs.CertDeploy.
Import ListNotations.
Local Open Scope N_scope.

(* the property's demand on one answer, given the set the handshake must be answered from *)
Definition pick_ok (certs : certset) (sn : str) (strict : bool) (impl : pick) : bool :=
  match certs with
  | [] => pick_eqb impl PErrNoCerts
  | [_] => if strict then presents_b certs sn strict impl else pick_eqb impl (PCert 0)
  | _ => presents_b certs sn strict impl
  end.
Fixpoint all2 {A B} (f : A -> B -> bool) (a : list A) (b : list B) : bool :=
  match a, b with
  | [], [] => true
  | x :: a', y :: b' => f x y && all2 f a' b'
  | _, _ => false
  end.

Definition certset_eqb : certset -> certset -> bool := list_eqb cert_eqb.
Definition event_eqb (a b : event) : bool :=
  match a, b with
  | ELoad, ELoad => true | ESleep, ESleep => true
  | EPublish x, EPublish y => certset_eqb x y
  | _, _ => false
  end.

(* the sets the handshakes of a fine schedule must be answered from: the abstract machine
   of Proofs/CertStore.v, reporting the set instead of the answer *)
Fixpoint abs_sets (st : astate) (sched : list faction) : list (certset * str * bool) :=
  match sched with
  | [] => []
  | a :: r =>
      let '(cur, pend, snaps) := st in
      match a with
      | FPick t n s => match snap_get t snaps with
                       | Some c => (c, n, s) :: abs_sets st r
                       | None => abs_sets st r
                       end
      | _ => abs_sets (fst (abs_step st a)) r
      end
  end.

(* loadCertificates, declaratively: an error iff some cert/key/combined file of the map has no
   usable pair; otherwise exactly the usable pairs, in strictly ascending order of the
   certificate file names (so the first certificate is the first by file name) *)
Definition pair_of (m : blocks) (name : str) : option (str * option cert) :=
  match classify name with Some (cf, kf) => Some (cf, key_pair m cf kf) | None => None end.
Fixpoint ascending (l : list str) : bool :=
  match l with
  | a :: ((b :: _) as r) => str_ltb a b && ascending r
  | _ => true
  end.
Definition load_spec (m : blocks) (impl : list (str * cert)) (err : bool) : bool :=
  let names := map fst m in
  let want_err := existsb (fun n => match pair_of m n with Some (_, None) => true | _ => false end) names in
  Bool.eqb err want_err &&
  (err ||
   (ascending (map fst impl)
    && forallb (fun e => existsb (fun n => match pair_of m n with
                                           | Some (cf, Some c) => beq cf (fst e) && cert_eqb c (snd e)
                                           | _ => false
                                           end) names) impl
    && forallb (fun n => match pair_of m n with
                         | Some (cf, _) => existsb (fun e => beq (fst e) cf) impl
                         | None => true
                         end) names)).
Definition file_eqb (a b : str * cert) : bool := beq (fst a) (fst b) && cert_eqb (snd a) (snd b).

Inductive case :=
(* getCertificate on a store built from [certs] (nil_index: NameToCertificate left nil) *)
| CPick (certs : list cert) (nil_index : bool) (sn : str) (strict : bool) (impl : pick)
(* the real watch loop on a history of loads, feeding the real TLSConfig (channel, updater
   goroutine, Store): the observed trace (None for a real directory behind PathSource, where
   the loads cannot be observed) and a handshake after every iteration / directory state *)
| CWatch (once : bool) (script : list load) (sn : str) (strict : bool)
         (trace : option (list event)) (picks : list pick)
(* handshakes against the real TLSConfig while sets are replaced concurrently: for one
   handshake, the two sets that were being alternated and the certificate it was given *)
| CHandshake (setA setB : list cert) (sn : str) (strict : bool) (from_b : bool) (impl : pick)
(* sets sent one after the other through the real TLSConfig, a handshake after each *)
| CFresh (sets : list certset) (sn : str) (strict : bool) (impl : list pick)
(* a schedule of SetCertificates / store load / getCertificate-on-the-loaded-value steps
   replayed on the real Store *)
| CSched (sched : list faction) (impl : list pick)
(* loadCertificates on a map (keys in the shuffled order given): the certificates returned,
   each with the file the harness made it from, and whether an error was returned *)
| CLoad (m : blocks) (impl : list (str * cert)) (impl_err : bool)
(* sets of whole certificates (names, leaf identity, identity of chain + staple) sent one
   after the other through the real TLSConfig, a handshake after each: what GetCertificate
   returned, position by leaf in the set just sent (1000: not in it) and the value's content *)
| CMaterial (sets : list fset) (sn : str) (strict : bool) (impl : list presented)
(* the listeners of a configuration (the ui listener, then the proxy listeners in order), the
   real makeTLSConfig called for each as main() does, the certificate sources by name with
   what their directories hold: for one server name, what GetCertificate of each listener's
   tls.Config answered (None: makeTLSConfig returned no tls.Config) *)
| CListeners (ls : list listener) (srcs : sources) (sn : str) (impl : list (option pick))
(* a certificate directory behind the real PathSource going through a history of states, each
   described by what Lstat and a read of every entry yield: the names of the leaf a handshake
   was given after each state *)
| CDir (states : list dirstate) (sn : str) (strict : bool) (impl : list seen)
(* one call of the real loadPath on a certificate directory described entry by entry (what
   Lstat and a read of every entry yield): the error, or the map it returned (keys relative to
   the certificate path, in ascending order) *)
| CDirLoad (d : dirstate) (impl : load)
(* a real PathSource whose configured certificate path leads through symbolic links, behind
   the real TLSConfig: a history of file trees (where the links lead at that moment, and what
   every place they have led or will lead to holds then, each described as for CDir); the
   names of the leaf a handshake was given after each tree *)
| CPath (worlds : list world) (sn : str) (strict : bool) (impl : list seen).

(* the property's demand on what a handshake is given after [set] was published: the names
   say which position(s) may answer, and the value given is the set's own at that position *)
Definition present_ok (set : fset) (sn : str) (strict : bool) (p : presented) : bool :=
  pick_ok (names_of set) sn strict (pick_of p)
  && match p with
     | RCert i c => match nth_error set i with Some d => fcert_eqb c d | None => false end
     | ROutside _ => false
     | _ => true
     end.

(* the same demand on an answer reported by the names of the leaf: some position that holds
   these names is one the property allows *)
Definition seen_ok (set : certset) (sn : str) (strict : bool) (x : seen) : bool :=
  match x with
  | SCert c => existsb (fun i => cert_eqb (nth i set []) c && pick_ok set sn strict (PCert i)) (seq 0 (length set))
  | SNone => pick_ok set sn strict PNone
  | SErrNoCerts => pick_ok set sn strict PErrNoCerts
  | SOutside _ => false
  end.
Definition is_some {A} (o : option A) : bool := match o with Some _ => true | None => false end.

Definition unusable_b (l : load) : bool := match usable l with None => true | Some _ => false end.

(* two results of a load as maps: the same keys with the same bytes behind them *)
Definition entry_eqb (x y : str * pfile) : bool := beq (fst x) (fst y) && pfile_eqb (snd x) (snd y).
Definition blocks_equiv (a b : blocks) : bool :=
  Nat.eqb (length a) (length b)
  && forallb (fun x => existsb (entry_eqb x) b) a && forallb (fun y => existsb (entry_eqb y) a) b.
Definition load_equiv (a b : load) : bool :=
  match a, b with
  | LoadErr, LoadErr => true
  | Loaded None, Loaded None => true
  | Loaded (Some x), Loaded (Some y) => blocks_equiv x y
  | _, _ => false
  end.

Definition check_case (c : case) : N :=
  match c with
  | CPick certs nil_index sn strict impl =>
      let m := get_certificate certs (if nil_index then None else Some (build_index certs)) sn strict in
      let same := pick_eqb impl m in
      let spec := if nil_index
                  then pick_eqb impl (match certs with [] => PErrNoCerts | _ => PCert 0 end)
                  else pick_ok certs sn strict impl in
      let shortcut := negb strict && (Nat.eqb (length certs) 1 || nil_index) in
      let nontriv := negb shortcut && match m with PCert (S _) => true | PNone => true | _ => Nat.ltb 2 (length certs) end in
      verdict same spec None nontriv
  | CWatch once script sn strict trace picks =>
      let mtrace := watch_run watch_step once None script in
      let mpicks := run_store [] (e2e_actions watch_step once None script sn strict) in
      let hist := if once then upto_first_good script else script in
      let same := match trace with Some tr => list_eqb event_eqb tr mtrace | None => true end
                  && list_eqb pick_eqb picks mpicks in
      let spec := match trace with
                  | Some tr => no_adjacent_loads tr && list_eqb certset_eqb (pubs tr) (published None hist)
                  | None => true
                  end
                  && all2 (fun k p => pick_ok (last_good [] (firstn (S k) hist)) sn strict p)
                          (seq 0 (length hist)) picks in
      verdict same spec None (existsb unusable_b script)
  | CHandshake a b sn strict from_b impl =>
      let ra := store_pick a sn strict in
      let rb := store_pick b sn strict in
      let same := match impl with
                  | PCert _ => if from_b then pick_eqb impl rb else pick_eqb impl ra
                  | _ => pick_eqb impl ra || pick_eqb impl rb
                  end in
      let spec := match impl with
                  | PCert _ => if from_b then pick_ok b sn strict impl else pick_ok a sn strict impl
                  | _ => pick_ok a sn strict impl || pick_ok b sn strict impl
                  end in
      verdict same spec None (negb (pick_eqb ra rb))
  | CFresh sets sn strict impl =>
      let m := run_store [] (flat_map (fun s => [APublish s; AHandshake sn strict]) sets) in
      let same := list_eqb pick_eqb impl m in
      let spec := all2 (fun s p => pick_ok s sn strict p) sets impl in
      let nontriv := match m with p :: r => existsb (fun q => negb (pick_eqb p q)) r | [] => false end in
      verdict same spec None nontriv
  | CSched sched impl =>
      let m := run_fine mk_built fstate0 sched in
      let same := list_eqb pick_eqb impl m in
      let spec := all2 (fun x p => match x with (c, n, s) => pick_ok c n s p end) (abs_sets astate0 sched) impl in
      let nontriv := match m with p :: r => existsb (fun q => negb (pick_eqb p q)) r | [] => false end in
      verdict same spec None nontriv
  | CLoad m impl impl_err =>
      let '(mf, me) := load_files m in
      let same := Bool.eqb impl_err me && list_eqb file_eqb impl mf in
      verdict same (load_spec m impl impl_err) None (Nat.ltb 1 (length mf) || me)
  | CMaterial sets sn strict impl =>
      let m := run_mstore [] (flat_map (fun s => [MPublish s; MHandshake sn strict]) sets) in
      let same := list_eqb presented_eqb impl m in
      let spec := all2 (fun s p => present_ok s sn strict p) sets impl in
      let nontriv := match m with p :: r => existsb (fun q => negb (presented_eqb p q)) r | [] => false end in
      verdict same spec None nontriv
  | CListeners ls srcs sn impl =>
      let m := listener_answers srcs ls sn in
      let same := list_eqb (opt_eqb pick_eqb) impl m in
      (* each listener by itself: no tls.Config without a certificate source; else an answer
         the property allows for the set of ITS source under ITS strictmatch *)
      let spec := all2 (fun l o => match l_cs l, o with
                                   | [], None => true
                                   | _ :: _, Some p => pick_ok (last_good [] (history_of srcs (l_cs l))) sn (l_strict l) p
                                   | _, _ => false
                                   end) ls impl in
      let nontriv := existsb (fun a => existsb (fun b => is_some a && is_some b && negb (opt_eqb pick_eqb a b)) m) m in
      verdict same spec None nontriv
  | CDir states sn strict impl =>
      let m := run_store_seen [] (e2e_actions watch_step false None (map dir_load states) sn strict) in
      let same := list_eqb seen_eqb impl m in
      let spec := all2 (fun k x => seen_ok (last_good [] (firstn (S k) (map dir_view states))) sn strict x)
                       (seq 0 (length states)) impl in
      let nontriv := match m with p :: r => existsb (fun q => negb (seen_eqb p q)) r | [] => false end in
      verdict same spec None nontriv
  | CDirLoad d impl =>
      let same := load_equiv impl (dir_load d) in
      (* what the property needs of one load: the reload loop makes of it the set - or the
         refusal - that the directory reads as (the declarative view) *)
      let spec := opt_eqb certset_eqb (usable impl) (usable (dir_view d)) in
      verdict same spec None (Nat.ltb 1 (length (filter wanted d)))
  | CPath worlds sn strict impl =>
      let m := run_store_seen [] (e2e_actions watch_step false None (map path_load worlds) sn strict) in
      let same := list_eqb seen_eqb impl m in
      (* the set a handshake must be answered from: the last tree of the prefix in which the
         place the path denoted THEN read as a usable set (declarative view).
         The property does not say whether a symbolic link that is the LAST element of the
         configured path is followed (filepath.Walk does not): that is part of the model
         ([same]), no demand is made on histories in which the path denotes such a link *)
      let last_is_link := existsb (fun w => match denoted w with
                                            | RFile _ e => match d_kind e with KSymlink => true | _ => false end
                                            | _ => false
                                            end) worlds in
      let spec := last_is_link ||
                  all2 (fun k x => seen_ok (last_good [] (firstn (S k) (map world_view worlds))) sn strict x)
                       (seq 0 (length worlds)) impl in
      let nontriv := match m with p :: r => existsb (fun q => negb (seen_eqb p q)) r | [] => false end in
      verdict same spec None nontriv
  end.
