(** Correspondence check for C17, evaluated by [vm_compute] on the cases the Go harness
    wrote: the calls a scripted inner handler made, the request's Accept / Accept-Encoding,
    the headers already on the ResponseWriter, the real regexp's and
    http.DetectContentType's answers as tables, and what the real
    gzip.NewGzipHandler left in the httptest.ResponseRecorder. *)
From Coq Require Import String List NArith Bool.
From Fabio Require Import Lib.Bytes Lib.Verdict Model.Gzip.
Import ListNotations.
Local Open Scope N_scope.

Fixpoint lookup {A} (t : list (str * A)) (k : str) : option A :=
  match t with
  | [] => None
  | (k', a) :: r => if beq k' k then Some a else lookup r k
  end.

Definition vals_eqb : list str -> list str -> bool := list_eqb beq.

Definition hdr_sub (a b : hdr) : bool :=
  forallb (fun kv => opt_eqb vals_eqb (hvals a (fst kv)) (hvals b (fst kv))) a.
Definition hdr_eqb (a b : hdr) : bool := hdr_sub a b && hdr_sub b a.

(* a == b on every key except those in [ex] *)
Definition hdr_eqb_except (ex : list str) (a b : hdr) : bool :=
  let keep := filter (fun kv : str * list str => negb (existsb (beq (fst kv)) ex)) in
  hdr_eqb (keep a) (keep b).

(* remove the first occurrence *)
Fixpoint remove_one (x : str) (l : list str) : list str :=
  match l with
  | [] => []
  | y :: r => if beq x y then r else y :: remove_one x r
  end.

Definition olist {A} (o : option (list A)) : list A := match o with Some l => l | None => [] end.

(* Vary: exactly what the upstream set, or that plus one Accept-Encoding *)
Definition vary_ok (impl up : hdr) : bool :=
  let a := olist (hvals impl H_VARY) in
  let b := olist (hvals up H_VARY) in
  vals_eqb a b || (existsb (beq H_AE) a && vals_eqb (remove_one H_AE a) b).

(* informational responses: model = impl; spec: the upstream's codes in order, each with the
   upstream's headers apart from Vary *)
Fixpoint list_eqb2 {A B} (f : A -> B -> bool) (a : list A) (b : list B) : bool :=
  match a, b with
  | [], [] => true
  | x :: a', y :: b' => f x y && list_eqb2 f a' b'
  | _, _ => false
  end.
Definition info_eqb : list (N * hdr) -> list (N * hdr) -> bool :=
  list_eqb2 (fun x y => (fst x =? fst y) && hdr_eqb (snd x) (snd y)).
Definition info_ok : list (N * hdr) -> list (N * hdr) -> bool :=
  list_eqb2 (fun x y => (fst x =? fst y) && hdr_eqb_except [H_VARY] (snd x) (snd y) && vary_ok (snd x) (snd y)).

(* Content-Type: what the upstream set, or, when it set none, what DetectContentType says
   about the first chunk written *)
Definition first_write (ops : list op) : option str :=
  match filter (fun o => match o with Write _ => true | _ => false end) ops with
  | Write b :: _ => Some b
  | _ => None
  end.

Inductive case :=
| Case (h0 : hdr) (accept ae : list str) (ops : list op)
       (ctm_tbl : list (str * bool))     (* contentTypes.MatchString on every content type of the case *)
       (sniff_tbl : list (str * str))    (* http.DetectContentType(first chunk written) *)
       (i_panic : bool) (i_code : N) (i_hdr : hdr)
       (i_info : list (N * hdr))         (* informational responses the underlying writer received *)
       (i_body : str)                    (* the recorder's body *)
       (i_gunzip : option str).          (* compress/gzip's reader on that body, None = not a gzip stream *)

Definition check_case (c : case) : N :=
  match c with
  | Case h0 accept ae ops ctm_tbl sniff_tbl i_panic i_code i_hdr i_info i_body i_gunzip =>
      let sniffT := fun b => match lookup sniff_tbl b with Some t => t | None => [0] end in
      let ctmT := fun t => match lookup ctm_tbl t with Some r => r | None => false end in
      let m := handler sniffT ctmT h0 accept ae ops in
      let up := bare sniffT h0 ops in
      (* the tables answer every question the model and the spec ask *)
      let covered :=
        match lookup ctm_tbl (hget (o_hdr m) H_CT), lookup ctm_tbl (hget i_hdr H_CT) with
        | Some _, Some _ => true | _, _ => false end
        && match first_write ops with
           | Some b => match lookup sniff_tbl b with Some _ => true | None => false end
           | None => true
           end in
      let same :=
        covered
        && Bool.eqb i_panic (o_panic m)
        && (i_code =? o_code m)
        && hdr_eqb i_hdr (o_hdr m)
        && info_eqb i_info (o_info m)
        && match o_fed m with
           | Some f => beq (o_plain m) [] && opt_eqb beq i_gunzip (Some f)
           | None => beq i_body (o_plain m)
           end in
      (* ---- the property on the implementation's own observables, against the bare run ---- *)
      let ct_ok :=
        opt_eqb vals_eqb (hvals i_hdr H_CT) (hvals (o_hdr up) H_CT)
        || match hvals (o_hdr up) H_CT, first_write ops with
           | None, Some b => opt_eqb vals_eqb (hvals i_hdr H_CT) (Some [sniffT b])
           | _, _ => false
           end in
      let identity :=
        beq i_body (written ops)
        && hdr_eqb_except [H_VARY; H_CT] i_hdr (o_hdr up)
        && vary_ok i_hdr (o_hdr up) && ct_ok in
      let compressed :=
        rfc_accepts_gzip ae
        && ctmT (hget i_hdr H_CT)
        && beq (hget (o_hdr up) H_CE) []
        && opt_eqb vals_eqb (hvals i_hdr H_CE) (Some [GZIP])
        && opt_eqb vals_eqb (hvals i_hdr H_CL) None
        && opt_eqb beq i_gunzip (Some (written ops))
        && hdr_eqb_except [H_VARY; H_CT; H_CE; H_CL] i_hdr (o_hdr up)
        && vary_ok i_hdr (o_hdr up) && ct_ok in
      let spec := negb i_panic && (i_code =? o_code up) && info_ok i_info (o_info up) && (identity || compressed) in
      let region : option N := None in   (* no known-finding region is left (F-C17-1 fixed by 7cff601 + bfb8a14) *)
      let nontrivial := match o_fed m with Some _ => true | None => negb (beq (o_plain m) []) end in
      verdict same spec region nontrivial
  end.
