(** Correspondence check for C17, evaluated by [vm_compute] on the cases the Go harness
    wrote: the calls a scripted inner handler made, the request's Accept / Accept-Encoding,
    the headers already on the ResponseWriter, the real regexp's and
    http.DetectContentType's answers as tables, and what the real
    gzip.NewGzipHandler left in the httptest.ResponseRecorder. *)
From Coq Require Import String List NArith Bool.
From Fabio Require Import Lib.Bytes Lib.Verdict Model.Gzip.
Import ListNotations.
Local Open Scope N_scope.

Fixpoint lookup {A} (t : list (str * A)) (k : str) : option A :=
  match t with
  | [] => None
  | (k', a) :: r => if beq k' k then Some a else lookup r k
  end.

Definition vals_eqb : list str -> list str -> bool := list_eqb beq.

Definition hdr_sub (a b : hdr) : bool :=
  forallb (fun kv => opt_eqb vals_eqb (hvals a (fst kv)) (hvals b (fst kv))) a.
Definition hdr_eqb (a b : hdr) : bool := hdr_sub a b && hdr_sub b a.

(* a == b on every key except those in [ex] *)
Definition hdr_eqb_except (ex : list str) (a b : hdr) : bool :=
  let keep := filter (fun kv : str * list str => negb (existsb (beq (fst kv)) ex)) in
  hdr_eqb (keep a) (keep b).

(* remove the first occurrence *)
Fixpoint remove_one (x : str) (l : list str) : list str :=
  match l with
  | [] => []
  | y :: r => if beq x y then r else y :: remove_one x r
  end.

Definition olist {A} (o : option (list A)) : list A := match o with Some l => l | None => [] end.

(* Vary: exactly what the upstream set, or that plus one Accept-Encoding *)
Definition vary_ok (impl up : hdr) : bool :=
  let a := olist (hvals impl H_VARY) in
  let b := olist (hvals up H_VARY) in
  vals_eqb a b || (existsb (beq H_AE) a && vals_eqb (remove_one H_AE a) b).

(* informational responses: model = impl; spec: the upstream's codes in order, each with the
   upstream's headers apart from Vary *)
Fixpoint list_eqb2 {A B} (f : A -> B -> bool) (a : list A) (b : list B) : bool :=
  match a, b with
  | [], [] => true
  | x :: a', y :: b' => f x y && list_eqb2 f a' b'
  | _, _ => false
  end.
Definition info_eqb : list (N * hdr) -> list (N * hdr) -> bool :=
  list_eqb2 (fun x y => (fst x =? fst y) && hdr_eqb (snd x) (snd y)).
Definition info_ok : list (N * hdr) -> list (N * hdr) -> bool :=
  list_eqb2 (fun x y => (fst x =? fst y) && hdr_eqb_except [H_VARY] (snd x) (snd y) && vary_ok (snd x) (snd y)).

(* Content-Type: what the upstream set, or, when it set none, what DetectContentType says
   about the first chunk written *)
Definition first_write (ops : list op) : option str :=
  match filter (fun o => match o with Write _ => true | _ => false end) ops with
  | Write b :: _ => Some b
  | _ => None
  end.

Inductive case :=
| Case (h0 : hdr) (accept ae : list str) (ops : list op)
       (abort : bool)                    (* the inner handler ends with panic(http.ErrAbortHandler) after [ops] *)
       (ctm_tbl : list (str * bool))     (* contentTypes.MatchString on every content type of the case *)
       (sniff_tbl : list (str * str))    (* http.DetectContentType on the first chunk written and on the whole body *)
       (i_panic : bool)                  (* a panic that is not the inner handler's own *)
       (i_propagated : bool)             (* the inner handler's panic came out of ServeHTTP *)
       (i_code : N) (i_hdr : hdr)        (* final status and headers, after the underlying writer's (net/http's) sniffing *)
       (i_info : list (N * hdr))         (* informational responses the underlying writer received *)
       (i_body : str)                    (* the body the underlying writer received *)
       (i_gunzip : option str).          (* compress/gzip's reader on that body, None = not a gzip stream *)

Definition check_case (c : case) : N :=
  match c with
  | Case h0 accept ae ops abort ctm_tbl sniff_tbl i_panic i_propagated i_code i_hdr i_info i_body i_gunzip =>
      let sniffT := fun b => match lookup sniff_tbl b with Some t => t | None => [0] end in
      let ctmT := fun t => match lookup ctm_tbl t with Some r => r | None => false end in
      let sv := serve sniffT ctmT h0 accept ae ops abort in
      let m := s_res sv in
      let up := bare sniffT h0 ops in
      let in_tbl := fun b => match lookup sniff_tbl b with Some _ => true | None => false end in
      (* the tables answer every question the model and the spec ask; the codes are in the modelled domain *)
      let covered :=
        valid_codes ops
        && match lookup ctm_tbl (hget (o_hdr m) H_CT), lookup ctm_tbl (hget i_hdr H_CT) with
           | Some _, Some _ => true | _, _ => false end
        && match first_write ops with Some b => in_tbl b | None => true end
        && (beq (written ops) [] || in_tbl (written ops)) in
      let same :=
        covered
        && Bool.eqb i_panic (o_panic m)
        && Bool.eqb i_propagated (s_propagated sv)
        && (i_code =? o_code m)
        && hdr_eqb i_hdr (o_hdr m)
        && info_eqb i_info (o_info m)
        && match o_fed m with
           | Some f => beq (o_plain m) [] && opt_eqb beq i_gunzip (Some f)
           | None => beq i_body (o_plain m)
           end in
      (* ---- the property on the implementation's own observables, against the bare run ----
         [up] = the same calls on the underlying writer alone: what net/http delivers for the upstream *)
      let ct_up := hvals (o_hdr up) H_CT in
      let ct_impl := hvals i_hdr H_CT in
      (* identity: every header is the upstream's, Vary apart (one Accept-Encoding more) *)
      let identity :=
        beq i_body (written ops)
        && hdr_eqb_except [H_VARY] i_hdr (o_hdr up)
        && vary_ok i_hdr (o_hdr up) in
      (* compressed: Content-Type is the upstream's; or, where the upstream set none (so that [up] has none
         or the server's own sniffed one), the handler's sniffed one or none *)
      let up_ct_unset :=
        match ct_up with
        | None => true
        | Some vs => negb (beq (written ops) []) && vals_eqb vs [sniffT (written ops)]
        end in
      let ct_ok_gz :=
        opt_eqb vals_eqb ct_impl ct_up
        || (up_ct_unset
            && match ct_impl, first_write ops with
               | None, _ => true
               | Some vs, Some b => vals_eqb vs [sniffT b]
               | _, _ => false
               end) in
      let compressed :=
        rfc_accepts_gzip ae
        && ctmT (hget i_hdr H_CT)
        && not_encoded (o_hdr up)
        && opt_eqb vals_eqb (hvals i_hdr H_CE) (Some [GZIP])
        && opt_eqb vals_eqb (hvals i_hdr H_CL) None
        && opt_eqb beq i_gunzip (Some (written ops))
        && hdr_eqb_except [H_VARY; H_CT; H_CE; H_CL] i_hdr (o_hdr up)
        && vary_ok i_hdr (o_hdr up) && ct_ok_gz in
      let spec := negb i_panic && Bool.eqb i_propagated abort && (i_code =? o_code up)
                  && info_ok i_info (o_info up) && (identity || compressed) in
      (* known-finding regions: predicates on the input (Model/Gzip.v) *)
      let region : option N :=
        if q0_ext_region ae && negb (rfc_accepts_gzip ae) then Some 1
        else if accepts_gzip accept ae && ce_hidden (ce_values (o_hdr up)) then Some 3
        else if sniff_region h0 accept ae ops then Some 2
        else None in
      let nontrivial := match o_fed m with Some _ => true | None => negb (beq (o_plain m) []) end in
      verdict same spec region nontrivial
  end.
