(** Correspondence check for C13 (redirect routes). *)
From Coq Require Import String List NArith ZArith Bool.
From Fabio Require Import Lib.Outcome Lib.Bytes Lib.Verdict Model.Redirect Model.RedirectSpec.
Import ListNotations.
Local Open Scope N_scope.

(* the fields of RedirectURL that are observable: Scheme/Host/Path decide the self-redirect
   test of Table.Lookup; RawPath and RawQuery only matter through String(), which is compared
   as a whole (so a repair that fills RawPath differently is not a disagreement) *)
Definition url_eqb (a b : url) : bool :=
  beq (u_scheme a) (u_scheme b) && beq (u_host a) (u_host b) && beq (u_path a) (u_path b).

Definition response_eqb (a b : response) : bool :=
  match a, b with
  | RNoRoute, RNoRoute => true
  | RRedirect c l, RRedirect c' l' => (c =? c')%Z && beq l l'
  | RBadCode c, RBadCode c' => (c =? c')%Z
  | RProxy i, RProxy j => Nat.eqb i j
  | _, _ => false
  end.

(* Locations compared up to percent-decoding: who answers, with which status, pointing where.
   The exact text of a Location is judged by the CBuild cases (and finding F-C13-1). *)
Definition loc_equiv (a b : str) : bool :=
  match unescape_path a, unescape_path b with
  | Some x, Some y => beq x y
  | _, _ => beq a b
  end.
Definition response_equiv (a b : response) : bool :=
  match a, b with
  | RRedirect c l, RRedirect c' l' => (c =? c')%Z && loc_equiv l l'
  | _, _ => response_eqb a b
  end.
(* a redirect candidate of the host-adjacent form (finding F-C13-1 lives there: a repair changes
   the text of its Locations, so there the text is compared up to decoding) *)
Definition any_adjacent (ts : list target) : bool :=
  existsb (fun t => negb (t_code t =? 0)%Z && adjacent t) ts.
Definition response_same (adj : bool) (impl m : response) : bool :=
  response_eqb impl m || (adj && response_equiv impl m).

Definition opt_pair_eqb (a b : option (str * str)) : bool :=
  match a, b with
  | Some (x, y), Some (x', y') => beq x x' && beq y y'
  | None, None => true
  | _, _ => false
  end.

Inductive case :=
(* Target.BuildRedirectURL(req.URL) then RedirectURL.String() on the real code.
   [wire]: the path as written on the request line; [q]'s Path/RawPath are what
   url.ParseRequestURI made of it (checked against [set_path]). *)
| CBuild (t : target) (wire : str) (q : request) (impl : url) (impl_str : str)
(* opts "redirect=<opt>" through route.NewTable: the target's RedirectCode *)
| CCode (opt : str) (impl : Z)
(* HTTPProxy.ServeHTTP over the real Table.Lookup: [cands] = the targets Table.lookup
   yields per host in visiting order; observables: response and upstream hit count *)
| CServe (cands : list (option target)) (q : request) (impl : response) (hits : nat)
(* two requests for the same redirect target, forced schedule Lookup A, Lookup B,
   serve A, serve B on the real HTTPProxy *)
| CSched (t : target) (qa qb : request) (la lb : response)
(* a HISTORY of requests served one after the other by one HTTPProxy over ONE table object
   (so the same *route.Target answers several requests): per request the candidates of
   Table.lookup in visiting order, the response and the upstream hit count *)
| CHistory (steps : list (request * list (option target) * response * nat))
(* Target.BuildRedirectURL called repeatedly on ONE target object: RedirectURL.String() after each call *)
| CBuildHistory (t : target) (steps : list (request * str)).

(* the model run of a serial history: the shared RedirectURL fields are threaded through *)
Fixpoint history_model (st : store) (steps : list (request * list (option target) * response * nat)) : list response :=
  match steps with
  | [] => []
  | (q, cands, _, _) :: r => let '(resp, st') := handle q cands st in resp :: history_model st' r
  end.
Fixpoint list_all2 {A B} (f : A -> B -> bool) (a : list A) (b : list B) : bool :=
  match a, b with
  | [], [] => true
  | x :: a', y :: b' => f x y && list_all2 f a' b'
  | _, _ => false
  end.

Definition check_case (c : case) : N :=
  match c with
  | CBuild t wire q impl impl_str =>
      let m := build_redirect_url t q in
      let same := url_eqb impl m && beq impl_str (url_string m)
                  && opt_pair_eqb (set_path wire) (Some (q_path q, q_rawpath q)) in
      let dom := tmpl_dom t && req_dom t wire q in
      (* on the domain of C13_location_spec: the exact text; for a documented template and a
         request outside [req_dom] (raw non-ASCII bytes, ! ' ( ) * [ ] , a host that needs
         escaping): the same URL up to percent-decoding *)
      let weak_dom := tmpl_dom t && Bool.eqb (has_prefix (q_path q) (t_strip t)) (has_prefix wire (t_strip t)) in
      let spec := if dom then beq impl_str (expected_location t wire q)
                  else if weak_dom then loc_equiv impl_str (expected_location t wire q) else true in
      let region := if adjacent t then Some 1 else None in
      let nontriv := dom && match path_pat t with Some _ => true | None => false end in
      verdict same spec region nontriv
  | CCode opt impl =>
      let same := (impl =? redirect_code opt)%Z in
      let three := match opt with [51; a; b] => is_digit a && is_digit b | _ => false end in
      let spec := ((impl =? 0)%Z || code_ok impl)
                  && (if three then (impl =? digits_val 0%Z opt)%Z else true) in
      verdict same spec None (negb (impl =? 0)%Z)
  | CServe cands q impl hits =>
      let m := fst (handle q cands []) in
      let same := response_same (any_adjacent (somes cands)) impl m && Nat.eqb hits (upstream_calls m) in
      let spec := response_equiv impl (ref_response q cands)
                  && Nat.eqb hits (match impl with RProxy _ => 1 | _ => 0 end)
                  && match impl with RRedirect c _ => code_ok c | RBadCode _ => false | _ => true end in
      let region := if any_adjacent (somes cands) then Some 1 else None in
      let nontriv := match m with RRedirect _ _ => true | _ => Nat.ltb 1 (length cands) end in
      verdict same spec region nontriv
  | CSched t qa qb la lb =>
      let reqs := [(qa, [Some t]); (qb, [Some t])] in
      let w := run_sched reqs [ALookup 0; ALookup 1; AServe 0; AServe 1] world0 in
      let same := match w_out w with
                  | [(1%nat, mb); (0%nat, ma)] => response_same (adjacent t) la ma && response_same (adjacent t) lb mb
                  | _ => false
                  end in
      let own_a := fst (handle qa [Some t] []) in
      let own_b := fst (handle qb [Some t] []) in
      let spec := response_equiv la own_a && response_equiv lb own_b in
      let region := if negb (response_equiv own_a own_b) then Some 5 else None in
      verdict same spec region (negb (response_equiv own_a own_b))
  | CHistory steps =>
      let impls := map (fun s => match s with (_, _, resp, _) => resp end) steps in
      let adj := existsb (fun s => match s with (_, cands, _, _) => any_adjacent (somes cands) end) steps in
      let hits_ok := forallb (fun s => match s with (_, _, resp, h) => Nat.eqb h (upstream_calls resp) end) steps in
      let same := list_all2 (response_same adj) impls (history_model [] steps) && hits_ok in
      (* C13_answer_from_request_alone / C13_serial_schedule_own: in a serial history every
         answer is the one the request gets when it is handled on fresh targets, and that one is
         the reference answer [ref_response] (C13_self_redirect_skipped) *)
      let owns := map (fun s => match s with (q, cands, _, _) => ref_response q cands end) steps in
      let spec := list_all2 response_equiv impls owns && hits_ok in
      let region := if adj then Some 1 else None in
      verdict same spec region (Nat.ltb 1 (length steps))
  | CBuildHistory t steps =>
      let ok := forallb (fun s => match s with (q, impl_str) => beq impl_str (url_string (build_redirect_url t q)) end) steps in
      verdict ok ok None (Nat.ltb 1 (length steps))
  end.
