(** Correspondence check for C13 (redirect routes). *)
From Coq Require Import String List NArith ZArith Bool.
From Fabio Require Import Lib.Outcome Lib.Bytes Lib.Verdict Model.Redirect Model.RedirectSpec.
Import ListNotations.
Local Open Scope N_scope.

Definition url_eqb (a b : url) : bool :=
  beq (u_scheme a) (u_scheme b) && beq (u_host a) (u_host b) && beq (u_path a) (u_path b)
  && beq (u_rawpath a) (u_rawpath b) && beq (u_query a) (u_query b).

Definition response_eqb (a b : response) : bool :=
  match a, b with
  | RNoRoute, RNoRoute => true
  | RRedirect c l, RRedirect c' l' => (c =? c')%Z && beq l l'
  | RBadCode c, RBadCode c' => (c =? c')%Z
  | RProxy i, RProxy j => Nat.eqb i j
  | _, _ => false
  end.

(* the same URL up to percent-decoding (only used for requests outside [req_dom]) *)
Definition loc_equiv (a b : str) : bool :=
  match unescape_path a, unescape_path b with
  | Some x, Some y => beq x y
  | _, _ => beq a b
  end.

Definition opt_pair_eqb (a b : option (str * str)) : bool :=
  match a, b with
  | Some (x, y), Some (x', y') => beq x x' && beq y y'
  | None, None => true
  | _, _ => false
  end.

Inductive case :=
(* Target.BuildRedirectURL(req.URL) then RedirectURL.String() on the real code.
   [wire]: the path as written on the request line; [q]'s Path/RawPath are what
   url.ParseRequestURI made of it (checked against [set_path]). *)
| CBuild (t : target) (wire : str) (q : request) (impl : url) (impl_str : str)
(* opts "redirect=<opt>" through route.NewTable: the target's RedirectCode *)
| CCode (opt : str) (impl : Z)
(* HTTPProxy.ServeHTTP over the real Table.Lookup: [cands] = the targets Table.lookup
   yields per host in visiting order; observables: response and upstream hit count *)
| CServe (cands : list (option target)) (q : request) (impl : response) (hits : nat)
(* two requests for the same redirect target, forced schedule Lookup A, Lookup B,
   serve A, serve B on the real HTTPProxy *)
| CSched (t : target) (qa qb : request) (la lb : response)
(* a request with its header fields sent over a socket to a real http.Server running
   HTTPProxy.ServeHTTP; [hits] = calls of the upstream RoundTripper, [contacts] = connections
   accepted by the listener that stands behind the redirect template's host:port *)
| CServeH (hs : headers) (cands : list (option target)) (host path rawpath query : str) (tls : bool)
          (impl : response) (hits contacts : nat)
(* a HISTORY of requests served one after the other by one HTTPProxy over ONE table object
   (so the same *route.Target answers several requests): per request the candidates of
   Table.lookup in visiting order, the response and the upstream hit count *)
| CHistory (steps : list (request * list (option target) * response * nat))
(* Target.BuildRedirectURL called repeatedly on ONE target object: RedirectURL.String() after each call *)
| CBuildHistory (t : target) (steps : list (request * str)).

Fixpoint list_all2 {A B} (f : A -> B -> bool) (a : list A) (b : list B) : bool :=
  match a, b with
  | [], [] => true
  | x :: a', y :: b' => f x y && list_all2 f a' b'
  | _, _ => false
  end.

(* no finding region is left: every finding of C13 has been repaired in /repo (see
   known_findings/C13.json), so every disagreement and every spec failure is a violation *)
Definition check_case (c : case) : N :=
  match c with
  | CBuild t wire q impl impl_str =>
      let m := build_redirect_url t q in
      let same := url_eqb impl m && beq impl_str (url_string m)
                  && opt_pair_eqb (set_path wire) (Some (q_path q, q_rawpath q)) in
      let dom := tmpl_dom t && req_dom t wire q in
      (* on the domain of C13_location_spec: the exact text; for a documented template and a
         request outside [req_dom] (raw non-ASCII bytes, ! ' ( ) * [ ] , a host that needs
         escaping): the same URL up to percent-decoding *)
      let weak_dom := tmpl_dom t && Bool.eqb (has_prefix (q_path q) (t_strip t)) (has_prefix wire (t_strip t)) in
      let spec := if dom then beq impl_str (expected_location t wire q)
                  else if weak_dom then loc_equiv impl_str (expected_location t wire q) else true in
      let nontriv := dom && match path_pat t with Some _ => true | None => false end in
      verdict same spec None nontriv
  | CCode opt impl =>
      let same := (impl =? redirect_code opt)%Z in
      let three := match opt with [51; a; b] => is_digit a && is_digit b | _ => false end in
      let spec := ((impl =? 0)%Z || code_ok impl)
                  && (if three then (impl =? digits_val 0%Z opt)%Z else true) in
      verdict same spec None (negb (impl =? 0)%Z)
  | CServe cands q impl hits =>
      let m := handle q cands in
      let same := response_eqb impl m && Nat.eqb hits (upstream_calls m) in
      let spec := response_eqb impl (ref_response q cands)
                  && Nat.eqb hits (match impl with RProxy _ => 1 | _ => 0 end)
                  && match impl with RRedirect c _ => code_ok c | RBadCode _ => false | _ => true end in
      let nontriv := match m with RRedirect _ _ => true | _ => Nat.ltb 1 (length cands) end in
      verdict same spec None nontriv
  | CServeH hs cands host path rawpath query tls impl hits contacts =>
      let m := handle_full hs host path rawpath query tls cands in
      let same := response_eqb impl m && Nat.eqb (hits + contacts) (upstream_calls m) in
      (* "no upstream is contacted" as an observed fact: neither the transport nor the listener
         behind the template's host saw anything unless the answer is a proxied one *)
      let spec := response_eqb impl (ref_response (request_of hs host path rawpath query tls) cands)
                  && match impl with RProxy _ => true | _ => Nat.eqb (hits + contacts) 0 end
                  && match impl with RRedirect c _ => code_ok c | RBadCode _ => false | _ => true end in
      verdict same spec None (match m with RRedirect _ _ => negb (is_nil hs) | _ => false end)
  | CSched t qa qb la lb =>
      let reqs := [(qa, [Some t]); (qb, [Some t])] in
      let w := run_sched reqs [ALookup 0; ALookup 1; AServe 0; AServe 1] world0 in
      let same := match w_out w with
                  | [(1%nat, mb); (0%nat, ma)] => response_eqb la ma && response_eqb lb mb
                  | _ => false
                  end in
      (* C13_every_schedule_own: each request receives its own answer *)
      let own_a := ref_response qa [Some t] in
      let own_b := ref_response qb [Some t] in
      let spec := response_eqb la own_a && response_eqb lb own_b in
      verdict same spec None (negb (response_eqb own_a own_b))
  | CHistory steps =>
      let impls := map (fun s => match s with (_, _, resp, _) => resp end) steps in
      let hits_ok := forallb (fun s => match s with (_, _, resp, h) => Nat.eqb h (upstream_calls resp) end) steps in
      let model := map (fun s => match s with (q, cands, _, _) => handle q cands end) steps in
      let same := list_all2 response_eqb impls model && hits_ok in
      (* every answer of a history is the reference answer of its own request *)
      let owns := map (fun s => match s with (q, cands, _, _) => ref_response q cands end) steps in
      let spec := list_all2 response_eqb impls owns && hits_ok in
      verdict same spec None (Nat.ltb 1 (length steps))
  | CBuildHistory t steps =>
      let ok := forallb (fun s => match s with (q, impl_str) => beq impl_str (url_string (build_redirect_url t q)) end) steps in
      verdict ok ok None (Nat.ltb 1 (length steps))
  end.
